import GeffModel.MockEdges
import Gen.MockEdges
/-! # Model of `geff.testing.data` (C20) — everything except the edge loops

`createDummyInMemGeff` mirrors `create_dummy_in_mem_geff` statement by statement; the edge list is
**not** modelled by hand: it is `Gen.MockEdges.gen`, the function translator T9 regenerates from
the source on every run.  `createMockGeff` and the four convenience wrappers mirror the forwarding
functions.  Core Lean only (compiled into `drv_C20`).

Conventions
* dtypes are numpy dtype *names* (`np.dtype(s).name`, every unicode width collapsed to `"str"`);
  `npName` maps the `DTypeStr`/`NodeIdDTypeStr` literals (`"double"`, `"int"`, `"uint"`) to them.
* values are not computed when they are floats: `Values.linspace a b n` stands for
  `np.linspace(a, b, n, dtype=…)` (numpy: modelled, not verified — the harness evaluates it with the
  installed numpy); integer and string patterns are computed exactly.
* a Python `dict` is an association list in insertion order with unique keys (`dictSet`).
* `raise ValueError` is `Outcome.valueError`; the one foreign exception that the code can produce
  for accepted parameters (`include_varlength` on an empty node set: `create_props_metadata` indexes
  `values[0]`, defect D15, owned by C01) is `Outcome.other "IndexError"`, controlled by the parameter
  `emptyVlenOk` that the harness *measures* on the tree under test.
* not modelled: numeric overflow of `np.arange(n, dtype=int8)` etc. (n ≤ 127 assumed), string axis
  dtypes (rejected by `values.min()`), `float16` explicit arrays (upcast + warning).
-/
namespace Geff.MockData

inductive Outcome (α : Type) where
  | ok (v : α)
  | valueError
  | other (name : String)
deriving Repr, DecidableEq

instance : Monad Outcome where
  pure := .ok
  bind x f := match x with
    | .ok v => f v
    | .valueError => .valueError
    | .other n => .other n

/-- `get_args(DTypeStr)` -/
def dtypeStrs : List String :=
  ["double", "int", "int8", "uint8", "int16", "uint16", "float32", "float64", "str"]

/-- the literals for which the generators use `np.arange` -/
def intStrs : List String := ["int", "int8", "uint8", "int16", "uint16"]

/-- `np.dtype(s).name` for the literals the generators accept -/
def npName : String → String
  | "double" => "float64"
  | "int" => "int64"
  | "uint" => "uint64"
  | s => s

inductive Values where
  | ints (l : List Int)                      -- Python ints, then cast to the property's dtype
  | strs (l : List String)
  | linspace (a b : String) (n : Nat)        -- np.linspace(a, b, n, dtype)
  | given (tag : Nat)                        -- the caller's own array object, passed through
  | cubes (n : Nat)                          -- var-length: element i = np.ones((i,i,i), uint64) * i
deriving Repr, DecidableEq

structure PropOut where
  dtype : String
  len : Nat
  varlength : Bool
  missing : Option (List Bool)
  values : Values
deriving Repr, DecidableEq

structure MetaOut where
  dtype : String
  varlength : Bool
  unit : Option String
deriving Repr, DecidableEq

structure AxisOut where
  name : String
  type : String
  unit : String
  hasMinMax : Bool          -- `min`/`max` are set iff num_nodes > 0
deriving Repr, DecidableEq

abbrev Dict (β : Type) := List (String × β)

/-- `d[k] = v` -/
def dictSet {β : Type} (d : Dict β) (k : String) (v : β) : Dict β :=
  if d.any (fun kv => kv.1 == k) then d.map (fun kv => if kv.1 == k then (k, v) else kv)
  else d ++ [(k, v)]

def dictKeys {β : Type} (d : Dict β) : List String := d.map (·.1)
def dictGet? {β : Type} (d : Dict β) (k : String) : Option β := (d.find? (fun kv => kv.1 == k)).map (·.2)

/-- `InMemoryGeff` as far as the property speaks about it -/
structure Geff where
  numNodes : Nat                       -- node ids are `np.arange(numNodes, dtype=idDtype)`
  idDtype : String
  edges : List (Int × Int)
  directed : Bool
  axes : List AxisOut
  nodeProps : Dict PropOut
  edgeProps : Dict PropOut
  nodeMeta : Dict MetaOut              -- metadata.node_props_metadata
  edgeMeta : Dict MetaOut
deriving Repr, DecidableEq

/-- one value of an `extra_*_props` mapping -/
inductive Req where
  | auto (dtype : String)                       -- a dtype string
  | arr (dtype : String) (len : Nat) (tag : Nat) -- a numpy array (dtype name, `len(a)`, identity)
  | bad                                          -- anything else
deriving Repr, DecidableEq

/-- the `extra_*_props` argument; a key is `none` when it is not a `str` -/
inductive Extra where
  | none
  | notDict
  | dict (items : List (Option String × Req))
deriving Repr, DecidableEq

structure Params where
  idDtype : String
  timeDtype : String
  posDtype : String
  directed : Bool
  numNodes : Nat := 5
  numEdges : Nat := 4
  extraNode : Extra := .none
  extraEdge : Extra := .none
  t : Bool := true
  z : Bool := true
  y : Bool := true
  x : Bool := true
  vl : Bool := false
  ms : Bool := false
deriving Repr, DecidableEq

/-- `[(i * 5 // num_nodes) + 1 for i in range(num_nodes)]` (the divisor is positive inside the loop) -/
def tValues (n : Nat) : List Int := (List.range n).map (fun (i : Nat) => ((i : Int) * 5) / (n : Int) + 1)

/-- auto-generated values for a dtype string -/
def autoValues (name dtype : String) (len : Nat) : Values :=
  if dtype == "str" then .strs ((List.range len).map (fun i => name ++ "_" ++ toString i))
  else if intStrs.contains dtype then .ints ((List.range len).map (fun (i : Nat) => (i : Int)))
  else .linspace "0.1" "1.0" len

/-- state threaded through the body of `create_dummy_in_mem_geff` -/
structure Acc where
  props : Dict PropOut := []
  metas : List (String × MetaOut) := []     -- the *list* `node_prop_meta` (duplicates possible)
deriving Repr

/-- a property together with its metadata entry -/
abbrev Triple := String × PropOut × MetaOut

/-- `props[name] = prop; prop_meta.append(meta)` -/
def Acc.push (a : Acc) (t : Triple) : Acc :=
  { props := dictSet a.props t.1 t.2.1, metas := a.metas ++ [(t.1, t.2.2)] }

def axisTriple (n : Nat) (name unit dtype : String) (values : Values) : Triple :=
  (name, { dtype := npName dtype, len := n, varlength := false, missing := none, values := values },
         { dtype := npName dtype, varlength := false, unit := some unit })

/-- `_add_axis` + `node_prop_meta.append(meta)` -/
def addAxis (n : Nat) (a : Acc × List AxisOut) (name type unit dtype : String) (values : Values) :
    Acc × List AxisOut :=
  (a.1.push (axisTriple n name unit dtype values),
   a.2 ++ [{ name := name, type := type, unit := unit, hasMinMax := decide (n > 0) }])

/-- the body of the `for prop_name, prop_value in extra_*_props.items()` loops up to the insertion:
validation and generation of one property (after the repair both loops append the metadata for
generated **and** caller-supplied arrays) -/
def stepOut (len : Nat) (item : Option String × Req) : Outcome Triple :=
  match item.1 with
  | none => .valueError                                  -- key is not a string
  | some k =>
    match item.2 with
    | .auto d =>
      if dtypeStrs.contains d then
        .ok (k, { dtype := npName d, len := len, varlength := false, missing := none, values := autoValues k d len },
                { dtype := npName d, varlength := false, unit := none })
      else .valueError                                   -- dtype not supported
    | .arr d l tag =>
      if l = len then
        .ok (k, { dtype := d, len := l, varlength := false, missing := none, values := .given tag },
                { dtype := d, varlength := false, unit := none })
      else .valueError                                   -- array length mismatch
    | .bad => .valueError

def extraStep (len : Nat) (a : Acc) (item : Option String × Req) : Outcome Acc :=
  match stepOut len item with
  | .ok t => .ok (a.push t)
  | .valueError => .valueError
  | .other n => .other n

def extraLoop (len : Nat) : Acc → List (Option String × Req) → Outcome Acc
  | a, [] => .ok a
  | a, it :: rest => match extraStep len a it with
    | .ok a' => extraLoop len a' rest
    | .valueError => .valueError
    | .other n => .other n

def extras (len : Nat) (a : Acc) : Extra → Outcome Acc
  | .none => .ok a
  | .notDict => .valueError
  | .dict items => extraLoop len a items

/-- `missing[::2] = 1` -/
def everyOther (n : Nat) : List Bool := (List.range n).map (fun i => i % 2 == 0)

/-- `missing[0] = 1` -/
def firstOnly (n : Nat) : List Bool := (List.range n).map (fun i => i == 0)

/-- `add_or_update_props_metadata` on a fresh metadata object: a dict keyed by identifier -/
def metaDict (l : List (String × MetaOut)) : Dict MetaOut := l.foldl (fun d kv => dictSet d kv.1 kv.2) []

def castEdges (r : Except String (List (Int × Int))) : Outcome (List (Int × Int)) :=
  match r with
  | .ok es => .ok es
  | .error e => .other e

/-- the four `if include_*: meta = _add_axis(...)` blocks -/
def axesAcc (p : Params) : Acc × List AxisOut :=
  let n := p.numNodes
  let a0 : Acc × List AxisOut := ({}, [])
  let a1 := if p.t then addAxis n a0 "t" "time" "second" p.timeDtype (.ints (tValues n)) else a0
  let a2 := if p.z then addAxis n a1 "z" "space" "nanometer" p.posDtype (.linspace "0.5" "0.1" n) else a1
  let a3 := if p.y then addAxis n a2 "y" "space" "nanometer" p.posDtype (.linspace "100.0" "500.0" n) else a2
  if p.x then addAxis n a3 "x" "space" "nanometer" p.posDtype (.linspace "1.0" "0.1" n) else a3

def varLengthProp (n : Nat) : PropOut :=
  { dtype := "object", len := n, varlength := true, missing := some (firstOnly n), values := .cubes n }

def sparseProp (k : Nat) : PropOut :=
  { dtype := "float64", len := k, varlength := false, missing := some (everyOther k),
    values := .ints ((List.range k).map (fun (i : Nat) => (i : Int))) }

def sparseMeta : MetaOut := { dtype := "float64", varlength := false, unit := none }

/-- metadata via `create_props_metadata`: the dtype of the first element (`uint64`); on an empty
object array the D15 repair records `int64` (the unrepaired function raises, see
`createDummyInMemGeff`) -/
def varLengthTriple (n : Nat) : Triple :=
  ("var_length", varLengthProp n,
   { dtype := if n = 0 then "int64" else "uint64", varlength := true, unit := none })

def sparseTriple (k : Nat) : Triple := ("sparse_prop", sparseProp k, sparseMeta)

/-- `if include_varlength: …` (node side only) -/
def withVarLength (vl : Bool) (n : Nat) (a : Acc) : Acc :=
  if vl then a.push (varLengthTriple n) else a

/-- `if include_missing: …` (one property of length `k` on this side) -/
def withSparse (ms : Bool) (k : Nat) (a : Acc) : Acc :=
  if ms then a.push (sparseTriple k) else a

/-- the returned dict -/
def assemble (p : Params) (edges : List (Int × Int)) (axes : List AxisOut) (nodeAcc edgeAcc : Acc) : Geff :=
  { numNodes := p.numNodes, idDtype := npName p.idDtype, edges := edges, directed := p.directed,
    axes := axes, nodeProps := nodeAcc.props, edgeProps := edgeAcc.props,
    nodeMeta := metaDict nodeAcc.metas, edgeMeta := metaDict edgeAcc.metas }

/-- `create_dummy_in_mem_geff`.  `emptyVlenOk` = the tree under test has defect D15 repaired
(`create_props_metadata` accepts an empty object array); the harness measures it. -/
def createDummyInMemGeff (emptyVlenOk : Bool) (p : Params) : Outcome Geff :=
  let n := p.numNodes
  let ax := axesAcc p
  -- the edge loops: translated from the source (T9)
  match castEdges (Gen.MockEdges.gen p.directed (n : Int) (p.numEdges : Int)) with
  | .valueError => .valueError
  | .other e => .other e
  | .ok edges =>
    match extras n ax.1 p.extraNode with
    | .valueError => .valueError
    | .other e => .other e
    | .ok nodeAcc =>
      match extras edges.length {} p.extraEdge with
      | .valueError => .valueError
      | .other e => .other e
      | .ok edgeAcc =>
        -- `create_props_metadata(prop_name, prop_dict)` of the var-length property: `values[0]`
        if p.vl && n == 0 && !emptyVlenOk then .other "IndexError" else
        .ok (assemble p edges ax.2 (withSparse p.ms n (withVarLength p.vl n nodeAcc))
                                   (withSparse p.ms edges.length edgeAcc))

/-- what `write_arrays(store, **memory_geff)` is handed; the store *denotes* this value when the
write path is faithful (property C01) -/
structure Written where
  geff : Geff
deriving Repr, DecidableEq

/-- `write_arrays` as far as this property needs it: the store is written from exactly this geff
(that writing and reading back is then the identity is property C01) -/
def writeArrays (g : Geff) : Outcome Written := .ok ⟨g⟩

/-- `create_mock_geff`: forwards **every** parameter, writes into a fresh `MemoryStore` -/
def createMockGeff (emptyVlenOk : Bool) (p : Params) : Outcome (Written × Geff) :=
  match createDummyInMemGeff emptyVlenOk
    { idDtype := p.idDtype, timeDtype := p.timeDtype, posDtype := p.posDtype, directed := p.directed,
      numNodes := p.numNodes, numEdges := p.numEdges, extraNode := p.extraNode, extraEdge := p.extraEdge,
      t := p.t, z := p.z, y := p.y, x := p.x, vl := p.vl, ms := p.ms } with
  | .valueError => .valueError
  | .other e => .other e
  | .ok g =>
    match writeArrays g with
    | .valueError => .valueError
    | .other e => .other e
    | .ok w => .ok (w, g)

def simpleEdgeProps : Extra := .dict [(some "score", .auto "float64"), (some "color", .auto "int")]

def simpleParams (n m : Nat) (directed z y x : Bool) : Params :=
  { idDtype := "uint", timeDtype := "float64", posDtype := "float64", directed := directed,
    numNodes := n, numEdges := m, extraEdge := simpleEdgeProps, t := true, z := z, y := y, x := x }

/-- `create_simple_2d_geff(num_nodes=10, num_edges=15, directed=False)` -/
def createSimple2dGeff (ok : Bool) (n : Nat := 10) (m : Nat := 15) (directed : Bool := false) :=
  createMockGeff ok (simpleParams n m directed false true true)

/-- `create_simple_3d_geff` -/
def createSimple3dGeff (ok : Bool) (n : Nat := 10) (m : Nat := 15) (directed : Bool := false) :=
  createMockGeff ok (simpleParams n m directed true true true)

/-- `create_simple_temporal_geff` -/
def createSimpleTemporalGeff (ok : Bool) (n : Nat := 10) (m : Nat := 15) (directed : Bool := false) :=
  createMockGeff ok (simpleParams n m directed false false false)

/-- `create_empty_geff(directed=False)` -/
def createEmptyGeff (ok : Bool) (directed : Bool := false) :=
  createMockGeff ok
    { idDtype := "uint", timeDtype := "float64", posDtype := "float64", directed := directed,
      numNodes := 0, numEdges := 0, t := false, z := false, y := false, x := false }

end Geff.MockData
