import GeffModel.Np
import Gen.Paths
/-! # Model of `geff.validate.structure` (property C04)

A line-by-line model of `validate_structure`, `_validate_nodes_group`, `_validate_edges_group`,
`_validate_optional_props_group`, `_validate_props_group`, `_validate_axes_structure`
(`packages/geff/src/geff/validate/structure.py`), of `expect_array` / `expect_group` /
`open_storelike` (`core_io/_utils.py`) and of the outcome of `GeffMetadata.read`, over an abstract
store: a tree of groups and arrays of which only dtype and shape are kept (structural validation
never reads array contents).

* every `if cond: raise ValueError(...)` is a `require (!cond)`;
* Python operations that raise on their own are *not* totalised: `a.shape[0]` / `a.shape[-1]` of a
  0-d array is `other "IndexError"`, `d[key]` of an absent key is `other "KeyError"`; the property
  theorem shows that these outcomes are unreachable;
* loops are `each` (a fold that stops at the first exception, like a `for` whose body raises);
* names of groups and arrays are the regenerated constants of `Gen.Paths` (translator T1).

Core Lean only (this file is linked into `drv_C04`). -/
namespace Geff.Structure
open Geff.Np Gen.Paths

/-- outcome classes of the validator; `other n` = any exception that is neither a `ValueError`
nor a `FileNotFoundError` (Python's own `IndexError`, `KeyError`, …) -/
inductive Err where
  | valueError
  | fileNotFound
  | other (name : String)
deriving DecidableEq, Repr, Inhabited

abbrev Out := Except Err

/-- outcomes can be compared (for `decide`d examples) -/
instance instDecidableEqOut {α : Type} [DecidableEq α] : DecidableEq (Out α) := fun a b =>
  match a, b with
  | .ok x, .ok y => if h : x = y then isTrue (by rw [h]) else isFalse (fun h' => by cases h'; exact h rfl)
  | .error x, .error y =>
    if h : x = y then isTrue (by rw [h]) else isFalse (fun h' => by cases h'; exact h rfl)
  | .ok _, .error _ => isFalse (fun h => by cases h)
  | .error _, .ok _ => isFalse (fun h => by cases h)

/-- what structural validation can see of a zarr array -/
structure Arr where
  dtype : Dtype
  shape : List Nat
deriving DecidableEq, Repr, Inhabited

def Arr.ndim (a : Arr) : Nat := a.shape.length

/-- a zarr node: an array, or a group with named members -/
inductive Node where
  | array (a : Arr)
  | group (children : List (String × Node))
deriving Repr, Inhabited

/-- the members of a group -/
abbrev Grp := List (String × Node)

/-- first entry with key `k` (a Python dict / a zarr group has at most one) -/
def lookup {β : Type} : List (String × β) → String → Option β
  | [], _ => none
  | (k', v) :: t, k => if k' = k then some v else lookup t k

/-- `group.get(key)` for a single path component -/
def get (g : Grp) (k : String) : Option Node := lookup g k

/-- `group.keys()` -/
def keys {β : Type} (g : List (String × β)) : List String := g.map (·.1)

/-- `group.get("a/b/…")` -/
def getPath (g : Grp) : List String → Option Node
  | [] => none
  | [k] => get g k
  | k :: k' :: rest =>
    match get g k with
    | some (.group ch) => getPath ch (k' :: rest)
    | _ => none

def isArrayNode : Option Node → Bool
  | some (.array _) => true
  | _ => false

/-- `PropMetadata`: the two fields structural validation uses -/
structure PropMeta where
  dtype : Dtype
  varlength : Bool
deriving DecidableEq, Repr, Inhabited

/-- the part of a *parsed* `GeffMetadata` that structural validation uses.  Validity of the
metadata document itself (pydantic) is property C07/C08; here "the metadata parses" is a component
of the store description (`MetaRead.ok`). -/
structure Meta where
  nodeProps : List (String × PropMeta)
  edgeProps : List (String × PropMeta)
  /-- `None`, or the axis names in order -/
  axes : Option (List String)
deriving DecidableEq, Repr, Inhabited

/-- what `GeffMetadata.read` finds in the attributes of the root group -/
inductive MetaRead where
  | noGeffKey                 -- `"geff" not in group.attrs`
  | notMapping                -- the `geff` attribute is not a mapping
  | invalid                   -- `model_validate` raises `pydantic.ValidationError` (a `ValueError`)
  | ok (m : Meta)
deriving Repr, Inhabited

/-- the argument of `validate_structure` -/
inductive Target where
  /-- a `str`/`Path` naming a path that does not exist -/
  | missingPath
  /-- an existing path or a store object; `root = none`: there is no zarr node at its root -/
  | store (root : Option Node) (attrs : MetaRead)
deriving Repr, Inhabited

/-! ## primitives -/

/-- `if not c: raise ValueError` -/
def require (c : Bool) : Out Unit := if c then pure () else throw .valueError

/-- `for x in l: body(x)` -/
def each {α : Type} : List α → (α → Out Unit) → Out Unit
  | [], _ => pure ()
  | a :: t, f => do f a; each t f

/-- `a.shape[0]` -/
def shape0 (a : Arr) : Out Nat :=
  match a.shape with
  | [] => throw (.other "IndexError")
  | n :: _ => pure n

/-- `a.shape[-1]` -/
def shapeLast (a : Arr) : Out Nat :=
  match a.shape.getLast? with
  | none => throw (.other "IndexError")
  | some n => pure n

/-- `d[key]` -/
def getItem {β : Type} (d : List (String × β)) (k : String) : Out β :=
  match lookup d k with
  | none => throw (.other "KeyError")
  | some v => pure v

/-- `expect_array(parent, key)` -/
def expectArray (parent : Grp) (key : String) : Out Arr :=
  match get parent key with
  | some (.array a) => pure a
  | _ => throw .valueError

/-- `expect_group(parent, key)` -/
def expectGroup (parent : Grp) (key : String) : Out Grp :=
  match get parent key with
  | some (.group ch) => pure ch
  | _ => throw .valueError

/-- `expect_group(parent, "a/b")` -/
def expectGroupPath (parent : Grp) (path : List String) : Out Grp :=
  match getPath parent path with
  | some (.group ch) => pure ch
  | _ => throw .valueError

/-- `expect_array(parent, "a/b")` -/
def expectArrayPath (parent : Grp) (path : List String) : Out Arr :=
  match getPath parent path with
  | some (.array a) => pure a
  | _ => throw .valueError

/-- `_dtype_matches(actual, stated)` on numpy's dtype *classes* (`Np.Dtype`: every unicode width and
the variable-length string dtype are `str`, every byte-string width is `bytes`) -/
def dtypeMatches (actual stated : Dtype) : Bool := actual == stated

/-- `open_storelike`: `FileNotFoundError` for a missing path, `ValueError` when
`zarr.open_group(store, mode="r")` fails (no group at the root) -/
def openStorelike : Target → Out Grp
  | .missingPath => throw .fileNotFound
  | .store (some (.group ch)) _ => pure ch
  | .store _ _ => throw .valueError

/-- `GeffMetadata.read` (read-only).  No group at the root is zarr's `GroupNotFoundError`, mapped to
`FileNotFoundError`; unreachable inside `validate_structure`, where `open_storelike` has already
failed. -/
def readMetadata : Target → Out Meta
  | .missingPath => throw .fileNotFound
  | .store (some (.group _)) (.ok m) => pure m
  | .store (some (.group _)) _ => throw .valueError
  | .store _ _ => throw .fileNotFound

/-! ## the validator -/

/-- `_validate_props_group`, loop body, the block "Check varlength cases" (`if
prop_metadata.varlength: … else: …`) -/
def checkPropDtype (pg : Grp) (val : Arr) (pm : PropMeta) : Out Unit :=
  if pm.varlength then do
    let data ← expectArray pg DATA
    require (val.dtype == Dtype.u64)
    require (dtypeMatches data.dtype pm.dtype)
    require (val.ndim == 2)
    require (data.ndim == 1)
  else do
    require (dtypeMatches val.dtype pm.dtype)
    require (!(get pg DATA).isSome)                       -- `DATA in members`

/-- `_validate_props_group`, loop body, the block `if _path.MISSING in members: …` -/
def checkMissing (pg : Grp) (expectedLen : Nat) : Out Unit :=
  if (get pg MISSING).isSome then do                      -- `MISSING in members`
    let miss ← expectArray pg MISSING
    require (miss.ndim == 1)
    let missLen ← shape0 miss
    require (missLen == expectedLen)
    require (miss.dtype == Dtype.bool)
  else pure ()

/-- body of the second loop of `_validate_props_group` from `isinstance(prop_group, zarr.Group)` on -/
def validateProp (propNode : Node) (expectedLen : Nat) (pm : PropMeta) : Out Unit := do
  let pg ← (match propNode with
    | .group ch => pure ch
    | .array _ => throw .valueError : Out Grp)
  require (isArrayNode (get pg VALUES))                   -- `VALUES not in arrays`
  let val ← expectArray pg VALUES
  require (decide (1 ≤ val.ndim))
  checkPropDtype pg val pm
  let valLen ← shape0 val
  require (valLen == expectedLen)
  checkMissing pg expectedLen

/-- `_validate_props_group` -/
def validatePropsGroup (props : Grp) (expectedLen : Nat) (md : List (String × PropMeta)) :
    Out Unit := do
  each (keys md) fun name => require ((get props name).isSome)
  each (keys props) fun name => do
    require ((lookup md name).isSome)
    let pm ← getItem md name
    let propNode ← getItem props name
    validateProp propNode expectedLen pm

/-- `_validate_optional_props_group` -/
def validateOptionalPropsGroup (parent : Grp) (expectedLen : Nat) (md : List (String × PropMeta)) :
    Out Unit :=
  match get parent PROPS with
  | none => require md.isEmpty
  | some _ => do
    let props ← expectGroup parent PROPS
    validatePropsGroup props expectedLen md

/-- `_validate_nodes_group` -/
def validateNodesGroup (nodes : Grp) (m : Meta) : Out Unit := do
  let ids ← expectArray nodes IDS
  require ids.dtype.isInteger
  require (ids.ndim == 1)
  let idLen ← shape0 ids
  validateOptionalPropsGroup nodes idLen m.nodeProps

/-- `_validate_edges_group` -/
def validateEdgesGroup (edges : Grp) (m : Meta) : Out Unit := do
  let ids ← expectArray edges IDS
  -- `edges_ids.ndim != 2 or edges_ids.shape[-1] != 2` (short-circuit)
  require (ids.ndim == 2)
  let last ← shapeLast ids
  require (last == 2)
  require ids.dtype.isInteger
  let edgeIdLen ← shape0 ids
  validateOptionalPropsGroup edges edgeIdLen m.edgeProps

/-- `_validate_axes_structure` -/
def validateAxesStructure (graph : Grp) (m : Meta) : Out Unit :=
  match m.axes with
  | none => pure ()
  | some [] => pure ()
  | some axes => do
    let nodeProps ← expectGroupPath graph [NODES, PROPS]
    each axes fun ax => do
      require ((lookup m.nodeProps ax).isSome)
      require ((getPath nodeProps [ax, VALUES]).isSome)
      require (!(getPath nodeProps [ax, MISSING]).isSome)
      let v ← expectArrayPath nodeProps [ax, VALUES]
      require (v.ndim == 1)

/-- `validate_structure` -/
def validateStructure (t : Target) : Out Unit := do
  let graph ← openStorelike t
  let m ← readMetadata t
  let nodes ← expectGroup graph NODES
  validateNodesGroup nodes m
  let edges ← expectGroup graph EDGES
  validateEdgesGroup edges m
  let nodeIds ← expectArray nodes IDS
  let edgeIds ← expectArray edges IDS
  require (nodeIds.dtype == edgeIds.dtype)
  if m.axes.isSome then validateAxesStructure graph m else pure ()   -- `if metadata.axes is not None`

/-- outcome class as the harness sees it -/
def outcomeName : Out Unit → String
  | .ok () => "ok"
  | .error .valueError => "ValueError"
  | .error .fileNotFound => "FileNotFoundError"
  | .error (.other n) => n

end Geff.Structure

/-! ## `GeffReader.__init__` (`core_io/_base_read.py`) — the second observation point of C04 -/
namespace Geff.Structure
open Geff.Np Gen.Paths

/-- `zarr.open_array(source, path=…, mode="r")`: a zarr error (neither a plain `ValueError` nor a
plain `FileNotFoundError`) unless there is an array -/
def openArrayPath (g : Grp) (path : List String) : Out Arr :=
  match getPath g path with
  | some (.array a) => pure a
  | _ => throw (.other "zarr.errors.NodeNotFoundError")

/-- `zarr.open_group(self.group.store, path=…, mode="r")` -/
def openGroupPath (g : Grp) (path : List String) : Out Grp :=
  match getPath g path with
  | some (.group ch) => pure ch
  | _ => throw (.other "zarr.errors.NodeNotFoundError")

/-- `[*group.group_keys()]` -/
def groupKeys (g : Grp) : List String :=
  (g.filter fun kv => match kv.2 with | .group _ => true | .array _ => false).map (·.1)

/-- the property names the reader offers: `[]` without a `props` member -/
def readPropNames (graph parent : Grp) (path : List String) : Out (List String) :=
  if (get parent PROPS).isSome then do            -- `_path.PROPS in nodes_group.keys()`
    let props ← openGroupPath graph path
    pure (groupKeys props)
  else pure []

/-- `GeffReader.__init__(source, validate)`; returns `(node_prop_names, edge_prop_names)` -/
def readerInit (validate : Bool) (t : Target) : Out (List String × List String) := do
  if validate then validateStructure t else pure ()
  let graph ← openStorelike t
  let _ ← readMetadata t
  let _ ← openArrayPath graph [NODES, IDS]
  let _ ← openArrayPath graph [EDGES, IDS]
  let nodes ← expectGroup graph NODES
  let nodeNames ← readPropNames graph nodes [NODES, PROPS]
  let edges ← expectGroup graph EDGES
  let edgeNames ← readPropNames graph edges [EDGES, PROPS]
  pure (nodeNames, edgeNames)

end Geff.Structure
