import GeffModel.KV
/-! # Run-time library for the source-translated guard layer (`harness/translators/t19_pydo_store_guard.py`)

The translator T19 turns `remove_tilde`, `_detect_zarr_spec_version`, `setup_zarr_group`,
`delete_geff` and `check_for_geff` of `geff/core_io/_utils.py` statement by statement into Lean
`do`-blocks in the trace monad `Geff.KV.Prog` of the key-view model (`GeffModel/KV.lean`): a program
maps the store it starts on to the exact list of store mutations it performs plus its outcome.
Everything the generated code calls is defined here, **from the primitives of `GeffModel/KV.lean`**
(`look`, `emit`, `raise`, `deleteDir`, `setupZarrGroup`, `delGeffAttr`, `members`, `memberIn`,
`geffAttrIn`, `rootGroupFmt`), so that every theorem about the hand-written model applies to the
generated functions once they are proved equal (`GeffProofs/StoreGuardGen.lean`).

Python exceptions are explicit: `Outcome.other "<class name>"` (plus the three constructors the KV
model already has).  `try … except (A, B): …` becomes Lean's `try … catch e => if pyIsInstance e
["A", "B"] then … else throw e` through the `MonadExcept` instance below (mutations performed before
the exception persist, the handler runs on the store they leave).

What the primitives assume (zarr-python 3.4 / CPython 3.12, observed; exercised by the C05/C06
correspondence on the hand-written model that the generated functions are proved equal to):
* a `str`/`Path` location *exists* iff the store holds at least one key (an existing EMPTY directory
  is below the key view); `os.path.exists` / `Path(…)` of a store object raise `TypeError`;
  `shutil.rmtree` of a `str`/`Path` location removes every key (its `FileNotFoundError` for a missing
  location is NOT modelled: `delete_geff` calls it only after `setup_zarr_group` created the root);
* `zarr.open_group(mode="r")` raises `FileNotFoundError` for a missing location and
  `GroupNotFoundError` (a subclass of `FileNotFoundError` *and* `ValueError`) when the store has no
  root group of the requested / any format; with `zarr_format=None` format 3 is preferred;
* `zarr.open_group(mode="a", zarr_format=f)` creates the root group documents of format `f` when
  they are not there (also next to a root group of the other format);
* `del group[name]` is `delete_dir` and does **not** raise when the member is absent;
  `del group.attrs["geff"]` raises `KeyError` when absent and rewrites the root documents otherwise;
* `MemoryStore` and `LocalStore` have no attribute `path`;
* a location with a leading `~` that has not been expanded names some *other* directory than the
  one the store state describes: every primitive answers `Unmodelled` there, which no `except`
  clause catches — so an equality with the model proves the location was expanded first.
Core Lean only. -/
namespace Geff.PyDoStore
open Geff.KV Geff.KV.Prog Gen.Paths

/-! ## the `store` argument -/

/-- where the character `~` occurs in a location string: nowhere / at the start (`expanduser`
changes the string) / only further in (`expanduser` leaves it alone) -/
inductive Tilde | no | home | inner
deriving DecidableEq, Repr

/-- what Python code is handed as `store` (and what `store.path` evaluates to) -/
inductive StoreRef
  | str (t : Tilde)                        -- a `str` location
  | path (t : Tilde)                       -- a `pathlib.Path` location
  | memory                                 -- `zarr.storage.MemoryStore`
  | localStore                             -- `zarr.storage.LocalStore`
  | objWithPath (loopDelete onDisk : Bool) -- another store object that has an attribute `path`
  | pathOfObj (onDisk : Bool)              -- the `str` such an object's `.path` evaluates to
deriving DecidableEq, Repr

namespace StoreRef
/-- the store kind of the key-view model -/
def kind : StoreRef → Kind
  | .str _ | .path _ | .pathOfObj _ => .path
  | .memory => .mem
  | .localStore => .loc
  | .objWithPath l _ => if l then .mem else .loc

/-- a home-relative location that has not been expanded -/
def unexpanded : StoreRef → Bool
  | .str .home | .path .home => true
  | _ => false

/-- the store kinds the hand-written model covers: str, Path, MemoryStore, LocalStore -/
def modelled : StoreRef → Bool
  | .str _ | .path _ | .memory | .localStore => true
  | _ => false
end StoreRef

/-! ## exceptions -/

def exc (name : String) : Outcome := .other name
/-- a situation the store state does not describe; not an `Exception`: nothing catches it -/
def unmodelled {α : Type} : Prog α := raise (.other "Unmodelled")

/-- the classes of an exception, most specific first (CPython 3.12, zarr-python 3.4) -/
def mro : Outcome → List String
  | .fileExists => ["FileExistsError", "OSError", "Exception"]
  | .valueError => ["ValueError", "Exception"]
  | .typeError => ["TypeError", "Exception"]
  | .other "Unmodelled" => []
  | .other "GroupNotFoundError" =>
      ["GroupNotFoundError", "NodeNotFoundError", "BaseZarrError", "ValueError", "FileNotFoundError", "OSError",
       "Exception"]
  | .other "FileNotFoundError" => ["FileNotFoundError", "OSError", "Exception"]
  | .other "ContainsGroupError" => ["ContainsGroupError", "BaseZarrError", "ValueError", "Exception"]
  | .other "ContainsArrayError" => ["ContainsArrayError", "BaseZarrError", "ValueError", "Exception"]
  | .other "KeyError" => ["KeyError", "LookupError", "Exception"]
  | .other n => [n, "Exception"]

/-- `isinstance(e, (C₁, C₂, …))` -/
def pyIsInstance (e : Outcome) (classes : List String) : Bool := classes.any (fun c => (mro e).contains c)

/-- `try: p  except …: h e` — the mutations `p` performed before raising persist -/
def tryCatch {α : Type} (p : Prog α) (h : Outcome → Prog α) : Prog α := fun kv =>
  match p kv with
  | ⟨ops, .ok a⟩ => ⟨ops, .ok a⟩
  | ⟨ops, .error e⟩ =>
    match h e (run kv ops) with
    | ⟨ops2, v⟩ => ⟨ops ++ ops2, v⟩

instance : MonadExcept Outcome Prog where
  throw := raise
  tryCatch := tryCatch

/-- what a `try` / `except` block of a translated function yields: a `return v` of the *function*
inside the block, or the locals bound in the block that are read after it -/
inductive Flow (ρ β : Type) where
  | ret (r : ρ)
  | next (b : β)

/-- `try: p  except …: h e` as the translator emits it -/
def tryExcept {α : Type} (p : Prog α) (h : Outcome → Prog α) : Prog α := tryCatch p h

/-- `a and b` / `a or b` where evaluating `b` has effects or can raise -/
def pyAnd (a : Bool) (b : Prog Bool) : Prog Bool := if a then b else Prog.pure false
def pyOr (a : Bool) (b : Prog Bool) : Prog Bool := if a then Prog.pure true else b

/-! ## `isinstance`, `str`, `os.path`, `shutil`, `pathlib` -/

/-- `isinstance(store, str)` / `isinstance(store, Path)` / `isinstance(store, str | Path)` -/
def isStr : StoreRef → Bool | .str _ | .pathOfObj _ => true | _ => false
def isPath : StoreRef → Bool | .path _ => true | _ => false
def isStrOrPath (s : StoreRef) : Bool := isStr s || isPath s

/-- `str(store)`, as far as `~` is concerned (the `repr` of a store object contains none) -/
def strOf : StoreRef → Tilde | .str t | .path t => t | _ => .no
/-- `"~" in s` -/
def hasTilde (t : Tilde) : Bool := t != .no
/-- `os.path.expanduser(s)`: a `str`; only a leading `~` is replaced (by `$HOME`, which contains none) -/
def expanduser : Tilde → StoreRef | .home => .str .no | t => .str t

/-- `is_remote_url(str(p))`: the `str`/`Path` locations of this model are local (their content is the
store state); http/ftp URLs are outside it -/
def isRemoteUrl (_ : Tilde) : Bool := false

/-- `os.path.exists(x)` / `x.exists()` -/
def osPathExists : StoreRef → Prog Bool
  | .str t | .path t => if t = .home then unmodelled else do let kv ← look; Prog.pure (!kv.isEmpty)
  | .pathOfObj onDisk => Prog.pure onDisk
  | _ => raise .typeError

/-- `shutil.rmtree(x)` -/
def rmtree : StoreRef → Prog Unit
  | .str t | .path t =>
    -- (`FileNotFoundError` for a location that does not exist is not modelled: the source calls it
    -- only after `setup_zarr_group` created the root group there)
    if t = .home then unmodelled else emit [.clear]
  | .pathOfObj onDisk => if onDisk then emit [.clear] else raise (exc "FileNotFoundError")
  | _ => raise .typeError

/-- `Path(x)` -/
def toPath : StoreRef → Prog StoreRef
  | .str t | .path t => Prog.pure (.path t)
  | .pathOfObj _ => unmodelled
  | _ => raise .typeError

/-- `(p / name).exists()` for the three root documents `zarr.json`, `.zgroup`, `.zarray` -/
def rootFileExists (s : StoreRef) (l : Leaf) : Prog Bool :=
  match s with
  | .str t | .path t => if t = .home then unmodelled else do let kv ← look; Prog.pure (has kv ⟨[], l⟩)
  | _ => unmodelled

/-- `store.path` -/
def attrPath : StoreRef → Prog StoreRef
  | .objWithPath _ onDisk => Prog.pure (.pathOfObj onDisk)
  | _ => raise (exc "AttributeError")

/-! ## zarr -/

inductive Mode | r | a | w
deriving DecidableEq, Repr

/-- a `zarr.Group` handle on the root: the store it was opened on and the format it was opened in;
every operation through it looks at the store as it is *then* -/
structure Group where
  store : StoreRef
  fmt : Fmt
deriving DecidableEq, Repr

/-- placeholder for a local that Python binds inside a `try` block (the translator checks that it is
assigned on every path before it is read, so the value is never observable) -/
instance : Inhabited Group := ⟨⟨.memory, .v2⟩⟩
instance : Inhabited StoreRef := ⟨.memory⟩

/-- `2` / `3` -/
def fmtNum : Fmt → Nat | .v2 => 2 | .v3 => 3
/-- `group.metadata.zarr_format` -/
def zarrFormatNum (g : Group) : Nat := fmtNum g.fmt
/-- `zarr.__version__.startswith(p)` for `p` ∈ {"2", "3"}: the installed zarr-python is 3.x
(checked by the harness on every run) -/
def zarrVersionStartsWith (p : String) : Bool := p == "3"

/-- the root group `open_group(mode="r", zarr_format=zf)` finds -/
def findRoot (zf : Option Fmt) (kv : KV) : Option Fmt :=
  match zf with
  | none => rootGroupFmt kv
  | some f => if has kv (groupKey f []) then some f else none

/-- `zarr.open_group(store, mode=…, zarr_format=…)` -/
def openGroup (d : Docs) (s : StoreRef) (mode : Mode) (zf : Option Fmt) : Prog Group :=
  if s.unexpanded then unmodelled else
  match s with
  | .pathOfObj _ => unmodelled
  | _ =>
  match mode with
  | .r => do
    let kv ← look
    match findRoot zf kv with
    | some f => Prog.pure ⟨s, f⟩
    | none =>
      if s.kind = .path && kv.isEmpty then raise (exc "FileNotFoundError")
      else raise (exc "GroupNotFoundError")
  | .a =>
    match zf with
    | some f => do
      setupZarrGroup d f
      Prog.pure ⟨s, f⟩
    | none => do
      let kv ← look
      match rootGroupFmt kv with
      | some f => Prog.pure ⟨s, f⟩
      | none => do
        setupZarrGroup d .v3
        Prog.pure ⟨s, .v3⟩
  | .w => unmodelled

/-- `del group[name]` -/
def delItem (g : Group) (name : String) : Prog Unit := deleteDir g.store.kind [name]
/-- `group.keys()` (as a list; only its length is used) -/
def groupKeys (g : Group) : Prog (List String) := do let kv ← look; Prog.pure (members g.fmt kv)
/-- `name in group` -/
def groupContains (g : Group) (name : String) : Prog Bool := do let kv ← look; Prog.pure (memberIn g.fmt kv name)
/-- `"geff" in group.attrs` -/
def attrsContainsGeff (g : Group) : Prog Bool := do let kv ← look; Prog.pure (geffAttrIn g.fmt kv).isSome
/-- `del group.attrs["geff"]` -/
def delAttrGeff (d : Docs) (g : Group) : Prog Unit := delGeffAttr d g.fmt

end Geff.PyDoStore
