/-! Executable graph primitives shared by the models (core Lean only, no Mathlib).

`grow`/`component` compute the weakly connected component of a vertex by moving one adjacent
vertex at a time out of the `unseen` list; each step removes one element of `unseen`, so
`unseen.length` steps of fuel suffice and no pigeonhole argument is needed.  Soundness/completeness w.r.t. `ReflTransGen` of the
symmetric adjacency relation are proved in `GeffProofs/Reach.lean`. -/
namespace Geff.Graph
variable {α : Type} [DecidableEq α]

/-- undirected adjacency test on an edge list -/
def adjB (es : List (α × α)) (a b : α) : Bool :=
  es.any (fun e => (e.1 = a ∧ e.2 = b) ∨ (e.1 = b ∧ e.2 = a))

/-- grow `seen` by moving one adjacent vertex out of `unseen` until none is adjacent.
Structural recursion on a fuel argument (so that `decide` can evaluate it); `component` supplies
`unseen.length`, which is always enough (each step removes one element of `unseen`). -/
def grow (es : List (α × α)) : Nat → List α → List α → List α
  | 0, _, seen => seen
  | n + 1, unseen, seen =>
    match unseen.find? (fun u => seen.any (fun s => adjB es s u)) with
    | none => seen
    | some u => grow es n (unseen.erase u) (u :: seen)

/-- weakly connected component of `r` among the vertex list `V` -/
def component (es : List (α × α)) (V : List α) (r : α) : List α :=
  grow es (V.erase r).length (V.erase r) [r]

def inDeg (es : List (α × α)) (v : α) : Nat := (es.filter (fun e => e.2 = v)).length
def outDeg (es : List (α × α)) (v : α) : Nat := (es.filter (fun e => e.1 = v)).length

/-- set equality of two lists -/
def sameSet (a b : List α) : Bool := a.all (· ∈ b) && b.all (· ∈ a)

/-- first-occurrence de-duplication (Python `dict` key order) -/
def dedup : List α → List α
  | [] => []
  | x :: xs => x :: (dedup xs).filter (· ≠ x)

end Geff.Graph
