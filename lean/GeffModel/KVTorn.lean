import GeffModel.KVJson
/-! # Writes that start on what an interrupted write left behind  (C05, history dimension)

`GeffModel/KV.lean` takes the verdict of `validate_structure` on the committed store as an input
(`G.valid`).  That is the verdict for the graph *as the call writes it*.  On a store object
(MemoryStore / LocalStore) the guard `check_for_geff` looks at the `geff` attribute only, so a store
torn by an earlier interrupted write (arrays there, attribute not yet written) is **not** taken for a
geff and is **not** deleted, not even with `overwrite=True`: the new write goes on top of it.  Every
property group of the new graph is created exclusively (a left-over group of the same name makes zarr
raise `ContainsGroupError`, modelled in `createGroup`), but left-over members of `nodes/props` /
`edges/props` with *other* names survive the write, and the final `validate_structure` rejects them
("Property a is missing from the property metadata"): the call ends with `ValueError` after the
clean-up `delete_geff`.

So the verdict the code acts on is a function of the store at validation time:
`verdict = G.valid ∧ no member of nodes/props or edges/props that the call did not write`.
`G.valid` keeps its meaning for the content of the graph (lengths, dtypes, metadata naming absent
properties, …); `staleIn` is what a reader sees of left-overs: a *member* is a name with a group or
array metadata document of the zarr format being written (documents of the other format, and keys
without a node document such as a lone `.zattrs` left by a half-written group, are invisible to zarr).

Not in the model (array contents are opaque): a call whose **metadata names a property it does not
supply** (`G.valid = false` on a clean target) is accepted by the code when a left-over property of that
name, length and dtype is in the torn store — recorded as a known finding of C05
(`C05:history-stale-property-adopted`), outside `verdict`.  Core Lean only. -/
namespace Geff.KV
open Gen.Paths Prog

/-- is the leaf a node (group or array) metadata document of format `f` -/
def nodeDoc : Fmt → Leaf → Bool
  | .v2, .zgroup => true
  | .v2, .zarray => true
  | .v3, .json => true
  | _, _ => false

/-- the names of the properties a call writes -/
def propNames : Option (List PropA) → List String
  | none => []
  | some ps => ps.map (·.name)

/-- is `k` the node document of a member of `grp/props` whose name is not in `names` -/
def staleKey (f : Fmt) (grp : String) (names : List String) (k : Key) : Bool :=
  match k.path with
  | [a, b, n] => a == grp && b == PROPS && nodeDoc f k.leaf && !names.contains n
  | _ => false

/-- `grp/props` has a member (as zarr lists them in format `f`) that is not one of `names` -/
def staleIn (f : Fmt) (grp : String) (names : List String) (kv : KV) : Bool :=
  kv.any (fun e => staleKey f grp names e.1)

/-- no left-over property member next to the properties of `g` -/
def noStale (f : Fmt) (g : G) (kv : KV) : Bool :=
  !staleIn f NODES (propNames g.nodeProps) kv && !staleIn f EDGES (propNames g.edgeProps) kv

/-- **the verdict of `validate_structure` on the store `kv` the write of `g` has committed** -/
def verdict (f : Fmt) (g : G) (kv : KV) : Bool := g.valid && noStale f g kv

/-- `g` with the verdict `v` in place of the input verdict -/
def withValid (g : G) (v : Bool) : G := { g with valid := v }

/-- validation and the clean-up handler of `write_arrays`, the verdict taken on the store as it is -/
def validateAndCleanupT (d : Docs) (kind : Kind) (f : Fmt) (g : G) (validate : Bool) : Prog Unit :=
  fun s => validateAndCleanup d kind f (withValid g (verdict f g s)) validate s

/-- `write_arrays` -/
def writeArraysT (d : Docs) (kind : Kind) (f : Fmt) (g : G) (overwrite validate : Bool) : Prog Unit := do
  guard d kind f overwrite
  writeBody d kind f g
  validateAndCleanupT d kind f g validate

/-- `write_dicts` -/
def writeDictsT (d : Docs) (kind : Kind) (f : Fmt) (g : G) (validate : Bool) : Prog Unit :=
  writeArraysT d kind f g false validate

/-- `geff.write` and the converters -/
def apiWriteT (d : Docs) (kind : Kind) (f : Fmt) (g : G) (overwrite validate : Bool) : Prog Unit := do
  guard d kind f overwrite
  writeArraysT d kind f g false validate

/-- the store `write_arrays` validates: after the guard and the body -/
def committedStore (d : Docs) (kind : Kind) (f : Fmt) (g : G) (ow : Bool) (kv₀ : KV) : KV :=
  let s1 := run kv₀ (guard d kind f ow kv₀).ops
  run s1 (writeBody d kind f g s1).ops

/-- the store the nested `write_arrays` of `geff.write` validates -/
def apiCommittedStore (d : Docs) (kind : Kind) (f : Fmt) (g : G) (ow : Bool) (kv₀ : KV) : KV :=
  committedStore d kind f g false (run kv₀ (guard d kind f ow kv₀).ops)

/-- the first key below `nodes/`, in store order, is the document of the `nodes` group or of the
`nodes/ids` array (or there is none): the executable form of `DeleteSafe` -/
def deleteSafeB (f : Fmt) (kv : KV) : Bool :=
  match (kv.filter (fun e => under [NODES] e.1)).head? with
  | none => true
  | some e => e.1 == groupKey f [NODES] || e.1 == arrayKey f [NODES, IDS]

/-- **the invariant of torn stores** (stores an interrupted write leaves behind and that the guard of a
store object does not take for a geff): no `geff` attribute in the format being written, and no root
document of the other format shadowing it -/
def tornOkB (f : Fmt) (kv : KV) : Bool :=
  (geffAttrIn f kv).isNone && (f == .v3 || !has kv ⟨[], .json⟩)

end Geff.KV

namespace Geff.KVJson
open Lean Geff.KV Geff.KV.Prog

def entryProgT (d : Docs) (kind : Kind) (f : Fmt) (j : Json) : Except String (Prog Unit) := do
  let g ← gOfJson (← j.getObjVal? "g")
  let ow := getBoolD j "overwrite" false
  let va := getBoolD j "validate" true
  match (← (← j.getObjVal? "entry").getStr?) with
  | "write_arrays" => return writeArraysT d kind f g ow va
  | "write_dicts" => return writeDictsT d kind f g va
  | "api" => return apiWriteT d kind f g ow va
  | e => throw s!"entry {e}"

/-- the phases of the trace, the verdict taken on the committed store -/
def entryPhasesT (d : Docs) (kind : Kind) (f : Fmt) (j : Json) (kv : KV) : Except String (Phases × KV × G) := do
  let g ← gOfJson (← j.getObjVal? "g")
  let ow := getBoolD j "overwrite" false
  let va := getBoolD j "validate" true
  match (← (← j.getObjVal? "entry").getStr?) with
  | "write_arrays" =>
    let c := committedStore d kind f g ow kv
    return (phases d kind f (withValid g (verdict f g c)) ow va kv, c, g)
  | "write_dicts" =>
    let c := committedStore d kind f g false kv
    return (phases d kind f (withValid g (verdict f g c)) false va kv, c, g)
  | "api" =>
    let c := apiCommittedStore d kind f g ow kv
    return (apiPhases d kind f (withValid g (verdict f g c)) ow va kv, c, g)
  | e => throw s!"entry {e}"

/-- the driver of C05: `trace` through the model whose verdict looks at the committed store
(answers as `KVJson.handle`, plus `torn_ok`: the invariant of torn stores on the pre-state, `stale`:
left-over property members on the committed store, `commit_delete_safe`: `deleteSafeB` there);
everything else as `KVJson.handle` -/
def handleT (j : Json) : Except String Json := do
  match (← (← j.getObjVal? "op").getStr?) with
  | "trace" =>
    let f ← fmtOfJson (← j.getObjVal? "fmt")
    let kind ← kindOfJson (← j.getObjVal? "kind")
    let d ← docsOfJson (← j.getObjVal? "docs")
    let pre ← kvOfJson (← j.getObjVal? "pre")
    let p ← entryProgT d kind f j
    let r := p pre
    let (ph, c, g) ← entryPhasesT d kind f j pre
    let sts := prefixStates pre r.ops
    let base := [("ops", Json.arr (r.ops.map opJson).toArray), ("outcome", Json.str (outcomeStr r.val)),
                 ("final", kvJson (run pre r.ops)),
                 ("rec", Json.arr (sts.map (fun s => Json.bool (recognised f s))).toArray),
                 ("check", Json.bool (checkForGeff kind pre)),
                 ("phases", Json.arr #[ph.D.length, ph.W.length, ph.C.length, ph.X.length]),
                 ("committed", Json.bool ph.committed),
                 ("torn_ok", Json.bool (tornOkB f pre)),
                 ("stale", Json.bool (!noStale f g c)),
                 ("commit_delete_safe", Json.bool (deleteSafeB f c))]
    let more := if getBoolD j "states" false then [("states", Json.arr (sts.map kvJson).toArray)] else []
    return Json.mkObj (base ++ more)
  | _ => handle j

end Geff.KVJson
