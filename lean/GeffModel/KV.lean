import Gen.Paths
/-! # Key view of a zarr store and the write path of geff as a program over it  (C05, C06)

A store is what a recording `zarr` store sees: an insertion-ordered map from *keys* to *documents*
(`KV`, with Python-`dict` semantics: re-setting a key keeps its position, a new key is appended —
this is exactly `MemoryStore._store_dict`, and it is what fixes the order in which `delete_dir`
removes keys).  Keys carry zarr's key classes of both formats; documents are opaque except the
root attribute document, of which the `geff` entry is visible.

The write path (`write_arrays`, `delete_geff`, `check_for_geff`, `geff.write`, the converters'
guards) is modelled as a program in a small trace monad `Prog`: running a program on a store
yields the **exact program-order list of store mutations** (`Op`) it performs plus its outcome
(Python exceptions are explicit `Outcome`s; an exception ends the trace where it is raised).
A crash at mutation `k` leaves the store `run kv (ops.take k)`.

What is *not* in the model: array contents (a document is an opaque id), validation (its verdict
is the input `G.valid`), numpy preprocessing.  Core Lean only. -/
namespace Geff.KV
open Gen.Paths

/-! ## keys, documents, stores -/

inductive Fmt | v2 | v3
deriving DecidableEq, Repr

/-- `mem`: a store object whose `delete_dir` is a loop over `delete` (MemoryStore);
`loc`: a `LocalStore` object (`delete_dir` = one `shutil.rmtree`);
`path`: a `str`/`Path` (as `loc`, and `delete_geff` may remove the whole root). -/
inductive Kind | mem | loc | path
deriving DecidableEq, Repr

inductive Leaf
  | zgroup | zattrs | zarray          -- zarr format 2 metadata documents
  | json                              -- zarr format 3 `zarr.json`
  | chunk (c : String)                -- a chunk key (`0.0`, `c/0/0`, …)
deriving DecidableEq, Repr

structure Key where
  path : List String
  leaf : Leaf
deriving DecidableEq, Repr

inductive Blob
  | raw (id : String)                            -- opaque bytes
  | root (geff : Option String) (other : String) -- root attribute document: the `geff` entry, the rest
deriving DecidableEq, Repr

abbrev KV := List (Key × Blob)

def get : KV → Key → Option Blob
  | [], _ => none
  | (k', b) :: r, k => if k' = k then some b else get r k

def has (kv : KV) (k : Key) : Bool := (get kv k).isSome

/-- `dict[k] = b` -/
def put : KV → Key → Blob → KV
  | [], k, b => [(k, b)]
  | (k', b') :: r, k, b => if k' = k then (k, b) :: r else (k', b') :: put r k b

def erase (kv : KV) (k : Key) : KV := kv.filter (fun e => e.1 ≠ k)

/-- is `k` inside the directory `p` -/
def under (p : List String) (k : Key) : Bool := p.isPrefixOf k.path

/-- store mutations, as a recording store sees them -/
inductive Op
  | set (k : Key) (b : Blob)
  | setnx (k : Key) (b : Blob)
  | del (k : Key)
  | delPrefix (p : List String)   -- `LocalStore.delete_dir` of an existing directory (one rmtree)
  | clear                         -- `shutil.rmtree` of a str/Path root
deriving DecidableEq, Repr

def step (kv : KV) : Op → KV
  | .set k b => put kv k b
  | .setnx k b => if has kv k then kv else put kv k b
  | .del k => erase kv k
  | .delPrefix p => kv.filter (fun e => !under p e.1)
  | .clear => []

def run (kv : KV) (ops : List Op) : KV := ops.foldl step kv

/-! ## the trace monad -/

inductive Outcome
  | fileExists | valueError | typeError | other (name : String)
deriving DecidableEq, Repr

structure Res (α : Type) where
  ops : List Op
  val : Except Outcome α

/-- a program: from the store it starts on to the mutations it performs and its result -/
def Prog (α : Type) := KV → Res α

namespace Prog
def pure {α} (a : α) : Prog α := fun _ => ⟨[], .ok a⟩

def bind {α β} (p : Prog α) (f : α → Prog β) : Prog β := fun kv =>
  match p kv with
  | ⟨ops, .error e⟩ => ⟨ops, .error e⟩
  | ⟨ops, .ok a⟩ =>
    match f a (run kv ops) with
    | ⟨ops2, v⟩ => ⟨ops ++ ops2, v⟩

instance : Monad Prog where
  pure := Prog.pure
  bind := Prog.bind

/-- perform mutations -/
def emit (ops : List Op) : Prog Unit := fun _ => ⟨ops, .ok ()⟩
/-- look at the store (reads are not mutations) -/
def look : Prog KV := fun kv => ⟨[], .ok kv⟩
/-- `raise` -/
def raise {α} (e : Outcome) : Prog α := fun _ => ⟨[], .error e⟩
/-- `try: p  except: pass` -/
def attempt (p : Prog Unit) : Prog Unit := fun kv => ⟨(p kv).ops, .ok ()⟩

/-- `for x in xs: f x` -/
def forEach {α} (f : α → Prog Unit) : List α → Prog Unit
  | [] => Prog.pure ()
  | x :: xs => Prog.bind (f x) (fun _ => forEach f xs)

/-- the store a program leaves behind when nothing fails -/
def final {α} (p : Prog α) (kv : KV) : KV := run kv (p kv).ops
end Prog
open Prog

/-! ## zarr's key layout -/

def groupKey (f : Fmt) (p : List String) : Key :=
  match f with | .v2 => ⟨p, .zgroup⟩ | .v3 => ⟨p, .json⟩
def arrayKey (f : Fmt) (p : List String) : Key :=
  match f with | .v2 => ⟨p, .zarray⟩ | .v3 => ⟨p, .json⟩
/-- the document holding the attributes of the root group -/
def rootDocKey (f : Fmt) : Key :=
  match f with | .v2 => ⟨[], .zattrs⟩ | .v3 => ⟨[], .json⟩

/-- constant documents zarr writes (ids supplied by the harness from a reference write) -/
structure Docs where
  zgroup : String      -- `.zgroup`
  zattrs : String      -- an empty `.zattrs`
  gjson : String       -- `zarr.json` of a group without attributes
  emptyOther : String  -- the non-geff part of a fresh root attribute document
deriving Repr

/-- the metadata documents of a group at `p` (format 2: `.zgroup` then `.zattrs`) -/
def groupDocs (d : Docs) (f : Fmt) (p : List String) : List (Key × Blob) :=
  match f, p with
  | .v2, [] => [(⟨[], .zgroup⟩, .raw d.zgroup), (⟨[], .zattrs⟩, .root none d.emptyOther)]
  | .v2, p => [(⟨p, .zgroup⟩, .raw d.zgroup), (⟨p, .zattrs⟩, .raw d.zattrs)]
  | .v3, [] => [(⟨[], .json⟩, .root none d.emptyOther)]
  | .v3, p => [(⟨p, .json⟩, .raw d.gjson)]

/-- proper ancestors of a path, root first -/
def ancestors : List String → List (List String)
  | [] => []
  | p => (List.range p.length).map (fun i => p.take i)

/-- zarr creates missing parent groups with `set_if_not_exists`, root first -/
def ancestorsNx (d : Docs) (f : Fmt) (p : List String) : List Op :=
  (ancestors p).flatMap (fun q => (groupDocs d f q).map (fun e => Op.setnx e.1 e.2))

/-- (re)write the root group's metadata with attribute document `doc` -/
def rootMetaOps (d : Docs) (f : Fmt) (doc : Blob) : List Op :=
  match f with
  | .v2 => [.set ⟨[], .zgroup⟩ (.raw d.zgroup), .set ⟨[], .zattrs⟩ doc]
  | .v3 => [.set ⟨[], .json⟩ doc]

/-- zarr's format auto-detection on the root (`zarr_format=None`): format 3 is preferred -/
def rootGroupFmt (kv : KV) : Option Fmt :=
  if has kv ⟨[], .json⟩ then some .v3 else if has kv ⟨[], .zgroup⟩ then some .v2 else none

/-- the `geff` entry of the root attributes as seen through format `f` -/
def geffAttrIn (f : Fmt) (kv : KV) : Option String :=
  match get kv (rootDocKey f) with
  | some (.root g _) => g
  | _ => none

def otherAttrsIn (d : Docs) (f : Fmt) (kv : KV) : String :=
  match get kv (rootDocKey f) with
  | some (.root _ o) => o
  | _ => d.emptyOther

/-- is there a member (array or group) called `name` directly in the root group, in format `f` -/
def memberIn (f : Fmt) (kv : KV) (name : String) : Bool :=
  has kv (groupKey f [name]) || has kv (arrayKey f [name])

/-- `root.keys()`: first path components that are members in format `f` (with repetitions; only its
emptiness is used) -/
def members (f : Fmt) (kv : KV) : List String :=
  (kv.filterMap (fun e => e.1.path.head?)).filter (fun n => memberIn f kv n)

/-! ## the graph being written, as documents -/

structure Arr where
  mdoc : String                      -- array metadata document
  chunks : List (String × Option String)
    -- chunk key suffix ↦ document, in writing order; `none`: the chunk equals the fill value, zarr
    -- *deletes* its key instead of writing it (an absent chunk reads as fill values)
  writable : Bool := true            -- false: zarr refuses the array (unsupported dtype)
deriving Repr

structure PropA where
  name : String
  metaOk : Bool := true              -- false: create_props_metadata raises
  values : Arr
  missing : Option Arr
  data : Option Arr
deriving Repr

structure G where
  idsOk : Bool := true               -- node/edge id dtypes equal and integer
  nodeIds : Arr
  edgeIds : Arr
  nodeProps : Option (List PropA)
  edgeProps : Option (List PropA)
  geff : String                      -- the metadata document written at the end
  valid : Bool                       -- verdict of validate_structure on the completed store
deriving Repr

/-! ## zarr operations as programs -/

/-- `delete_dir(p)` -/
def deleteDir (kind : Kind) (p : List String) : Prog Unit := do
  let kv ← look
  match kind with
  | .mem => emit ((kv.filter (fun e => under p e.1)).map (fun e => Op.del e.1))
  | _ => if kv.any (fun e => under p e.1) then emit [.delPrefix p] else Prog.pure ()

/-- `zarr.open_group(store, mode="a", zarr_format=f)`: create the root group if it is not there -/
def setupZarrGroup (d : Docs) (f : Fmt) : Prog Unit := do
  let kv ← look
  if has kv (groupKey f []) then Prog.pure ()
  else emit ((groupDocs d f []).map (fun e => Op.set e.1 e.2))

/-- the metadata documents of an array at `p` (format 2: `.zarray` then `.zattrs`) -/
def arrayMetaOps (d : Docs) (f : Fmt) (p : List String) (a : Arr) : List Op :=
  match f with
  | .v2 => [.set ⟨p, .zarray⟩ (.raw a.mdoc), .set ⟨p, .zattrs⟩ (.raw d.zattrs)]
  | .v3 => [.set ⟨p, .json⟩ (.raw a.mdoc)]

/-- the chunk writes of an array at `p`; a chunk equal to the fill value is deleted, not written -/
def chunkOps (p : List String) (a : Arr) : List Op :=
  a.chunks.map (fun c => match c.2 with
    | some b => Op.set ⟨p, .chunk c.1⟩ (.raw b)
    | none => Op.del ⟨p, .chunk c.1⟩)

/-- `group[p] = data`: overwrite-create an array -/
def createArray (d : Docs) (kind : Kind) (f : Fmt) (p : List String) (a : Arr) : Prog Unit :=
  if !a.writable then raise (.other "zarr rejects dtype") else do
  deleteDir kind p
  emit (arrayMetaOps d f p a)
  emit (ancestorsNx d f p)
  emit (chunkOps p a)

/-- `require_group` / `create_group` of a group that is not there yet; `exclusive`: fail if a node exists -/
def createGroup (d : Docs) (f : Fmt) (p : List String) (exclusive : Bool) : Prog Unit := do
  let kv ← look
  if has kv (groupKey f p) || has kv (arrayKey f p) then
    if exclusive then raise (.other "ContainsGroupError") else Prog.pure ()
  else do
    emit ((groupDocs d f p).map (fun e => Op.set e.1 e.2))
    emit (ancestorsNx d f p)

/-! ## geff's functions -/

/-- `check_for_geff` (after the D13 / path repair: read-only, format detected) -/
def checkForGeff (kind : Kind) (kv : KV) : Bool :=
  match rootGroupFmt kv with
  | none => kind = .path && !kv.isEmpty      -- an existing path that is not a zarr group is occupied
  | some f =>
    (geffAttrIn f kv).isSome ||
      (kind = .path && (memberIn f kv NODES || memberIn f kv EDGES))

/-- `del root.attrs["geff"]` -/
def delGeffAttr (d : Docs) (f : Fmt) : Prog Unit := do
  let kv ← look
  match get kv (rootDocKey f) with
  | some (.root (some _) o) => emit (rootMetaOps d f (.root none o))
  | _ => raise (.other "KeyError")

/-- `delete_geff(store, zarr_format=f)` -/
def deleteRoot (d : Docs) (kind : Kind) (f : Fmt) : Prog Unit := do
  let kv ← look
  if (members f kv).isEmpty then
    match kind with
    | .path => emit [.clear]        -- shutil.rmtree(store)
    | _ => delGeffAttr d f          -- "Cannot delete root zarr directory": only the attribute
  else delGeffAttr d f

def deleteGeff (d : Docs) (kind : Kind) (f : Fmt) : Prog Unit := do
  setupZarrGroup d f
  deleteDir kind [NODES]
  deleteDir kind [EDGES]
  deleteRoot d kind f

/-- `write_id_arrays` -/
def writeIdArrays (d : Docs) (kind : Kind) (f : Fmt) (g : G) : Prog Unit :=
  if !g.idsOk then raise .typeError else do
  setupZarrGroup d f
  createArray d kind f [NODES, IDS] g.nodeIds
  createArray d kind f [EDGES, IDS] g.edgeIds

/-- one iteration of the loop of `write_props_arrays` -/
def createOptArray (d : Docs) (kind : Kind) (f : Fmt) (p : List String) : Option Arr → Prog Unit
  | some a => createArray d kind f p a
  | none => Prog.pure ()

def writeProp (d : Docs) (kind : Kind) (f : Fmt) (grp : String) (p : PropA) : Prog Unit :=
  if !p.metaOk then raise .valueError else do
  createGroup d f [grp, PROPS, p.name] true
  createArray d kind f [grp, PROPS, p.name, VALUES] p.values
  createOptArray d kind f [grp, PROPS, p.name, MISSING] p.missing
  createOptArray d kind f [grp, PROPS, p.name, DATA] p.data

/-- `write_props_arrays` -/
def writePropsArrays (d : Docs) (kind : Kind) (f : Fmt) (grp : String) (ps : List PropA) : Prog Unit := do
  setupZarrGroup d f
  createGroup d f [grp, PROPS] false
  forEach (writeProp d kind f grp) ps

/-- `GeffMetadata.write`: `zarr.open_group(store)` (format detected) then `attrs["geff"] = …` -/
def metadataWrite (d : Docs) (geff : String) : Prog Unit := do
  let kv ← look
  match rootGroupFmt kv with
  | some f => emit (rootMetaOps d f (.root (some geff) (otherAttrsIn d f kv)))
  | none => emit (rootMetaOps d .v3 (.root (some geff) d.emptyOther))

/-- everything `write_arrays` does between the guard and validation -/
def writeOptProps (d : Docs) (kind : Kind) (f : Fmt) (grp : String) : Option (List PropA) → Prog Unit
  | some ps => writePropsArrays d kind f grp ps
  | none => Prog.pure ()

/-- the arrays: everything `write_arrays` writes before the metadata -/
def writeData (d : Docs) (kind : Kind) (f : Fmt) (g : G) : Prog Unit := do
  writeIdArrays d kind f g
  writeOptProps d kind f NODES g.nodeProps
  writeOptProps d kind f EDGES g.edgeProps

def writeBody (d : Docs) (kind : Kind) (f : Fmt) (g : G) : Prog Unit := do
  writeData d kind f g
  metadataWrite d g.geff

/-- validation and the clean-up handler of `write_arrays` -/
def validateAndCleanup (d : Docs) (kind : Kind) (f : Fmt) (g : G) (validate : Bool) : Prog Unit :=
  if validate && !g.valid then do
    attempt (deleteGeff d kind f)
    raise .valueError
  else Prog.pure ()

/-- the guard shared by every entry point -/
def guard (d : Docs) (kind : Kind) (f : Fmt) (overwrite : Bool) : Prog Unit := do
  let kv ← look
  if checkForGeff kind kv then
    if overwrite then deleteGeff d kind f else raise .fileExists
  else Prog.pure ()

/-- `write_arrays` -/
def writeArrays (d : Docs) (kind : Kind) (f : Fmt) (g : G) (overwrite validate : Bool) : Prog Unit := do
  guard d kind f overwrite
  writeBody d kind f g
  validateAndCleanup d kind f g validate

/-- `write_dicts` (no `overwrite` parameter) -/
def writeDicts (d : Docs) (kind : Kind) (f : Fmt) (g : G) (validate : Bool) : Prog Unit :=
  writeArrays d kind f g false validate

/-- `geff.write`, `from_ctc_to_geff`, `from_trackmate_xml_to_geff`: their own guard, then a backend /
`write_arrays` call that never passes `overwrite` -/
def apiWrite (d : Docs) (kind : Kind) (f : Fmt) (g : G) (overwrite validate : Bool) : Prog Unit := do
  guard d kind f overwrite
  writeArrays d kind f g false validate

/-! ## the trace split into phases -/

def isOk {α} : Except Outcome α → Bool
  | .ok _ => true
  | .error _ => false

/-- the exception a result carries, if any -/
def errOf {α} : Except Outcome α → Option Outcome
  | .ok _ => none
  | .error e => some e

/-- the trace of `write_arrays` split into its phases: `D` guard (deletion of the old geff), `W` the
arrays, `C` the metadata write (commit), `X` the clean-up after a failed validation -/
structure Phases where
  D : List Op
  W : List Op
  C : List Op
  X : List Op
  committed : Bool

def phases (d : Docs) (kind : Kind) (f : Fmt) (g : G) (ow va : Bool) (kv₀ : KV) : Phases :=
  let rD := guard d kind f ow kv₀
  let s1 := run kv₀ rD.ops
  let rW := writeData d kind f g s1
  let s2 := run s1 rW.ops
  let rC := metadataWrite d g.geff s2
  let s3 := run s2 rC.ops
  if !isOk rD.val then ⟨rD.ops, [], [], [], false⟩
  else if !isOk rW.val then ⟨rD.ops, rW.ops, [], [], false⟩
  else ⟨rD.ops, rW.ops, rC.ops, (validateAndCleanup d kind f g va s3).ops, true⟩


/-- `geff.write` / converters: the outer guard, then the phases of the nested `write_arrays` -/
def apiPhases (d : Docs) (kind : Kind) (f : Fmt) (g : G) (ow va : Bool) (kv₀ : KV) : Phases :=
  let rD := guard d kind f ow kv₀
  if !isOk rD.val then ⟨rD.ops, [], [], [], false⟩
  else
    let P := phases d kind f g false va (run kv₀ rD.ops)
    ⟨rD.ops ++ P.D, P.W, P.C, P.X, P.committed⟩

/-! ## what a reader makes of a store -/

/-- necessary for `validate_structure` / `read_to_memory` to accept a store of format `f` -/
def recognised (f : Fmt) (kv : KV) : Bool :=
  (geffAttrIn f kv).isSome && has kv (groupKey f []) &&
  has kv (groupKey f [NODES]) && has kv (arrayKey f [NODES, IDS]) &&
  has kv (groupKey f [EDGES]) && has kv (arrayKey f [EDGES, IDS])

/-- does the key belong to geff (lies under `nodes/` or `edges/`) -/
def owned (k : Key) : Bool := k.path.head? = some NODES || k.path.head? = some EDGES

/-- is the key one of the root group's own documents -/
def isRootKey (k : Key) : Bool := k.path.isEmpty

/-- the geff-controlled keys with their documents, in store order -/
def ownedPart (kv : KV) : KV := kv.filter (fun e => owned e.1)

/-- foreign members, byte for byte -/
def foreignPart (kv : KV) : KV := kv.filter (fun e => !owned e.1 && !isRootKey e.1)

/-- everything a geff reader looks at: the `geff` attribute and the geff-controlled keys -/
def geffView (f : Fmt) (kv : KV) : Option String × KV := (geffAttrIn f kv, ownedPart kv)

end Geff.KV
