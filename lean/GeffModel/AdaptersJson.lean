import GeffModel.DictsJson
import GeffModel.Adapters
/-! JSON transport of the adapter model's answers (driver side only; nothing here is reasoned about). -/
namespace Geff.AdaptersJson
open Lean Geff.Np Geff.Dicts Geff.Backends Geff.Adapters Geff.DictsJson Geff.Proto

def aerrName : AErr → String
  | .keyError => "KeyError" | .indexError => "IndexError" | .valueError => "ValueError"
  | .attributeError => "AttributeError" | .overflowError => "OverflowError"
  | .noEdge => "NoEdgeBetweenNodes" | .missingEndpoint => "MissingEndpoint"

def out {α : Type} (f : α → Json) : Out α → Json
  | .ok a => Json.mkObj [("ok", f a)]
  | .error e => Json.mkObj [("exc", Json.str (aerrName e))]

def idsJson (l : List Int) : Json := Json.arr (l.map idStr).toArray
def pairsJson (l : List (Int × Int)) : Json := Json.arr (l.map fun e => Json.arr #[idStr e.1, idStr e.2]).toArray

/-- every question of the request put to one adapter -/
def answers (a : Adapter) (md : AMeta) (nn : List String) (ni : List Int) (en : List String) (ee : List (Int × Int)) : Json :=
  Json.mkObj [
    ("node_ids", out idsJson a.getNodeIds),
    ("edge_ids", out pairsJson a.getEdgeIds),
    ("hn", Json.arr (nn.map fun n => Json.arr (ni.map fun i => out Json.bool (a.hasNodeProp md n i)).toArray).toArray),
    ("gn", Json.arr (nn.map fun n => Json.arr (ni.map fun i => out pyToJson (a.getNodeProp md n i)).toArray).toArray),
    ("he", Json.arr (en.map fun n => Json.arr (ee.map fun e => out Json.bool (a.hasEdgeProp md n e)).toArray).toArray),
    ("ge", Json.arr (en.map fun n => Json.arr (ee.map fun e => out pyToJson (a.getEdgeProp md n e)).toArray).toArray)]

/-- construct through one backend, then the adapter's answers (or the construct's exception) -/
def viaBackend {γ : Type} (c : Except Err γ) (ad : γ → Adapter) (md : AMeta) (nn : List String) (ni : List Int)
    (en : List String) (ee : List (Int × Int)) : Json :=
  match c with
  | .ok g => Json.mkObj [("ok", answers (ad g) md nn ni en ee)]
  | .error (.unmodelled w) => Json.mkObj [("unmodelled", Json.str w)]
  | .error e => Json.mkObj [("exc", Json.str (errName e))]

/-- request `{"op":"adapter","m":M,"axes":[…]|null,"md_axes":[…]|null,"nn":[…],"ni":[…],"en":[…],"ee":[[u,v]…]}`:
`axes` = the axis names `construct` sees, `md_axes` = those of the `metadata` argument of the adapter calls -/
def handleAdapter (j : Json) : Except String Json := do
  let m ← memOfJson (← j.getObjVal? "m")
  let optStrs (k : String) : Except String (Option (List String)) :=
    match j.getObjVal? k with
    | .ok Json.null => pure none
    | .ok a => do pure (some (← strList a))
    | .error _ => pure none
  let axes ← optStrs "axes"
  let md : AMeta := ⟨← optStrs "md_axes"⟩
  let nn ← strList (← j.getObjVal? "nn")
  let ni ← getIntList (← j.getObjVal? "ni")
  let en ← strList (← j.getObjVal? "en")
  let ee ← getIntPairs (← j.getObjVal? "ee")
  return Json.mkObj [
    ("nx", viaBackend (nxConstruct m) nxAdapter md nn ni en ee),
    ("rx", viaBackend (rxConstruct m) rxAdapter md nn ni en ee),
    ("sg", viaBackend (sgConstruct m axes) sgAdapter md nn ni en ee)]

/-- request `{"op":"rxAdapter","g":RX,"nn","ni","en","ee"}`: the adapter of a rustworkx graph that was not built by
`construct` (index holes, no `to_rx_id_map`) -/
def handleRxAdapter (j : Json) : Except String Json := do
  let g ← rxOfJson (← j.getObjVal? "g")
  let nn ← strList (← j.getObjVal? "nn")
  let ni ← getIntList (← j.getObjVal? "ni")
  let en ← strList (← j.getObjVal? "en")
  let ee ← getIntPairs (← j.getObjVal? "ee")
  return answers (rxAdapter g) ⟨none⟩ nn ni en ee

end Geff.AdaptersJson
