import GeffModel.MockData
/-! # Run-time library for the source-translated mock-data generators (translator T24)

`harness/translators/t24_pydo_mock_data.py` turns the statements of `geff/testing/data.py`
(`create_dummy_in_mem_geff` around the edge loops — which stay translator T9's —, its nested
`_add_axis`, `create_mock_geff`, the `create_simple_*` wrappers and `create_empty_geff`) into Lean
`do`-notation in the `Geff.MockData.Outcome` monad.  Everything the generated code calls is defined
here, **from the types and primitives of the existing C20 model** (`GeffModel/MockData.lean`): one
small function per numpy / Python / geff_spec operation the source uses, returning an explicit
outcome where Python can raise.  The generated definitions live in `Gen/MockData.lean` and are proved
equal to the hand-written model in `GeffProofs/MockDataGen.lean`.

What the primitives assume (tied by the C20 correspondence, which runs the model the generated code
is proved equal to against the implementation on every case):
* a numpy array is `(dtype name, len, content)`; float contents are never computed:
  `np.linspace(a, b, n, dtype)` is the symbolic `Values.linspace a b n` with the literals as they
  are written in the source, integer and string patterns are exact;
* `np.array(list_of_pairs, dtype)` has shape `(k, 2)`, and shape `(0,)` for the empty list;
  `.reshape((0, 2))` raises `ValueError` unless the array is empty;
* `a.min()` / `a.max()` raise `ValueError` on an empty array (numeric dtypes only: string axis dtypes
  are outside the model, as in `GeffModel/MockData.lean`);
* an object array is a list of slots (`None` until assigned); the only object arrays the model can
  name are the generator's own cubes (`Values.cubes n`: slot `i` = `np.ones((i,i,i), uint64) * i`) —
  anything else is the outcome `other "unmodelled: …"`, which the equality theorem shows unreachable;
* `create_props_metadata` (geff_spec, owned by C10/C01): dtype of a fixed-length array = its dtype
  name; of a var-length array = the dtype of element 0, `int64` for an empty object array when
  defect D15 is repaired on the tree under test (`emptyVlenOk`, measured by the harness), else
  `IndexError`;
* `create_or_update_metadata(None, directed, axes)` / `add_or_update_props_metadata` on a fresh
  metadata object: a dict keyed by identifier, later entries replace earlier ones;
* `write_arrays(store, **geff)` on a fresh `MemoryStore` records the geff it was handed (that the
  store then *denotes* it is C01, discharged in `GeffProps/C20Links.lean`).
Core Lean only. -/
namespace Geff.PyDoMock
open Geff.MockData

def raiseValueError {α : Type} : Outcome α := .valueError
def raiseTypeError {α : Type} : Outcome α := .other "TypeError"

/-- the `node_axis_dtypes` TypedDict -/
structure AxisDtypes where
  position : String
  time : String
deriving Repr, DecidableEq

/-- `np.ones(shape, dtype) * fill` -/
structure Elem where
  shape : List Nat
  dtype : String
  fill : Int
deriving Repr, DecidableEq

inductive Content where
  | vals (v : Values)
  | obj (slots : List (Option Elem))
deriving Repr, DecidableEq

/-- a 1-D numpy array as far as the generators look at it -/
structure Arr where
  dtype : String
  len : Nat
  content : Content
deriving Repr, DecidableEq

/-- placeholder of a local that Python leaves unbound until every branch of an `if` has assigned it
(the translator checks the definite assignment; never observable) -/
instance : Inhabited Arr := ⟨⟨"", 0, .vals (.ints [])⟩⟩

/-- the `(k, 2)` edge array -/
structure EdgeArr where
  dtype : String
  rows : List (Int × Int)
  shape : List Nat
deriving Repr, DecidableEq

/-- the value `values.min()` stands for (never computed) -/
inductive Bound where
  | minOf (a : Arr)
  | maxOf (a : Arr)
deriving Repr, DecidableEq

abbrev PropMeta := String × MetaOut
abbrev PyKey := Option String
abbrev Mask := List Bool

/-- `metadata` under construction -/
structure MetaAcc where
  directed : Bool
  axes : List AxisOut
  nodeMeta : Dict MetaOut
  edgeMeta : Dict MetaOut
deriving Repr, DecidableEq

/-- a `zarr.storage.MemoryStore`: the geffs written into it, in order -/
structure MemStore where
  written : List Geff
deriving Repr, DecidableEq

/-! ## Python built-ins -/

/-- `a // b` on non-negative ints -/
def pyFloorDiv (a b : Nat) : Outcome Nat := if b = 0 then .other "ZeroDivisionError" else .ok (a / b)

/-- `[f(x) for x in l]` where `f` may raise -/
def compM {α β : Type} (f : α → Outcome β) : List α → Outcome (List β)
  | [] => .ok []
  | a :: l => match f a with
    | .ok b => (match compM f l with
      | .ok bs => .ok (b :: bs)
      | .valueError => .valueError
      | .other n => .other n)
    | .valueError => .valueError
    | .other n => .other n

/-- `d[k]` -/
def dictGetItem {β : Type} (d : Dict β) (k : String) : Outcome β :=
  match dictGet? d k with
  | some v => .ok v
  | none => .other "KeyError"

/-! ## the `extra_*_props` arguments -/

def Extra.isNone : Extra → Bool | .none => true | _ => false
/-- `isinstance(x, dict)` -/
def Extra.isDict : Extra → Bool | .dict _ => true | _ => false
/-- `x.items()` -/
def extraItems : Extra → Outcome (List (PyKey × Req))
  | .dict l => .ok l
  | _ => .other "AttributeError"
/-- `if not isinstance(k, str): raise …` narrows the key to a `str` -/
def narrowStr (k : PyKey) (otherwise : Outcome String) : Outcome String :=
  match k with
  | some s => .ok s
  | none => otherwise
def Req.isStr : Req → Bool | .auto _ => true | _ => false
def Req.isNdarray : Req → Bool | .arr _ _ _ => true | _ => false
/-- a value that passed `isinstance(v, str)`, used as a string -/
def Req.str : Req → Outcome String
  | .auto d => .ok d
  | _ => .other "unmodelled: value used as a str without being one"
/-- a value that passed `isinstance(v, np.ndarray)`, used as an array -/
def Req.arr' : Req → Outcome Arr
  | .arr d l tag => .ok { dtype := d, len := l, content := .vals (.given tag) }
  | _ => .other "unmodelled: value used as an ndarray without being one"
/-- `len(v)` -/
def Req.pyLen : Req → Outcome Nat
  | .auto d => .ok d.length
  | .arr _ l _ => .ok l
  | .bad => .other "TypeError"

/-! ## numpy -/

def natInts (l : List Nat) : List Int := l.map (fun (i : Nat) => (i : Int))

/-- `np.arange(n, dtype=d)` -/
def npArange (n : Nat) (d : String) : Arr :=
  { dtype := npName d, len := n, content := .vals (.ints (natInts (List.range n))) }
/-- `np.array(list_of_ints, dtype=d)` -/
def npArrayInts (l : List Nat) (d : String) : Arr :=
  { dtype := npName d, len := l.length, content := .vals (.ints (natInts l)) }
/-- `np.array(list_of_strs, dtype=d)` -/
def npArrayStrs (l : List String) (d : String) : Arr :=
  { dtype := npName d, len := l.length, content := .vals (.strs l) }
/-- `np.linspace(a, b, n, dtype=d)`; `a`, `b` are the literals of the source text -/
def npLinspace (a b : String) (n : Nat) (d : String) : Arr :=
  { dtype := npName d, len := n, content := .vals (.linspace a b n) }
/-- `np.empty(shape=(n,), dtype=np.object_)` -/
def npEmptyObj (n : Nat) : Arr := { dtype := "object", len := n, content := .obj (List.replicate n none) }
/-- `np.ones(shape=s, dtype=d)` -/
def npOnes (s : List Nat) (d : String) : Elem := { shape := s, dtype := npName d, fill := 1 }
/-- `elem * k` -/
def Elem.times (e : Elem) (k : Nat) : Elem := { e with fill := e.fill * (k : Int) }
/-- `values[i] = elem` on a 1-D object array -/
def setItemObj (a : Arr) (i : Nat) (e : Elem) : Outcome Arr :=
  match a.content with
  | .obj slots => if i < slots.length then .ok { a with content := .obj (slots.set i (some e)) } else .other "IndexError"
  | .vals _ => .other "unmodelled: element assignment into a non-object array"
/-- `np.zeros(n, dtype=np.bool_)` -/
def npZerosBool (n : Nat) : Mask := List.replicate n false
/-- `mask[i] = 1` -/
def setItemMask (m : Mask) (i : Nat) : Outcome Mask :=
  if i < m.length then .ok (m.set i true) else .other "IndexError"
/-- `mask[::2] = 1` -/
def setEveryOther (m : Mask) : Mask := (List.range m.length).map (fun i => if i % 2 == 0 then true else m.getD i false)
/-- `a.min()` / `a.max()` -/
def arrMin (a : Arr) : Outcome Bound := if a.len = 0 then .valueError else .ok (.minOf a)
def arrMax (a : Arr) : Outcome Bound := if a.len = 0 then .valueError else .ok (.maxOf a)

/-- `np.array(list_of_pairs, dtype=d)` -/
def npArrayPairs (l : List (Int × Int)) (d : String) : EdgeArr :=
  { dtype := npName d, rows := l, shape := if l.isEmpty then [0] else [l.length, 2] }
/-- `e.shape[0]` -/
def EdgeArr.shape0 (e : EdgeArr) : Outcome Nat :=
  match e.shape with
  | [] => .other "IndexError"
  | k :: _ => .ok k
/-- `e.reshape((0, 2))` -/
def EdgeArr.reshape02 (e : EdgeArr) : Outcome EdgeArr :=
  if e.rows.isEmpty then .ok { e with shape := [0, 2] } else .valueError
/-- `len(e)` -/
def EdgeArr.pyLen (e : EdgeArr) : Outcome Nat :=
  match e.shape with
  | [] => .other "TypeError"
  | k :: _ => .ok k

/-! ## property dicts, axes, metadata -/

/-- the one object array the model names: slot `i` = `np.ones((i, i, i), uint64) * i` -/
def cubeSlots (n : Nat) : List (Option Elem) :=
  (List.range n).map (fun i => some { shape := [i, i, i], dtype := "uint64", fill := (i : Int) })

/-- `{"values": values, "missing": missing}` -/
def mkPropDict (values : Arr) (missing : Option Mask) : Outcome PropOut :=
  match values.content with
  | .vals v => .ok { dtype := values.dtype, len := values.len, varlength := false, missing := missing, values := v }
  | .obj slots =>
    if slots = cubeSlots values.len ∧ values.dtype = "object" then
      .ok { dtype := "object", len := values.len, varlength := true, missing := missing, values := .cubes values.len }
    else .other "unmodelled: an object array other than the generator's cubes"

/-- `Axis(name=…, type=…, unit=…, min=…, max=…)` -/
def mkAxis (name type unit : String) (mn mx : Option Bound) : AxisOut :=
  { name := name, type := type, unit := unit, hasMinMax := mn.isSome && mx.isSome }

/-- dtype of element 0 of a var-length property the model can name -/
def elemDtype : Values → String
  | .cubes _ => "uint64"
  | _ => "object"

/-- `create_props_metadata(identifier, prop_data, unit)` -/
def createPropsMetadata (emptyVlenOk : Bool) (identifier : String) (pd : PropOut) (unit : Option String) :
    Outcome PropMeta :=
  if pd.varlength then
    if pd.len = 0 then
      (if emptyVlenOk then .ok (identifier, { dtype := "int64", varlength := true, unit := unit })
       else .other "IndexError")
    else .ok (identifier, { dtype := elemDtype pd.values, varlength := true, unit := unit })
  else .ok (identifier, { dtype := pd.dtype, varlength := false, unit := unit })

/-- `create_or_update_metadata(metadata=None, is_directed=d, axes=axes)` -/
def createOrUpdateMetadata (directed : Bool) (axes : List AxisOut) : MetaAcc :=
  { directed := directed, axes := axes, nodeMeta := [], edgeMeta := [] }

/-- `add_or_update_props_metadata(metadata, props_md, c_type)` -/
def addOrUpdatePropsMetadata (md : MetaAcc) (l : List PropMeta) (cType : String) : Outcome MetaAcc :=
  if cType == "node" then .ok { md with nodeMeta := l.foldl (fun d kv => dictSet d kv.1 kv.2) md.nodeMeta }
  else if cType == "edge" then .ok { md with edgeMeta := l.foldl (fun d kv => dictSet d kv.1 kv.2) md.edgeMeta }
  else .valueError

/-- the returned `InMemoryGeff` dict: node ids must be `np.arange(n, dtype)` and the edge array a
`(k, 2)` array of the same dtype (what `Geff` can express) -/
def mkInMemoryGeff (md : MetaAcc) (nodes : Arr) (edges : EdgeArr) (nodeProps edgeProps : Dict PropOut) : Outcome Geff :=
  if nodes.content = .vals (.ints (natInts (List.range nodes.len))) ∧ edges.dtype = nodes.dtype ∧
      edges.shape = [edges.rows.length, 2] then
    .ok { numNodes := nodes.len, idDtype := nodes.dtype, edges := edges.rows, directed := md.directed,
          axes := md.axes, nodeProps := nodeProps, edgeProps := edgeProps,
          nodeMeta := md.nodeMeta, edgeMeta := md.edgeMeta }
  else .other "unmodelled: id arrays that are not arange / an (E, 2) array of the id dtype"

/-- `zarr.storage.MemoryStore()` -/
def MemStore.new : MemStore := ⟨[]⟩
/-- `write_arrays(store, **geff)` -/
def writeArraysInto (s : MemStore) (g : Geff) : Outcome MemStore :=
  match writeArrays g with
  | .ok w => .ok ⟨s.written ++ [w.geff]⟩
  | .valueError => .valueError
  | .other n => .other n

end Geff.PyDoMock
