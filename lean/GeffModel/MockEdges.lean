/-! # Mock edge generator — hand-written reference model and specification deciders (C20)

`gen directed n m` is the *reference* shape of the repaired edge generator of
`geff.testing.data.create_dummy_in_mem_geff`: enumerate the pairs `(i, i+d)` by offset
`d = 1 … n-1` (so the chain `0-1-2-…` comes first), append the reversed pairs when the graph is
directed, keep the first `min m maxPossible`.  The function that is actually *translated from the
source* is `Gen.MockEdges.gen` (translator T9); `GeffProofs/MockEdges.lean` proves the two equal
for all `directed n m`, and the properties of C20 are proved about this one.

`edgesOk` is the executable specification (the S-oracle) that the harness evaluates on the edge
list the implementation really returned.  Core Lean only. -/
namespace Geff.MockEdges

/-- all pairs (i, i+d) with 1 ≤ d, i + d < n, ordered by offset d then i (the chain comes first) -/
def fwd (n : Nat) : List (Nat × Nat) :=
  (List.range (n - 1)).flatMap (fun d' => (List.range (n - (d' + 1))).map (fun i => (i, i + (d' + 1))))

/-- `num_nodes * (num_nodes - 1) // 2 if not directed else num_nodes * (num_nodes - 1)` -/
def maxPossible (directed : Bool) (n : Nat) : Nat :=
  if directed then n * (n - 1) else n * (n - 1) / 2

def swap (e : Nat × Nat) : Nat × Nat := (e.2, e.1)

def all (directed : Bool) (n : Nat) : List (Nat × Nat) :=
  if directed then fwd n ++ (fwd n).map swap else fwd n

def gen (directed : Bool) (n m : Nat) : List (Nat × Nat) :=
  (all directed n).take (min m (maxPossible directed n))

/-- edge key: the ordered pair when directed, the unordered (sorted) pair otherwise -/
def key (directed : Bool) (e : Nat × Nat) : Nat × Nat :=
  if directed then e else (min e.1 e.2, max e.1 e.2)

/-- `l` has no repeated element (executable) -/
def nodupB : List (Nat × Nat) → Bool
  | [] => true
  | x :: t => !t.contains x && nodupB t

/-- the specification of C20 for an edge list `es` produced for `(directed, n, m)` -/
def edgesOk (directed : Bool) (n m : Nat) (es : List (Nat × Nat)) : Bool :=
  es.length == min m (maxPossible directed n) &&
  es.all (fun e => decide (e.1 < n) && decide (e.2 < n) && decide (e.1 ≠ e.2)) &&
  nodupB (es.map (key directed))

end Geff.MockEdges
