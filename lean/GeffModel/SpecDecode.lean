import GeffModel.Store
/-! # The graph a zarr hierarchy denotes according to `docs/specification.md` (C02)

Written from the specification alone: it uses the **literal** names of the document (`nodes`,
`edges`, `ids`, `props`, `values`, `missing`, `data`, the `geff` attribute) — not `Gen.Paths` — and
shares no definition with the model of the library's reader (`GeffModel/WriteRead.lean`): it imports
only `Np` and `Store`.  `denote s = none` means: `s` is not laid out as the specification says.

What the document says, clause by clause (quotes abridged):
* "A geff group is identified by the presence of a `geff` key in the .zattrs" with the metadata
  (here: `directed`, the property metadata with `dtype` and `varlength`, default `false`);
* "must contain a `nodes` group and an `edges` group";
* "`nodes/ids` is a 1D array of node IDs … must have an integer dtype";
* "`edges/ids` is a 2D array with the same dtype … shape `(E, 2)`"; each row is one edge `(source, target)`;
* "`nodes/props` is optional and will contain one or more node property groups, each with a
  `values` array and an optional `missing` array"; likewise `edges/props` ("can be absent");
* "the first dimension of `values` must have the same length as the ids array … each row stores the
  property for the node at that index";
* "`missing` is an optional one dimensional boolean array … a 1 indicates that the value is None
  and the value in `values` at that index should be ignored; if not present all nodes have values";
* "node_props_metadata: … there must be one entry for each node property", its `dtype` the data type;
* variable length: "`data` will contain a 1D flattened array of the actual values for all the nodes;
  `values` will contain the offset and shape of the relevant section of data" — one row
  `(offset, *shape)` per element, `values` of shape `(N, ndim + 1)`.

Not required here although the document says "must"/"should" (they are data validity, C12, and the
library's reader does not depend on them): unique node ids, edge endpoints among the node ids, no
repeated edges / self loops.  Foreign attributes, foreign siblings of `nodes`/`edges`, and metadata
entries without a property group are ignored. -/
namespace Geff.Spec
open Geff.Np Geff.Store

/-- the value of one property on one graph element: `none` = missing, else an array (a scalar is a
rank-0 array) -/
abbrev Cell := Option NdArr

structure PropD where
  varlength : Bool
  rows : List Cell
deriving DecidableEq, Repr, Inhabited

/-- an attributed graph: what a geff *means* -/
structure Graph where
  directed : Bool
  idDtype : Dtype
  nodes : List Val
  edges : List (Val × Val)
  nodeProps : List (String × PropD)
  edgeProps : List (String × PropD)
deriving DecidableEq, Repr, Inhabited

def find {β} (k : String) (l : List (String × β)) : Option β :=
  match l with
  | [] => none
  | (k', v) :: t => if k' = k then some v else find k t

def arrayAt (s : St) (p : Path) : Option NdArr :=
  match get s p with
  | some (.array a) => some a
  | _ => none

def groupAt (s : St) (p : Path) : Bool :=
  match get s p with
  | some (.group _) => true
  | _ => false

def size (shape : List Nat) : Nat := shape.foldl (· * ·) 1

/-- C-order contents agree with the shape -/
def wellShaped (a : NdArr) : Bool := a.flat.length == size a.shape

def pairs : List Val → List (Val × Val)
  | a :: b :: t => (a, b) :: pairs t
  | _ => []

/-- `flat[i*k : (i+1)*k]` for `i = 0 … n-1` -/
def rowsOf (k : Nat) : Nat → List Val → List (List Val)
  | 0, _ => []
  | n + 1, flat => flat.take k :: rowsOf k n (flat.drop k)

def natOf : Val → Option Nat
  | .i v => if 0 ≤ v then some v.toNat else none
  | _ => none

/-- the section of `data` a row `(offset, *shape)` refers to, as an array of that shape -/
def sectionOf (data : NdArr) (row : List Val) : Option NdArr :=
  match row.mapM natOf with
  | some (off :: shape) =>
    let sl := (data.flat.drop off).take (size shape)
    if sl.length = size shape then some { dtype := data.dtype, shape := shape, flat := sl } else none
  | _ => none

def maskBits (missing : Option NdArr) (n : Nat) : Option (List Bool) :=
  match missing with
  | none => some (List.replicate n false)
  | some m =>
    if m.dtype = .bool ∧ m.shape = [n] ∧ wellShaped m then
      m.flat.mapM (fun v => match v with | .b x => some x | _ => none)
    else none

def applyMask (cells : List NdArr) (bits : List Bool) : List Cell :=
  (cells.zip bits).map (fun cb => if cb.2 then none else some cb.1)

def optionalArray (s : St) (p : Path) : Option (Option NdArr) :=
  match get s p with
  | none => some none
  | some (.array a) => some (some a)
  | some (.group _) => none

/-- an ordinary property: `values` has one row per element (`values[i]`, of shape `values.shape[1:]`) and
the dtype the metadata states -/
def denseCells (values : NdArr) (n : Nat) (dt : Dtype) : Option (List NdArr) :=
  match values.shape with
  | n' :: tail =>
    if n' = n ∧ wellShaped values = true ∧ values.dtype = dt then
      some ((rowsOf (size tail) n values.flat).map (fun r => ({ dtype := values.dtype, shape := tail, flat := r } : NdArr)))
    else none
  | [] => none

/-- a variable-length property: `values` is an integer table with one row `(offset, *shape)` per element,
`data` a flat array of the dtype the metadata states; element `i` is the section of `data` its row names -/
def vlenCells (values d : NdArr) (n : Nat) (dt : Dtype) : Option (List NdArr) :=
  match values.shape, d.shape with
  | [n', w], [_] =>
    if n' = n ∧ 1 ≤ w ∧ values.dtype.isInteger = true ∧ wellShaped values = true ∧ wellShaped d = true ∧ d.dtype = dt then
      (rowsOf w n values.flat).mapM (sectionOf d)
    else none
  | _, _ => none

/-- one property group `q` of a graph part with `n` elements, described by the metadata entry `md` -/
def denoteProp (s : St) (q : Path) (n : Nat) (md : PropMeta) : Option PropD :=
  if groupAt s q = false then none else
  match arrayAt s (q ++ ["values"]), optionalArray s (q ++ ["missing"]), optionalArray s (q ++ ["data"]),
      Dtype.ofName? md.dtype with
  | some values, some missing, some data, some dt =>
    match maskBits missing n with
    | none => none
    | some bits =>
      if md.varlength.getD false = true then
        match data with
        | some d => (vlenCells values d n dt).map (fun cells => ⟨true, applyMask cells bits⟩)
        | none => none
      else
        match data with
        | none => (denseCells values n dt).map (fun cells => ⟨false, applyMask cells bits⟩)
        | some _ => none
  | _, _, _, _ => none

def denotePropNamed (s : St) (pre : Path) (n : Nat) (mds : List (String × PropMeta)) (k : String) :
    Option (String × PropD) :=
  match find k mds with
  | some md => (denoteProp s (pre ++ [k]) n md).map (fun p => (k, p))
  | none => none

/-- the `props` group `pre` of a graph part with `n` elements: absent (no properties), or a group
whose members are exactly the property groups, each with its metadata entry -/
def denoteProps (s : St) (pre : Path) (n : Nat) (mds : List (String × PropMeta)) : Option (List (String × PropD)) :=
  match get s pre with
  | none => some []
  | some (.array _) => none
  | some (.group _) => (childNames s pre).mapM (denotePropNamed s pre n mds)

def geffMeta (s : St) : Option GeffAttr :=
  match get s [] with
  | some (.group attrs) =>
    match find "geff" attrs with
    | some (.geff m) => some m
    | _ => none
  | _ => none

/-- ids: `nodes/ids` 1-D of an integer dtype, `edges/ids` of shape `(E, 2)` and the same dtype -/
def idsOK (nid eid : NdArr) (n e : Nat) : Bool :=
  nid.shape == [n] && eid.shape == [e, 2] && nid.dtype.isInteger && eid.dtype == nid.dtype && wellShaped nid && wellShaped eid

/-- **the graph the hierarchy `s` denotes**, `none` when `s` is not laid out as specified -/
def denote (s : St) : Option Graph :=
  match geffMeta s, groupAt s ["nodes"], groupAt s ["edges"], arrayAt s ["nodes", "ids"], arrayAt s ["edges", "ids"] with
  | some m, true, true, some nid, some eid =>
    let n := nid.shape.head?.getD 0
    let e := eid.shape.head?.getD 0
    if idsOK nid eid n e = true then
      match denoteProps s ["nodes", "props"] n m.nodeProps, denoteProps s ["edges", "props"] e m.edgeProps with
      | some np, some ep => some ⟨m.directed, nid.dtype, nid.flat, pairs eid.flat, np, ep⟩
      | _, _ => none
    else none
  | _, _, _, _, _ => none

/-- laid out as the specification says -/
def Conformant (s : St) : Prop := (denote s).isSome = true

end Geff.Spec
