import GeffProps.C10
import GeffProofs.LinkMetaDicts
/-! # C10 ← C03 — "the stored metadata describes the stored arrays", starting from the GRAPH

`GeffProps/C10.lean` states its theorems for `write_dicts` / the networkx and rustworkx writers about property
dicts that are *inputs* of C10's model ("the property dicts that write_dicts builds from per-node dicts are
inputs of the model"), under the hypotheses that their keys are unique (`hnp`, `hep`).  Here those inputs are
**what C03's model of the same writers builds from the attribute dicts of the graph**
(`Geff.Backends.nxWrite` / `rxWrite` = `write_dicts` → `dict_props_to_arr` with numpy's dtype inference,
`_determine_default_value`, the var-length fallback), composed with C10's `nxWrite` in
`Geff.LinkMD.nxWriteGraph` / `rxWriteGraph`.  The key-uniqueness hypotheses are discharged (the names are the
de-duplicated attribute names of the graph), `directed` is the graph's, and the node / edge counts are the
graph's — so the three C10 statements hold for every successful write of every networkx / rustworkx graph,
with no assumption about the arrays in between. -/
namespace GeffProps.C10C03Links
open Geff.Np Geff.MetaW Geff.LinkMD GeffProps.C10

section
variable {κ : Type} [LT κ] [DecidableLT κ] [Min κ] [Max κ] [LE κ] [Std.IsLinearOrder κ] [Std.LawfulOrderMin κ]
  [Std.LawfulOrderMax κ]

/-- the conclusion of C10 for a dict-based backend writer, about the graph's directedness `d`, its number of
nodes `n` and the caller's metadata `md` -/
def Describes (md : Option (Meta κ)) (d : Bool) (n : Nat) (w : Written κ) : Prop :=
  PropsExact (callerNodeProps md) w.md.nodeProps w.nodes ∧
  PropsExact (callerEdgeProps md) w.md.edgeProps w.edges ∧
  w.md.directed = d ∧ w.md.rest = callerRest md ∧ w.md.hintNames = callerHints md ∧
  (0 < n → AxisRange n w)

/-- **C10 from the graph (networkx)** — for every networkx attribute graph `G`, every caller metadata (or none)
whose props-metadata dicts are dicts, every `axis_*` argument and every embedding of numeric leaves into the
ordered coordinate type: if `geff.write(G, …)` succeeds (dict layer, metadata layer and structure validation),
then the arrays C03's dict layer built have exactly the graph's attribute names (`propNames`), and the stored
metadata has exactly one exact entry per stored node / edge property, `directed` = the graph's class, the
caller's data-independent fields unchanged and, for a non-empty graph, every axis range equal to the stored
coordinate's range. -/
theorem C10_from_graph_nx (emb : Val → κ) (version : String) (md : Option (Meta κ)) (ls : AxisLists)
    (G : Geff.Backends.NxGraph) (w : Written κ)
    (hmd : ∀ m, md = some m → DictWF m.nodeProps ∧ DictWF m.edgeProps)
    (h : nxWriteGraph emb version md ls G = .ok w) :
    ∃ mem, Geff.Backends.nxWrite G = .ok mem ∧
      mem.nodeProps.map (·.1) = Geff.Backends.propNames G.nodes ∧
      mem.edgeProps.map (·.1) = Geff.Backends.propNames G.edges ∧
      Describes md G.directed G.nodes.length w := by
  unfold nxWriteGraph at h
  cases hm : Geff.Backends.nxWrite G with
  | error e => simp [hm] at h
  | ok mem =>
    simp only [hm] at h
    obtain ⟨k1, k2, _, l1, l2⟩ := writeDicts_keys G.directed G.nodes G.edges _ _ mem hm
    have hnp : (keys (toPDs emb mem.nodeProps)).Nodup := by
      rw [keys_toPDs, k1]; unfold Geff.Backends.propNames; exact Geff.Backends.nodup_dedup _
    have hep : (keys (toPDs emb mem.edgeProps)).Nodup := by
      rw [keys_toPDs, k2]; unfold Geff.Backends.propNames; exact Geff.Backends.nodup_dedup _
    obtain ⟨a, b, c, d, e, _, _, r⟩ := C10_networkx_rustworkx version md G.directed ls _ _ _ _ w hmd hnp hep h
    exact ⟨mem, rfl, k1, k2, a, b, c, d, e, by rw [← l1]; exact r⟩

/-- **C10 from the graph (rustworkx)** — the same for a rustworkx graph with index holes and an optional
`node_id_dict`: `(nd, ed) = rxDicts g d` is the attribute graph it denotes. -/
theorem C10_from_graph_rx (emb : Val → κ) (version : String) (md : Option (Meta κ)) (ls : AxisLists)
    (g : Geff.Backends.RxGraph) (d : Option (List (Nat × Int))) (w : Written κ)
    (hmd : ∀ m, md = some m → DictWF m.nodeProps ∧ DictWF m.edgeProps)
    (h : rxWriteGraph emb version md ls g d = .ok w) :
    ∃ nd ed mem, Geff.Backends.rxDicts g d = .ok (nd, ed) ∧ Geff.Backends.rxWrite g d = .ok mem ∧
      mem.nodeProps.map (·.1) = Geff.Backends.propNames nd ∧
      mem.edgeProps.map (·.1) = Geff.Backends.propNames ed ∧
      Describes md g.directed nd.length w := by
  unfold rxWriteGraph at h
  cases hm : Geff.Backends.rxWrite g d with
  | error e => simp [hm] at h
  | ok mem =>
    simp only [hm] at h
    unfold Geff.Backends.rxWrite at hm
    cases hd : Geff.Backends.rxDicts g d with
    | error e => simp [hd] at hm
    | ok p =>
      obtain ⟨nd, ed⟩ := p
      simp only [hd] at hm
      obtain ⟨k1, k2, _, l1, l2⟩ := writeDicts_keys g.directed nd ed _ _ mem hm
      have hnp : (keys (toPDs emb mem.nodeProps)).Nodup := by
        rw [keys_toPDs, k1]; unfold Geff.Backends.propNames; exact Geff.Backends.nodup_dedup _
      have hep : (keys (toPDs emb mem.edgeProps)).Nodup := by
        rw [keys_toPDs, k2]; unfold Geff.Backends.propNames; exact Geff.Backends.nodup_dedup _
      obtain ⟨a, b, c, dd, e, _, _, r⟩ := C10_networkx_rustworkx version md g.directed ls _ _ _ _ w hmd hnp hep h
      exact ⟨nd, ed, mem, rfl, rfl, k1, k2, a, b, c, dd, e, by rw [← l1]; exact r⟩

end

/-! ## non-vacuity: C03's example graph `exG` written with C10's metadata model -/

/-- integers embed as themselves; bool as 0/1; other leaves (floats are tokens, never computed on) as 0 -/
def embInt : Val → Int
  | .i x => x
  | .b x => if x then 1 else 0
  | _ => 0

/-- a directed graph with a bool property on two of three nodes and an integer coordinate `t` on all -/
def exG : Geff.Backends.NxGraph :=
  { directed := true,
    nodes := [(5, [("t", .sc (.i 3)), ("f", .sc (.b true))]), (9, [("t", .sc (.i (-1)))]), (7, [("t", .sc (.i 7)), ("f", .sc (.b false))])],
    edges := [((5, 7), [("w", .sc (.i 2))])] }

def exLists : AxisLists :=
  { names := some ["t"], units := none, types := some [some "time"], scales := none, scaledUnits := none, offset := none }

def exW : Option (Written Int) := (nxWriteGraph embInt "1.0" none exLists exG).toOption

/-- the write succeeds; the stored metadata lists exactly `t` (int64) and `f` (bool, with a missing mask in
the store) and the edge property `w`; the `t` axis carries the range −1 … 7 of the stored coordinate -/
example : exW.map (fun w => (keys w.md.nodeProps, keys w.md.edgeProps, w.md.directed)) =
    some (["t", "f"], ["w"], true) := by decide
example : exW.map (fun w => ((lookup "f" w.md.nodeProps).map (·.dtype), (lookup "t" w.md.nodeProps).map (·.dtype))) =
    some (some "bool", some "int64") := by decide
example : exW.map (fun w => w.md.axes.map (·.map fun a => (a.name, a.min, a.max))) =
    some (some [("t", some (-1), some 7)]) := by decide

end GeffProps.C10C03Links
