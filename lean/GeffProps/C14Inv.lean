import GeffProps.C14
/-! # C14 — rejection classes and invariances of the lineage verdict

Property theorems only (second file for C14).

* the three ways of being wrong that the property names — a component *split* over two lineage
  ids, two components *joined* under one id, a lineage *attached to a vertex outside* the node
  list — are each rejected with the offending lineage id(s) in the error list, and every
  rejection is of one of these three kinds (`C14_rejected_classification`);
* the verdict and the error list depend on the edge list only through the weak connectivity
  relation (`C14_errors_congr`): edge direction, edge order, duplicate edges and self loops are
  irrelevant; the verdict does not depend on the order of the node list.

All statements are for every directed graph (cycles, phantom endpoints allowed) and every
labelling, with no bound on sizes. -/
namespace GeffProps.C14
open Geff.Graph Geff.Lineage Relation
variable {α L : Type} [DecidableEq α] [DecidableEq L]

theorem validate_false_of_mem {nl : List (α × L)} {es : List (α × α)} {l : L}
    (h : l ∈ lineageErrors nl es) : validateLineages nl es = false := by
  unfold validateLineages
  cases hE : lineageErrors nl es with
  | nil => rw [hE] at h; simp at h
  | cons a t => rfl

/-- **split**: two nodes of one weakly connected component carry different lineage ids —
rejected, and BOTH ids are named. -/
theorem C14_split_rejected (nl : List (α × L)) (es : List (α × α))
    (huniq : ∀ u l l', (u, l) ∈ nl → (u, l') ∈ nl → l = l')
    {u v : α} {l l' : L} (hu : (u, l) ∈ nl) (hv : (v, l') ∈ nl) (hne : l ≠ l') (hc : Conn es u v) :
    l ∈ lineageErrors nl es ∧ l' ∈ lineageErrors nl es ∧ validateLineages nl es = false := by
  have h1 : l ∈ lineageErrors nl es := by
    refine (C14_errors_exact nl es l).2 ⟨⟨u, hu⟩, ?_⟩
    rintro ⟨r, hr⟩
    have : (v, l) ∈ nl := (hr v).2 (((hr u).1 hu).trans hc)
    exact hne (huniq v l l' this hv)
  have h2 : l' ∈ lineageErrors nl es := by
    refine (C14_errors_exact nl es l').2 ⟨⟨v, hv⟩, ?_⟩
    rintro ⟨r, hr⟩
    have : (u, l') ∈ nl := (hr u).2 (((hr v).1 hv).trans (conn_symm es hc))
    exact hne (huniq u l l' hu this)
  exact ⟨h1, h2, validate_false_of_mem h1⟩

/-- **join**: two nodes that are not weakly connected carry the same lineage id — rejected, and
that id is named (no uniqueness hypothesis needed). -/
theorem C14_join_rejected (nl : List (α × L)) (es : List (α × α))
    {u v : α} {l : L} (hu : (u, l) ∈ nl) (hv : (v, l) ∈ nl) (hnc : ¬ Conn es u v) :
    l ∈ lineageErrors nl es ∧ validateLineages nl es = false := by
  have h1 : l ∈ lineageErrors nl es := by
    refine (C14_errors_exact nl es l).2 ⟨⟨u, hu⟩, ?_⟩
    rintro ⟨r, hr⟩
    exact hnc ((conn_symm es ((hr u).1 hu)).trans ((hr v).1 hv))
  exact ⟨h1, validate_false_of_mem h1⟩

/-- **attached outside**: a node of lineage `l` is weakly connected to a vertex that is not in the
node list (an edge endpoint without a node) — rejected, and `l` is named. -/
theorem C14_outside_rejected (nl : List (α × L)) (es : List (α × α))
    {u x : α} {l : L} (hu : (u, l) ∈ nl) (hc : Conn es u x) (hx : x ∉ nl.map (·.1)) :
    l ∈ lineageErrors nl es ∧ validateLineages nl es = false := by
  have h1 : l ∈ lineageErrors nl es := by
    refine (C14_errors_exact nl es l).2 ⟨⟨u, hu⟩, ?_⟩
    rintro ⟨r, hr⟩
    have : (x, l) ∈ nl := (hr x).2 (((hr u).1 hu).trans hc)
    exact hx (List.mem_map.2 ⟨(x, l), this, rfl⟩)
  exact ⟨h1, validate_false_of_mem h1⟩

/-- **completeness of the three classes**: with unique node ids, every rejection is a split, a
join or an attachment outside the node list. -/
theorem C14_rejected_classification (nl : List (α × L)) (es : List (α × α))
    (huniq : ∀ u l l', (u, l) ∈ nl → (u, l') ∈ nl → l = l')
    (hrej : validateLineages nl es = false) :
    (∃ u v l l', (u, l) ∈ nl ∧ (v, l') ∈ nl ∧ l ≠ l' ∧ Conn es u v) ∨
    (∃ u v l, (u, l) ∈ nl ∧ (v, l) ∈ nl ∧ ¬ Conn es u v) ∨
    (∃ u l x, (u, l) ∈ nl ∧ Conn es u x ∧ x ∉ nl.map (·.1)) := by
  have hns : ¬ Spec nl es := by
    intro hs
    have := (C14_iff nl es huniq).2 hs
    rw [hrej] at this; cases this
  refine Classical.byContradiction fun hno => hns ⟨?_, ?_⟩
  · intro u l v l' hu hv
    constructor
    · rintro rfl
      refine Classical.byContradiction fun hnc => hno (Or.inr (Or.inl ⟨u, v, l, hu, hv, hnc⟩))
    · intro hc
      refine Classical.byContradiction fun hne => hno (Or.inl ⟨u, v, l, l', hu, hv, hne, hc⟩)
  · intro u l x hu hc
    refine Classical.byContradiction fun hx => hno (Or.inr (Or.inr ⟨u, l, x, hu, hc, hx⟩))

/-! ## the verdict depends on the edges only through weak connectivity -/

theorem labelGood_congr (nl : List (α × L)) (es es' : List (α × α))
    (h : ∀ a b, Conn es a b ↔ Conn es' a b) (l : L) : LabelGood nl es l ↔ LabelGood nl es' l := by
  unfold LabelGood
  constructor
  · rintro ⟨r, hr⟩; exact ⟨r, fun x => (hr x).trans (h r x)⟩
  · rintro ⟨r, hr⟩; exact ⟨r, fun x => (hr x).trans (h r x).symm⟩

/-- **C14 (congruence)**: two edge lists with the same weak connectivity relation give the same
error list (same ids, same order) and the same verdict. -/
theorem C14_errors_congr (nl : List (α × L)) (es es' : List (α × α))
    (h : ∀ a b, Conn es a b ↔ Conn es' a b) :
    lineageErrors nl es = lineageErrors nl es' ∧ validateLineages nl es = validateLineages nl es' := by
  have hE : lineageErrors nl es = lineageErrors nl es' := by
    unfold lineageErrors
    apply List.filter_congr
    intro l hl
    have hex : ∃ u, (u, l) ∈ nl := by
      obtain ⟨⟨u, l'⟩, hm, rfl⟩ := List.mem_map.1 ((mem_dedup _ _).1 hl)
      exact ⟨u, hm⟩
    have : labelOk nl es l = labelOk nl es' l := by
      rw [Bool.eq_iff_iff, labelOk_iff nl es l hex, labelOk_iff nl es' l hex]
      exact labelGood_congr nl es es' h l
    rw [this]
  exact ⟨hE, by unfold validateLineages; rw [hE]⟩

theorem conn_mono {es es' : List (α × α)} (h : ∀ a b, Adj es a b → Conn es' a b) {a b : α}
    (hc : Conn es a b) : Conn es' a b := by
  induction hc with
  | refl => exact ReflTransGen.refl
  | tail _ hbc ih => exact ih.trans (h _ _ hbc)

theorem conn_congr_of_adj {es es' : List (α × α)} (h : ∀ a b, Adj es a b ↔ Adj es' a b) (a b : α) :
    Conn es a b ↔ Conn es' a b :=
  ⟨conn_mono fun _ _ hab => ReflTransGen.single ((h _ _).1 hab),
   conn_mono fun _ _ hab => ReflTransGen.single ((h _ _).2 hab)⟩

/-- **direction is irrelevant**: reversing every edge changes nothing (weak connectivity). -/
theorem C14_edge_reverse (nl : List (α × L)) (es : List (α × α)) :
    lineageErrors nl (es.map Prod.swap) = lineageErrors nl es ∧
    validateLineages nl (es.map Prod.swap) = validateLineages nl es := by
  apply C14_errors_congr
  apply conn_congr_of_adj
  intro a b
  unfold Adj
  simp only [List.mem_map, Prod.exists, Prod.swap_prod_mk, Prod.mk.injEq]
  constructor
  · rintro (⟨x, y, hm, rfl, rfl⟩ | ⟨x, y, hm, rfl, rfl⟩)
    · exact Or.inr hm
    · exact Or.inl hm
  · rintro (hm | hm)
    · exact Or.inr ⟨a, b, hm, rfl, rfl⟩
    · exact Or.inl ⟨b, a, hm, rfl, rfl⟩

/-- **order and multiplicity of edges are irrelevant**: two edge lists with the same members
(any permutation, any duplication) give the same error list and verdict. -/
theorem C14_edge_set (nl : List (α × L)) (es es' : List (α × α)) (h : ∀ e, e ∈ es ↔ e ∈ es') :
    lineageErrors nl es = lineageErrors nl es' ∧ validateLineages nl es = validateLineages nl es' := by
  apply C14_errors_congr
  apply conn_congr_of_adj
  intro a b
  unfold Adj
  rw [h (a, b), h (b, a)]

theorem C14_edge_perm (nl : List (α × L)) (es es' : List (α × α)) (h : es.Perm es') :
    lineageErrors nl es = lineageErrors nl es' ∧ validateLineages nl es = validateLineages nl es' :=
  C14_edge_set nl es es' fun _ => h.mem_iff

/-- **self loops are irrelevant** -/
theorem C14_self_loops_irrelevant (nl : List (α × L)) (es : List (α × α)) :
    lineageErrors nl (es.filter fun e => e.1 ≠ e.2) = lineageErrors nl es ∧
    validateLineages nl (es.filter fun e => e.1 ≠ e.2) = validateLineages nl es := by
  apply C14_errors_congr
  intro a b
  constructor
  · apply conn_mono
    intro x y hxy
    apply ReflTransGen.single
    unfold Adj at *
    simp only [List.mem_filter] at hxy
    exact hxy.imp (·.1) (·.1)
  · apply conn_mono
    intro x y hxy
    by_cases hxy' : x = y
    · subst hxy'; exact ReflTransGen.refl
    · apply ReflTransGen.single
      unfold Adj at *
      simp only [List.mem_filter, decide_eq_true_eq, ne_eq]
      rcases hxy with h | h
      · exact Or.inl ⟨h, hxy'⟩
      · exact Or.inr ⟨h, fun e => hxy' e.symm⟩

/-- **order of the node list is irrelevant for the verdict and for the set of named ids**
(the order of the error list follows the first occurrence of each id, so it may change). -/
theorem C14_node_set (nl nl' : List (α × L)) (es : List (α × α)) (h : ∀ p, p ∈ nl ↔ p ∈ nl') :
    (∀ l, l ∈ lineageErrors nl es ↔ l ∈ lineageErrors nl' es) ∧
    validateLineages nl es = validateLineages nl' es := by
  have hmem : ∀ l, l ∈ lineageErrors nl es ↔ l ∈ lineageErrors nl' es := by
    intro l
    rw [C14_errors_exact, C14_errors_exact]
    unfold BadLabel LabelGood
    simp only [h]
  refine ⟨hmem, ?_⟩
  unfold validateLineages
  cases h1 : lineageErrors nl es with
  | nil =>
    cases h2 : lineageErrors nl' es with
    | nil => rfl
    | cons a t =>
      have := (hmem a).2 (by rw [h2]; exact List.mem_cons_self)
      rw [h1] at this; simp at this
  | cons a t =>
    cases h2 : lineageErrors nl' es with
    | nil =>
      have := (hmem a).1 (by rw [h1]; exact List.mem_cons_self)
      rw [h2] at this; simp at this
    | cons b t' => rfl

theorem C14_node_perm (nl nl' : List (α × L)) (es : List (α × α)) (h : nl.Perm nl') :
    (∀ l, l ∈ lineageErrors nl es ↔ l ∈ lineageErrors nl' es) ∧
    validateLineages nl es = validateLineages nl' es :=
  C14_node_set nl nl' es fun _ => h.mem_iff

/-! ## non-vacuity (evaluations of the model; tests, not the unbounded claims) -/
-- split: 1–2 connected, labels 10 / 11 → both named
example : lineageErrors [((1:Nat),(10:Nat)),(2,11),(3,20)] [(1,2)] = [10, 11] := by decide
-- join: 1 and 3 not connected, both 10 → 10 named
example : lineageErrors [((1:Nat),(10:Nat)),(2,10),(3,10)] [(1,2)] = [10] := by decide
-- outside: 2 → 9, 9 has no node → 10 named
example : lineageErrors [((1:Nat),(10:Nat)),(2,10),(3,20)] [(1,2),(2,9)] = [10] := by decide
-- reversal, duplication, self loop: same result on a rejecting instance
example : lineageErrors [((1:Nat),(10:Nat)),(2,11),(3,20)] [(2,1),(2,1),(3,3)] = [10, 11] := by decide

end GeffProps.C14
