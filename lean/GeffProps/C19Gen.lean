import GeffProofs.SegmentationGen
import GeffProps.C19
/-! # C19 on the code as it is written now (translator T13)

`Gen/Segmentation.lean` is regenerated on every run from `geff/validate/segmentation.py`: all five
functions, statement by statement, as Lean `do`-blocks in the `Geff.Seg.Outcome` monad over the
primitives of `GeffModel/PyDoSeg.lean` (early `return` inside `if`/`for`, `enumerate`, `zip`,
truthiness of `axes`, `if scale is None: scale = …`, `if max_bound is not None: … else: …`, chained
comparisons with Python's short circuit, `defaultdict(list)` grouping, f-string messages mapped to
the structured `Msg` constructors, exact dyadic arithmetic; numpy's `take`/indexing defined from
`npTakeLabels`/`npIndex`, i.e. with the wrap-around and the `IndexError`).  This file proves that the
generated functions ARE the hand-written model (`Geff.Seg.*`) every theorem of `GeffProps/C19.lean`
is about — for ALL inputs, without any hypothesis — and restates the C19 theorems on the generated
functions directly.  An edit of the Python source that changes what a check computes breaks a proof
obligation here (and the check then searches for a failing input); the hand-written model is no
longer only *compared* with the code but *derived* from it.

The generated functions take the arguments of the Python functions (`memory_geff`, `segmentation`,
`metadata`); the hand-written model takes what they read of them (`node_props`, `metadata.axes`,
`segmentation.ndim` / `.shape`): the `…_is_model` theorems state that packaging exactly.

Property theorems only; helper lemmas in `GeffProofs/SegmentationGen.lean`. -/
namespace GeffProps.C19Gen
open Geff.Np Geff.Seg Geff.PyDoSeg GeffProofs.SegmentationGen GeffProps.C19

/-- the translator accepted every statement of the five functions -/
theorem translated : Gen.Segmentation.translationOk = true := by decide

/-! ## the generated functions are the model -/

/-- **`has_valid_seg_id` as written = the model**, for every in-memory geff and key -/
theorem C19Gen_has_valid_seg_id_is_model (g : MemoryGeff) (key : String) :
    Gen.Segmentation.hasValidSegId g key = Geff.Seg.hasValidSegId g.nodeProps key :=
  hasValidSegId_eq g key

/-- **`axes_match_seg_dims` as written = the model** (`np.asanyarray(segmentation).ndim` is the rank
of the volume) -/
theorem C19Gen_axes_match_seg_dims_is_model (g : MemoryGeff) (v : Vol) :
    Gen.Segmentation.axesMatchSegDims g v = Geff.Seg.axesMatchSegDims g.metadata.axes v.ndim :=
  axesMatchSegDims_eq g v

/-- **`graph_is_in_seg_bounds` as written = the model**, for every axes list (absent, empty, shorter
or longer than the rank, maxima absent / 0 / anything), every volume shape and every scale (absent or
of any length) -/
theorem C19Gen_graph_is_in_seg_bounds_is_model (g : MemoryGeff) (v : Vol) (scale : Option (List Dy)) :
    Gen.Segmentation.graphIsInSegBounds g v scale =
      Geff.Seg.graphIsInSegBounds g.metadata.axes v.shape scale :=
  graphIsInSegBounds_eq g v scale

/-- **`has_seg_ids_at_time_points` as written = the model**, for every volume, every two lists and
every optional metadata object (the model's `axes` argument is `metadata.axes`, absent when there is
no metadata): the comprehension over `axes.index(ax)`, the `defaultdict` grouping, the guard with
its short circuit, `np.take`, the two message kinds and the final `len(missing) > 0`. -/
theorem C19Gen_has_seg_ids_at_time_points_is_model (v : Vol) (tps ids : List Int) (md : Option Metadata) :
    Gen.Segmentation.hasSegIdsAtTimePoints v tps ids md =
      Geff.Seg.hasSegIdsAtTimePoints v tps ids (md.bind (·.axes)) :=
  hasSegIdsAtTimePoints_eq v tps ids md

/-- **`has_seg_ids_at_coords` as written = the model**, for every volume (well formed or not), every
coordinate / id list and every scale: the two length checks, `zip(strict=True)` (its `ValueError` is
the model's), the lazy `all(…)`, `int()` truncation (which is the model's floor behind the range
check), numpy indexing, the `missing` dictionary. -/
theorem C19Gen_has_seg_ids_at_coords_is_model (v : Vol) (coords : List (List Dy)) (ids : List Int)
    (scale : Option (List Dy)) :
    Gen.Segmentation.hasSegIdsAtCoords v coords ids scale = Geff.Seg.hasSegIdsAtCoords v coords ids scale :=
  hasSegIdsAtCoords_eq v coords ids scale

/-! ## C19 on the generated functions: each check ⇔ its documented condition, never an exception -/

theorem C19Gen_has_valid_seg_id_iff (g : MemoryGeff) (key : String) :
    ∃ r, Gen.Segmentation.hasValidSegId g key = .ok r ∧ (r.ok = true ↔ ValidSegId g.nodeProps key) ∧
      (r.ok = false → r.errors ≠ []) := by
  rw [C19Gen_has_valid_seg_id_is_model]; exact C19_has_valid_seg_id_iff _ _

theorem C19Gen_axes_match_seg_dims_iff (g : MemoryGeff) (v : Vol) :
    ∃ r, Gen.Segmentation.axesMatchSegDims g v = .ok r ∧ (r.ok = true ↔ AxesMatch g.metadata.axes v.ndim) := by
  rw [C19Gen_axes_match_seg_dims_is_model]; exact C19_axes_match_seg_dims_iff _ _

theorem C19Gen_graph_is_in_seg_bounds_iff (g : MemoryGeff) (v : Vol) (scale : Option (List Dy)) :
    ∃ r, Gen.Segmentation.graphIsInSegBounds g v scale = .ok r ∧
      (r.ok = true ↔ InBounds g.metadata.axes v.shape scale) ∧ (r.ok = false → r.errors ≠ []) := by
  rw [C19Gen_graph_is_in_seg_bounds_is_model]; exact C19_graph_is_in_seg_bounds_iff _ _ _

theorem C19Gen_has_seg_ids_at_time_points_iff (v : Vol) (tps ids : List Int) (md : Option Metadata) :
    ∃ r, Gen.Segmentation.hasSegIdsAtTimePoints v tps ids md = .ok r ∧
      (r.ok = true ↔ TimePointsOK v (timeIndex (md.bind (·.axes))) tps ids) ∧
      ((∃ t ∈ tps, ¬ TimeIn v (timeIndex (md.bind (·.axes))) t) →
        r.ok = false ∧ ∃ t ∈ tps, ¬ TimeIn v (timeIndex (md.bind (·.axes))) t ∧ Msg.timeOutOfBounds t ∈ r.errors) ∧
      (r.ok = false → r.errors ≠ []) := by
  rw [C19Gen_has_seg_ids_at_time_points_is_model]; exact C19_has_seg_ids_at_time_points_iff _ _ _ _

/-- the explanatory message of the time-point check, on the generated function -/
theorem C19Gen_time_points_message (v : Vol) (tps ids : List Int) (md : Option Metadata)
    (hbad : ∃ t ∈ tps, ¬ TimeIn v (timeIndex (md.bind (·.axes))) t) :
    ∃ j, ∃ hj : j < tps.length, ¬ TimeIn v (timeIndex (md.bind (·.axes))) tps[j] ∧
      (∀ i (hi : i < tps.length), i < j → TimeIn v (timeIndex (md.bind (·.axes))) tps[i]) ∧
      ∃ mid, Gen.Segmentation.hasSegIdsAtTimePoints v tps ids md =
          .ok ⟨false, mid ++ [Msg.timeOutOfBounds tps[j]]⟩ ∧
        ∀ m ∈ mid, ∃ id t, m = Msg.missingLabel id t := by
  rw [C19Gen_has_seg_ids_at_time_points_is_model]; exact C19_time_points_message _ _ _ _ hbad

theorem C19Gen_has_seg_ids_at_coords_iff (v : Vol) (hwf : v.WF) (coords : List (List Dy)) (ids : List Int)
    (scale : Option (List Dy)) :
    ∃ r, Gen.Segmentation.hasSegIdsAtCoords v coords ids scale = .ok r ∧
      (r.ok = true ↔ CoordsOK v coords ids scale) ∧
      ((coords.length ≠ ids.length ∨ (defaultScale scale v.ndim).length ≠ v.ndim ∨
          ∃ p ∈ coords.zip ids, ¬ CoordOK v (defaultScale scale v.ndim) p.1) →
        r.ok = false ∧ r.errors ≠ []) := by
  rw [C19Gen_has_seg_ids_at_coords_is_model]; exact C19_has_seg_ids_at_coords_iff _ hwf _ _ _

/-- the explanatory message of the coordinate check, on the generated function -/
theorem C19Gen_coords_message (v : Vol) (hwf : v.WF) (coords : List (List Dy)) (ids : List Int)
    (scale : Option (List Dy)) (hl : coords.length = ids.length)
    (hs : (defaultScale scale v.ndim).length = v.ndim)
    (hbad : ∃ p ∈ coords.zip ids, ¬ CoordOK v (defaultScale scale v.ndim) p.1) :
    ∃ j, ∃ hj : j < (coords.zip ids).length,
      ¬ CoordOK v (defaultScale scale v.ndim) (coords.zip ids)[j].1 ∧
      (∀ i (hi : i < (coords.zip ids).length), i < j →
        CoordOK v (defaultScale scale v.ndim) (coords.zip ids)[i].1) ∧
      Gen.Segmentation.hasSegIdsAtCoords v coords ids scale = .ok ⟨false,
        [if (coords.zip ids)[j].1.length ≠ v.ndim then Msg.coordLength j else Msg.coordOutOfBounds j]⟩ := by
  rw [C19Gen_has_seg_ids_at_coords_is_model]; exact C19_coords_message _ hwf _ _ _ hl hs hbad

/-- **C19 (no exception) on the code as written.**  None of the five generated functions produces
the exception outcome — although the generated code *contains* the raising operations of the source
(`d[k]` → `KeyError`, `len(None)` / iterating `None` / `any(None)` → `TypeError`, `l[i]` →
`IndexError`, `zip(strict=True)` → `ValueError`, `np.take` / numpy indexing → `IndexError` and the
silent wrap-around): every one of them sits behind a guard of the source that excludes it. -/
theorem C19Gen_no_exception :
    (∀ g key n, Gen.Segmentation.hasValidSegId g key ≠ .other n) ∧
    (∀ g v n, Gen.Segmentation.axesMatchSegDims g v ≠ .other n) ∧
    (∀ g v scale n, Gen.Segmentation.graphIsInSegBounds g v scale ≠ .other n) ∧
    (∀ v tps ids md n, Gen.Segmentation.hasSegIdsAtTimePoints v tps ids md ≠ .other n) ∧
    (∀ v, v.WF → ∀ coords ids scale n, Gen.Segmentation.hasSegIdsAtCoords v coords ids scale ≠ .other n) := by
  obtain ⟨h1, h2, h3, h4, h5⟩ := C19_no_exception
  refine ⟨?_, ?_, ?_, ?_, ?_⟩
  · intro g key n; rw [C19Gen_has_valid_seg_id_is_model]; exact h1 _ _ _
  · intro g v n; rw [C19Gen_axes_match_seg_dims_is_model]; exact h2 _ _ _
  · intro g v scale n; rw [C19Gen_graph_is_in_seg_bounds_is_model]; exact h3 _ _ _ _
  · intro v tps ids md n; rw [C19Gen_has_seg_ids_at_time_points_is_model]; exact h4 _ _ _ _ _
  · intro v hwf coords ids scale n; rw [C19Gen_has_seg_ids_at_coords_is_model]; exact h5 v hwf _ _ _ _

/-! ## the raising primitives are really there (so a removed guard is visible)

Evaluations of the primitives the generated code calls, at the points the guards of the source
exclude: numpy wraps a negative index / time point and raises beyond the extent. -/
example : npUniqueTake exVol (-1) 2 = .ok [2, 4] := by decide
example : npUniqueTake exVol 2 2 = .other "IndexError" := by decide
example : npUniqueTake exVol 0 3 = .other "IndexError" := by decide
example : listGet [2, 1, 2] 3 = (.other "IndexError" : Outcome Nat) := by decide
example : pyLen (none : Option (List Axis)) = .other "TypeError" := by decide
example : pyAny none = .other "TypeError" := by decide
example : mapZipStrict (fun (c : Dy) (s : Dy) => Dy.mul c s) [d 1] [] = .other "ValueError" := rfl
example : pyInt (half (-1)) = 0 ∧ (half (-1)).floor = -1 := by decide
example : dictGet ([] : List (String × PropInfo)) "seg_id" = .other "KeyError" := rfl

/-! ## non-vacuity: the generated functions run -/

def g1 : MemoryGeff :=
  ⟨[("seg_id", ⟨.u16, some [false, false]⟩), ("x", ⟨.f32, none⟩)],
   ⟨some [⟨some "time", some (d 0)⟩, ⟨none, some (d 2)⟩]⟩⟩
def v13 : Vol := Vol.ofFlat [1, 3] [5, 6, 7]

example : Gen.Segmentation.hasValidSegId g1 "seg_id" = .ok ⟨true, []⟩ := by decide
example : Gen.Segmentation.hasValidSegId g1 "x" = .ok ⟨false, [.nonIntegerDtype]⟩ := by decide
example : Gen.Segmentation.hasValidSegId g1 "y" = .ok ⟨false, [.missingSegId]⟩ := by decide
example : Gen.Segmentation.axesMatchSegDims g1 v13 = .ok ⟨true, []⟩ := by decide
example : Gen.Segmentation.axesMatchSegDims g1 exVol = .ok ⟨false, []⟩ := by decide
example : Gen.Segmentation.axesMatchSegDims ⟨[], ⟨some []⟩⟩ exVol = .ok ⟨false, [.noAxes]⟩ := by decide
/-- an axis maximum of 0 is a maximum (D11) -/
example : Gen.Segmentation.graphIsInSegBounds g1 v13 none = .ok ⟨true, []⟩ := by decide
example : Gen.Segmentation.graphIsInSegBounds g1 v13 (some [d 1, half 1]) =
    .ok ⟨false, [.axisOutOfBounds 1]⟩ := by decide
example : Gen.Segmentation.graphIsInSegBounds g1 exVol none = .ok ⟨false, [.axesLength 2 3]⟩ := by decide
example : Gen.Segmentation.graphIsInSegBounds g1 v13 (some [d 1]) = .ok ⟨false, [.scaleLength 1 2]⟩ := by decide
example : Gen.Segmentation.graphIsInSegBounds ⟨[], ⟨some [⟨none, none⟩]⟩⟩ (Vol.ofFlat [1] [0]) none =
    .ok ⟨false, [.noAxisMax]⟩ := by decide
/-- time axis last -/
def mdT2 : Option Metadata := some ⟨axesT2⟩
example : Gen.Segmentation.hasSegIdsAtTimePoints exVol [1, 0] [2, 3] mdT2 = .ok ⟨true, []⟩ := by decide
example : Gen.Segmentation.hasSegIdsAtTimePoints exVol [0, -1] [9, 2] mdT2 =
    .ok ⟨false, [.missingLabel 9 0, .timeOutOfBounds (-1)]⟩ := by decide
example : Gen.Segmentation.hasSegIdsAtTimePoints exVol [1, 1] [1, 4] mdT2 =
    .ok ⟨false, [.missingLabel 1 1, .missingLabel 1 1]⟩ := by decide
example : Gen.Segmentation.hasSegIdsAtTimePoints exVol [0, 1] [1, 3] none = .ok ⟨true, []⟩ := by decide
example : Gen.Segmentation.hasSegIdsAtCoords exVol [[d 1, d 0, d 1], [d 0, d 0, d 0]] [4, 1] none =
    .ok ⟨true, []⟩ := by decide
example : Gen.Segmentation.hasSegIdsAtCoords exVol [[d 2, d 0, ⟨3, 2⟩]] [4] (some [half 1, d 1, d 2]) =
    .ok ⟨true, []⟩ := by decide
example : Gen.Segmentation.hasSegIdsAtCoords exVol [[d 1, d 0, d 1]] [3] none = .ok ⟨false, []⟩ := by decide
example : Gen.Segmentation.hasSegIdsAtCoords exVol [[d 0, d 0, d 0], [d (-1), d 0, d 1]] [1, 4] none =
    .ok ⟨false, [.coordOutOfBounds 1]⟩ := by decide
example : Gen.Segmentation.hasSegIdsAtCoords exVol [[d 0, d 0]] [1] none = .ok ⟨false, [.coordLength 0]⟩ := by decide

end GeffProps.C19Gen
