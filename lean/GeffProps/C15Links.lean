import GeffProps.C15
import GeffProps.C13
import GeffProps.C12
import GeffProofs.LinkGraph
import GeffProofs.LinkGraphCtc
import GeffProofs.LinkGraphTracklet
/-! # C15 ← C13, C12 — the CTC converter's output passes the validators' models

Link theorems only (no new model, no new specification).  They connect

* the converter model `Geff.Ctc.fromCtc` and its property theorems (`GeffProps/C15.lean`:
  `C15_nodes`, `C15_edges`, `C15_graph_valid`, `C15_tracklets`) with
* the model of `validate_tracklets` and its theorem `GeffProps.C13.C13_iff`
  (`validateTracklets nl es = true ↔ TrackletSpec nl es` for acyclic digraphs, unique ids, edges
  inside the node list), and
* the model of `validate_data(graph=True)` and its theorem `GeffProps.C12.C12_graph_iff`.

What is discharged:
* `C15_tracklets` is stated with `Geff.Ctc.TrackletValid`, a COPY of the tracklet definition made
  from the C13 spike.  `C15_tracklet_definitions_agree` proves the copy equivalent, on the
  converter's output, to the official `Geff.Tracklet.TrackletSpec` that `C13_iff` decides.
* the hypotheses of `C13_iff` — `Ranked` (acyclic), unique ids, edges inside the node list — are
  proved for the converter's output (`C15_edges_time_increasing`, `C15_output_acyclic`,
  `C15_graph_valid`), so `C13_iff` applies with no hypothesis left.
* `C15_graph_valid` proves "the right-hand side of graph validity (C12)" as a bare conjunction;
  `C15_output_passes_graph_validation` feeds it to `C12_graph_iff`.

* link (10), C13 ↔ C14: every tracklet of a valid tracklet labelling lies inside one weakly connected
  component (`Geff.Link.tracklet_within_component`, `GeffProofs/LinkGraphTracklet.lean`), hence tracklets
  refine lineages (`C13_C14_tracklets_refine_lineages`); on the converter's output
  `C15_tracklets_within_components`, and without any consistency hypothesis `C15_same_label_connected`.

The arrays handed to the validators are the ones the converter writes: ids `out.nodeIds`, the
`tracklet_id` column `out.tracklet` (no missing mask: `nodesWithId … none`), edges `out.edges`;
for C12, whose model reads `Int` arrays, through the embedding `Geff.Link.intIds / intEdges`. -/
namespace GeffProps.C15Links
open Geff.Ctc Geff.Link Geff.Tracklet GeffProps.C15

/-- the (node id, tracklet id) pairs `validate_data` hands to `validate_tracklets` for the
converter's output (`_nodes_with_id` without a missing mask is `zip`) -/
theorem nodesWithId_output (out : Out) :
    nodesWithId out.nodeIds out.tracklet none = some (out.nodeIds.zip out.tracklet) := rfl

/-- **time strictly increases along every edge** of the converter's output (consistent dataset) -/
theorem C15_edges_time_increasing (ds : Dataset) (hwf : ds.WF) (hs : ds.Sorted) (hc : Consistent ds)
    (out : Out) (h : fromCtc ds = .ok out) (a b : Nat) (hab : (a, b) ∈ out.edges) :
    ∃ ta tb la lb, NodeAt out a ta la ∧ NodeAt out b tb lb ∧ ta < tb := by
  have hspec := C15_edges ds hwf hs out h
  rw [nodeAt_eq ds hwf out h] at hspec ⊢
  exact edgeSpec_time_increasing (consistent_order ds hc) hspec a b hab

/-- hence the output is acyclic: the hypothesis `Ranked` of `C13_iff` (by `C13_acyclic_iff_ranked`,
"no directed cycle") -/
theorem C15_output_acyclic (ds : Dataset) (hwf : ds.WF) (hs : ds.Sorted) (hc : Consistent ds)
    (out : Out) (h : fromCtc ds = .ok out) : Ranked out.edges := by
  have hspec := C15_edges ds hwf hs out h
  rw [nodeAt_eq ds hwf out h] at hspec
  exact ⟨timeOf (objs 0 ds.frames),
    edgeSpec_ranked (consistent_order ds hc) hspec _ (fun a t l hat => timeOf_at hat)⟩

theorem C15_output_no_cycle (ds : Dataset) (hwf : ds.WF) (hs : ds.Sorted) (hc : Consistent ds)
    (out : Out) (h : fromCtc ds = .ok out) (a : Nat) : ¬ Relation.TransGen (E out.edges) a a :=
  (GeffProps.C13.C13_acyclic_iff_ranked out.edges).2 (C15_output_acyclic ds hwf hs hc out h) a

/-- the id and tracklet arrays have one entry per region -/
theorem output_lengths (ds : Dataset) (hwf : ds.WF) (out : Out) (h : fromCtc ds = .ok out) :
    out.nodeIds = List.range out.tracklet.length := by
  obtain ⟨h1, _, h3, _⟩ := C15_nodes ds hwf out h
  rw [h1, h3, List.length_map]

/-- **the copied tracklet definition is the official one on the converter's output**: the statement
`C15_tracklets` is about (`Geff.Ctc.TrackletValid`, copied from the C13 spike) is equivalent to the
specification `Geff.Tracklet.TrackletSpec` of C13 for the (id, tracklet id) pairs that are validated. -/
theorem C15_tracklet_definitions_agree (ds : Dataset) (hwf : ds.WF) (out : Out) (h : fromCtc ds = .ok out) :
    TrackletValid out.edges (fun a => a ∈ out.nodeIds) (fun a => out.tracklet[a]?) ↔
      TrackletSpec (out.nodeIds.zip out.tracklet) out.edges := by
  have hids := output_lengths ds hwf out h
  have hmem : ∀ a l, (a, l) ∈ out.nodeIds.zip out.tracklet ↔ out.tracklet[a]? = some l := by
    intro a l; rw [hids]; exact mem_zip_range _ _ rfl a l
  apply trackletValid_iff_spec
  · intro a
    simp only [hmem]
    rw [hids, List.mem_range]
    constructor
    · intro ha; exact ⟨out.tracklet[a], List.getElem?_eq_getElem ha⟩
    · rintro ⟨l, hl⟩
      rcases Nat.lt_or_ge a out.tracklet.length with h' | h'
      · exact h'
      · rw [List.getElem?_eq_none h'] at hl; cases hl
  · intro a l hal; exact (hmem a l).1 hal

/-- the three hypotheses of `C13_iff` hold for the converter's output -/
theorem C13_hypotheses (ds : Dataset) (hwf : ds.WF) (hs : ds.Sorted) (hc : Consistent ds)
    (out : Out) (h : fromCtc ds = .ok out) :
    ((out.nodeIds.zip out.tracklet).map (·.1)).Nodup ∧ Ranked out.edges ∧
    (∀ e ∈ out.edges, e.1 ∈ (out.nodeIds.zip out.tracklet).map (·.1) ∧
      e.2 ∈ (out.nodeIds.zip out.tracklet).map (·.1)) := by
  obtain ⟨hnd, hends, _, _⟩ := C15_graph_valid ds hwf hs hc out h
  have hfst : (out.nodeIds.zip out.tracklet).map (·.1) = out.nodeIds := by
    rw [← List.unzip_fst]
    have hl : out.nodeIds.length = out.tracklet.length := by
      rw [output_lengths ds hwf out h, List.length_range]
    rw [List.unzip_zip hl]
  rw [hfst]
  exact ⟨hnd, C15_output_acyclic ds hwf hs hc out h, fun e he => hends e.1 e.2 he⟩

/-- **C15 ← C13 (iff)**: for a consistent dataset, C13's model of `validate_tracklets` accepts the
converter model's output iff no parent has exactly one child.  (`C13_iff` with all its hypotheses
discharged, the definition copy identified, then `C15_tracklets`.) -/
theorem C15_tracklet_validation_iff (ds : Dataset) (hwf : ds.WF) (hs : ds.Sorted) (hc : Consistent ds)
    (out : Out) (h : fromCtc ds = .ok out) :
    validateTracklets (out.nodeIds.zip out.tracklet) out.edges = true ↔
      ∀ r ∈ prows ds, ∃ r' ∈ prows ds, r'.P = r.P ∧ r'.L ≠ r.L := by
  obtain ⟨h1, h2, h3⟩ := C13_hypotheses ds hwf hs hc out h
  rw [GeffProps.C13.C13_iff _ _ h1 h2 h3, ← C15_tracklet_definitions_agree ds hwf out h]
  exact C15_tracklets ds hwf hs hc out h

/-- **C15_output_passes_tracklet_validation**: for a consistent CTC dataset in which no parent has
exactly one child, the model of `validate_tracklets` (C13) accepts what the converter model writes:
ids `out.nodeIds`, tracklet ids `out.tracklet`, edges `out.edges` — selected as `validate_data`
selects them (`_nodes_with_id`, no missing mask). -/
theorem C15_output_passes_tracklet_validation (ds : Dataset) (hwf : ds.WF) (hs : ds.Sorted)
    (hc : Consistent ds) (hsib : ∀ r ∈ prows ds, ∃ r' ∈ prows ds, r'.P = r.P ∧ r'.L ≠ r.L)
    (out : Out) (h : fromCtc ds = .ok out) :
    ∃ nl, nodesWithId out.nodeIds out.tracklet none = some nl ∧ validateTracklets nl out.edges = true :=
  ⟨_, rfl, (C15_tracklet_validation_iff ds hwf hs hc out h).2 hsib⟩

/-- … and no error message is produced (`validate_tracklets` returns `(True, [])`) -/
theorem C15_output_no_tracklet_errors (ds : Dataset) (hwf : ds.WF) (hs : ds.Sorted)
    (hc : Consistent ds) (hsib : ∀ r ∈ prows ds, ∃ r' ∈ prows ds, r'.P = r.P ∧ r'.L ≠ r.L)
    (out : Out) (h : fromCtc ds = .ok out) :
    trackletErrors (out.nodeIds.zip out.tracklet) out.edges = [] := by
  have := (C15_tracklet_validation_iff ds hwf hs hc out h).2 hsib
  unfold validateTracklets at this
  exact List.isEmpty_iff.1 this

/-- the known finding `C15:single-child-continuation`, seen by the validator model: on the dataset
`singleChild` (label 1 → label 2, one child) the converter's output is REJECTED by the model of
`validate_tracklets`, which names both tracklets -/
theorem C15_single_child_fails_tracklet_validation :
    ∃ out, fromCtc singleChild = .ok out ∧
      validateTracklets (out.nodeIds.zip out.tracklet) out.edges = false ∧
      (trackletErrors (out.nodeIds.zip out.tracklet) out.edges).map (·.1) = [1, 2] :=
  ⟨_, rfl, by decide, by decide⟩

/-- **C15_output_passes_graph_validation**: for a consistent CTC dataset, C12's model of
`validate_data` with graph validation enabled passes on the converter model's output — for the
directedness the converter declares (`directed = true`, `gen_ctc_tables_current`) and also when the
graph is read as undirected (time increases along every edge, so no edge occurs reversed) — for
every declaration in the metadata and whatever the disabled validators would do. -/
theorem C15_output_passes_graph_validation (ds : Dataset) (hwf : ds.WF) (hs : ds.Sorted)
    (hc : Consistent ds) (out : Out) (h : fromCtc ds = .ok out)
    (directed : Bool) (d : Geff.Validate.Decl) (other : Geff.Validate.Call → Geff.Validate.Outcome) :
    Geff.Validate.validateData { graph := true } d
      (GeffProps.C12.graphResult directed (intIds out.nodeIds) (intEdges out.edges) other) = .ok := by
  rw [GeffProps.C12.C12_graph_iff, graphValid_cast]
  obtain ⟨h1, h2, h3, h4⟩ := C15_graph_valid ds hwf hs hc out h
  exact ⟨h1, fun e he => h2 e.1 e.2 he, fun e he => h3 e.1 e.2 he,
    pairwise_not_same_of_ranked directed out.edges h4 (C15_output_acyclic ds hwf hs hc out h)⟩

/-- graph and tracklet validation together, as `validate_data(graph=True, tracklet=True)` runs them
on a store written by the converter (the declaration `track_node_props = {"tracklet": "tracklet_id"}`
is `gen_ctc_tables_current`): the graph stage passes and the tracklet call returns no error -/
theorem C15_output_validates (ds : Dataset) (hwf : ds.WF) (hs : ds.Sorted)
    (hc : Consistent ds) (hsib : ∀ r ∈ prows ds, ∃ r' ∈ prows ds, r'.P = r.P ∧ r'.L ≠ r.L)
    (out : Out) (h : fromCtc ds = .ok out) :
    Geff.Validate.graphStage true (intIds out.nodeIds) (intEdges out.edges) = .ok ∧
    (∃ nl, nodesWithId out.nodeIds out.tracklet none = some nl ∧ validateTracklets nl out.edges = true) := by
  refine ⟨?_, C15_output_passes_tracklet_validation ds hwf hs hc hsib out h⟩
  rw [← GeffProps.C12.validateData_graph_only true _ _ ⟨false, false, none⟩ (fun _ => .ok)]
  exact C15_output_passes_graph_validation ds hwf hs hc out h true _ _

/-! ## Link (10), C13 ↔ C14 on the converter's output: tracklets lie inside weakly connected components -/

/-- the validated (id, tracklet id) pairs are the positions of the `tracklet_id` column -/
theorem mem_output_pairs (ds : Dataset) (hwf : ds.WF) (out : Out) (h : fromCtc ds = .ok out) (a : Nat) (l : Int) :
    (a, l) ∈ out.nodeIds.zip out.tracklet ↔ out.tracklet[a]? = some l := by
  rw [output_lengths ds hwf out h]; exact mem_zip_range _ _ rfl a l

/-- **each CTC tracklet lies inside one weakly connected component** of the converter's output —
obtained from the tracklet definition alone (`Geff.Link.tracklet_within_component`: every valid
tracklet labelling refines the partition into components), for consistent datasets without a
single-child parent. -/
theorem C15_tracklets_within_components (ds : Dataset) (hwf : ds.WF) (hs : ds.Sorted) (hc : Consistent ds)
    (hsib : ∀ r ∈ prows ds, ∃ r' ∈ prows ds, r'.P = r.P ∧ r'.L ≠ r.L)
    (out : Out) (h : fromCtc ds = .ok out) (a b : Nat) (l : Int)
    (ha : out.tracklet[a]? = some l) (hb : out.tracklet[b]? = some l) : Geff.Graph.Conn out.edges a b :=
  tracklet_within_component _ _
    ((C15_tracklet_definitions_agree ds hwf out h).1 (C15_tracklets_of_no_single_child ds hwf hs hc hsib out h))
    a b l ((mem_output_pairs ds hwf out h a l).2 ha) ((mem_output_pairs ds hwf out h b l).2 hb)

/-- the same holds for EVERY converted dataset with ascending labels (single-child continuations and
inconsistent tables included): the nodes of one CTC label are joined by the consecutive-appearance
edges.  So the labelling never *merges* components; what `C15:single-child-continuation` breaks is
maximality only. -/
theorem C15_same_label_connected (ds : Dataset) (hwf : ds.WF) (hs : ds.Sorted)
    (out : Out) (h : fromCtc ds = .ok out) (a b : Nat) (l : Int)
    (ha : out.tracklet[a]? = some l) (hb : out.tracklet[b]? = some l) : Geff.Graph.Conn out.edges a b := by
  have hO := objs_pairwise ds.frames 0 hs
  have hspec := C15_edges ds hwf hs out h
  rw [nodeAt_eq ds hwf out h] at hspec
  obtain ⟨ce, f, hes, _, hce, _⟩ := hspec
  obtain ⟨_, _, htr, _⟩ := C15_nodes ds hwf out h
  rw [htr] at ha hb
  obtain ⟨ta, hat⟩ := at_of_label ha
  obtain ⟨tb, hbt⟩ := at_of_label hb
  refine Relation.ReflTransGen.mono ?_ a b (at_chain hO a b ta tb l hat hbt)
  intro x y hxy
  rcases hxy with hxy | hxy
  · exact Or.inl (by rw [hes]; exact List.mem_append_left _ ((hce x y).2 hxy))
  · exact Or.inr (by rw [hes]; exact List.mem_append_left _ ((hce y x).2 hxy))

/-- **link (10), generic, C13 ↔ C14: tracklets refine lineages.**  For every digraph and every two
labellings with unique node ids: if C13's model of `validate_tracklets` accepts the tracklet ids and
C14's model of `validate_lineages` accepts the lineage ids, then nodes sharing a tracklet id share
their lineage id (each tracklet lies inside one weakly connected component, each component is one
lineage).  Stated here so that it is built and audited with this file; proof in
`GeffProofs/LinkGraphTracklet.lean`. -/
theorem C13_C14_tracklets_refine_lineages {α L L' : Type} [DecidableEq α] [DecidableEq L] [DecidableEq L']
    (nt : List (α × L)) (nlin : List (α × L')) (es : List (α × α))
    (hnt : (nt.map (·.1)).Nodup) (hnl : (nlin.map (·.1)).Nodup)
    (ht : validateTracklets nt es = true) (hl : Geff.Lineage.validateLineages nlin es = true)
    (a b : α) (t : L) (la lb : L') (ha : (a, t) ∈ nt) (hb : (b, t) ∈ nt)
    (hla : (a, la) ∈ nlin) (hlb : (b, lb) ∈ nlin) : la = lb :=
  accepted_tracklets_refine_accepted_lineages nt nlin es hnt hnl ht hl a b t la lb ha hb hla hlb

-- non-vacuity: 1→2→3, 3→4, 3→5 and an isolated 6: tracklets {1,2,3},{4},{5},{6}; lineages {1..5},{6}
example : validateTracklets [((1:Nat),(10:Nat)),(2,10),(3,10),(4,20),(5,30),(6,40)] [(1,2),(2,3),(3,4),(3,5)] = true ∧
    Geff.Lineage.validateLineages [((1:Nat),(7:Nat)),(2,7),(3,7),(4,7),(5,7),(6,8)] [(1,2),(2,3),(3,4),(3,5)] = true := by
  decide

/-! ## Non-vacuity: the dataset `division` of `GeffProps/C15.lean` (a division with a gap) meets every
hypothesis (shown there: `WF`, `Sorted`, `Consistent`, no single child, converts) and the validators'
models accept its output, by evaluation -/

example : ∃ out, fromCtc division = .ok out ∧
    validateTracklets (out.nodeIds.zip out.tracklet) out.edges = true ∧
    Geff.Validate.graphStage true (intIds out.nodeIds) (intEdges out.edges) = .ok ∧
    out.edges = [(0, 3), (1, 2), (3, 4), (3, 5)] ∧ out.tracklet = [1, 5, 5, 1, 2, 3] :=
  ⟨_, rfl, by decide, by decide, by decide, by decide⟩

end GeffProps.C15Links
