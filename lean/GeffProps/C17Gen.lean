import GeffProofs.DataframeGen
import GeffProps.C17
/-! # C17 on the code as it is written now (translator T18)

`Gen/Dataframe.lean` is regenerated on every run from `geff/convert/_dataframe.py`: the functions
`geff_to_dataframes` and `geff_to_csv`, statement by statement, as Lean `do`-blocks over the
primitives of `GeffModel/PyDoDataframe.lean` (the numpy / pandas / pathlib operations the source
uses, defined from the primitives of the hand-written model, Python's exceptions as outcomes).  This
file proves that the generated functions ARE the hand-written model (`Geff.Dataframe.geffToDataframes`,
`geffToCsv`) that every theorem of `GeffProps/C17.lean` is about — for every input, error outcomes
included — and restates the C17 theorems on the generated functions directly.  An edit of the Python
source that changes what the export computes (the squeeze, the rank dispatch, the column names, the
mask, the order of the two `to_csv` calls, the file mode) therefore breaks a proof obligation here,
and a construct the translator does not know makes `translated` false.

Property theorems only; helper lemmas in `GeffProofs/DataframeGen.lean`. -/
namespace GeffProps.C17Gen
open Geff.Dataframe Geff.PyDoDf GeffProofs.DataframeGen GeffProps.C17
variable {α : Type}

/-- the translator accepted every statement of the two functions (and found the signature
`geff_to_csv(store, outpath, overwrite=False)`: the default of `overwrite` is part of the check) -/
theorem translated : Gen.Dataframe.translationOk = true := by decide

/-- **`geff_to_dataframes` as written = the model**, for every in-memory geff (well-formed or not:
the same `ValueError` / `IndexError` outcomes too): the two frames are the model's two dictionaries,
nodes first, and the warnings are the model's warnings as texts
`"<node|edge> <name> (<ndim>D) will not be exported to csv with more than 2 dimensions"`, node table
first, in emission order. -/
theorem C17Gen_dataframes_is_model (g : InMemGeff α) :
    Gen.Dataframe.geffToDataframes g = ofOutcome framesOf (Geff.Dataframe.geffToDataframes g) :=
  dataframes_eq g

/-- **`geff_to_csv` as written = the file-level model** (`csvSpec`, `GeffProofs/DataframeGen.lean`):
output name `str(Path(outpath).with_suffix(""))` + `-nodes.csv` / `-edges.csv`, the export, then the
node table and the edge table in this order with `mode = "w" if overwrite else "x"` — exactly
`Geff.Dataframe.geffToCsv` on the texts of the two frames; an exception ends the call and leaves
what was written before. -/
theorem C17Gen_csv_is_model (env : CsvEnv α) (g : InMemGeff α) (outpath : String) (overwrite : Bool) (w : World) :
    Gen.Dataframe.geffToCsv env g outpath overwrite w = csvSpec env g outpath overwrite w :=
  csv_eq env g outpath overwrite w

/-! ## the C17 theorems on the generated `geff_to_dataframes` -/

/-- **C17_total on the code as written**: a well-formed in-memory geff never makes the generated
export raise (nor leave the modelled fragment) — column-name collisions included. -/
theorem C17Gen_total (g : InMemGeff α) (hwf : WF g) :
    ∃ t, Gen.Dataframe.geffToDataframes g = .ok (framesOf t) := by
  obtain ⟨t, ht⟩ := C17_total g hwf
  exact ⟨t, by rw [C17Gen_dataframes_is_model, ht]; rfl⟩

/-- **C17_rows on the code as written**: the generated function returns exactly two frames; the node
frame starts with the column `id` holding the stored ids in stored order, the edge frame with
`source`, `target`; every column of a frame has exactly one cell per node (edge) — the dictionaries
handed to `pd.DataFrame` are rectangular. -/
theorem C17Gen_rows (g : InMemGeff α) (hwf : WF g) (hnc : NoCollision g) :
    ∃ nodes edges ws, Gen.Dataframe.geffToDataframes g = .ok ([nodes, edges], ws) ∧
      nodes.head? = some ("id", g.nodeIds.map Cell.val) ∧
      (∀ c ∈ nodes, c.2.length = g.nodeIds.length) ∧
      edges.take 2 = [("source", g.edgeIds.map (fun e => Cell.val e.1)),
                      ("target", g.edgeIds.map (fun e => Cell.val e.2))] ∧
      (∀ c ∈ edges, c.2.length = g.edgeIds.length) := by
  obtain ⟨t, ht, h1, h2, h3, h4⟩ := C17_rows g hwf hnc
  exact ⟨t.nodes, t.edges, _, by rw [C17Gen_dataframes_is_model, ht]; rfl, h1, h2, h3, h4⟩

/-- **C17_columns on the code as written**: the column names of each generated frame are exactly
the id column(s) plus, per property in stored order, `name` (no trailing dimension other than 1),
`name_0 … name_{k-1}` (exactly one, `k`), nothing for higher rank; cell `i` of `name_j` is
`values[i][j]`, NaN exactly where element `i` is flagged missing (`Exported`); the warnings emitted
are exactly one text per left-out property, naming the table, the property and its rank, node table
first. -/
theorem C17Gen_columns (g : InMemGeff α) (hwf : WF g) (hnc : NoCollision g) :
    ∃ nodes edges nw ew,
      Gen.Dataframe.geffToDataframes g =
        .ok ([nodes, edges], nw.map (renderWarn "node") ++ ew.map (renderWarn "edge")) ∧
      keys nodes = "id" :: g.nodeProps.flatMap colNames ∧
      keys edges = "source" :: "target" :: g.edgeProps.flatMap colNames ∧
      (∀ p ∈ g.nodeProps, Exported p g.nodeIds.length nodes nw) ∧
      (∀ p ∈ g.edgeProps, Exported p g.edgeIds.length edges ew) ∧
      nw = g.nodeProps.flatMap specWarn ∧ ew = g.edgeProps.flatMap specWarn := by
  obtain ⟨t, ht, h1, h2, h3, h4, h5, h6⟩ := C17_columns g hwf hnc
  exact ⟨t.nodes, t.edges, t.nodeWarnings, t.edgeWarnings, by rw [C17Gen_dataframes_is_model, ht]; rfl,
    h1, h2, h3, h4, h5, h6⟩

/-- **the known finding stays what it was** (`C17:column-name-collision`): on the generated code
too, a node property called `id` silently replaces the node-id column — `NoCollision` is necessary. -/
theorem C17Gen_counterexample_id_collision :
    Gen.Dataframe.geffToDataframes C17.collide =
      .ok ([[("id", [Cell.val 9, Cell.val 9])], [("source", [Cell.val 1]), ("target", [Cell.val 2])]], []) ∧
    ("id", C17.collide.nodeIds.map Cell.val) ∉ [("id", [Cell.val 9, Cell.val 9])] := by
  constructor <;> decide

/-! ## the CSV theorems on the generated `geff_to_csv`

`w.fs` is the file system before the call, `(…).2.fs` after it; `(…).1` the outcome. -/

/-- **C17_csv_no_clobber on the code as written**: without `overwrite` — whatever happens (both
files written, `FileExistsError` after zero or one file, an exception of the export or of
`with_suffix`) — every file that existed before the call still has its old content. -/
theorem C17Gen_csv_no_clobber (env : CsvEnv α) (g : InMemGeff α) (outpath : String) (w : World)
    (q c : String) (hq : fsGet w.fs q = some c) :
    fsGet (Gen.Dataframe.geffToCsv env g outpath false w).2.fs q = some c := by
  rw [C17Gen_csv_is_model]
  unfold csvSpec
  cases env.withSuffix outpath "" with
  | none => exact hq
  | some base =>
    simp only []
    cases Geff.Dataframe.geffToDataframes g with
    | valueError => exact hq
    | indexError => exact hq
    | ok t => exact C17_csv_no_clobber w.fs base _ _ q c hq

/-- **C17_csv_refuses on the code as written**: without `overwrite`, for a well-formed geff, an
existing node or edge CSV makes the call raise `FileExistsError`. -/
theorem C17Gen_csv_refuses (env : CsvEnv α) (g : InMemGeff α) (hwf : WF g) (outpath base : String) (w : World)
    (hb : env.withSuffix outpath "" = some base)
    (h : (fsGet w.fs (base ++ "-nodes.csv")).isSome = true ∨ (fsGet w.fs (base ++ "-edges.csv")).isSome = true) :
    (Gen.Dataframe.geffToCsv env g outpath false w).1 = .fileExists := by
  obtain ⟨t, ht⟩ := C17_total g hwf
  rw [C17Gen_csv_is_model]
  simp only [csvSpec, hb, ht, C17_csv_refuses w.fs base _ _ h, if_true]

/-- **C17_csv_written on the code as written**: on request, or when neither file exists, for a
well-formed geff nothing is raised, the two files hold the texts of exactly the two frames the
generated `geff_to_dataframes` returns (nodes in `…-nodes.csv`, edges in `…-edges.csv`), no other
file changes, and the warnings of the export are emitted. -/
theorem C17Gen_csv_written (env : CsvEnv α) (g : InMemGeff α) (hwf : WF g) (outpath base : String)
    (overwrite : Bool) (w : World) (hb : env.withSuffix outpath "" = some base)
    (h : overwrite = true ∨ (fsGet w.fs (base ++ "-nodes.csv") = none ∧ fsGet w.fs (base ++ "-edges.csv") = none)) :
    ∃ nodes edges ws, Gen.Dataframe.geffToDataframes g = .ok ([nodes, edges], ws) ∧
      (Gen.Dataframe.geffToCsv env g outpath overwrite w).1 = .ok () ∧
      fsGet (Gen.Dataframe.geffToCsv env g outpath overwrite w).2.fs (base ++ "-nodes.csv") = some (env.csvText true nodes) ∧
      fsGet (Gen.Dataframe.geffToCsv env g outpath overwrite w).2.fs (base ++ "-edges.csv") = some (env.csvText true edges) ∧
      (∀ q, q ≠ base ++ "-nodes.csv" → q ≠ base ++ "-edges.csv" →
        fsGet (Gen.Dataframe.geffToCsv env g outpath overwrite w).2.fs q = fsGet w.fs q) ∧
      (Gen.Dataframe.geffToCsv env g outpath overwrite w).2.warnings = w.warnings ++ ws := by
  obtain ⟨t, ht⟩ := C17_total g hwf
  obtain ⟨h1, h2, h3, h4⟩ := C17_csv_written w.fs base (env.csvText true t.nodes) (env.csvText true t.edges) overwrite h
  refine ⟨t.nodes, t.edges, _, by rw [C17Gen_dataframes_is_model, ht]; rfl, ?_, ?_, ?_, ?_, ?_⟩ <;>
    rw [C17Gen_csv_is_model] <;> simp only [csvSpec, hb, ht]
  · simp [h1]
  · exact h2
  · exact h3
  · exact h4
  · rfl

/-- **the error class of `geff_to_csv` as written**, for a well-formed geff: nothing but success,
`FileExistsError`, or the `ValueError` of `Path.with_suffix` — in particular the generated code never
leaves the modelled fragment. -/
theorem C17Gen_csv_outcomes (env : CsvEnv α) (g : InMemGeff α) (hwf : WF g) (outpath : String)
    (overwrite : Bool) (w : World) :
    (Gen.Dataframe.geffToCsv env g outpath overwrite w).1 = .ok () ∨
    (Gen.Dataframe.geffToCsv env g outpath overwrite w).1 = .fileExists ∨
    ((Gen.Dataframe.geffToCsv env g outpath overwrite w).1 = .valueError ∧ env.withSuffix outpath "" = none) := by
  obtain ⟨t, ht⟩ := C17_total g hwf
  rw [C17Gen_csv_is_model]
  unfold csvSpec
  cases hb : env.withSuffix outpath "" with
  | none => exact Or.inr (Or.inr ⟨rfl, rfl⟩)
  | some base =>
    simp only [ht]
    split
    · exact Or.inr (Or.inl rfl)
    · exact Or.inl rfl

/-! ## non-vacuity: the generated functions run -/

example : Gen.Dataframe.geffToDataframes C17.sample = .ok
    ([[("id", [.val 7, .val 8]), ("p_0", [.nan, .val 4]), ("p_1", [.nan, .val 5]), ("p_2", [.nan, .val 6]),
       ("q", [.val 5, .val 6]), ("st", [.val 10, .nan])],
      [("source", [.val 7]), ("target", [.val 8]), ("w_0", [.val 1]), ("w_1", [.val 2])]],
     ["node s (3D) will not be exported to csv with more than 2 dimensions"]) := by decide

-- error branches of the generated code: a mask of the wrong length (pandas' ValueError), a ragged row
example : Gen.Dataframe.geffToDataframes (⟨[1, 2], [], [⟨"p", [], [[1], [2]], some [true]⟩], []⟩ : InMemGeff Nat)
    = .valueError := by decide
example : Gen.Dataframe.geffToDataframes (⟨[1, 2], [], [⟨"p", [2], [[1, 2], [3]], none⟩], []⟩ : InMemGeff Nat)
    = .indexError := by decide

/-- a concrete environment (`with_suffix` of an empty path raises; the "text" of a frame is the list
of its column names) and a concrete world: an old edge CSV is in the way -/
def envEx : CsvEnv Nat := ⟨fun p _ => if p = "" then none else some "out", fun _ d => ",".intercalate (keys d)⟩
def worldEx : World := ⟨[("out-edges.csv", "old")], []⟩

-- the hypotheses of the CSV theorems are satisfiable
example : WF C17.sample ∧ envEx.withSuffix "out.csv" "" = some "out" ∧
    (fsGet worldEx.fs ("out" ++ "-edges.csv")).isSome = true := by
  refine ⟨⟨?_, ?_⟩, by decide, by decide⟩ <;> intro p hp <;> simp [C17.sample] at hp
  · rcases hp with rfl | rfl | rfl | rfl <;> constructor <;> simp [prodNat, C17.sample]
  · subst hp; constructor <;> simp [prodNat, C17.sample]
-- the generated `geff_to_csv` runs: FileExistsError after the node file was written, the old edge file
-- kept, the warning of the export emitted; with `overwrite` both files replaced
example : Gen.Dataframe.geffToCsv envEx C17.sample "out.csv" false worldEx =
    (.fileExists, ⟨[("out-edges.csv", "old"), ("out-nodes.csv", "id,p_0,p_1,p_2,q,st")],
      ["node s (3D) will not be exported to csv with more than 2 dimensions"]⟩) := by decide
example : Gen.Dataframe.geffToCsv envEx C17.sample "out.csv" true worldEx =
    (.ok (), ⟨[("out-edges.csv", "source,target,w_0,w_1"), ("out-nodes.csv", "id,p_0,p_1,p_2,q,st")],
      ["node s (3D) will not be exported to csv with more than 2 dimensions"]⟩) := by decide
example : (Gen.Dataframe.geffToCsv envEx C17.sample "" true worldEx).1 = .valueError := by decide

end GeffProps.C17Gen
