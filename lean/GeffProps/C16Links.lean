import GeffProps.C16
import GeffProps.C12
import GeffProofs.LinkGraph
import GeffProofs.LinkGraphTrackMate
/-! # C16 ← C12 (and C14) — the TrackMate converter's output passes the validators' models

Link theorems only (no new model, no new specification).  They connect

* the converter model `Geff.TrackMate.convert` and its theorem `GeffProps.C16.C16_graph`
  (nodes = kept spot ids in document order; edges = kept links, none twice) with
* the model of `validate_data(graph=True)` and its theorem `GeffProps.C12.C12_graph_iff`
  (passes iff unique node ids, endpoints are node ids, no self edge, no repeated edge).

**Which clauses of the document well-formedness predicate `WF` are used** (made explicit by
`C16_graph_valid_of_clauses`, which takes them one by one):
* `WF.idsNodup` — spot IDs pairwise distinct            ⇒ node ids unique;
* `WF.edgesOk.ends` — every link joins declared spots   ⇒ every edge endpoint is a node id;
* `WF.edgesOk.distinct` — no link (source, target) twice ⇒ no repeated edge (inside `C16_graph`);
* `WF.noSelfLink` — *no link joins a spot to itself* (`SPOT_SOURCE_ID ≠ SPOT_TARGET_ID`; executable
  check `noSelfLinkB`, part of `wfB`)                    ⇒ no self edge.  The clause is necessary: a
  document that meets every other clause (`wfCoreB`) but has a link 2 → 2 converts, the converter model
  writes a self edge and graph validation fails (`C16_counterexample_self_link`; the real converter does
  the same on the rendered XML: nodes [1, 2], edges [[1, 2], [2, 2]], `ValueError: Self edges found in
  data: [2]` — corpus case `harness/corpus/C16/10-self-link-malformed.json`).  `C16_graph_validation_iff`
  shows it is exactly what is needed: under the other clauses, graph validation of the output passes iff
  no *kept* link is a self link.

The TrackMate converter writes `directed=True` (`_trackmate_xml.py`), so C12 is used with
`directed = true`; `Int` arrays via the embedding `Geff.Link.intIds / intEdges`.

Lineage part: `C16_output_passes_lineage_validation` identifies the list `labelled d ds dt` of
`C16_lineage_validates` with what `validate_data(lineage=True)` selects (`nodesWithId`, C12's
`C12_lineage_ids_masked`) from the stored `TRACK_ID` column and its missing mask.

C14: `GeffProps.C16.C16_lineage_validates` is proved by `GeffProps.C14.C14_iff` itself (the file
imports `GeffProps.C14`; there is no copy of the lineage specification or of `validateLineages` in
the C16 files) — re-checked here by `C16_lineage_validates_via_C14`, whose proof term is literally
`(C14_iff …).2 (C16_lineage_valid …)`. -/
namespace GeffProps.C16Links
open Geff.TrackMate Geff.Graph Geff.Link GeffProps.C16

/-- **graph validity from the individual clauses**: given what `C16_graph` states about the output
(`hnodes`, `hnd`, `hedges`), graph validity (C12's `GraphValid`, directed) follows from exactly:
distinct spot ids (`hids` = `WF.idsNodup`), links between declared spots (`hends` =
`WF.edgesOk.ends`), and no kept self link (`hns`, from `WF.noSelfLink`).  "No repeated link"
(`WF.edgesOk.distinct`) enters through `hnd`. -/
theorem C16_graph_valid_of_clauses (d : Doc) (ds dt : Bool) (out : Out)
    (hnodes : out.nodes = (spotIds d).filter (keepSpot d ds dt))
    (hnd : out.edges.Nodup)
    (hedges : ∀ u v, (u, v) ∈ out.edges ↔
      (∃ x ∈ links d, x.1.s = u ∧ x.1.t = v) ∧ keepSpot d ds dt u = true ∧ keepSpot d ds dt v = true)
    (hids : (spotIds d).Nodup)
    (hends : ∀ x ∈ links d, x.1.s ∈ spotIds d ∧ x.1.t ∈ spotIds d)
    (hns : ∀ x ∈ links d, keepSpot d ds dt x.1.s = true → x.1.s ≠ x.1.t) :
    GeffProps.C12.GraphValid true (intIds out.nodes) (intEdges out.edges) := by
  rw [graphValid_cast]
  refine ⟨?_, ?_, ?_, pairwise_not_same_of_nodup out.edges hnd⟩
  · rw [hnodes]; exact hids.filter _
  · rintro ⟨u, v⟩ he
    obtain ⟨⟨x, hx, rfl, rfl⟩, h1, h2⟩ := (hedges u v).1 he
    rw [hnodes]
    exact ⟨List.mem_filter.2 ⟨(hends x hx).1, h1⟩, List.mem_filter.2 ⟨(hends x hx).2, h2⟩⟩
  · rintro ⟨u, v⟩ he
    obtain ⟨⟨x, hx, rfl, rfl⟩, h1, _⟩ := (hedges u v).1 he
    exact hns x hx h1

/-- the links of a well-formed document join declared spots (`WF.edgesOk.ends`, on spot ids) -/
theorem links_join_spots (d : Doc) (h : WF d) : ∀ x ∈ links d, x.1.s ∈ spotIds d ∧ x.1.t ∈ spotIds d := by
  intro x hx
  have := h.edgesOk.ends x hx
  simpa [baseNodes, List.map_map, Function.comp_def] using this

/-- **C16 ← C12 (iff)**: for a well-formed document, the converter model's output satisfies C12's
graph validity iff no kept link joins a spot to itself. -/
theorem C16_graph_valid_iff (d : Doc) (h : WF d) (ds dt : Bool) (out : Out) (hc : convert d ds dt = .ok out) :
    GeffProps.C12.GraphValid true (intIds out.nodes) (intEdges out.edges) ↔
      ∀ x ∈ links d, keepSpot d ds dt x.1.s = true → x.1.s ≠ x.1.t := by
  obtain ⟨hnodes, hnd, hedges⟩ := C16_graph d h ds dt out hc
  constructor
  · intro hv x hx hk heq
    rw [graphValid_cast] at hv
    have hmem : (x.1.s, x.1.t) ∈ out.edges := (hedges _ _).2 ⟨⟨x, hx, rfl, rfl⟩, hk, heq ▸ hk⟩
    exact hv.2.2.1 _ hmem heq
  · exact C16_graph_valid_of_clauses d ds dt out hnodes hnd hedges h.idsNodup (links_join_spots d h)

/-- the output satisfies the right-hand side of `C12_graph_iff`: unique node ids, endpoints exist,
no self edge, no repeated edge (on the `Nat` arrays of the converter model) -/
theorem C16_graph_valid (d : Doc) (h : WF d) (ds dt : Bool) (out : Out)
    (hc : convert d ds dt = .ok out) :
    out.nodes.Nodup ∧ (∀ u v, (u, v) ∈ out.edges → u ∈ out.nodes ∧ v ∈ out.nodes) ∧
    (∀ u v, (u, v) ∈ out.edges → u ≠ v) ∧ out.edges.Nodup := by
  have hv := (C16_graph_valid_iff d h ds dt out hc).2 (fun x hx _ => h.noSelfLink x hx)
  rw [graphValid_cast] at hv
  exact ⟨hv.1, fun u v he => hv.2.1 (u, v) he, fun u v he => hv.2.2.1 (u, v) he, (C16_graph d h ds dt out hc).2.1⟩

/-- **C16_graph_validation_iff**: C12's model of `validate_data` with graph validation enabled passes
on the converter model's output iff no kept link is a self link — for every declaration in the
metadata and whatever the disabled validators would do. -/
theorem C16_graph_validation_iff (d : Doc) (h : WF d) (ds dt : Bool) (out : Out) (hc : convert d ds dt = .ok out)
    (decl : Geff.Validate.Decl) (other : Geff.Validate.Call → Geff.Validate.Outcome) :
    Geff.Validate.validateData { graph := true } decl
      (GeffProps.C12.graphResult true (intIds out.nodes) (intEdges out.edges) other) = .ok ↔
      ∀ x ∈ links d, keepSpot d ds dt x.1.s = true → x.1.s ≠ x.1.t := by
  rw [GeffProps.C12.C12_graph_iff, C16_graph_valid_iff d h ds dt out hc]

/-- **C16_output_passes_graph_validation**: for a well-formed TrackMate document (`WF` includes "no
self link"), C12's model of `validate_data(graph=True)` passes on the converter model's output, for all four
discard-flag combinations. -/
theorem C16_output_passes_graph_validation (d : Doc) (h : WF d)
    (ds dt : Bool) (out : Out) (hc : convert d ds dt = .ok out)
    (decl : Geff.Validate.Decl) (other : Geff.Validate.Call → Geff.Validate.Outcome) :
    Geff.Validate.validateData { graph := true } decl
      (GeffProps.C12.graphResult true (intIds out.nodes) (intEdges out.edges) other) = .ok :=
  (C16_graph_validation_iff d h ds dt out hc decl other).2 (fun x hx _ => h.noSelfLink x hx)

/-- `C16_lineage_validates` goes through the official `GeffProps.C14.C14_iff` (and `C14.Spec`), not
through a copy: this is its proof, restated with the C14 names spelled out. -/
theorem C16_lineage_validates_via_C14 (d : Doc) (h : WF d) (hconn : TracksConnected d) (ds dt : Bool) (out : Out)
    (hc : convert d ds dt = .ok out) :
    GeffProps.C14.Spec (labelled d ds dt) out.edges ∧
    (Geff.Lineage.validateLineages (labelled d ds dt) out.edges = true ↔
      GeffProps.C14.Spec (labelled d ds dt) out.edges) ∧
    Geff.Lineage.validateLineages (labelled d ds dt) out.edges = true :=
  ⟨C16_lineage_valid d h hconn ds dt out hc,
   GeffProps.C14.C14_iff _ _ (labelled_unique d ds dt),
   (GeffProps.C14.C14_iff _ _ (labelled_unique d ds dt)).2 (C16_lineage_valid d h hconn ds dt out hc)⟩

/-- the node ids of the output are unique (needs `WF.idsNodup` only) -/
theorem C16_nodes_nodup (d : Doc) (h : WF d) (ds dt : Bool) (out : Out) (hc : convert d ds dt = .ok out) :
    out.nodes.Nodup := by
  rw [(C16_graph d h ds dt out hc).1]; exact h.idsNodup.filter _

/-- **C16_output_passes_lineage_validation** (C16 ← C12 `C12_lineage_ids_masked` ← C14 `C14_iff`):
`C16_lineage_validates` speaks about the list `labelled d ds dt` ("the nodes whose TRACK_ID is
present"); here that list is shown to be exactly what `validate_data(lineage=True)` selects
(`_nodes_with_id`) from the arrays the converter writes — node ids `out.nodes`, the stored `TRACK_ID`
column `p` with its missing flags, and any value array agreeing with the present cells (the fill
value at flagged positions is irrelevant) — and the model of `validate_lineages` accepts it, which by
`C12_lineage_ids_masked` / `C14_iff` is the lineage specification `C14.Spec`. -/
theorem C16_output_passes_lineage_validation (d : Doc) (h : WF d) (hconn : TracksConnected d) (ds dt : Bool)
    (out : Out) (hc : convert d ds dt = .ok out)
    (p : PropOut) (hp : p ∈ out.nodeProps) (hname : p.name = "TRACK_ID")
    (values : List Val) (hlen : values.length = p.col.cells.length)
    (hval : ∀ (i : Nat) (v : Val), p.col.cells[i]? = some (some v) → values[i]? = some v) :
    ∃ nl, Geff.Tracklet.nodesWithId out.nodes values (some (p.col.cells.map Option.isNone)) = some nl ∧
      nl = labelled d ds dt ∧
      Geff.Lineage.validateLineages nl out.edges = true ∧ GeffProps.C14.Spec nl out.edges := by
  have hsel := nodesWithId_track_id d h ds dt out hc p hp hname values hlen hval
  have hv := C16_lineage_validates d h hconn ds dt out hc
  exact ⟨_, hsel, rfl, hv,
    ((GeffProps.C12.C12_lineage_ids_masked out.nodes values _ out.edges _ hsel
      (C16_nodes_nodup d h ds dt out hc)).1).1 hv⟩

/-- the declaration `track_node_props = {"lineage": "TRACK_ID"}` names a column that is written
(so the theorem above has an instance whenever lineage validation is dispatched) -/
theorem C16_lineage_column_written (d : Doc) (h : WF d) (ds dt : Bool) (out : Out) (hc : convert d ds dt = .ok out)
    (hdecl : out.lineageDeclared = true) :
    ∃ p ∈ out.nodeProps, p.name = "TRACK_ID" ∧ p.col.cells = out.nodes.map (trackIdOf d) := by
  obtain ⟨p, hp, hn⟩ := track_id_column_exists d h ds dt out hc hdecl
  exact ⟨p, hp, hn, track_id_cells d h ds dt out hc p hp hn⟩

/-- graph and lineage validation together on the converter's output -/
theorem C16_output_validates (d : Doc) (h : WF d)
    (hconn : TracksConnected d) (ds dt : Bool) (out : Out) (hc : convert d ds dt = .ok out) :
    Geff.Validate.graphStage true (intIds out.nodes) (intEdges out.edges) = .ok ∧
    Geff.Lineage.validateLineages (labelled d ds dt) out.edges = true := by
  refine ⟨?_, C16_lineage_validates d h hconn ds dt out hc⟩
  rw [← GeffProps.C12.validateData_graph_only true _ _ ⟨false, false, none⟩ (fun _ => .ok)]
  exact C16_output_passes_graph_validation d h ds dt out hc _ _

/-! ## The clause `WF.noSelfLink` is necessary: a document that meets every other clause, with a self link -/

/-- two spots, one track with the links 1 → 2 and 2 → 2 -/
def selfLink : Doc :=
  { demo with
    spots := [demoSpot 1 0 [], demoSpot 2 1 []],
    tracks := [{ id := some (.int 0 "0"), feats := [],
                 edges := [{ s := 1, t := 2, feats := [] }, { s := 2, t := 2, feats := [] }] }],
    filtered := none }

/-- `selfLink` passes every executable well-formedness check except `noSelfLinkB` (so `wfB` rejects it),
converts, and its output `nodes [1, 2]`, `edges [(1, 2), (2, 2)]` is rejected by graph validation
("Self edges found") -/
theorem C16_counterexample_self_link :
    wfCoreB selfLink = true ∧ noSelfLinkB selfLink = false ∧ wfB selfLink = false ∧
    metaOkB selfLink = true ∧ tracksConnectedB selfLink = true ∧
    ∃ out, convert selfLink false false = .ok out ∧ out.nodes = [1, 2] ∧ out.edges = [(1, 2), (2, 2)] ∧
      Geff.Validate.graphStage true (intIds out.nodes) (intEdges out.edges) =
        .valueError "Self edges found in data:" := by
  refine ⟨by decide, by decide, by decide, by decide, by decide, ?_⟩
  have hok : isOk (convert selfLink false false) = true := by decide
  cases hc : convert selfLink false false with
  | exc e => rw [hc] at hok; cases hok
  | ok out =>
    have hn : out.nodes = [1, 2] := by
      have := congrArg (fun o => match o with | .ok o => o.nodes | .exc _ => []) hc
      simp only at this
      rw [← this]; decide
    have he : out.edges = [(1, 2), (2, 2)] := by
      have := congrArg (fun o => match o with | .ok o => o.edges | .exc _ => []) hc
      simp only at this
      rw [← this]; decide
    exact ⟨out, rfl, hn, he, by rw [hn, he]; decide⟩

/-! ## Non-vacuity: the document `demo` of `GeffProps/C16.lean` (a split, a second track, a lone spot,
a FilteredTracks list) meets the hypotheses, for every flag combination -/

example : wfB demo = true ∧ tracksConnectedB demo = true := by decide
example : ∀ x ∈ links demo, x.1.s ≠ x.1.t := (wfB_sound demo (by decide)).noSelfLink
example : WF demo ∧ TracksConnected demo :=
  ⟨wfB_sound demo (by decide), tracksConnectedB_sound demo (by decide)⟩
example : (links demo).map (fun x => (x.1.s, x.1.t)) = [(1, 2), (1, 3), (4, 5)] := by decide
-- the stored TRACK_ID column of `demo` (all spots kept): spot 6 belongs to no track ⇒ flagged missing;
-- `validate_data` selects the five labelled nodes and the lineage validator accepts them
example : (spotIds demo).map (trackIdOf demo) = [some (.i 0), some (.i 0), some (.i 0), some (.i 4), some (.i 4), none] := by
  decide
example : (Geff.Tracklet.nodesWithId [1, 2, 3, 4, 5, 6] [Val.i 0, .i 0, .i 0, .i 4, .i 4, .i 0]
      (some [false, false, false, false, false, true])).map
    (fun nl => (decide (nl = labelled demo false false), Geff.Lineage.validateLineages nl [(1, 2), (1, 3), (4, 5)])) =
    some (true, true) := by decide

end GeffProps.C16Links
