import GeffProofs.KVCleanup
import GeffProofs.WriteOrderSpec
/-! # C05 — a failed or interrupted write never leaves a wrong graph that looks valid

Model: `GeffModel/KV.lean` — the store as a recording zarr store sees it (insertion-ordered
key → document map, both zarr formats) and `write_arrays` / `write_dicts` / `geff.write` and the
converters as programs whose trace is the exact program-order list of store mutations
(`(writeArrays … kv₀).ops`; tied to the implementation by comparing recorded real mutation
sequences and by fault injection at every mutation, `harness/corr/C05.py`).

A storage failure at mutation `k` leaves the store `run kv₀ (ops.take k)`; `k ≥ ops.length` is the
write that ran to its end (including a failed validation with its clean-up).

Specification (`recognised` is *necessary* for `validate_structure` + `read_to_memory` to accept a
store, so "not recognised" implies "rejected"; a store equal to the committed one reads back as
the graph being written; a store equal to the initial one reads as whatever was there before). -/
namespace GeffProps.C05
open Geff.KV Geff.KV.Prog Gen.Paths

/-- **C05, crash points of `write_arrays`** — for every store `kv₀` the write may start from
(`PreOK`: empty, foreign members only, or holding a geff written in the same zarr format), every
graph `g` (any number of properties, arrays, chunks; inputs that are rejected half-way included),
every `overwrite` / `structure_validation` setting and **every** `k`: after a storage failure at
mutation `k` the store is not recognised as a geff, or it is exactly the committed new store, or —
only when overwriting, or when the write was refused without touching anything — exactly the
previous store. -/
theorem C05_every_crash_point (d : Docs) (kind : Kind) (f : Fmt) (g : G) (overwrite validate : Bool)
    (kv₀ : KV) (hpre : PreOK kind f overwrite kv₀) (k : Nat) :
    let ops := (writeArrays d kind f g overwrite validate kv₀).ops
    let kv := run kv₀ (ops.take k)
    let w := writeCommitted d kind f g overwrite kv₀
    recognised f kv = false ∨ (w.val = .ok () ∧ kv = run kv₀ w.ops) ∨
      ((overwrite = true ∨ ops = []) ∧ kv = kv₀) := by
  intro ops kv w
  rcases writeArrays_crash d kind f g overwrite validate kv₀ hpre k with h | h | h
  · exact Or.inl h
  · exact Or.inr (Or.inl h)
  · by_cases hc : checkForGeff kind kv₀ = true
    · cases overwrite with
      | true => exact Or.inr (Or.inr ⟨Or.inl rfl, h⟩)
      | false =>
        refine Or.inr (Or.inr ⟨Or.inr ?_, h⟩)
        show (writeArrays d kind f g false validate kv₀).ops = []
        have hg := guard_eq d kind f false kv₀
        simp only [hc, if_true, Bool.false_eq_true, if_false] at hg
        unfold writeArrays; simp only [bind_def]
        rw [ops_bind_err (e := .fileExists) (by rw [hg]), hg]
    · have hc' : checkForGeff kind kv₀ = false := by simpa using hc
      left
      show recognised f kv = false
      have : kv = kv₀ := h
      rw [this]
      exact not_recognised_of_noGeff (hpre.fresh hc').1

/-- **C05, failures inside a concurrent batch** — zarr writes the metadata documents of one array
or group through one `asyncio.gather`: when one of them fails its siblings still complete, so the
surviving store is a prefix of the trace *plus some later mutations of the same batch*.  For every
sequence `T` of mutations a single failure can leave applied (`CrashSeq`: all earlier phases, and
in the current phase any sub-sequence — for the two delete phases the first deletion followed by
any sub-sequence of the rest), the store `run kv₀ T` is not recognised, or shows exactly the new
graph (same geff attribute, same geff-controlled keys and documents as the committed store), or is
the untouched previous store. -/
theorem C05_every_failure_state (d : Docs) (kind : Kind) (f : Fmt) (g : G) (overwrite validate : Bool)
    (kv₀ : KV) (hpre : PreOK kind f overwrite kv₀) (T : List Op)
    (hT : CrashSeq (phases d kind f g overwrite validate kv₀) T) :
    let P := phases d kind f g overwrite validate kv₀
    recognised f (run kv₀ T) = false ∨
      (P.committed = true ∧ geffView f (run kv₀ T) = geffView f (run kv₀ (P.D ++ P.W ++ P.C))) ∨
      run kv₀ T = kv₀ :=
  writeArrays_crashSeq d kind f g overwrite validate kv₀ hpre hT

/-- the phases are the trace, and every prefix of it is one of the failure sequences — so
`C05_every_failure_state` covers every crash point in program order as well -/
theorem C05_failure_states_cover_prefixes (d : Docs) (kind : Kind) (f : Fmt) (g : G)
    (overwrite validate : Bool) (kv₀ : KV) (k : Nat) :
    let P := phases d kind f g overwrite validate kv₀
    (writeArrays d kind f g overwrite validate kv₀).ops = P.D ++ P.W ++ P.C ++ P.X ∧
    CrashSeq P ((writeArrays d kind f g overwrite validate kv₀).ops.take k) := by
  intro P
  have h := phases_ops d kind f g overwrite validate kv₀
  exact ⟨h, by rw [h]; exact crashSeq_take P k⟩

/-- `write_dicts` is `write_arrays` without `overwrite` -/
theorem C05_every_crash_point_write_dicts (d : Docs) (kind : Kind) (f : Fmt) (g : G) (validate : Bool)
    (kv₀ : KV) (hpre : PreOK kind f false kv₀) (k : Nat) :
    let ops := (writeDicts d kind f g validate kv₀).ops
    let kv := run kv₀ (ops.take k)
    let w := writeCommitted d kind f g false kv₀
    recognised f kv = false ∨ (w.val = .ok () ∧ kv = run kv₀ w.ops) ∨ (ops = [] ∧ kv = kv₀) := by
  intro ops kv w
  rcases C05_every_crash_point d kind f g false validate kv₀ hpre k with h | h | ⟨h1, h2⟩
  · exact Or.inl h
  · exact Or.inr (Or.inl h)
  · rcases h1 with h1 | h1
    · simp at h1
    · exact Or.inr (Or.inr ⟨h1, h2⟩)

/-- **C05, crash points of `geff.write` (every backend) and of the converters**: their own guard and
deletion followed by a nested `write_arrays` that guards again -/
theorem C05_every_crash_point_api (d : Docs) (kind : Kind) (f : Fmt) (g : G) (overwrite validate : Bool)
    (kv₀ : KV) (hpre : PreOK kind f overwrite kv₀) (k : Nat) :
    let ops := (apiWrite d kind f g overwrite validate kv₀).ops
    let kv := run kv₀ (ops.take k)
    let w := apiCommitted d kind f g overwrite kv₀
    recognised f kv = false ∨ (w.val = .ok () ∧ kv = run kv₀ w.ops) ∨ kv = kv₀ :=
  apiWrite_crash d kind f g overwrite validate kv₀ hpre k

/-- the same for `geff.write` (every backend) and the converters -/
theorem C05_every_failure_state_api (d : Docs) (kind : Kind) (f : Fmt) (g : G) (overwrite validate : Bool)
    (kv₀ : KV) (hpre : PreOK kind f overwrite kv₀) (T : List Op)
    (hT : CrashSeq (apiPhases d kind f g overwrite validate kv₀) T) :
    let P := apiPhases d kind f g overwrite validate kv₀
    recognised f (run kv₀ T) = false ∨
      (P.committed = true ∧ geffView f (run kv₀ T) = geffView f (run kv₀ (P.D ++ P.W ++ P.C))) ∨
      run kv₀ T = kv₀ :=
  apiWrite_crashSeq d kind f g overwrite validate kv₀ hpre hT

/-- **C05, clean-up** — when structure validation rejects the committed store (validation on,
`g.valid = false`), for every graph and every store the write may start on (without geff:
`CleanS`; or holding one that is being overwritten: `HoldsGeff`), with any foreign members:
the call ends with `ValueError`, **no geff-controlled key is left** (nodes and edges removed), **the
geff attribute is gone**, and **every foreign member is still there byte for byte and in place**.
(`ForeignVisible` — the foreign members are members zarr sees in the written format — is needed only
for str/Path stores, where `delete_geff` removes the whole root when it looks empty.) -/
theorem C05_cleanup (d : Docs) (kind : Kind) (f : Fmt) (g : G) (overwrite : Bool) (kv₀ : KV)
    (hstart : CleanS f kv₀ ∨ (overwrite = true ∧ HoldsGeff f kv₀))
    (hvis : kind = .path → ForeignVisible f kv₀)
    (hcommit : (writeCommitted d kind f g overwrite kv₀).val = .ok ()) (hinv : g.valid = false) :
    let r := writeArrays d kind f g overwrite true kv₀
    r.val = .error .valueError ∧
    ownedPart (run kv₀ r.ops) = [] ∧ geffAttrIn f (run kv₀ r.ops) = none ∧
    foreignPart (run kv₀ r.ops) = foreignPart kv₀ :=
  cleanup_spec d kind f g overwrite kv₀ hstart hvis hcommit hinv

/-- the committed store really carries the new graph's metadata in the format being written, and
`check_for_geff` sees it -/
theorem C05_commit_visible (d : Docs) (kind : Kind) (f : Fmt) (g : G) (s : KV) (hs : FmtClean f s)
    (h : (writeBody d kind f g s).val = .ok ()) :
    geffAttrIn f (run s (writeBody d kind f g s).ops) = some g.geff ∧
    rootGroupFmt (run s (writeBody d kind f g s).ops) = some f :=
  let ⟨a, b, _⟩ := writeBody_commit d kind f g s hs () h
  ⟨a, b⟩

/-- the hypotheses are satisfiable: the empty store; and every store a completed write leaves
behind is again admissible for deletion (`DeleteSafe` is proved, not assumed, for them) -/
theorem C05_pre_empty (kind : Kind) (f : Fmt) (ow : Bool) : PreOK kind f ow [] := preOK_empty kind f ow

theorem C05_written_is_delete_safe (d : Docs) (kind : Kind) (f : Fmt) (g : G) (s : KV)
    (hs : NoneUnder [NODES] s) (h : (writeBody d kind f g s).val = .ok ()) :
    DeleteSafe f (run s (writeBody d kind f g s).ops) ∧
    has (run s (writeBody d kind f g s).ops) (groupKey f []) = true :=
  ⟨writeBody_deleteSafe d kind f g s hs () h, writeBody_root d kind f g s () h⟩

/-! ### the model's statement order is the source's (translator T6, regenerated on every run)

`Gen.WriteOrder` holds the skeleton of each function of the write path extracted from the AST of
the working tree.  The obligations below are what the theorems above rest on; if the source is
re-ordered they stop being `decide`-able and the check reports it. -/
section order
open Geff.WriteOrderSpec Gen.WriteOrder

/-- `write_arrays`: guard → (overwrite: `delete_geff` | else: `FileExistsError`) → ids → node props →
edge props → `metadata.write` (**commit: after every array, before validation**) → validation →
clean-up `delete_geff` **inside the `except ValueError` handler** → `ValueError` -/
theorem order_write_arrays :
    Gen.WriteOrder.translationOk = true ∧
    names (core writeArrays) = ["call:check_for_geff", "call:delete_geff", "raise:FileExistsError",
      "call:write_id_arrays", "call:write_props_arrays", "call:write_props_arrays", "call:write",
      "call:validate_structure", "call:delete_geff", "raise:ValueError"] ∧
    guardShape (core writeArrays) 0 "geff_store" = true ∧
    unconditional (core writeArrays) 3 = true ∧
    detailHas (core writeArrays) 4 "_path.NODES" = true ∧ detailHas (core writeArrays) 5 "_path.EDGES" = true ∧
    unconditional (core writeArrays) 6 = true ∧ detailHas (core writeArrays) 6 "on=metadata" = true ∧
    inBlock (core writeArrays) 7 "if structure_validation" = true ∧ inBlock (core writeArrays) 7 "try" = true ∧
    inBlock (core writeArrays) 8 "except ValueError" = true ∧ inBlock (core writeArrays) 9 "except ValueError" = true := by
  decide +kernel

/-- `delete_geff`: open, `del nodes`, `del edges` unconditionally and in this order; only then the
root (`shutil.rmtree`) or the `geff` attribute -/
theorem order_delete_geff :
    names (core deleteGeff) = ["call:setup_zarr_group", "del:root[_path.NODES]", "del:root[_path.EDGES]",
      "call:rmtree", "call:rmtree", "del:root.attrs['geff']", "del:root.attrs['geff']"] ∧
    unconditional (core deleteGeff) 0 = true ∧ unconditional (core deleteGeff) 1 = true ∧ unconditional (core deleteGeff) 2 = true ∧
    inBlock (core deleteGeff) 3 "if len(list(root.keys())) == 0" = true ∧
    inBlock (core deleteGeff) 5 "except AttributeError" = true ∧
    inBlock (core deleteGeff) 6 "else len(list(root.keys())) == 0" = true := by
  decide +kernel

/-- ids before properties; per property: group, values, missing, data; the metadata write opens the
root with format detection and sets only the `geff` attribute -/
theorem order_array_writers :
    names (core writeIdArrays) = ["raise:TypeError", "raise:TypeError", "call:setup_zarr_group",
      "set:geff_root[_path.NODE_IDS]", "set:geff_root[_path.EDGE_IDS]"] ∧
    names (only ["call:setup_zarr_group", "call:require_group", "call:create_group",
                 "set:prop_group[_path.VALUES]", "set:prop_group[_path.MISSING]", "set:prop_group[_path.DATA]"]
            (core writePropsArrays)) =
      ["call:setup_zarr_group", "call:require_group", "call:create_group", "set:prop_group[_path.VALUES]",
       "set:prop_group[_path.MISSING]", "set:prop_group[_path.DATA]"] ∧
    names (core metadataWrite) = ["raise:TypeError", "call:open_group", "set:group.attrs['geff']"] ∧
    detailHas (core metadataWrite) 1 "mode=default" = true := by
  decide +kernel
end order

/-! ### non-vacuity: a concrete write with 40+ crash points -/

def exDocs : Docs := { zgroup := "zg", zattrs := "za", gjson := "gj", emptyOther := "{}" }
def exArr (m : String) (c : List (String × Option String)) : Arr := { mdoc := m, chunks := c }
def exG (tag : String) (valid : Bool) : G :=
  { nodeIds := exArr (tag ++ "n") [("0", some (tag ++ "n0"))],
    edgeIds := exArr (tag ++ "e") [("0.0", some (tag ++ "e0"))],
    nodeProps := some [{ name := "t", values := exArr (tag ++ "t") [("0", none)],
                         missing := some (exArr (tag ++ "m") [("0", some (tag ++ "m0"))]), data := none }],
    edgeProps := some [], geff := tag ++ "meta", valid := valid }
/-- a MemoryStore holding foreign members and the geff "A" -/
def exOld : KV :=
  run [(⟨["raw"], .zarray⟩, .raw "r"), (⟨["raw"], .chunk "0"⟩, .raw "r0")]
    (writeArrays exDocs .mem .v2 (exG "A" true) false true
      [(⟨["raw"], .zarray⟩, .raw "r"), (⟨["raw"], .chunk "0"⟩, .raw "r0")]).ops

example : recognised .v2 exOld = true := by decide +kernel
example : checkForGeff .mem exOld = true := by decide +kernel
example : (writeArrays exDocs .mem .v2 (exG "B" false) true true exOld).ops.length = 104 := by decide +kernel
/-- the clean-up hypotheses are satisfiable: the store above holds a geff, its foreign array is visible -/
example : HoldsGeff .v2 exOld :=
  ⟨by decide +kernel, ⟨"Ameta", "{}", by decide +kernel⟩, fun _ => by decide +kernel⟩
example : errOf (writeArrays exDocs .mem .v2 (exG "B" false) true true exOld).val = some .valueError := by
  decide +kernel
/-- crash in the delete phase: not recognised; crash at 0: the old store -/
example : recognised .v2 (run exOld ((writeArrays exDocs .mem .v2 (exG "B" true) true true exOld).ops.take 3)) = false := by
  decide +kernel

end GeffProps.C05
