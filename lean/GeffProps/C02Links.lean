import GeffProps.C02
import GeffProofs.LinkStructDenote
/-! # C02 ← C04: the validator hypothesis of `C02_reader_accepts_all_conformant_validated_partial` discharged

`GeffProps/C02.lean` proves that the reader with structural validation **on** returns the graph a
conformant store denotes *under the hypothesis that C04's validator accepts the store*, and names the
missing inclusion.  Here that inclusion is proved (`GeffProofs/LinkStructDenote.lean`:
`Geff.LinkStruct.conformant_of_denote`, through `GeffProps.C04.C04_sound_complete`) and the theorem is
restated with explicit, decidable side conditions on the store instead of the validator hypothesis:

* `OffsetTablesU64 s` — every var-length property listed in the metadata has a `uint64` offset table;
* `MetaKeysArePropGroups s` — every key of `node_props_metadata` / `edge_props_metadata` names a member of
  the `props` group (and, the metadata being a JSON object, keys are pairwise different: the flat-store
  model represents the dict as a list, so this has to be said);
* `AxesAreNodeProps s` — every axis names a listed node property with 1-D `values` and no `missing`
  (**not** among the conditions named in `GeffProps/C02.lean`: `denote` never looks at `axes`, the
  validator does — `needs_axes` below is the store that shows it).

Each of the three is necessary (examples `needs_*`: stores violating exactly one of them, on which
`denote` is defined and the validator model raises `ValueError`); the first is the recorded known finding
(`GeffProps.C02.validator_rejects_int64_table`). -/
namespace GeffProps.C02Links
open Geff.Np Geff.Store Geff.WR Geff.Spec Geff.LinkStruct

/-- **the inclusion**: denote-conformant ∧ uint64 offset tables ∧ metadata keys = property groups ∧ axes
name 1-D unmasked node properties ⊆ C04's `Conformant` (on the tree view of the flat store) -/
theorem C02_conformant_subset_C04 (s : St) (G : Graph) (h : denote s = some G)
    (hu64 : OffsetTablesU64 s = true) (hkeys : MetaKeysArePropGroups s = true) (haxes : AxesAreNodeProps s = true) :
    GeffProps.C04.Conformant (Geff.Bridge.toTarget s) :=
  conformant_of_denote s G h hu64 hkeys haxes

/-- … so C04's model of `validate_structure` returns normally on it -/
theorem C02_validator_accepts_conformant (s : St) (G : Graph) (h : denote s = some G)
    (hu64 : OffsetTablesU64 s = true) (hkeys : MetaKeysArePropGroups s = true) (haxes : AxesAreNodeProps s = true) :
    Geff.Bridge.validate s = .ok () :=
  validate_of_denote s G h hu64 hkeys haxes

/-- **C02, second direction, structural validation on (the default of `read_to_memory`)** — for *every*
store the specification assigns a graph to, whose offset tables are `uint64`, whose metadata keys are
property groups and whose axes name 1-D unmasked node properties: `read_to_memory` with C04's validator
succeeds and returns exactly the graph the store denotes.  The hypothesis `hval` of
`C02_reader_accepts_all_conformant_validated_partial` is discharged by `C02_validator_accepts_conformant`
(i.e. by `C04_sound_complete`). -/
theorem C02_reader_accepts_all_conformant_validated (s : St) (hfit : IntsFit s) (G : Graph) (h : denote s = some G)
    (hu64 : OffsetTablesU64 s = true) (hkeys : MetaKeysArePropGroups s = true) (haxes : AxesAreNodeProps s = true) :
    ∃ r, readToMemory vlenCodec Geff.Bridge.validate s = .ok r ∧ graphOf r = G :=
  GeffProps.C02.C02_reader_accepts_all_conformant_validated_partial s hfit G h
    (C02_validator_accepts_conformant s G h hu64 hkeys haxes)

/-- **the side conditions are exactly the gap between the specification and the validator** — on every
store the specification assigns a graph to, whose metadata dicts have one entry per key
(`MetaKeysUnique`, true of every JSON object): C04's model of `validate_structure` returns normally **iff**
the three side conditions hold.  So nothing else separates `denote`-conformance from C04-`Conformant`, and
each of the three is necessary on every such store (not only on the examples `needs_*` below). -/
theorem C02_validator_accepts_conformant_iff (s : St) (G : Graph) (h : denote s = some G)
    (huniq : MetaKeysUnique s = true) :
    Geff.Bridge.validate s = .ok () ↔
      (OffsetTablesU64 s = true ∧ MetaKeysArePropGroups s = true ∧ AxesAreNodeProps s = true) :=
  validate_iff_conditions s G h huniq

/-! ## non-vacuity, and necessity of each side condition (evaluations) -/

section Examples

/-- an independent layout in the style of `GeffProps.C02.exStore`: a var-length node property whose offset
table has dtype `tableDt`, an axis property `t`, a masked dense edge property with omitted `varlength`, a
foreign attribute and a foreign sibling; `axes` and extra node metadata entries are parameters -/
def mk (tableDt : Dtype) (axes : Option (List String)) (extra : List (String × PropMeta)) : St := [
  ([], .group [("creator", .other), ("geff", .geff ⟨false, axes,
      [("poly", ⟨"poly", "int8", some true⟩), ("t", ⟨"t", "float32", some false⟩)] ++ extra,
      [("w", ⟨"w", "float32", none⟩)]⟩)]),
  (["raw"], .array ⟨.u8, [1], [.i 7]⟩),
  (["edges"], .group []), (["edges", "ids"], .array ⟨.i16, [1, 2], [.i 5, .i (-3)]⟩),
  (["edges", "props"], .group []), (["edges", "props", "w"], .group []),
  (["edges", "props", "w", "values"], .array ⟨.f32, [1], [.f "3fc00000"]⟩),
  (["edges", "props", "w", "missing"], .array ⟨.bool, [1], [.b false]⟩),
  (["nodes"], .group []), (["nodes", "ids"], .array ⟨.i16, [2], [.i 5, .i (-3)]⟩),
  (["nodes", "props"], .group []), (["nodes", "props", "poly"], .group []),
  (["nodes", "props", "poly", "values"], .array ⟨tableDt, [2, 2], [.i 3, .i 2, .i 0, .i 1]⟩),
  (["nodes", "props", "poly", "data"], .array ⟨.i8, [5], [.i 9, .i 0, .i 0, .i 1, .i 2]⟩),
  (["nodes", "props", "t"], .group []),
  (["nodes", "props", "t", "values"], .array ⟨.f32, [2], [.f "00000000", .f "3f800000"]⟩)]

/-- a store meeting every hypothesis of `C02_reader_accepts_all_conformant_validated` -/
def good : St := mk .u64 (some ["t"]) []

example : (denote good).isSome = true := by decide
example : IntsFit good := intsFit_of_bool _ (by decide)
example : OffsetTablesU64 good = true ∧ MetaKeysArePropGroups good = true ∧ AxesAreNodeProps good = true := by decide
example : MetaKeysUnique good = true ∧ MetaKeysUnique GeffProps.C02.exStore = true := by decide
/-- … and an evaluation of the conclusion on it: the validator accepts, the validated reader returns the
denoted graph -/
example : Geff.Bridge.validate good = .ok () := by rfl
example : (match readToMemory vlenCodec Geff.Bridge.validate good with
    | .ok r => decide (some (graphOf r) = denote good) | .error _ => false) = true := by decide

/-- **the known-finding store violates exactly the `uint64` condition**: `GeffProps.C02.exStore` (int64
offset table, as the specification's example prescribes) denotes a graph, meets the other two side
conditions, and is refused by the validator (`GeffProps.C02.validator_rejects_int64_table`) -/
theorem known_finding_violates_exactly_u64 :
    (denote GeffProps.C02.exStore).isSome = true ∧
    OffsetTablesU64 GeffProps.C02.exStore = false ∧ MetaKeysArePropGroups GeffProps.C02.exStore = true ∧
    AxesAreNodeProps GeffProps.C02.exStore = true ∧
    Geff.Bridge.validate GeffProps.C02.exStore = .error .valueError :=
  ⟨by decide, by decide, by decide, by decide, GeffProps.C02.validator_rejects_int64_table.2⟩

/-- the same with `good`'s layout: only the table dtype changed -/
theorem needs_u64 :
    (denote (mk .i64 (some ["t"]) [])).isSome = true ∧ OffsetTablesU64 (mk .i64 (some ["t"]) []) = false ∧
    MetaKeysArePropGroups (mk .i64 (some ["t"]) []) = true ∧ AxesAreNodeProps (mk .i64 (some ["t"]) []) = true ∧
    Geff.Bridge.validate (mk .i64 (some ["t"]) []) = .error .valueError :=
  ⟨by decide, by decide, by decide, by decide, by rfl⟩

/-- a metadata entry without a property group: `denote` ignores it, the validator refuses the store -/
theorem needs_meta_keys :
    (denote (mk .u64 (some ["t"]) [("ghost", ⟨"ghost", "int8", none⟩)])).isSome = true ∧
    OffsetTablesU64 (mk .u64 (some ["t"]) [("ghost", ⟨"ghost", "int8", none⟩)]) = true ∧
    MetaKeysArePropGroups (mk .u64 (some ["t"]) [("ghost", ⟨"ghost", "int8", none⟩)]) = false ∧
    AxesAreNodeProps (mk .u64 (some ["t"]) [("ghost", ⟨"ghost", "int8", none⟩)]) = true ∧
    Geff.Bridge.validate (mk .u64 (some ["t"]) [("ghost", ⟨"ghost", "int8", none⟩)]) = .error .valueError :=
  ⟨by decide, by decide, by decide, by decide, by rfl⟩

/-- the "one entry per key" half of that condition is needed too: a second, shadowed entry for `t` whose
dtype is not a dtype — `denote` reads the first entry, the validator's metadata parse fails -/
theorem needs_meta_keys_unique :
    (denote (mk .u64 (some ["t"]) [("t", ⟨"t", "no-such-dtype", none⟩)])).isSome = true ∧
    OffsetTablesU64 (mk .u64 (some ["t"]) [("t", ⟨"t", "no-such-dtype", none⟩)]) = true ∧
    MetaKeysArePropGroups (mk .u64 (some ["t"]) [("t", ⟨"t", "no-such-dtype", none⟩)]) = false ∧
    AxesAreNodeProps (mk .u64 (some ["t"]) [("t", ⟨"t", "no-such-dtype", none⟩)]) = true ∧
    Geff.Bridge.validate (mk .u64 (some ["t"]) [("t", ⟨"t", "no-such-dtype", none⟩)]) = .error .valueError :=
  ⟨by decide, by decide, by decide, by decide, by rfl⟩

/-- an axis naming the 2-D table of `poly`, or no property at all: `denote` never looks at `axes`, the
validator refuses the store — the condition `GeffProps/C02.lean` does not name -/
theorem needs_axes :
    (denote (mk .u64 (some ["poly"]) [])).isSome = true ∧ OffsetTablesU64 (mk .u64 (some ["poly"]) []) = true ∧
    MetaKeysArePropGroups (mk .u64 (some ["poly"]) []) = true ∧ AxesAreNodeProps (mk .u64 (some ["poly"]) []) = false ∧
    Geff.Bridge.validate (mk .u64 (some ["poly"]) []) = .error .valueError ∧
    (denote (mk .u64 (some ["z"]) [])).isSome = true ∧ AxesAreNodeProps (mk .u64 (some ["z"]) []) = false ∧
    Geff.Bridge.validate (mk .u64 (some ["z"]) []) = .error .valueError :=
  ⟨by decide, by decide, by decide, by decide, by rfl, by decide, by decide, by rfl⟩

end Examples

end GeffProps.C02Links
