import GeffProofs.Segmentation
import GeffProofs.SegVol
/-! # C19 — segmentation consistency checks report exactly their documented condition

Property theorems only.  Model: `GeffModel/Segmentation.lean` (the five functions of
`geff.validate.segmentation` after the repair of D11), tied to the implementation by the
correspondence `harness/corr/C19.py` (exhaustive small volumes of rank 3 and 4, structured messages).

Every theorem has the shape `∃ r, f … = .ok r ∧ (r.ok = true ↔ documented condition) ∧ messages`,
so each one also says that no exception escapes (`Outcome.other` is not produced);
`C19_no_exception` states that separately.  All lists (axes, scale, coordinates, time points, seg
ids) have arbitrary and independent lengths; the time axis may be anywhere or nowhere; maxima,
coordinates and time points are arbitrary (0, negative, too large).

Numbers that are floats in Python (scale, coordinates, axis maxima) are exact dyadic rationals
`m / 2^e`, ordered by cross multiplication (`Dy.Lt`, `Dy.Le`); `Dy.floor` is `int(·)` on
non-negative values (`Dy.floor_spec`).  The theorems therefore speak about the exact product
`c * s`; inputs whose float product is rounded are outside them (covered differentially). -/
namespace GeffProps.C19
open Geff.Np Geff.Seg

/-! ## vocabulary of the specifications

The predicates used below are defined next to the loop invariants in
`GeffProofs/Segmentation.lean`; they are restated here (definitionally) so that this file can be
read on its own. -/

/-- time point `t` lies on axis `ti` of the volume -/
example (v : Vol) (ti : Nat) (t : Int) :
    TimeIn v ti t ↔ ∃ n : Nat, v.shape[ti]? = some n ∧ 0 ≤ t ∧ t < n := Iff.rfl
/-- label `id` occurs in a cell whose index along axis `ti` is `t` -/
example (v : Vol) (ti : Nat) (t id : Int) :
    LabelAt v ti t id ↔ ∃ idx, (idx, id) ∈ v.cells ∧ idx[ti]? = some t.toNat := Iff.rfl
/-- axis `a`, checked against dimension `i`: it has a maximum and `max < extent * scale` -/
example (shape : List Nat) (scale : List Dy) (i : Nat) (a : Axis) :
    AxisIn shape scale i a ↔ ∃ mx n s, a.max = some mx ∧ shape[i]? = some n ∧ scale[i]? = some s ∧
      mx.Lt (Dy.mul (Dy.ofInt n) s) := Iff.rfl
/-- every scaled value lies inside its axis: `0 ≤ x < extent`, and there is one per dimension -/
example (c : Dy) (cs : List Dy) (n : Nat) (ns : List Nat) :
    CoordIn (c :: cs) (n :: ns) ↔ (Dy.ofInt 0).Le c ∧ c.Lt (Dy.ofInt n) ∧ CoordIn cs ns := Iff.rfl
example : CoordIn [] [] ↔ True := Iff.rfl
example (c : Dy) (cs : List Dy) : CoordIn (c :: cs) [] ↔ False := Iff.rfl
example (n : Nat) (ns : List Nat) : CoordIn [] (n :: ns) ↔ False := Iff.rfl
/-- a coordinate is well formed / the pixel under it carries label `id` -/
example (v : Vol) (scale coord : List Dy) :
    CoordOK v scale coord ↔ coord.length = v.ndim ∧ CoordIn (List.zipWith Dy.mul coord scale) v.shape := Iff.rfl
example (v : Vol) (scale coord : List Dy) (id : Int) :
    PixelHas v scale coord id ↔ coord.length = v.ndim ∧ CoordIn (List.zipWith Dy.mul coord scale) v.shape ∧
      ((List.zipWith Dy.mul coord scale).map (fun x => x.floor.toNat), id) ∈ v.cells := Iff.rfl
/-- the order on dyadic rationals and the floor (`int(·)` on non-negative values) -/
example (a b : Dy) : a.Lt b ↔ a.m * 2 ^ b.e < b.m * 2 ^ a.e := Iff.rfl
example (a : Dy) (k : Int) : a.floor = k ↔ (Dy.ofInt k).Le a ∧ a.Lt (Dy.ofInt (k + 1)) := Dy.floor_spec a k

/-! ## has_valid_seg_id -/

/-- documented: the seg-id property exists, is integer typed and has no missing entry -/
def ValidSegId (props : List (String × PropInfo)) (key : String) : Prop :=
  ∃ info, props.lookup key = some info ∧ info.dtype.isInteger = true ∧
    ∀ m, info.missing = some m → ∀ b ∈ m, b = false

theorem C19_has_valid_seg_id_iff (props : List (String × PropInfo)) (key : String) :
    ∃ r, hasValidSegId props key = .ok r ∧ (r.ok = true ↔ ValidSegId props key) ∧
      (r.ok = false → r.errors ≠ []) := by
  unfold hasValidSegId ValidSegId
  cases hl : props.lookup key with
  | none => exact ⟨_, rfl, by simp, by simp⟩
  | some info =>
    cases hi : info.dtype.isInteger with
    | false => exact ⟨_, by simp [hi]; rfl, by simp [hi], by simp⟩
    | true =>
      cases hm : info.missing with
      | none => exact ⟨⟨true, []⟩, by simp [hi, hm], by simp [hi, hm], by simp⟩
      | some m =>
        cases ha : m.any id with
        | true =>
          refine ⟨⟨false, [.missingEntries]⟩, by simp [hi, hm, ha], ?_, by simp⟩
          simp only [Bool.false_eq_true, Option.some.injEq, exists_eq_left', true_and, false_iff, hi, hm]
          intro h
          obtain ⟨b, hb, hb'⟩ := List.any_eq_true.1 ha
          have := h m rfl b hb
          simp only [id_eq] at hb'
          rw [this] at hb'; cases hb'
        | false =>
          refine ⟨⟨true, []⟩, by simp [hi, hm, ha], ?_, by simp⟩
          simp only [Option.some.injEq, exists_eq_left', true_and, true_iff, hi, hm]
          intro m' hm' b hb
          subst hm'
          cases hbv : b with
          | false => rfl
          | true =>
            have : m.any id = true := List.any_eq_true.2 ⟨b, hb, by simp [hbv]⟩
            rw [ha] at this; cases this

/-! ## axes_match_seg_dims -/

/-- documented: axes metadata exist and there are as many axes as segmentation dimensions -/
def AxesMatch (axes : Option (List Axis)) (nd : Nat) : Prop :=
  ∃ ax, axes = some ax ∧ ax ≠ [] ∧ ax.length = nd

theorem C19_axes_match_seg_dims_iff (axes : Option (List Axis)) (nd : Nat) :
    ∃ r, axesMatchSegDims axes nd = .ok r ∧ (r.ok = true ↔ AxesMatch axes nd) := by
  unfold axesMatchSegDims AxesMatch
  cases ht : truthyAxes axes with
  | none =>
    refine ⟨_, rfl, ?_⟩
    simp only [Bool.false_eq_true, false_iff]
    rintro ⟨ax, h1, h2, -⟩
    exact (truthyAxes_none.1 ht) ⟨ax, h1, h2⟩
  | some ax =>
    obtain ⟨h1, h2⟩ := truthyAxes_some.1 ht
    refine ⟨_, rfl, ?_⟩
    simp only [decide_eq_true_eq]
    constructor
    · intro h; exact ⟨ax, h1, h2, h.symm⟩
    · rintro ⟨ax', h1', -, h3⟩
      rw [h1] at h1'; cases h1'; exact h3.symm

/-- for a segmentation of rank ≥ 1 this is just "the number of axes equals the rank" -/
theorem C19_axes_match_rank (ax : List Axis) (nd : Nat) (h : 0 < nd) :
    AxesMatch (some ax) nd ↔ ax.length = nd := by
  unfold AxesMatch
  constructor
  · rintro ⟨ax', h1, -, h3⟩; cases h1; exact h3
  · intro hl; exact ⟨ax, rfl, by intro hn; rw [hn] at hl; simp at hl; omega, hl⟩

/-! ## graph_is_in_seg_bounds -/

/-- documented: the scale vector has one factor per dimension, axes metadata exist, there is one
axis per segmentation dimension, and every axis has a maximum that lies inside the scaled extent
`max < extent * scale` (`AxisIn`). -/
def InBounds (axes : Option (List Axis)) (shape : List Nat) (scale : Option (List Dy)) : Prop :=
  (defaultScale scale shape.length).length = shape.length ∧
  ∃ ax, axes = some ax ∧ ax ≠ [] ∧ ax.length = shape.length ∧
    ∀ j (h : j < ax.length), AxisIn shape (defaultScale scale shape.length) j ax[j]

theorem C19_graph_is_in_seg_bounds_iff (axes : Option (List Axis)) (shape : List Nat)
    (scale : Option (List Dy)) :
    ∃ r, graphIsInSegBounds axes shape scale = .ok r ∧ (r.ok = true ↔ InBounds axes shape scale) ∧
      (r.ok = false → r.errors ≠ []) := by
  unfold graphIsInSegBounds InBounds
  by_cases hs : (defaultScale scale shape.length).length = shape.length
  · simp only [hs, ne_eq, not_true_eq_false, ↓reduceIte, true_and]
    cases ht : truthyAxes axes with
    | none =>
      refine ⟨_, rfl, ?_, by simp⟩
      simp only [Bool.false_eq_true, false_iff]
      rintro ⟨ax, h1, h2, -⟩
      exact (truthyAxes_none.1 ht) ⟨ax, h1, h2⟩
    | some ax =>
      obtain ⟨h1, h2⟩ := truthyAxes_some.1 ht
      by_cases hl : ax.length = shape.length
      · obtain ⟨r, hr, hiff, herr⟩ := boundsLoop_spec shape (defaultScale scale shape.length) ax 0
          (by omega) (by omega)
        refine ⟨r, by simp [hl, hr], ?_, herr⟩
        rw [hiff]
        constructor
        · intro h; exact ⟨ax, h1, h2, hl, by simpa using h⟩
        · rintro ⟨ax', h1', -, -, h4⟩
          rw [h1] at h1'; cases h1'; simpa using h4
      · refine ⟨⟨false, [.axesLength ax.length shape.length]⟩, by simp [hl], ?_, by simp⟩
        simp only [Bool.false_eq_true, false_iff]
        rintro ⟨ax', h1', -, h3, -⟩
        rw [h1] at h1'; cases h1'; exact hl h3
  · refine ⟨⟨false, [.scaleLength (defaultScale scale shape.length).length shape.length]⟩,
      by simp [hs], ?_, by simp⟩
    simp only [Bool.false_eq_true, false_iff]
    rintro ⟨h, -⟩; exact hs h

/-! ## has_seg_ids_at_time_points -/

/-- documented: every time point lies on the time axis, and every listed label occurs in the
segmentation at its time point (`tps` and `ids` are paired as Python's `zip` pairs them). -/
def TimePointsOK (v : Vol) (ti : Nat) (tps ids : List Int) : Prop :=
  (∀ t ∈ tps, TimeIn v ti t) ∧ ∀ p ∈ tps.zip ids, LabelAt v ti p.1 p.2

/-- the time axis used: the position of the only axis typed "time", axis 0 otherwise -/
theorem C19_time_index (ax : List Axis) (i : Nat) :
    i ∈ timeIndices 0 ax ↔ ∃ h : i < ax.length, ax[i].type = some "time" := by
  have key : ∀ (ax : List Axis) (k i : Nat), i ∈ timeIndices k ax ↔
      ∃ j, ∃ h : j < ax.length, i = k + j ∧ ax[j].type = some "time" := by
    intro ax
    induction ax with
    | nil => intro k i; simp [timeIndices]
    | cons a rest ih =>
      intro k i
      simp only [timeIndices]
      by_cases ha : a.type = some "time"
      · simp only [ha, beq_self_eq_true, ↓reduceIte, List.mem_cons, ih, List.length_cons]
        constructor
        · rintro (rfl | ⟨j, hj, rfl, ht⟩)
          · exact ⟨0, by simp, by simp, by simpa using ha⟩
          · exact ⟨j + 1, by simpa using hj, by omega, by simpa using ht⟩
        · rintro ⟨j, hj, rfl, ht⟩
          cases j with
          | zero => left; simp
          | succ j => right; exact ⟨j, by simpa using hj, by omega, by simpa using ht⟩
      · have : (a.type == some "time") = false := by simpa using ha
        simp only [this, Bool.false_eq_true, ↓reduceIte, ih, List.length_cons]
        constructor
        · rintro ⟨j, hj, rfl, ht⟩
          exact ⟨j + 1, by simpa using hj, by omega, by simpa using ht⟩
        · rintro ⟨j, hj, rfl, ht⟩
          cases j with
          | zero => simp at ht; exact absurd ht ha
          | succ j => exact ⟨j, by simpa using hj, by omega, by simpa using ht⟩
  rw [key]
  constructor
  · rintro ⟨j, hj, rfl, ht⟩; exact ⟨by simpa using hj, by simpa using ht⟩
  · rintro ⟨h, ht⟩; exact ⟨i, h, by simp, ht⟩

theorem C19_has_seg_ids_at_time_points_iff (v : Vol) (tps ids : List Int) (axes : Option (List Axis)) :
    ∃ r, hasSegIdsAtTimePoints v tps ids axes = .ok r ∧
      (r.ok = true ↔ TimePointsOK v (timeIndex axes) tps ids) ∧
      -- an out-of-range time point gives false and a message naming such a time point
      ((∃ t ∈ tps, ¬ TimeIn v (timeIndex axes) t) →
        r.ok = false ∧ ∃ t ∈ tps, ¬ TimeIn v (timeIndex axes) t ∧ Msg.timeOutOfBounds t ∈ r.errors) ∧
      -- a false result always carries a message
      (r.ok = false → r.errors ≠ []) := by
  unfold hasSegIdsAtTimePoints TimePointsOK
  obtain ⟨r, suffix, hr, herr, hiff, hoob, hmsg⟩ :=
    timeLoop_spec v (timeIndex axes) (tps.zip ids) tps [] false
  have hgroup : (∀ t ∈ tps, ∀ id ∈ groupAt (tps.zip ids) t, LabelAt v (timeIndex axes) t id) ↔
      ∀ p ∈ tps.zip ids, LabelAt v (timeIndex axes) p.1 p.2 := by
    constructor
    · intro h p hp
      refine h p.1 (List.of_mem_zip hp).1 p.2 ?_
      simp only [groupAt, List.mem_map, List.mem_filter, beq_iff_eq]
      exact ⟨p, ⟨hp, rfl⟩, rfl⟩
    · intro h t _ id hid
      simp only [groupAt, List.mem_map, List.mem_filter, beq_iff_eq] at hid
      obtain ⟨p, ⟨hp, rfl⟩, rfl⟩ := hid
      exact h p hp
  simp only [List.nil_append] at herr
  refine ⟨r, hr, ?_, ?_, ?_⟩
  · rw [hiff, hgroup]; simp
  · intro hex
    obtain ⟨t, ht, hnot, hm⟩ := hoob hex
    refine ⟨?_, t, ht, hnot, herr ▸ hm⟩
    cases hok : r.ok with
    | false => rfl
    | true => exact absurd ((hiff.1 hok).2.1 t ht) hnot
  · intro hf
    rcases hmsg hf with h | h
    · cases h
    · rw [herr]; exact h

/-- **the message is explanatory**: when some time point is out of range, the result is false, its
last message names the *first* out-of-range time point of the list, and the messages before it are
"missing label" messages of the earlier (in-range) time points. -/
theorem C19_time_points_message (v : Vol) (tps ids : List Int) (axes : Option (List Axis))
    (hbad : ∃ t ∈ tps, ¬ TimeIn v (timeIndex axes) t) :
    ∃ j, ∃ hj : j < tps.length, ¬ TimeIn v (timeIndex axes) tps[j] ∧
      (∀ i (hi : i < tps.length), i < j → TimeIn v (timeIndex axes) tps[i]) ∧
      ∃ mid, hasSegIdsAtTimePoints v tps ids axes = .ok ⟨false, mid ++ [Msg.timeOutOfBounds tps[j]]⟩ ∧
        ∀ m ∈ mid, ∃ id t, m = Msg.missingLabel id t := by
  obtain ⟨j, hj, h1, h2, mid, h3, h4⟩ :=
    timeLoop_first_bad v (timeIndex axes) (tps.zip ids) tps [] false hbad
  exact ⟨j, hj, h1, h2, mid, by simpa [hasSegIdsAtTimePoints] using h3, h4⟩

/-! ## has_seg_ids_at_coords -/

/-- documented: as many coordinates as seg ids, one scale factor per dimension, and for every pair
the coordinate has one value per dimension, every scaled value lies inside its axis and the pixel
at the (floored) scaled coordinate carries the expected label (`PixelHas`). -/
def CoordsOK (v : Vol) (coords : List (List Dy)) (ids : List Int) (scale : Option (List Dy)) : Prop :=
  coords.length = ids.length ∧ (defaultScale scale v.ndim).length = v.ndim ∧
  ∀ p ∈ coords.zip ids, PixelHas v (defaultScale scale v.ndim) p.1 p.2

theorem C19_has_seg_ids_at_coords_iff (v : Vol) (hwf : v.WF) (coords : List (List Dy)) (ids : List Int)
    (scale : Option (List Dy)) :
    ∃ r, hasSegIdsAtCoords v coords ids scale = .ok r ∧
      (r.ok = true ↔ CoordsOK v coords ids scale) ∧
      -- wrong lengths, a coordinate of the wrong rank or out of range: false *and* a message
      ((coords.length ≠ ids.length ∨ (defaultScale scale v.ndim).length ≠ v.ndim ∨
          ∃ p ∈ coords.zip ids, ¬ CoordOK v (defaultScale scale v.ndim) p.1) →
        r.ok = false ∧ r.errors ≠ []) := by
  unfold hasSegIdsAtCoords CoordsOK
  by_cases hl : coords.length = ids.length
  · by_cases hs : (defaultScale scale v.ndim).length = v.ndim
    · obtain ⟨r, hr, hiff, hbad, -⟩ :=
        coordLoop_spec v hwf (defaultScale scale v.ndim) hs (coords.zip ids) 0 false
      refine ⟨r, by simp [hl, hs, hr], by rw [hiff]; simp [hl, hs], ?_⟩
      rintro (h | h | h)
      · exact absurd hl h
      · exact absurd hs h
      · exact hbad h
    · refine ⟨⟨false, [.scaleLength (defaultScale scale v.ndim).length v.ndim]⟩, by simp [hl, hs], ?_, by simp⟩
      simp only [Bool.false_eq_true, false_iff]
      rintro ⟨-, h, -⟩; exact hs h
  · refine ⟨⟨false, [.lengthMismatch]⟩, by simp [hl], ?_, by simp⟩
    simp only [Bool.false_eq_true, false_iff]
    rintro ⟨h, -⟩; exact hl h

/-- **the message is explanatory**: when the lists have matching lengths and some coordinate has
the wrong number of values or a scaled value outside its axis, the result is false with exactly
one message, which names the *first* such pair and says which of the two is wrong. -/
theorem C19_coords_message (v : Vol) (hwf : v.WF) (coords : List (List Dy)) (ids : List Int)
    (scale : Option (List Dy)) (hl : coords.length = ids.length)
    (hs : (defaultScale scale v.ndim).length = v.ndim)
    (hbad : ∃ p ∈ coords.zip ids, ¬ CoordOK v (defaultScale scale v.ndim) p.1) :
    ∃ j, ∃ hj : j < (coords.zip ids).length,
      ¬ CoordOK v (defaultScale scale v.ndim) (coords.zip ids)[j].1 ∧
      (∀ i (hi : i < (coords.zip ids).length), i < j →
        CoordOK v (defaultScale scale v.ndim) (coords.zip ids)[i].1) ∧
      hasSegIdsAtCoords v coords ids scale = .ok ⟨false,
        [if (coords.zip ids)[j].1.length ≠ v.ndim then Msg.coordLength j else Msg.coordOutOfBounds j]⟩ := by
  obtain ⟨j, hj, h1, h2, h3⟩ :=
    coordLoop_first_bad v hwf (defaultScale scale v.ndim) hs (coords.zip ids) 0 false hbad
  refine ⟨j, hj, h1, h2, ?_⟩
  unfold hasSegIdsAtCoords
  simp only [hl, ne_eq, not_true_eq_false, ↓reduceIte, hs]
  simpa using h3

/-- a label mismatch alone (all coordinates well formed and in range) is reported without a
message, as the implementation documents ("False if … there is no match") -/
theorem C19_coords_mismatch_silent (v : Vol) (hwf : v.WF) (coords : List (List Dy)) (ids : List Int)
    (scale : Option (List Dy)) (hl : coords.length = ids.length)
    (hs : (defaultScale scale v.ndim).length = v.ndim)
    (hgood : ∀ p ∈ coords.zip ids, CoordOK v (defaultScale scale v.ndim) p.1) :
    ∃ r, hasSegIdsAtCoords v coords ids scale = .ok r ∧ r.errors = [] := by
  obtain ⟨r, hr, -, -, hg⟩ :=
    coordLoop_spec v hwf (defaultScale scale v.ndim) hs (coords.zip ids) 0 false
  exact ⟨r, by simp [hasSegIdsAtCoords, hl, hs, hr], hg hgood⟩

/-! ## never an exception -/

/-- **C19 (no exception).**  For all inputs — any lengths of axes, scale, coordinate and id lists,
time axis anywhere, maxima 0, negative and too-large coordinates and time points — none of the five
functions lets a Python exception escape (for `has_seg_ids_at_coords`: on every well-formed label
volume, which every numpy array is, `Vol.ofFlat_wf`). -/
theorem C19_no_exception :
    (∀ props key n, hasValidSegId props key ≠ .other n) ∧
    (∀ axes nd n, axesMatchSegDims axes nd ≠ .other n) ∧
    (∀ axes shape scale n, graphIsInSegBounds axes shape scale ≠ .other n) ∧
    (∀ v tps ids axes n, hasSegIdsAtTimePoints v tps ids axes ≠ .other n) ∧
    (∀ v, v.WF → ∀ coords ids scale n, hasSegIdsAtCoords v coords ids scale ≠ .other n) := by
  refine ⟨?_, ?_, ?_, ?_, ?_⟩
  · intro props key n h
    obtain ⟨r, hr, -⟩ := C19_has_valid_seg_id_iff props key
    rw [hr] at h; cases h
  · intro axes nd n h
    obtain ⟨r, hr, -⟩ := C19_axes_match_seg_dims_iff axes nd
    rw [hr] at h; cases h
  · intro axes shape scale n h
    obtain ⟨r, hr, -⟩ := C19_graph_is_in_seg_bounds_iff axes shape scale
    rw [hr] at h; cases h
  · intro v tps ids axes n h
    obtain ⟨r, hr, -⟩ := C19_has_seg_ids_at_time_points_iff v tps ids axes
    rw [hr] at h; cases h
  · intro v hwf coords ids scale n h
    obtain ⟨r, hr, -⟩ := C19_has_seg_ids_at_coords_iff v hwf coords ids scale
    rw [hr] at h; cases h

/-- numpy's wrap-around is unreachable behind the guards: wherever the model indexes the volume,
the index is non-negative and inside the axis, so `wrapIndex` is the identity there. -/
theorem C19_no_wraparound (n : Nat) (i : Int) (j : Nat) (h : wrapIndex n i = some j) :
    (0 ≤ i ∧ i < n ∧ j = i.toNat) ∨ (i < 0 ∧ -(n : Int) ≤ i ∧ j = (i + n).toNat) := by
  unfold wrapIndex at h
  by_cases h1 : 0 ≤ i ∧ i < n
  · simp only [h1, and_self, ↓reduceIte, Option.some.injEq] at h
    exact .inl ⟨h1.1, h1.2, h.symm⟩
  · simp only [h1, ↓reduceIte] at h
    by_cases h2 : -(n : Int) ≤ i ∧ i < 0
    · simp only [h2, and_self, ↓reduceIte, Option.some.injEq] at h
      exact .inr ⟨h2.2, h2.1, h.symm⟩
    · simp [h2] at h

/-! ## non-vacuity (evaluations of the model on concrete inputs — tests, not the unbounded claim) -/

/-- a 2 x 1 x 2 volume with labels 1..4; it is well formed, so the hypothesis of
`C19_has_seg_ids_at_coords_iff` is satisfiable -/
def exVol : Vol := Vol.ofFlat [2, 1, 2] [1, 2, 3, 4]
example : exVol.WF := Vol.ofFlat_wf _ _ (by decide)
def d (i : Int) : Dy := Dy.ofInt i
def half (i : Int) : Dy := ⟨i, 1⟩          -- i / 2

example : hasSegIdsAtCoords exVol [[d 1, d 0, d 1], [d 0, d 0, d 0]] [4, 1] none = .ok ⟨true, []⟩ := by decide
/-- wrong label: false, no message (as documented) -/
example : hasSegIdsAtCoords exVol [[d 1, d 0, d 1]] [3] none = .ok ⟨false, []⟩ := by decide
/-- scale 1/2, 1, 2 with coordinates 2, 0, 3/4 (pixel 1, 0, 1) -/
example : hasSegIdsAtCoords exVol [[d 2, d 0, ⟨3, 2⟩]] [4] (some [half 1, d 1, d 2]) = .ok ⟨true, []⟩ := by decide
/-- a negative coordinate (numpy would wrap it to the last pixel, which holds label 4): rejected -/
example : hasSegIdsAtCoords exVol [[d (-1), d 0, d 1]] [4] none = .ok ⟨false, [.coordOutOfBounds 0]⟩ := by decide
example : npIndex exVol [-1, 0, 1] = .ok 4 := by decide
/-- just below zero (`int(-0.5) = 0` would hit pixel 0), too large, too short, wrong scale length -/
example : hasSegIdsAtCoords exVol [[half (-1), d 0, d 0]] [1] none = .ok ⟨false, [.coordOutOfBounds 0]⟩ := by decide
example : hasSegIdsAtCoords exVol [[d 0, d 0, d 0], [d 0, d 1, d 0]] [1, 1] none = .ok ⟨false, [.coordOutOfBounds 1]⟩ := by
  decide
example : hasSegIdsAtCoords exVol [[d 0, d 0]] [1] none = .ok ⟨false, [.coordLength 0]⟩ := by decide
example : hasSegIdsAtCoords exVol [[d 0, d 0, d 0]] [1] (some [d 1]) = .ok ⟨false, [.scaleLength 1 3]⟩ := by decide

/-- time axis last (position 2): label 2 occurs at t = 1, label 1 does not; t = -1 and t = 2 are out -/
def axesT2 : Option (List Axis) := some [⟨some "space", none⟩, ⟨some "space", none⟩, ⟨some "time", none⟩]
example : timeIndex axesT2 = 2 := by decide
example : hasSegIdsAtTimePoints exVol [1, 0] [2, 3] axesT2 = .ok ⟨true, []⟩ := by decide
example : hasSegIdsAtTimePoints exVol [1, 1] [1, 4] axesT2 = .ok ⟨false, [.missingLabel 1 1, .missingLabel 1 1]⟩ := by
  decide
example : hasSegIdsAtTimePoints exVol [0, -1] [9, 2] axesT2 =
    .ok ⟨false, [.missingLabel 9 0, .timeOutOfBounds (-1)]⟩ := by decide
example : hasSegIdsAtTimePoints exVol [2] [2] axesT2 = .ok ⟨false, [.timeOutOfBounds 2]⟩ := by decide
/-- hypotheses of the message theorems are satisfiable -/
example : ∃ t ∈ [(0 : Int), -1], ¬ TimeIn exVol (timeIndex axesT2) t := by decide
example : ¬ CoordOK exVol [d 1, d 1, d 1] [d (-1), d 0, d 1] := by
  intro h
  have := (allInRange_iff _ _).2 h.2
  revert this; decide
/-- a time axis beyond the rank of the volume -/
example : hasSegIdsAtTimePoints exVol [0] [1]
    (some [⟨none, none⟩, ⟨none, none⟩, ⟨none, none⟩, ⟨some "time", none⟩]) = .ok ⟨false, [.timeOutOfBounds 0]⟩ := by
  decide

/-- an axis maximum of 0 is a maximum (D11): in bounds; on the extent: out of bounds -/
example : graphIsInSegBounds (some [⟨some "time", some (d 0)⟩, ⟨none, some (d 2)⟩]) [1, 3] none = .ok ⟨true, []⟩ := by
  decide
example : graphIsInSegBounds (some [⟨some "time", some (d 1)⟩, ⟨none, some (d 2)⟩]) [1, 3] none =
    .ok ⟨false, [.axisOutOfBounds 0]⟩ := by decide
/-- more axes than segmentation dimensions (D11: IndexError before the repair) -/
example : graphIsInSegBounds (some [⟨none, some (d 0)⟩, ⟨none, some (d 0)⟩]) [1] none =
    .ok ⟨false, [.axesLength 2 1]⟩ := by decide
example : graphIsInSegBounds (some [⟨none, none⟩]) [1] none = .ok ⟨false, [.noAxisMax]⟩ := by decide
example : hasValidSegId [("seg_id", ⟨.u16, some [false, false]⟩)] "seg_id" = .ok ⟨true, []⟩ := by decide
example : hasValidSegId [("seg_id", ⟨.f32, none⟩)] "seg_id" = .ok ⟨false, [.nonIntegerDtype]⟩ := by decide

end GeffProps.C19
