import GeffProofs.TrackletsGen
import GeffProps.C13Data
/-! # C13 on the code as it is written now (translator T21)

`Gen/Tracks.lean` is regenerated on every run from `geff/validate/tracks.py`: `validate_tracklets`,
statement by statement, as a Lean `do`-block over the primitives of `GeffModel/PyDoTracks.lean`
(`G.subgraph`, the degree views with `max(..., default=0)`, `S.edges`, `G.out_degree` / `G.in_degree`,
`nx.is_directed_acyclic_graph`, `nx.is_weakly_connected` with its `NetworkXPointlessConcept`,
`next(...)` with its `StopIteration`, `G.predecessors` / `G.successors`, the f-strings, `continue`).
This file proves that the generated function IS the hand-written model
(`Geff.Tracklet.validateTrackletsArrays`: the decision list of `checkTracklet` with the rendered
messages) for ALL node, edge and tracklet-id lists, that neither library exception is reachable,
and transports `C13_arrays_iff` to the generated function.

Property theorems only; helper lemmas in `GeffProofs/TrackletsGen.lean`. -/
namespace GeffProps.C13Gen
open Geff.Graph Geff.Lineage Geff.Tracklet Geff.PyDoTracks GeffProofs.TrackletsGen GeffProps.C13

/-- the translator accepted every statement of `validate_tracklets` -/
theorem translated : Gen.Tracks.trackletsOk = true := by decide

/-- what the generated code returns for an outcome of the model -/
def ofArrays : ArraysOutcome → Outcome (Bool × List String)
  | .result valid errors => .ok (valid, errors)
  | .raised name => .error (excOf name)

/-- **`validate_tracklets` as written = the model**, for every node list, edge list and tracklet-id
list (lengths may differ, duplicate node ids, cyclic graphs, phantom end points, values outside
int64 included): the same verdict, the same messages in the same order. -/
theorem C13Gen_validate_tracklets_is_model (nodeIds : List Int) (edgeIds : List (Int × Int))
    (trackletIds : List Int) :
    Gen.Tracks.validateTracklets nodeIds edgeIds trackletIds
      = ofArrays (validateTrackletsArrays nodeIds trackletIds edgeIds) := by
  rw [validateTracklets_eq, C13_arrays_result]
  rfl

/-- **no library exception is reachable** in `validate_tracklets` as written: neither the
`StopIteration` of `next(...)`, nor the `NetworkXPointlessConcept` of `nx.is_weakly_connected`, nor
the `IndexError` of `preds_in_G[0]` — the call returns `(not errors, errors)`. -/
theorem C13Gen_no_exception (nodeIds : List Int) (edgeIds : List (Int × Int)) (trackletIds : List Int) :
    ∃ valid errors, Gen.Tracks.validateTracklets nodeIds edgeIds trackletIds = .ok (valid, errors) ∧
      valid = errors.isEmpty := by
  refine ⟨_, _, validateTracklets_eq nodeIds edgeIds trackletIds, ?_⟩
  exact isEmpty_model nodeIds trackletIds edgeIds

/-- **C13 at the entry point, on the code as written**: for int64 arrays with unique node ids and
an acyclic edge list, `validate_tracklets` returns `(True, [])` iff the labelling is the documented
partition into maximal unbranched paths; otherwise `False` with one rendered message per offending
tracklet id, in first-occurrence order. -/
theorem C13Gen_iff (nodes labels : List Int) (edges : List (Int × Int))
    (hn : ∀ x ∈ nodes, InInt64 x) (hl : ∀ x ∈ labels, InInt64 x)
    (he : ∀ e ∈ edges, InInt64 e.1 ∧ InInt64 e.2) (hnd : nodes.Nodup) (hacyc : Ranked edges) :
    Gen.Tracks.validateTracklets nodes edges labels =
      .ok (validateTracklets (nodes.zip labels) edges,
           (trackletErrors (nodes.zip labels) edges).filterMap fun p => message p.1 p.2) ∧
    (validateTracklets (nodes.zip labels) edges = true ↔ TrackletSpecMasked (nodes.zip labels) edges) ∧
    (TrackletSpecMasked (nodes.zip labels) edges →
      Gen.Tracks.validateTracklets nodes edges labels = .ok (true, [])) := by
  obtain ⟨h1, h2, h3, _⟩ := C13_arrays_iff nodes labels edges hn hl he hnd hacyc
  refine ⟨?_, h2, ?_⟩
  · rw [C13Gen_validate_tracklets_is_model, h1]; rfl
  · intro hs
    rw [C13Gen_validate_tracklets_is_model, h3 hs]; rfl

/-! Evaluation of the generated function on concrete inputs (tests, not the claim). -/
example : Gen.Tracks.validateTracklets [1, 2, 3] [(1, 2), (2, 3)] [7, 7, 7] = .ok (true, []) := by decide
example : Gen.Tracks.validateTracklets [1, 2, 3] [(1, 2), (2, 3)] [7, 7, 8] =
    .ok (false, ["Tracklet 7: Not maximal. Path can extend forward to node 3.",
                 "Tracklet 8: Not maximal. Path can extend backward to node 2."]) := by decide
example : Gen.Tracks.validateTracklets [1, 2, 3] [(1, 2), (1, 3)] [7, 7, 7] =
    .ok (false, ["Tracklet 7: Invalid path structure (branch or merge detected)."]) := by decide

end GeffProps.C13Gen
