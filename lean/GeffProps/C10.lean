import GeffModel.MetaWrite
/-! # C10 — written metadata truthfully describes the stored data (theorems: work in progress) -/
namespace GeffProps.C10
open Geff.MetaW

theorem C10_stub : keys ([] : List (String × PropMeta)) = [] := rfl

end GeffProps.C10
