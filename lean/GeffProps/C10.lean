import GeffProofs.MetaWrite
/-! # C10 — written metadata truthfully describes the stored data

Property theorems only.  Model: `Geff.MetaW` (`GeffModel/MetaWrite.lean`) — `createPropsMetadata`,
`addOrUpdatePropsMetadata`, `computeAndAddAxisMinMax`, `createOrUpdateMetadata`,
`updateMetadataAxes`, `axesFromLists`, `writePropsArrays`, `writeArrays` and the entry points
`writeDicts`, `nxWrite` (networkx and rustworkx), `sgWrite` (spatial-graph) — tied to the
implementation by `harness/corr/C10.py`.

"Successful write" = the model function returns `ok w`: `w.md` is the metadata stored in
`attrs["geff"]`, `w.nodes` / `w.edges` describe the property groups of the store (`none` = no
`props` group; per group the name, the dtype of `values` resp. `data`, whether a `data` array and
a `missing` array exist, the number of rows, and the rows of a fixed-shape `values` array).  With
`structure_validation=True` (`writeArraysValidated`, the default and the scope of the property)
success includes that `validate_structure` accepted the store; what that guarantees is `accepted`
(property C04 proves the validator accepts exactly the conformant stores).

Coordinates are an abstract type `κ` with a linear order (never floats in Lean). -/
namespace GeffProps.C10
open Geff.Np Geff.MetaW
variable {κ : Type}

/-! ## specification -/

def storedList (g : Option (List (Stored κ))) : List (Stored κ) := g.getD []

/-- the metadata entry of one stored property: right identifier, the stored dtype, the var-length
flag iff a `data` array exists, and the caller's unit / name / description (none if the caller
had no entry) -/
def EntryExact (caller final : List (String × PropMeta)) (st : Stored κ) : Prop :=
  ∃ pm, lookup st.name final = some pm ∧ pm.identifier = st.name ∧ pm.dtype = st.dtype.name ∧
    pm.varlength = st.hasData ∧
    (∀ c, lookup st.name caller = some c → pm.unit = c.unit ∧ pm.name = c.name ∧ pm.description = c.description) ∧
    (lookup st.name caller = none → pm.unit = none ∧ pm.name = none ∧ pm.description = none)

/-- exactly one entry per stored property, each exact -/
def PropsExact (caller final : List (String × PropMeta)) (g : Option (List (Stored κ))) : Prop :=
  (keys final).Nodup ∧ (∀ k, k ∈ keys final ↔ k ∈ (storedList g).map (·.name)) ∧
  ∀ st ∈ storedList g, EntryExact caller final st

/-- the caller's props-metadata is a dict (unique keys) whose keys are the identifiers (what the
pydantic model validator enforces) -/
def DictWF (d : List (String × PropMeta)) : Prop :=
  (keys d).Nodup ∧ ∀ q ∈ d, q.2.identifier = q.1

/-- property dicts have unique keys -/
def PropsWF (ps : Option (List (String × PropData κ))) : Prop := ∀ l, ps = some l → (keys l).Nodup

def IsMin [LE κ] (lo : κ) (l : List κ) : Prop := lo ∈ l ∧ ∀ x ∈ l, lo ≤ x
def IsMax [LE κ] (hi : κ) (l : List κ) : Prop := hi ∈ l ∧ ∀ x ∈ l, x ≤ hi

section
variable [LT κ] [DecidableLT κ] [Min κ] [Max κ]

/-- one side (nodes or edges) of `C10_props_metadata_exact` -/
theorem side_exact (caller : List (String × PropMeta)) (hc : DictWF caller) (n : Nat)
    (props : Option (List (String × PropData κ))) (u : Option (List (String × List String)))
    (hp : PropsWF props) (r : Option (PropsResult κ)) (hw : writeOpt props u = .ok r)
    (hacc : groupAccepted n (addOrUpdateDict caller (pmsOf r)) (r.map (·.2.1)) = true) :
    PropsExact caller (addOrUpdateDict caller (pmsOf r)) (r.map (·.2.1)) := by
  rcases writeOpt_spec hw with ⟨_, rfl⟩ | ⟨ps, ⟨pms, sts, ps'⟩, rfl, hwp, rfl⟩
  · -- no props group: validation demands that the metadata lists nothing
    simp only [pmsOf, Option.map_none, Option.getD_none, addOrUpdateDict_nil, groupAccepted,
      List.isEmpty_iff] at hacc ⊢
    subst hacc
    exact ⟨by simp [keys], by simp [keys, storedList], by simp [storedList]⟩
  · obtain ⟨hnd, rfl, rfl⟩ := writePropsArrays_spec hwp (hp ps rfl)
    simp only [pmsOf, Option.map_some, Option.getD_some] at hacc ⊢
    have hids : (ps'.map (fun q => entryOf q.1 q.2)).map (·.identifier) = keys ps' := by
      simp [keys, List.map_map, Function.comp_def, entryOf]
    have hnames : (ps'.map (fun q => storedOf q.1 q.2)).map (·.name) = keys ps' := by
      simp [keys, List.map_map, Function.comp_def, storedOf_name]
    refine ⟨addOrUpdateDict_nodup _ _ hc.1, ?_, ?_⟩
    · intro k
      simp only [storedList, Option.getD_some, hnames]
      constructor
      · intro hk
        simp only [groupAccepted, Bool.and_eq_true, List.all_eq_true] at hacc
        have := hacc.1 k hk
        simpa [hnames] using this
      · intro hk
        rw [addOrUpdateDict_keys, hids]; exact Or.inr hk
    · intro st hst
      simp only [storedList, Option.getD_some, List.mem_map] at hst
      obtain ⟨⟨name, p'⟩, hq, rfl⟩ := hst
      have hmem : entryOf name p' ∈ ps'.map (fun q => entryOf q.1 q.2) :=
        List.mem_map.2 ⟨(name, p'), hq, rfl⟩
      have hhit := addOrUpdateDict_hit caller _ (by rw [hids]; exact hnd) (entryOf name p') hmem
      simp only [EntryExact, storedOf_name]
      have hid : (entryOf name p').identifier = name := rfl
      rw [hid] at hhit
      cases hl : lookup name caller with
      | none =>
        rw [hl] at hhit
        exact ⟨entryOf name p', hhit, rfl, rfl, rfl, fun c hc' => by simp at hc', fun _ => ⟨rfl, rfl, rfl⟩⟩
      | some c =>
        rw [hl] at hhit
        refine ⟨upd (entryOf name p') c, hhit, ?_, rfl, rfl, ?_, fun h' => by simp at h'⟩
        · exact hc.2 (name, c) (lookup_mem' hl)
        · intro c' hc'
          simp only [Option.some.injEq] at hc'
          subst hc'
          exact ⟨rfl, rfl, rfl⟩

/-! ## write_arrays -/

/-- **C10 (props metadata, write_arrays)** — after a successful validated write the stored
`node_props_metadata` has exactly one entry per stored node property (and none otherwise), each
with the stored dtype and `varlength` iff a `data` array was stored, keeping the caller's unit /
name / description; the same for edges.  For every caller metadata (stale, absent or wrong
entries included), every property dict (or `None`), with and without un-squishing. -/
theorem C10_props_metadata_exact (md : Meta κ) (n e : Nat) (np ep : Option (List (String × PropData κ)))
    (nu eu : Option (List (String × List String))) (w : Written κ)
    (hmdn : DictWF md.nodeProps) (hmde : DictWF md.edgeProps) (hnp : PropsWF np) (hep : PropsWF ep)
    (h : writeArraysValidated md n e np ep nu eu = .ok w) :
    PropsExact md.nodeProps w.md.nodeProps w.nodes ∧ PropsExact md.edgeProps w.md.edgeProps w.edges := by
  unfold writeArraysValidated at h
  obtain ⟨w', hw, h2⟩ := bind_eq_ok h
  by_cases hacc : accepted n e w' = true
  · simp only [hacc, if_true, pure_eq, Except.ok.injEq] at h2
    subst h2
    obtain ⟨nodeRes, edgeRes, h1, h2, h3, hn, he⟩ := writeArrays_spec hw
    obtain ⟨f1, f2, -⟩ := finishMeta_props h3
    simp only [accepted, Bool.and_eq_true] at hacc
    have hnp' : PropsWF (addEmptyAxisProps md n np) := by
      intro l hl
      cases hnp0 : np with
      | none => simp [addEmptyAxisProps, hnp0] at hl
      | some ps => rw [hnp0] at hl; exact addEmptyAxisProps_nodup md n ps l hl (hnp ps hnp0)
    have e1 : w'.md.nodeProps = addOrUpdateDict md.nodeProps (pmsOf nodeRes) := by
      rw [f1]; simp [addOrUpdatePropsMetadata]
    have e2 : w'.md.edgeProps = addOrUpdateDict md.edgeProps (pmsOf edgeRes) := by
      rw [f2]; simp [addOrUpdatePropsMetadata]
    rw [e1, e2, hn, he]
    rw [e1, hn] at hacc
    rw [e2, he] at hacc
    exact ⟨side_exact _ hmdn n _ nu hnp' nodeRes h1 hacc.1.1, side_exact _ hmde e _ eu hep edgeRes h2 hacc.1.2⟩
  · simp [hacc] at h2

/-- **C10 (pass-through, write_arrays)** — every successful `write_arrays` (validated or not)
stores `extra`, related objects, display hints, sphere / ellipsoid / track property names (`rest`,
`hintNames`), the directed flag and the version unchanged, and every axis with its name, type,
unit, scale, scaled unit and offset unchanged (only min/max may differ). -/
theorem C10_passthrough (md : Meta κ) (n : Nat) (np ep : Option (List (String × PropData κ)))
    (nu eu : Option (List (String × List String))) (w : Written κ)
    (h : writeArrays md n np ep nu eu = .ok w) :
    w.md.rest = md.rest ∧ w.md.hintNames = md.hintNames ∧ w.md.directed = md.directed ∧
    w.md.geffVersion = md.geffVersion ∧ w.md.axes.map (·.map strip) = md.axes.map (·.map strip) := by
  obtain ⟨nodeRes, edgeRes, -, -, h3, -, -⟩ := writeArrays_spec h
  obtain ⟨-, -, f3, f4, f5, f6, f7⟩ := finishMeta_props h3
  refine ⟨?_, ?_, ?_, ?_, ?_⟩
  · rw [f3]; simp [addOrUpdatePropsMetadata]
  · rw [f4]; simp [addOrUpdatePropsMetadata]
  · rw [f5]; simp [addOrUpdatePropsMetadata]
  · rw [f6]; simp [addOrUpdatePropsMetadata]
  · rw [f7]; simp [addOrUpdatePropsMetadata]

end
section
variable [LT κ] [DecidableLT κ] [Min κ] [Max κ] [LE κ] [Std.IsLinearOrder κ] [Std.LawfulOrderMin κ]
  [Std.LawfulOrderMax κ]

/-- every stored axis names a stored 1-D node property without missing mask that has one
coordinate per node, and its `min` / `max` are the least / greatest stored coordinate -/
def AxisRange (n : Nat) (w : Written κ) : Prop :=
  ∀ axes, w.md.axes = some axes → ∀ a ∈ axes, ∃ sts st lo hi,
    w.nodes = some sts ∧ sts.find? (fun s => s.name = a.name) = some st ∧
    st.ndim = 1 ∧ st.hasMissing = false ∧ st.rows.length = n ∧
    a.min = some lo ∧ a.max = some hi ∧ IsMin lo st.rows.flatten ∧ IsMax hi st.rows.flatten

/-- **C10 (axis range, write_arrays)** — after a successful validated write of a non-empty graph,
every stored axis names a stored 1-D node property without missing mask, with one coordinate per
node, and its `min` / `max` are the least / greatest of those stored coordinates — whatever range
the caller's metadata carried before. -/
theorem C10_axis_range (md : Meta κ) (n e : Nat) (np ep : Option (List (String × PropData κ)))
    (nu eu : Option (List (String × List String))) (w : Written κ) (hn : 0 < n)
    (h : writeArraysValidated md n e np ep nu eu = .ok w) : AxisRange n w := by
  unfold AxisRange
  unfold writeArraysValidated at h
  obtain ⟨w', hw, h2⟩ := bind_eq_ok h
  by_cases hacc : accepted n e w' = true
  · simp only [hacc, if_true, pure_eq, Except.ok.injEq] at h2
    subst h2
    intro axes hax a ha
    obtain ⟨nodeRes, edgeRes, h1, -, h3, hnodes, -⟩ := writeArrays_spec hw
    simp only [accepted, Bool.and_eq_true] at hacc
    obtain ⟨⟨hga, -⟩, haa⟩ := hacc
    -- validation: the axis names a stored 1-D property without missing mask
    simp only [axesAccepted, hax, List.all_eq_true] at haa
    have haa' := haa a ha
    cases hsts : w'.nodes with
    | none => simp [hsts] at haa'
    | some sts =>
      simp only [hsts] at haa'
      cases hf : sts.find? (fun st => decide (st.name = a.name)) with
      | none => simp [hf] at haa'
      | some st =>
        simp only [hf, Bool.and_eq_true, decide_eq_true_eq, Bool.not_eq_true'] at haa'
        have hstmem : st ∈ sts := List.mem_of_find?_eq_some hf
        -- … with one row per node
        simp only [groupAccepted, hsts, Bool.and_eq_true, List.all_eq_true, decide_eq_true_eq] at hga
        have hlen : st.len = n := (hga.2 st hstmem).1.2
        -- the node properties went through `write_props_arrays`
        rw [hnodes] at hsts
        cases nodeRes with
        | none => simp at hsts
        | some r =>
          obtain ⟨pms, sts0, ps'⟩ := r
          simp only [Option.map_some, Option.some.injEq] at hsts
          subst hsts
          rcases writeOpt_spec h1 with ⟨_, hc⟩ | ⟨ps, b, hps, hwp, hb⟩
          · cases hc
          · simp only [Option.some.injEq] at hb
            subst hb
            have hst1 := writePropsArrays_stored hwp
            -- the stored axes come out of `compute_and_add_axis_min_max` on that dict
            simp only [finishMeta] at h3
            rcases computeMinMax_spec h3 with ⟨hnone, hmd⟩ | ⟨axes0, axes', -, hm, hmd⟩
            · rw [← hmd] at hnone; rw [hax] at hnone; cases hnone
            · rw [hmd] at hax
              simp only [Option.some.injEq] at hax
              subst hax
              obtain ⟨a0, -, ha0⟩ := mapM_mem hm a ha
              obtain ⟨hstrip, p, hl, -, hpos⟩ := axisMinMax_spec ha0
              have hname : a.name = a0.name := by
                have := congrArg Axis.name hstrip; simpa [strip] using this
              -- the property found by name in the dict is the group found by name in the store
              rw [hst1, find_map_storedOf, hname, hl] at hf
              simp only [Option.map_some, Option.some.injEq] at hf
              subst hf
              have hlen' : p.values.len ≠ 0 := by
                have : (storedOf a0.name p).len = p.values.len := by
                  unfold storedOf Values.len; cases p.values <;> rfl
                omega
              obtain ⟨dt, tr, rows, vals, lo, hi, hv, hk, hlo, hhi, hmin, hmax⟩ := hpos hlen'
              have hmiss : p.missing = none := by
                have := haa'.2
                unfold storedOf at this
                rw [hv] at this
                simpa using this
              have hrows : (storedOf a0.name p).rows = rows := by unfold storedOf; rw [hv]
              have hvals : vals = rows.flatten := by
                rw [hmiss] at hk
                simpa [keptValues] using hk.symm
              subst hvals
              refine ⟨_, _, lo, hi, rfl, ?_, haa'.1, haa'.2, ?_, hmin, hmax, ?_, ?_⟩
              · rw [hst1, find_map_storedOf, hname, hl]; rfl
              · rw [hrows]
                have : (storedOf a0.name p).len = rows.length := by unfold storedOf; rw [hv]
                omega
              · rw [hrows]; exact List.min?_eq_some_iff.1 hlo
              · rw [hrows]; exact List.max?_eq_some_iff.1 hhi
  · simp [hacc] at h2

end

section
variable [LT κ] [DecidableLT κ] [Min κ] [Max κ] [LE κ] [Std.IsLinearOrder κ] [Std.LawfulOrderMin κ]
  [Std.LawfulOrderMax κ]

/-- the data-independent part of what is stored, relative to the metadata `md` handed to `write_arrays` -/
def PassThrough (md : Meta κ) (w : Written κ) : Prop :=
  w.md.rest = md.rest ∧ w.md.hintNames = md.hintNames ∧ w.md.directed = md.directed ∧
  w.md.geffVersion = md.geffVersion ∧ w.md.axes.map (·.map strip) = md.axes.map (·.map strip)

/-! ## write_dicts -/

/-- **C10 for `write_dicts`** — the three statements for a successful `write_dicts` (the property
dicts are what `dict_props_to_arr` built from the per-node / per-edge dicts). -/
theorem C10_write_dicts (md : Meta κ) (n e : Nat) (np ep : List (String × PropData κ)) (w : Written κ)
    (hmdn : DictWF md.nodeProps) (hmde : DictWF md.edgeProps) (hnp : (keys np).Nodup) (hep : (keys ep).Nodup)
    (h : writeDicts md n e np ep = .ok w) :
    PropsExact md.nodeProps w.md.nodeProps w.nodes ∧ PropsExact md.edgeProps w.md.edgeProps w.edges ∧
    PassThrough md w ∧ (0 < n → AxisRange n w) := by
  unfold writeDicts at h
  have hp1 : PropsWF (some np) := fun l hl => by cases hl; exact hnp
  have hp2 : PropsWF (some ep) := fun l hl => by cases hl; exact hep
  obtain ⟨a, b⟩ := C10_props_metadata_exact md n e _ _ _ _ w hmdn hmde hp1 hp2 h
  exact ⟨a, b, C10_passthrough md n _ _ _ _ w (validated_ok h), fun hn => C10_axis_range md n e _ _ _ _ w hn h⟩

/-! ## networkx / rustworkx -/

/-- **C10 for `geff.write` on a networkx or rustworkx graph** — `md` is the caller's metadata or
`none`, `isDirected` the directedness of the graph object, `ls` the `axis_*` arguments. -/
theorem C10_networkx_rustworkx (version : String) (md : Option (Meta κ)) (isDirected : Bool) (ls : AxisLists)
    (n e : Nat) (np ep : List (String × PropData κ)) (w : Written κ)
    (hmd : ∀ m, md = some m → DictWF m.nodeProps ∧ DictWF m.edgeProps)
    (hnp : (keys np).Nodup) (hep : (keys ep).Nodup)
    (h : nxWrite version md isDirected ls n e np ep = .ok w) :
    PropsExact (callerNodeProps md) w.md.nodeProps w.nodes ∧
    PropsExact (callerEdgeProps md) w.md.edgeProps w.edges ∧
    w.md.directed = isDirected ∧ w.md.rest = callerRest md ∧ w.md.hintNames = callerHints md ∧
    (ls.names = none → w.md.axes.map (·.map strip) = (md.bind (·.axes)).map (·.map strip)) ∧
    (ls.names ≠ none → ∃ axes0 : List (Axis κ), axesFromLists ls none none = .ok axes0 ∧
      w.md.axes.map (·.map strip) = some (axes0.map strip)) ∧
    (0 < n → AxisRange n w) := by
  unfold nxWrite at h
  obtain ⟨m1, h1, h⟩ := bind_eq_ok h
  obtain ⟨m2, h2, h⟩ := bind_eq_ok h
  obtain ⟨c1, c2, c3, c4, c5, c6, c7⟩ := createOrUpdate_spec h1
  have hwf : DictWF m1.nodeProps ∧ DictWF m1.edgeProps := by
    rw [c3, c4]
    cases md with
    | none => exact ⟨⟨by simp [callerNodeProps, keys], by simp [callerNodeProps]⟩,
                     ⟨by simp [callerEdgeProps, keys], by simp [callerEdgeProps]⟩⟩
    | some m => exact hmd m rfl
  -- `update_metadata_axes` only replaces the axes
  have hm2 : m2.nodeProps = m1.nodeProps ∧ m2.edgeProps = m1.edgeProps ∧ m2.rest = m1.rest ∧
      m2.hintNames = m1.hintNames ∧ m2.directed = m1.directed ∧
      (ls.names = none → m2.axes = m1.axes) ∧
      (ls.names ≠ none → ∃ axes0 : List (Axis κ), axesFromLists ls none none = .ok axes0 ∧ m2.axes = some axes0) := by
    cases hn : ls.names with
    | none =>
      simp only [hn, Except.ok.injEq] at h2
      subst h2
      exact ⟨rfl, rfl, rfl, rfl, rfl, fun _ => rfl, fun hne => absurd rfl hne⟩
    | some names =>
      simp only [hn] at h2
      obtain ⟨axes0, ha, rfl⟩ := updateMetadataAxes_spec h2
      exact ⟨rfl, rfl, rfl, rfl, rfl, fun hh => by simp at hh, fun _ => ⟨axes0, ha, rfl⟩⟩
  obtain ⟨d1, d2, d3, d4, d5, d6, d7⟩ := hm2
  obtain ⟨a, b, ⟨p1, p2, p3, p4, p5⟩, r⟩ :=
    C10_write_dicts m2 n e np ep w (by rw [d1]; exact hwf.1) (by rw [d2]; exact hwf.2) hnp hep h
  refine ⟨by rw [← c3, ← d1]; exact a, by rw [← c4, ← d2]; exact b, by rw [p3, d5, c2], by rw [p1, d3, c5],
    by rw [p2, d4, c6], ?_, ?_, r⟩
  · intro hn
    rw [p5, d6 hn, c7]; simp
  · intro hn
    obtain ⟨axes0, ha, hm⟩ := d7 hn
    exact ⟨axes0, ha, by rw [p5, hm]; rfl⟩

end

section
variable [LT κ] [DecidableLT κ] [Min κ] [Max κ] [LE κ] [Std.IsLinearOrder κ] [Std.LawfulOrderMin κ]
  [Std.LawfulOrderMax κ]

/-! ## spatial-graph -/

/-- **C10 for `geff.write` on a spatial-graph graph** — `roiMin`/`roiMax` = `graph.roi`,
`np` = the position and attribute arrays of the graph (the position is un-squished into the axis
names).  The stored axes are the ones `axes_from_lists` builds from `sgLists md ls n`: the caller's
lists when `axis_names` is given, otherwise the names AND every non-overridden field of the
metadata's axes (D20 repair). -/
theorem C10_spatial_graph (version : String) (md : Option (Meta κ)) (isDirected : Bool) (ls : AxisLists)
    (ndims n e : Nat) (roiMin roiMax : List κ) (pos : String) (np ep : List (String × PropData κ))
    (w : Written κ)
    (hmd : ∀ m, md = some m → DictWF m.nodeProps ∧ DictWF m.edgeProps)
    (hnp : (keys np).Nodup) (hep : (keys ep).Nodup)
    (h : sgWrite version md isDirected ls ndims n e roiMin roiMax pos np ep = .ok w) :
    PropsExact (callerNodeProps md) w.md.nodeProps w.nodes ∧
    PropsExact (callerEdgeProps md) w.md.edgeProps w.edges ∧
    w.md.directed = isDirected ∧ w.md.rest = callerRest md ∧ w.md.hintNames = callerHints md ∧
    (∃ (ls' : AxisLists) (axes0 : List (Axis κ)), sgLists md ls n = .ok ls' ∧
      axesFromLists ls' (some (roiMin.map some)) (some (roiMax.map some)) = .ok axes0 ∧
      w.md.axes.map (·.map strip) = some (axes0.map strip)) ∧
    (0 < n → AxisRange n w) := by
  unfold sgWrite at h
  obtain ⟨ls', h0, h⟩ := bind_eq_ok h
  obtain ⟨axes0, h1, h⟩ := bind_eq_ok h
  obtain ⟨m, h2, h⟩ := bind_eq_ok h
  split at h
  · cases h
  · obtain ⟨c1, c2, c3, c4, c5, c6, c7⟩ := createOrUpdate_spec h2
    have hwf : DictWF m.nodeProps ∧ DictWF m.edgeProps := by
      rw [c3, c4]
      cases md with
      | none => exact ⟨⟨by simp [callerNodeProps, keys], by simp [callerNodeProps]⟩,
                       ⟨by simp [callerEdgeProps, keys], by simp [callerEdgeProps]⟩⟩
      | some m => exact hmd m rfl
    have hp1 : PropsWF (some np) := fun l hl => by cases hl; exact hnp
    have hp2 : PropsWF (some ep) := fun l hl => by cases hl; exact hep
    obtain ⟨a, b⟩ := C10_props_metadata_exact m n e _ _ _ _ w hwf.1 hwf.2 hp1 hp2 h
    obtain ⟨p1, p2, p3, p4, p5⟩ := C10_passthrough m n _ _ _ _ w (validated_ok h)
    refine ⟨by rw [← c3]; exact a, by rw [← c4]; exact b, by rw [p3, c2], by rw [p1, c5], by rw [p2, c6],
      ⟨ls', axes0, h0, h1, by rw [p5, c7]; rfl⟩, fun hn => C10_axis_range m n e _ _ _ _ w hn h⟩

omit [Min κ] [Max κ] [LE κ] [Std.IsLinearOrder κ] [Std.LawfulOrderMin κ] [Std.LawfulOrderMax κ] in
/-- **D20 (repaired)** — when the axes come from the caller's metadata and no `axis_*` list is
given, the axes `SgBackend.write` builds keep every caller field: only min/max (= `graph.roi`,
recomputed from the data afterwards) differ. -/
theorem C10_sg_keeps_caller_axes (m : Meta κ) (axes : List (Axis κ)) (n : Nat) (ls' : AxisLists)
    (roiMin roiMax : Option (List (Option κ))) (axes0 : List (Axis κ)) (hax : m.axes = some axes)
    (h0 : sgLists (some m) { names := none, units := none, types := none, scales := none,
                             scaledUnits := none, offset := none } n = .ok ls')
    (h1 : axesFromLists ls' roiMin roiMax = .ok axes0) : axes0.map strip = axes.map strip := by
  simp only [sgLists, Option.bind_some, hax, Option.getD_none, Except.ok.injEq] at h0
  subst h0
  obtain ⟨hlen, hj, -⟩ := axesFromLists_spec (names := axes.map (·.name)) rfl h1
  apply List.ext_getElem?
  intro j
  simp only [List.getElem?_map]
  cases ha0 : axes0[j]? with
  | none =>
    have : axes[j]? = none := by
      rw [List.getElem?_eq_none_iff] at ha0 ⊢
      simpa [hlen] using ha0
    simp [this]
  | some a0 =>
    have hlt : j < axes.length := by
      have := (List.getElem?_eq_some_iff.1 ha0).1
      simpa [hlen] using this
    have hja : axes[j]? = some axes[j] := List.getElem?_eq_getElem hlt
    obtain ⟨f1, f2, f3, f4, f5, f6, -, -⟩ := hj j axes[j].name a0 (by simp [hja]) ha0
    simp only [pick, List.getElem?_map, hja, Option.map_some, Except.ok.injEq] at f2 f3 f4 f5 f6
    simp only [hja, Option.map_some, Option.some.injEq]
    cases a0
    simp only [strip] at *
    simp [f1, ← f2, ← f3, ← f4, ← f5, ← f6]

end

section
variable [LT κ] [DecidableLT κ]

/-- **D17 (repaired)** — `axes_from_lists` succeeds only when every given `axis_*` list
(`axis_offset` included) has exactly one entry per axis name, and then axis `j` carries entry `j`
of every list. -/
theorem C10_axes_from_lists (ls : AxisLists) (roiMin roiMax : Option (List (Option κ))) (names : List String)
    (axes : List (Axis κ)) (hn : ls.names = some names) (h : axesFromLists ls roiMin roiMax = .ok axes) :
    axes.length = names.length ∧
    (∀ j n a, names[j]? = some n → axes[j]? = some a → FromLists ls roiMin roiMax j n a) ∧
    lenOk ls.units names.length = true ∧ lenOk ls.types names.length = true ∧
    lenOk ls.scales names.length = true ∧ lenOk ls.scaledUnits names.length = true ∧
    lenOk ls.offset names.length = true :=
  axesFromLists_spec hn h

end

/-! ## non-vacuity: concrete writes (coordinates in `Int`) meet the hypotheses and succeed -/

def exMd : Meta Int :=
  { geffVersion := "1.3", directed := true,
    axes := some [{ name := "x", type := some "space", unit := some "pixel", min := some 100, max := some 200,
                    scale := some "0.5", scaledUnit := none, offset := some "2.0" }],
    nodeProps := [("x", { identifier := "x", dtype := "int8", varlength := true, unit := some "um",
                          name := none, description := some "stale dtype and flag" })],
    edgeProps := [], hintNames := [], rest := "{\"extra\": {\"k\": 1}}" }

def exNodes : List (String × PropData Int) :=
  [("x", { values := .dense .f64 [] [[3], [-1], [7]], missing := none }),
   ("v", { values := .object [(.i64, 1), (.i64, 1), (.i64, 1)], missing := some [false, true, false] })]

def exW : Option (Written Int) := (writeArraysValidated exMd 3 0 (some exNodes) (some []) none none).toOption

example : DictWF exMd.nodeProps ∧ DictWF exMd.edgeProps ∧ PropsWF (some exNodes) := by
  refine ⟨⟨by decide, by decide⟩, ⟨by decide, by decide⟩, fun l hl => by cases hl; decide⟩
example : exW.isSome = true := by decide
/-- the stale range 100..200 is replaced by the range of the stored coordinates; scale and offset stay -/
example : (exW.bind (fun w => w.md.axes)).map (·.map (fun a => (a.min, a.max))) = some [(some (-1), some 7)] := by
  decide
example : (exW.bind (fun w => w.md.axes)).map (·.map (fun a => (a.scale, a.offset))) =
    some [(some "0.5", some "2.0")] := by decide
/-- the stale dtype / var-length flag are replaced, the caller's unit survives, `v` gets an entry -/
example : exW.map (fun w => w.md.nodeProps.map (fun q => (q.1, q.2.dtype, q.2.varlength))) =
    some [("x", "float64", false), ("v", "int64", true)] := by decide
example : exW.map (fun w => w.md.nodeProps.map (fun q => (q.1, q.2.unit))) =
    some [("x", some "um"), ("v", none)] := by decide

def exStale : Meta Int :=
  { exMd with
    edgeProps := [("gone", { identifier := "gone", dtype := "int8", varlength := false, unit := none,
                             name := none, description := none })] }

/-- a stale entry for a property that is not written is refused by validation -/
example : (writeArraysValidated exStale 3 0 (some exNodes) none none none).toOption = none := by decide

def exLists : AxisLists :=
  { names := some ["x"], units := some [some "meter"], types := none, scales := none, scaledUnits := none,
    offset := some [some "1.0"] }

def noLists : AxisLists :=
  { names := none, units := none, types := none, scales := none, scaledUnits := none, offset := none }

def exNx : Option (Written Int) := (nxWrite "1.3" (some exMd) false exLists 3 0 exNodes []).toOption

/-- the networkx / spatial-graph entry points succeed on concrete inputs too -/
example : exNx.map (fun w => w.md.directed) = some false := by decide
example : (exNx.bind (fun w => w.md.axes)).map (·.map (fun a => (a.unit, a.offset))) =
    some [(some "meter", some "1.0")] := by decide
example : (exNx.bind (fun w => w.md.axes)).map (·.map (fun a => (a.min, a.max))) =
    some [(some (-1), some 7)] := by decide

def exSg : Option (Written Int) :=
  (sgWrite "1.3" (some exMd) true noLists 1 3 0 [-1] [7] "position"
    [("position", { values := .dense .f64 [1] [[3], [-1], [7]], missing := none })] []).toOption

example : (exSg.bind (fun w => w.md.axes)).map (·.map (fun a => (a.name, a.type, a.unit))) =
    some [("x", some "space", some "pixel")] := by decide
example : (exSg.bind (fun w => w.md.axes)).map (·.map (fun a => (a.scale, a.offset))) =
    some [(some "0.5", some "2.0")] := by decide
example : (exSg.bind (fun w => w.md.axes)).map (·.map (fun a => (a.min, a.max))) =
    some [(some (-1), some 7)] := by decide

end GeffProps.C10
