import GeffProofs.Ellipsoid
import GeffProps.C12
/-! # C12 (deepening) — the symmetric / positive-definite stage of `validate_ellipsoid`, exactly

`GeffProps.C12.C12_ellipsoid_iff_modulo_float_partial` left the two float tests of
`validate_ellipsoid` (`np.allclose(cov, covᵀ)`, `np.all(np.linalg.eigvals(cov) > 0)`) as parameters.
Here they are instantiated by an exact model over the rationals (`GeffModel/Ellipsoid.lean`; every
finite float or integer entry is an exact dyadic rational):

* symmetry: `isSymmetric` (entrywise), and separately numpy's own criterion
  `|a − b| ≤ atol + rtol·|b|` read in exact arithmetic (`allcloseSym`);
* positive-definiteness: Sylvester's criterion `sylvester` (all leading principal minors > 0), which
  is **proved** equivalent to `∀ x ≠ 0, xᵀAx > 0` for symmetric matrices of side 1, 2, 3 — the numbers
  of spatial axes geff has (x, y, z) — by explicit completion of the square, over any linearly
  ordered field.  Documented reading: for a real symmetric matrix "all eigenvalues > 0" (what the
  code asks of `eigvals`) is positive-definiteness by the spectral theorem; no eigenvalue fact about
  floats is claimed.

Tie to the code: `harness/corr/C12.py`, stream `ellipsoid_exact` — exact-rational stacks are run
through the real validator (as float64 / float32 / integer arrays) and through these definitions in
the driver; they must agree whenever every unmasked matrix is *robust* (`symRobust`, `pdRobust`, or
robustly accepted/rejected by the `allclose` reading), the remaining cases are counted as
rounding-sensitive and only checked for exception-freedom.

Still modelled, not verified: binary64 rounding inside `np.allclose` / LAPACK `geev` (covered by
the margin + correspondence only); side ≥ 4 (`sylvester` is executable for every side, the
equivalence with positive-definiteness is proved for sides ≤ 3 only: hypothesis `spaceAxes axes ≤ 3`);
NaN / ±inf entries (not rationals; differential stream `ellipsoid_float` of the base check). -/
namespace GeffProps.C12Ellipsoid
open Geff.Validate

/-! ## Sylvester's criterion, explicit entries -/

/-- over any linearly ordered field, side 2: `a > 0 ∧ ac − b² > 0` iff the form is positive -/
theorem C12_sylvester_field_2 {K : Type} [Field K] [LinearOrder K] [IsStrictOrderedRing K] (a b c : K) :
    (0 < a ∧ 0 < a * c - b * b) ↔
      ∀ x y : K, (x ≠ 0 ∨ y ≠ 0) → 0 < x * (a * x + b * y) + y * (b * x + c * y) :=
  sylv2 a b c

/-- over any linearly ordered field, side 3, matrix `[[a,b,c],[b,d,e],[c,e,f]]`: the three leading
principal minors are positive iff the quadratic form is positive on every non-zero vector -/
theorem C12_sylvester_field_3 {K : Type} [Field K] [LinearOrder K] [IsStrictOrderedRing K]
    (a b c d e f : K) :
    (0 < a ∧ 0 < a * d - b * b ∧
        0 < a * (d * f - e * e) - b * (b * f - e * c) + c * (b * e - d * c)) ↔
      ∀ x y z : K, (x ≠ 0 ∨ y ≠ 0 ∨ z ≠ 0) →
        0 < x * (a * x + b * y + c * z) + y * (b * x + d * y + e * z) + z * (c * x + e * y + f * z) :=
  sylv3 a b c d e f

/-- the model's `sylvester` computes exactly the leading principal minors (sides 1, 2, 3) -/
theorem C12_sylvester_minors (a b c d e f g h i : Rat) :
    (sylvester [[a]] = true ↔ 0 < a) ∧
    (sylvester [[a, b], [c, d]] = true ↔ 0 < a ∧ 0 < a * d - b * c) ∧
    (sylvester [[a, b, c], [d, e, f], [g, h, i]] = true ↔
      0 < a ∧ 0 < a * e - b * d ∧
        0 < a * (e * i - f * h) - (b * (d * i - f * g) - c * (d * h - e * g))) :=
  ⟨sylvester_one a, sylvester_two a b c d, sylvester_three a b c d e f g h i⟩

/-- side 1 -/
theorem C12_sylvester_1 (a : Rat) :
    sylvester [[a]] = true ↔ ∀ x : Rat, x ≠ 0 → 0 < x * (a * x) :=
  (sylvester_one a).trans (sylv1 a)

/-- side 2: the model's verdict on a symmetric matrix is positive-definiteness -/
theorem C12_sylvester_2 (a b c : Rat) :
    sylvester [[a, b], [b, c]] = true ↔
      ∀ x y : Rat, (x ≠ 0 ∨ y ≠ 0) → 0 < x * (a * x + b * y) + y * (b * x + c * y) :=
  (sylvester_two_iff a b c).trans (posDef_two a b b c)

/-- side 3: the model's verdict on a symmetric matrix is positive-definiteness -/
theorem C12_sylvester_3 (a b c d e f : Rat) :
    sylvester [[a, b, c], [b, d, e], [c, e, f]] = true ↔
      ∀ x y z : Rat, (x ≠ 0 ∨ y ≠ 0 ∨ z ≠ 0) →
        0 < x * (a * x + b * y + c * z) + y * (b * x + d * y + e * z) + z * (c * x + e * y + f * z) :=
  (sylvester_three_iff a b c d e f).trans (posDef_three a b c b d e c e f)

/-- **Sylvester on the model**: for every symmetric square matrix of side 1, 2 or 3 (as a list of
rows), `sylvester A ↔ ∀ x ≠ 0 of that size, xᵀAx > 0` -/
theorem C12_sylvester_iff_posDef (A : Mat) (n : Nat) (hsq : A.isSquare n = true) (h1 : 1 ≤ n)
    (h3 : n ≤ 3) (hs : IsSymm A) : sylvester A = true ↔ PosDef A :=
  sylvester_iff_posDef A n hsq h1 h3 hs

/-- symmetry is needed: `sylvester` of a non-symmetric matrix says nothing about its form
(`[[1, 4], [0, 1]]`: minors 1, 1, yet `xᵀAx = −2` at `(1, −1)`) -/
theorem C12_sylvester_needs_symmetry :
    sylvester [[1, 4], [0, 1]] = true ∧ ¬ PosDef [[1, 4], [0, 1]] := by
  refine ⟨by decide +kernel, fun h => ?_⟩
  have := h [1, -1] rfl ⟨1, by simp, by decide +kernel⟩
  exact absurd this (by decide +kernel)

/-! ## the ellipsoid theorem with the stage instantiated -/

/-- **C12 (ellipsoid iff, exact stage)**: for every stack of rational matrices of the declared
shape, every mask with one flag per matrix and at most three space axes, `validate_ellipsoid` with
the exact symmetric / positive-definite stage passes iff the covariance array is (N, d, d) for
d = number of space axes > 0 and every matrix *not flagged missing* is square of side d, symmetric
and positive definite. -/
theorem C12_ellipsoid_iff_exact (axes : Option (List String)) (shape : List Nat) (mats : List Mat)
    (missing : Option (List Bool)) (hwf : stackWF shape mats = true)
    (hlen : ∀ m, missing = some m → m.length = mats.length) (hd : spaceAxes axes ≤ 3) :
    validateEllipsoidExact axes shape mats missing = .ok ↔
      (0 < spaceAxes axes ∧ ∃ n, shape = [n, spaceAxes axes, spaceAxes axes]) ∧
      ∀ A, Unmasked mats missing A → A.isSquare (spaceAxes axes) = true ∧ IsSymm A ∧ PosDef A := by
  have hlen' : ∀ m, missing = some m →
      m.length = ((mats.map isSymmetric).zip (mats.map sylvester)).length := by
    intro m hm; simp [hlen m hm]
  unfold validateEllipsoidExact validateEllipsoidWith
  rw [GeffProps.C12.C12_ellipsoid_iff_modulo_float_partial axes shape _ _ missing hlen']
  constructor
  · rintro ⟨⟨hpos, n, hshape⟩, hall⟩
    refine ⟨⟨hpos, n, hshape⟩, fun A hA => ?_⟩
    have hmem : A ∈ mats := by
      cases missing with
      | none => exact hA
      | some m => exact (List.of_mem_zip hA).1
    have hsq : A.isSquare (spaceAxes axes) = true := by
      rw [hshape] at hwf
      simp only [stackWF, Bool.and_eq_true, List.all_eq_true, beq_iff_eq] at hwf
      have := hwf.2 A hmem
      simp only [Mat.isSquare, Bool.and_eq_true, beq_iff_eq, List.all_eq_true]
      exact this
    obtain ⟨h1, h2⟩ := hall (isSymmetric A, sylvester A) ((unmasked_zip_map mats _ _ missing _).2 ⟨A, hA, rfl⟩)
    have hS := (isSymmetric_iff A _ hsq).1 h1
    exact ⟨hsq, hS, (sylvester_iff_posDef A _ hsq hpos hd hS).1 h2⟩
  · rintro ⟨⟨hpos, n, hshape⟩, hall⟩
    refine ⟨⟨hpos, n, hshape⟩, fun x hx => ?_⟩
    obtain ⟨A, hA, rfl⟩ := (unmasked_zip_map mats _ _ missing x).1 hx
    obtain ⟨hsq, hS, hP⟩ := hall A hA
    exact ⟨(isSymmetric_iff A _ hsq).2 hS, (sylvester_iff_posDef A _ hsq hpos hd hS).2 hP⟩

/-- which error: with a passing shape stage and a well-formed mask, the outcome is the "symmetric"
`ValueError` iff some unmasked matrix fails the symmetry test, else the "positive-definite"
`ValueError` iff some unmasked matrix fails the definiteness test, else success (for whatever two
tests are plugged in) -/
theorem C12_ellipsoid_error_kind (s p : Mat → Bool) (axes : Option (List String)) (shape : List Nat)
    (mats : List Mat) (missing : Option (List Bool))
    (hlen : ∀ m, missing = some m → m.length = mats.length)
    (hshape : ellipsoidShapeStage axes shape = .ok) :
    ((∃ A, Unmasked mats missing A ∧ s A = false) →
      validateEllipsoidWith s p axes shape mats missing =
        .valueError "Ellipsoid covariance matrices must be symmetric") ∧
    ((∀ A, Unmasked mats missing A → s A = true) → (∃ A, Unmasked mats missing A ∧ p A = false) →
      validateEllipsoidWith s p axes shape mats missing =
        .valueError "Ellipsoid covariance matrices must be positive-definite") ∧
    ((∀ A, Unmasked mats missing A → s A = true) → (∀ A, Unmasked mats missing A → p A = true) →
      validateEllipsoidWith s p axes shape mats missing = .ok) := by
  obtain ⟨r, hr⟩ := applyMask_isSome mats missing hlen
  have hmem := mem_applyMask_iff mats missing r hr
  rw [validateEllipsoidWith_eq, hshape]
  simp only [hr]
  refine ⟨?_, ?_, ?_⟩
  · rintro ⟨A, hA, hsA⟩
    have : r.all s = false := by
      rw [List.all_eq_false]; exact ⟨A, (hmem A).2 hA, by simp [hsA]⟩
    simp [this]
  · rintro hs ⟨A, hA, hpA⟩
    have h1 : r.all s = true := List.all_eq_true.2 fun A hA => hs A ((hmem A).1 hA)
    have h2 : r.all p = false := by
      rw [List.all_eq_false]; exact ⟨A, (hmem A).2 hA, by simp [hpA]⟩
    simp [h1, h2]
  · intro hs hp
    have h1 : r.all s = true := List.all_eq_true.2 fun A hA => hs A ((hmem A).1 hA)
    have h2 : r.all p = true := List.all_eq_true.2 fun A hA => hp A ((hmem A).1 hA)
    simp [h1, h2]

/-- the outcome depends on the two tests only through the matrices not flagged missing -/
theorem C12_ellipsoid_congr (s s' p p' : Mat → Bool) (axes : Option (List String)) (shape : List Nat)
    (mats : List Mat) (missing : Option (List Bool))
    (hs : ∀ A, Unmasked mats missing A → s A = s' A) (hp : ∀ A, Unmasked mats missing A → p A = p' A) :
    validateEllipsoidWith s p axes shape mats missing =
      validateEllipsoidWith s' p' axes shape mats missing := by
  rw [validateEllipsoidWith_eq, validateEllipsoidWith_eq]
  cases ellipsoidShapeStage axes shape with
  | ok =>
    cases hr : applyMask mats missing with
    | none => rfl
    | some r =>
      have hmem := mem_applyMask_iff mats missing r hr
      have hcongr : ∀ (f g : Mat → Bool), (∀ A ∈ r, f A = g A) → r.all f = r.all g := by
        intro f g hfg
        rw [Bool.eq_iff_iff, List.all_eq_true, List.all_eq_true]
        exact ⟨fun h A hA => (hfg A hA) ▸ h A hA, fun h A hA => (hfg A hA).symm ▸ h A hA⟩
      have h1 : r.all s = r.all s' := hcongr s s' fun A hA => hs A ((hmem A).1 hA)
      have h2 : r.all p = r.all p' := hcongr p p' fun A hA => hp A ((hmem A).1 hA)
      simp only [h1, h2]
  | valueError m => rfl
  | other n => rfl

/-! ## numpy's `allclose` criterion against exact symmetry -/

/-- on a square matrix that is exactly symmetric, or asymmetric by more than `allclose`'s threshold
(with the slack `2^-30`), the exact reading of `np.allclose(A, Aᵀ)` is exact symmetry -/
theorem C12_allclose_agrees_when_robust (A : Mat) (n : Nat) (hsq : A.isSquare n = true)
    (hr : symRobust A = true) : allcloseSym A = isSymmetric A :=
  allclose_agrees_when_robust A n hsq hr

/-- the two margins bracket numpy's criterion: robustly accepted ⇒ accepted, robustly rejected ⇒
rejected (and not symmetric) -/
theorem C12_allclose_margins (A : Mat) (n : Nat) (hsq : A.isSquare n = true) :
    (symRobustlyAccepted A = true → allcloseSym A = true) ∧
    (symRobustlyRejected A = true → allcloseSym A = false ∧ isSymmetric A = false) :=
  ⟨allclose_of_robustlyAccepted A n hsq, not_allclose_of_robustlyRejected A n hsq⟩

/-- **C12 (ellipsoid iff, numpy's symmetry criterion)**: when every matrix not flagged missing is
robust for the symmetry test, the validator with `np.allclose`'s criterion read exactly decides the
same specification -/
theorem C12_ellipsoid_iff_tol_of_robust (axes : Option (List String)) (shape : List Nat)
    (mats : List Mat) (missing : Option (List Bool)) (hwf : stackWF shape mats = true)
    (hlen : ∀ m, missing = some m → m.length = mats.length) (hd : spaceAxes axes ≤ 3)
    (hrob : ∀ A, Unmasked mats missing A → symRobust A = true) :
    validateEllipsoidTol axes shape mats missing = .ok ↔
      (0 < spaceAxes axes ∧ ∃ n, shape = [n, spaceAxes axes, spaceAxes axes]) ∧
      ∀ A, Unmasked mats missing A → A.isSquare (spaceAxes axes) = true ∧ IsSymm A ∧ PosDef A := by
  rw [← C12_ellipsoid_iff_exact axes shape mats missing hwf hlen hd]
  by_cases hshape : ellipsoidShapeStage axes shape = .ok
  · obtain ⟨_, n, hsh⟩ := (GeffProps.C12.C12_ellipsoid_shape_partial axes shape).1 hshape
    have heq : validateEllipsoidTol axes shape mats missing = validateEllipsoidExact axes shape mats missing := by
      unfold validateEllipsoidTol validateEllipsoidExact
      refine C12_ellipsoid_congr _ _ _ _ axes shape mats missing (fun A hA => ?_) (fun _ _ => rfl)
      have hmem : A ∈ mats := by
        cases missing with
        | none => exact hA
        | some m => exact (List.of_mem_zip hA).1
      have hsq : A.isSquare (spaceAxes axes) = true := by
        rw [hsh] at hwf
        simp only [stackWF, Bool.and_eq_true, List.all_eq_true, beq_iff_eq] at hwf
        have := hwf.2 A hmem
        simp only [Mat.isSquare, Bool.and_eq_true, beq_iff_eq, List.all_eq_true]
        exact this
      exact allclose_agrees_when_robust A _ hsq (hrob A hA)
    rw [heq]
  · have h1 : validateEllipsoidTol axes shape mats missing ≠ .ok := by
      unfold validateEllipsoidTol
      rw [validateEllipsoidWith_eq]
      cases hs : ellipsoidShapeStage axes shape with
      | ok => exact absurd hs hshape
      | valueError m => simp
      | other n => simp
    have h2 : validateEllipsoidExact axes shape mats missing ≠ .ok := by
      unfold validateEllipsoidExact
      rw [validateEllipsoidWith_eq]
      cases hs : ellipsoidShapeStage axes shape with
      | ok => exact absurd hs hshape
      | valueError m => simp
      | other n => simp
    simp [h1, h2]

/-- the tiny-magnitude witness: entries of order 1e-9, asymmetry eight times the diagonal -/
def tinyAsym : Mat := [[(1 : Rat) / 1000000000, (8 : Rat) / 1000000000], [0, (1 : Rat) / 1000000000]]

/-- **the robustness hypothesis is needed, and the excluded point is a defect of the code** (known
finding `C12:ellipsoid-atol-accepts-asymmetric`): `allclose`'s absolute tolerance `1e-8` makes every
matrix with entries below `1e-8` "symmetric"; `[[1e-9, 8e-9], [0, 1e-9]]` passes the validator with
numpy's criterion (and the real `validate_ellipsoid`: corpus case
`known-ellipsoid-atol-accepts-asymmetric.json`) although it is neither symmetric nor positive
definite (`xᵀAx < 0` at `(1, −1)`). -/
theorem C12_counterexample_allclose_accepts_asymmetric :
    validateEllipsoidTol (some ["space", "space"]) [1, 2, 2] [tinyAsym] none = .ok ∧
    visiblyAsymmetric tinyAsym = true ∧ ¬ IsSymm tinyAsym ∧ ¬ PosDef tinyAsym ∧
    validateEllipsoidExact (some ["space", "space"]) [1, 2, 2] [tinyAsym] none ≠ .ok := by
  refine ⟨by decide +kernel, by decide +kernel, fun h => ?_, fun h => ?_, by decide +kernel⟩
  · have := h 0 1
    exact absurd this (by decide +kernel)
  · have := h [1, -1] rfl ⟨1, by simp, by decide +kernel⟩
    exact absurd this (by decide +kernel)

/-! ## Non-vacuity -/
-- a 3 × 3 symmetric positive definite matrix, a masked junk row, three space axes
example : validateEllipsoidExact (some ["time", "space", "space", "space"]) [2, 3, 3]
    [[[2, 1, 0], [1, 2, 1], [0, 1, 2]], [[0, 5, 0], [1, -1, 0], [0, 0, 0]]] (some [false, true]) = .ok := by
  decide +kernel
example : stackWF [2, 3, 3] [[[2, 1, 0], [1, 2, 1], [0, 1, 2]], [[0, 5, 0], [1, -1, 0], [0, 0, 0]]] = true := by
  decide +kernel
example : spaceAxes (some ["time", "space", "space", "space"]) ≤ 3 := by decide
-- symmetric, not positive definite (eigenvalues 3, −1): the "positive-definite" error
example : validateEllipsoidExact (some ["space", "space"]) [1, 2, 2] [[[1, 2], [2, 1]]] none =
    .valueError "Ellipsoid covariance matrices must be positive-definite" := by decide +kernel
-- asymmetric: the "symmetric" error
example : validateEllipsoidExact (some ["space", "space"]) [1, 2, 2] [[[2, 1], [0, 2]]] none =
    .valueError "Ellipsoid covariance matrices must be symmetric" := by decide +kernel
-- the robustness hypotheses are satisfiable on both sides
example : symRobust [[2, 1], [1, 2]] = true ∧ symRobust [[2, 1], [0, 2]] = true := by decide +kernel
example : pdRobustlyInside [[2, 1], [1, 2]] = true ∧ pdRobustlyOutside [[1, 2], [2, 1]] = true := by
  decide +kernel
-- within the relative tolerance: accepted by numpy's criterion, not exactly symmetric, not robust
example : allcloseSym [[2, 2 + 1 / 100000], [2, 3]] = true ∧ isSymmetric [[2, 2 + 1 / 100000], [2, 3]] = false ∧
    symRobust [[2, 2 + 1 / 100000], [2, 3]] = false ∧ visiblyAsymmetric [[2, 2 + 1 / 100000], [2, 3]] = false := by
  decide +kernel
example : IsSymm [[2, 1], [1, 2]] := (isSymmetric_iff _ 2 (by decide +kernel)).1 (by decide +kernel)

end GeffProps.C12Ellipsoid
