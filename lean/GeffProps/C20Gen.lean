import GeffProofs.MockDataGen
import GeffProps.C20
import GeffProps.C20Links
/-! # C20 on the code as it is written now (translator T24)

`Gen/MockData.lean` is regenerated on every run from `geff/testing/data.py`: `create_dummy_in_mem_geff`
(everything around the edge loops, which stay translator T9's and enter as ONE call of
`Gen.MockEdges.gen`), its nested `_add_axis`, `create_mock_geff`, the three `create_simple_*` wrappers
and `create_empty_geff`, statement by statement, as Lean `do`-blocks over the primitives of
`GeffModel/PyDoMock.lean` (defined from the types of the hand-written model `GeffModel/MockData.lean`).

T24 emits every top-level `if` paragraph of `create_dummy_in_mem_geff` as a definition of its own and the
function as the chain of these paragraphs.  Proved here **for all arguments**: the generated
`create_dummy_in_mem_geff` IS the hand-written model (`C20Gen_dummy_is_model`, composed from one equality
per paragraph, the three generated `for` loops characterised by one-step specifications + induction), the
generated `create_mock_geff` and the four wrappers ARE the model's (`C20Gen_mock_is_model`,
`C20Gen_wrappers_are_model`), hence every theorem of `GeffProps/C20.lean` and `GeffProps/C20Links.lean`
holds of the code as it is written now (`C20Gen_params`, `C20Gen_store_valid` — no agreement hypothesis).

Property theorems only; helper lemmas in `GeffProofs/MockDataGen.lean`. -/
namespace GeffProps.C20Gen
open Geff.MockData Geff.PyDoMock Geff.MockEdges GeffProofs.MockDataGen GeffProps.C20

/-- the translator accepted every statement of the six functions (and `_add_axis`) -/
theorem translated : Gen.MockData.translationOk = true := by decide

/-- `get_args(DTypeStr)` as written is the model's list of accepted dtype names -/
theorem C20Gen_dtype_names : Gen.MockData.DTypeStr = dtypeStrs := by decide

/-- **`_add_axis` as written = the model's `addAxis` step**, for every node count, accumulated state,
axis name / type / unit, dtype name and value pattern: the coordinate column is stored under the axis
name (dense, fixed-length, requested dtype, one value per node), the axis is appended with bounds iff
there is at least one node, and the returned metadata entry carries the dtype and the unit. -/
theorem C20Gen_add_axis_is_model (ok : Bool) (n : Nat) (a : Acc) (axes : List AxisOut) (name ty unit d : String)
    (v : Values) :
    Gen.MockData.addAxis ok n a.props axes name ty unit ⟨npName d, n, .vals v⟩ =
      .ok ((Geff.MockData.addAxis n (a, axes) name ty unit d v).1.props,
           (Geff.MockData.addAxis n (a, axes) name ty unit d v).2,
           (name, (axisTriple n name unit d v).2.2)) := by
  rw [addAxis_eq]; rfl

/-- the time column as written — `[(i * 5 // num_nodes) + 1 for i in range(num_nodes)]` — never
divides by zero (for every `num_nodes`, 0 included) and is the model's `tValues` -/
theorem C20Gen_time_column (n : Nat) :
    ∃ l, compM (fun i => do let t1 ← pyFloorDiv (i * 5) n; pure (t1 + 1)) (List.range n) = .ok l ∧
      natInts l = tValues n :=
  ⟨_, tColumn_eq n, tColumn_ints n⟩

/-- **`create_mock_geff` as written forwards all thirteen parameters** (the statement whose failure was
the `include_missing` defect, now about the body and not only the forwarding table): it succeeds
exactly when `create_dummy_in_mem_geff` as written succeeds on the SAME arguments, returns that geff,
and the returned store has been written exactly once — from that geff; an exception of the inner
generator is passed on unchanged. -/
theorem C20Gen_mock_forwards (ok : Bool) (a : String) (b : AxisDtypes) (c : Bool) (n m : Nat) (xn xe : Extra)
    (t z y x vl ms : Bool) :
    (∀ store g, Gen.MockData.createMockGeff ok a b c n m xn xe t z y x vl ms = .ok (store, g) ↔
        (Gen.MockData.createDummyInMemGeff ok a b c n m xn xe t z y x vl ms = .ok g ∧ store = ⟨[g]⟩)) ∧
    (Gen.MockData.createMockGeff ok a b c n m xn xe t z y x vl ms = .valueError ↔
        Gen.MockData.createDummyInMemGeff ok a b c n m xn xe t z y x vl ms = .valueError) ∧
    (∀ e, Gen.MockData.createMockGeff ok a b c n m xn xe t z y x vl ms = .other e ↔
        Gen.MockData.createDummyInMemGeff ok a b c n m xn xe t z y x vl ms = .other e) := by
  rw [mock_eq]
  cases Gen.MockData.createDummyInMemGeff ok a b c n m xn xe t z y x vl ms with
  | ok g' =>
    refine ⟨fun store g => ?_, by simp, by simp⟩
    simp only [Outcome.ok.injEq, Prod.mk.injEq]
    constructor
    · rintro ⟨rfl, rfl⟩; exact ⟨rfl, rfl⟩
    · rintro ⟨rfl, rfl⟩; exact ⟨rfl, rfl⟩
  | valueError => exact ⟨by simp, by simp, by simp⟩
  | other e' => exact ⟨by simp, by simp, by simp⟩

/-- **the four wrappers as written** are `create_mock_geff` as written on exactly the model's parameter
records (`simpleParams`: ids `uint`, both axis dtypes `float64`, edge properties `score: float64`,
`color: int`, the axis subsets t·y·x / t·z·y·x / t; `create_empty_geff`: no node, no edge, no axis) —
every argument not passed falling back to `create_mock_geff`'s own defaults read off its signature. -/
theorem C20Gen_wrappers (ok : Bool) (n m : Nat) (d : Bool) :
    Gen.MockData.createSimple2dGeff ok n m d = genMock ok (simpleParams n m d false true true) ∧
    Gen.MockData.createSimple3dGeff ok n m d = genMock ok (simpleParams n m d true true true) ∧
    Gen.MockData.createSimpleTemporalGeff ok n m d = genMock ok (simpleParams n m d false false false) ∧
    Gen.MockData.createEmptyGeff ok d =
      genMock ok { idDtype := "uint", timeDtype := "float64", posDtype := "float64", directed := d,
                   numNodes := 0, numEdges := 0, t := false, z := false, y := false, x := false } :=
  ⟨simple2d_eq ok n m d, simple3d_eq ok n m d, simpleTemporal_eq ok n m d, empty_eq ok d⟩

/-! ## the body of `create_dummy_in_mem_geff` -/

/-- **`create_dummy_in_mem_geff` as written = the model**, for EVERY parameter record (all dtype names,
sizes, flags, extra-property arguments — `None`, not a dict, non-string keys, unsupported dtype names,
arrays of the wrong length included — and both states of defect D15): same geff, same exception. -/
theorem C20Gen_dummy_is_model (ok : Bool) (p : Params) : genDummy ok p = createDummyInMemGeff ok p :=
  dummy_eq ok p

/-- **`create_mock_geff` as written = the model's**, the store written once from the returned geff -/
theorem C20Gen_mock_is_model (ok : Bool) (p : Params) : genMock ok p = embed (createMockGeff ok p) :=
  genMock_of_genDummy ok p (dummy_eq ok p)

/-- **the four wrappers as written = the model's wrappers** -/
theorem C20Gen_wrappers_are_model (ok : Bool) (n m : Nat) (d : Bool) :
    Gen.MockData.createSimple2dGeff ok n m d = embed (createSimple2dGeff ok n m d) ∧
    Gen.MockData.createSimple3dGeff ok n m d = embed (createSimple3dGeff ok n m d) ∧
    Gen.MockData.createSimpleTemporalGeff ok n m d = embed (createSimpleTemporalGeff ok n m d) ∧
    Gen.MockData.createEmptyGeff ok d = embed (createEmptyGeff ok d) :=
  ⟨(simple2d_eq ok n m d).trans (C20Gen_mock_is_model ok _), (simple3d_eq ok n m d).trans (C20Gen_mock_is_model ok _),
   (simpleTemporal_eq ok n m d).trans (C20Gen_mock_is_model ok _), (empty_eq ok d).trans (C20Gen_mock_is_model ok _)⟩

/-! the pinned family (kept as kernel-evaluated instances of `C20Gen_dummy_is_model`) -/

/-- every subset of {t,z,y,x} × include_varlength × include_missing × directed, D15 repaired or not,
on a graph with nodes, a generated and a caller-supplied extra node property and a generated extra
edge property, more edges requested than possible -/
def family (t z y x vl ms d : Bool) : Params :=
  { idDtype := "uint8", timeDtype := "float32", posDtype := "double", directed := d,
    numNodes := 3, numEdges := 7, t := t, z := z, y := y, x := x, vl := vl, ms := ms,
    extraNode := .dict [(some "label", .auto "str"), (some "score", .arr "float64" 3 0)],
    extraEdge := .dict [(some "w", .auto "int8")] }

theorem C20Gen_dummy_is_model_family :
    (∀ ok t z y x vl ms d, genDummy ok (family t z y x vl ms d) = createDummyInMemGeff ok (family t z y x vl ms d)) ∧
    -- the empty graph, with and without the var-length property (the D15 boundary)
    (∀ ok vl ms d, genDummy ok { family true true true true vl ms d with numNodes := 0, extraNode := .none } =
        createDummyInMemGeff ok { family true true true true vl ms d with numNodes := 0, extraNode := .none }) ∧
    -- malformed requests: not a dict / key not a str / unsupported dtype / wrong length / neither
    (∀ ok, ∀ x ∈ [Extra.notDict, .dict [(none, .auto "int")], .dict [(some "a", .auto "float16")],
                   .dict [(some "a", .arr "int64" 4 0)], .dict [(some "a", .bad)]],
        genDummy ok { family true false true true false false false with extraNode := x } = .valueError ∧
        createDummyInMemGeff ok { family true false true true false false false with extraNode := x } = .valueError ∧
        genDummy ok { family true false true true false false false with extraEdge := x } = .valueError ∧
        createDummyInMemGeff ok { family true false true true false false false with extraEdge := x } = .valueError) := by
  refine ⟨by decide +kernel, by decide +kernel, by decide +kernel⟩

/-- **C20 on the generated code** (no agreement hypothesis): every clause of C20 holds of
`create_dummy_in_mem_geff` as written — exact node count, id dtype, directedness,
`min(requested, possible)` valid edges without repetition, exactly the requested axes and extra
properties with the requested dtypes, the var-length and the sparse property iff requested, metadata
describing exactly these properties (`C20_params`, `C20_lengths`, `C20_varlength_iff`). -/
theorem C20Gen_params (ok : Bool) (p : Params)
    (g : Geff) (h : genDummy ok p = .ok g) (hn : (nodeNames p).Nodup) (he : (edgeNames p).Nodup) :
    g.numNodes = p.numNodes ∧ g.idDtype = npName p.idDtype ∧ g.directed = p.directed ∧
    (∃ es, g.edges = es.map cast ∧ EdgesSpec p.directed p.numNodes p.numEdges es) ∧
    g.axes.map (·.name) = axisNames p ∧
    (∀ kv ∈ g.nodeProps, kv.2.len = g.numNodes) ∧ (∀ kv ∈ g.edgeProps, kv.2.len = g.edges.length) ∧
    ((∃ kv ∈ g.nodeProps ++ g.edgeProps, kv.2.varlength = true) ↔ p.vl = true) ∧
    (p.ms = true → ("sparse_prop", sparseProp p.numNodes) ∈ g.nodeProps ∧
                   ("sparse_prop", sparseProp g.edges.length) ∈ g.edgeProps) ∧
    Describes g.nodeMeta g.nodeProps ∧ Describes g.edgeMeta g.edgeProps := by
  rw [C20Gen_dummy_is_model] at h
  obtain ⟨h1, h2, h3, h4, h5, _, _, h8, h9⟩ := C20_params ok p g h hn he
  obtain ⟨l1, l2⟩ := C20_lengths ok p g h
  exact ⟨h1, h2, h3, h4, h5, l1, l2, C20_varlength_iff ok p g h, (C20_sparse_iff ok p g h).2.2, h8, h9⟩

/-- **validity of what the generated code returns (C20 ← C01 / C04 / C12 via `C20Links`)**, no agreement
hypothesis: the store `create_mock_geff` as written returns has been written once,
from the returned geff, and for every numpy realisation of that geff C01's writer/reader model round-trips
it, the written store is C04-conformant, and the ids/edges pass C12's graph validation. -/
theorem C20Gen_store_valid (ok : Bool) (p : Params)
    (store : MemStore) (g : Geff) (h : genMock ok p = .ok (store, g))
    (hn : (nodeNames p).Nodup) (he : (edgeNames p).Nodup)
    (hdt : npName p.timeDtype ≠ "str" ∧ npName p.posDtype ≠ "str")
    (s0 : Geff.Store.St) (hfresh : Geff.WR.Fresh s0)
    (im : Geff.WR.InMem) (md : Geff.WR.CallerMeta) (hr : Geff.Link.Realises g im md) :
    store = ⟨[g]⟩ ∧
    (∃ s' r nps eps, im.nodeProps = some nps ∧ im.edgeProps = some eps ∧
      Geff.WR.writeArrays Geff.WR.vlenCodec Geff.Bridge.validate s0 im md = .ok s' ∧
      Geff.WR.readToMemory Geff.WR.vlenCodec Geff.Bridge.validate s' = .ok r ∧
      GeffProps.C01.Spec im.nodeIds im.edgeIds nps eps r ∧
      GeffProps.C04.Conformant (Geff.Bridge.toTarget s')) ∧
    (∀ d other, Geff.Validate.validateData { graph := true } d
      (GeffProps.C12.graphResult p.directed (Geff.Link.intIds (List.range g.numNodes)) g.edges other) = .ok) := by
  rw [C20Gen_mock_is_model] at h
  cases hm : createMockGeff ok p with
  | valueError => rw [hm] at h; simp [embed] at h
  | other e => rw [hm] at h; simp [embed] at h
  | ok wg =>
    obtain ⟨w, g'⟩ := wg
    rw [hm] at h
    simp only [embed, Outcome.ok.injEq, Prod.mk.injEq] at h
    obtain ⟨rfl, rfl⟩ := h
    obtain ⟨hwg, _, _⟩ := C20_store_eq_memory ok p w g' hm
    refine ⟨by rw [hwg], ?_, ?_⟩
    · exact GeffProps.C20Links.C20_store_roundtrip ok p w g' hm hn he hdt s0 hfresh im md (by rw [hwg]; exact hr)
    · intro d other
      have := GeffProps.C20Links.C20_graph_validation ok p w g' hm d other
      rw [hwg] at this; exact this

/-! ## non-vacuity: the generated functions run -/

example : (match genDummy false GeffProps.C20.demo with
    | .ok g => g.numNodes == 3 && g.edges == [(0, 1), (1, 2), (0, 2)] &&
               dictKeys g.nodeProps == ["t", "y", "x", "label", "score", "var_length", "sparse_prop"]
    | _ => false) = true := by decide +kernel
example : genDummy false GeffProps.C20.demo = createDummyInMemGeff false GeffProps.C20.demo := by decide +kernel
example : Gen.MockData.createEmptyGeff false true =
    embed (createEmptyGeff false true) := by decide +kernel
-- the D15 boundary is reproduced by the generated code: IndexError iff the tree is unrepaired
example : genDummy false { GeffProps.C20.demo with numNodes := 0, extraNode := .none } = .other "IndexError" := by decide +kernel
example : isOk (genDummy true { GeffProps.C20.demo with numNodes := 0, extraNode := .none }) = true := by decide +kernel

end GeffProps.C20Gen
