import GeffModel.MetaOps
/-! # C07 — metadata objects always satisfy the format's invariants (under construction) -/
namespace GeffProps.C07
open Geff.Meta

/-! ## Gen obligations: the hand-written structures are the pydantic class bodies of the working tree -/

theorem gen_translation_ok : Gen.Schema.translationOk = true ∧ Gen.ValidValues.translationOk = true := by decide

end GeffProps.C07
