import GeffProofs.Meta
import GeffProofs.MetaRoundtrip
/-! # C07 — metadata objects always satisfy the format's invariants

*Every metadata object obtainable through the public API — constructed, parsed from JSON or zarr
attributes, copied, or changed by assigning to its fields — satisfies the format's invariants […].
An operation that would break an invariant raises a validation error and leaves the object as it
was.*

Model: `GeffModel/Meta.lean` (`parse`, `assign`, `copy`, the helpers of `utils.py`), histories in
`GeffModel/MetaOps.lean` (`start`, `step`, `run`, `trace`); specification `Geff.Meta.Valid`
(`GeffModel/MetaSpec.lean`).  Tie: translators T2/T3 (obligations below) and the correspondence
`harness/corr/C07.py`.  The model is of the tree *with* `fixes/C07-01-assignment-rollback.patch`. -/
set_option autoImplicit false
namespace GeffProps.C07
open Geff.Meta

/-! ## Gen obligations: the hand-written structures are the pydantic class bodies of the working tree -/

theorem gen_translation_ok : Gen.Schema.translationOk = true ∧ Gen.ValidValues.translationOk = true := by decide

/-- `Meta` has exactly the declared fields of `GeffMetadata`, in declaration order, with these types and defaults -/
theorem gen_geffMetadata_fields :
    Gen.Schema.geffMetadataFields.map (fun f => (f.name, f.ann, f.required, f.default)) =
      [("geff_version", "str", false, "GEFF_VERSION"), ("directed", "bool", true, ""),
       ("axes", "list[Axis] | None", false, "None"),
       ("node_props_metadata", "dict[str, PropMetadata]", true, ""),
       ("edge_props_metadata", "dict[str, PropMetadata]", true, ""),
       ("sphere", "str | None", false, "None"), ("ellipsoid", "str | None", false, "None"),
       ("track_node_props", "dict[Literal['lineage', 'tracklet'], str] | None", false, "None"),
       ("related_objects", "list[RelatedObject] | None", false, "None"),
       ("display_hints", "DisplayHint | None", false, "None"), ("extra", "dict[str, Any]", false, "dict()")] := by
  decide

theorem gen_fieldNames : fieldNames = Gen.Schema.geffMetadataFields.map (·.name) := by decide

theorem gen_requiredFields :
    requiredFields = (Gen.Schema.geffMetadataFields.filter (·.required)).map (·.name) := by decide

/-- the version field — and only it — carries `pattern=VERSION_PATTERN` -/
theorem gen_version_pattern :
    Gen.Schema.geffMetadataFields.map (·.pattern) =
      ["VERSION_PATTERN", "", "", "", "", "", "", "", "", "", ""] := by decide

theorem gen_axis_fields :
    Gen.Schema.axisFields.map (fun f => (f.name, f.ann, f.required, f.default)) =
      [("name", "str", true, ""), ("type", "AxisType | None", false, "None"),
       ("unit", "str | SpaceUnits | TimeUnits | None", false, "None"), ("min", "float | None", false, "None"),
       ("max", "float | None", false, "None"), ("scale", "float | None", false, "None"),
       ("scaled_unit", "str | SpaceUnits | TimeUnits | None", false, "None"),
       ("offset", "float | None", false, "None")] := by decide

theorem gen_propMetadata_fields :
    Gen.Schema.propMetadataFields.map (fun f => (f.name, f.ann, f.required, f.default)) =
      [("identifier", "Annotated[str, MinLen(1)]", true, ""), ("dtype", "Annotated[str, MinLen(1)]", true, ""),
       ("varlength", "bool", false, "False"), ("unit", "str | None", false, "None"),
       ("name", "str | None", false, "None"), ("description", "str | None", false, "None")] := by decide

theorem gen_relatedObject_fields :
    Gen.Schema.relatedObjectFields.map (fun f => (f.name, f.ann, f.required, f.default)) =
      [("type", "str", true, ""), ("path", "str", true, ""), ("label_prop", "str | None", false, "None")] := by decide

theorem gen_displayHint_fields :
    Gen.Schema.displayHintFields.map (fun f => (f.name, f.ann, f.required, f.default)) =
      [("display_horizontal", "str", true, ""), ("display_vertical", "str", true, ""),
       ("display_depth", "str | None", false, "None"), ("display_time", "str | None", false, "None")] := by decide

/-- top-level assignment is validated; assignment to the nested models is not (outside the claim) -/
theorem gen_validate_assignment :
    Gen.Schema.geffMetadataValidateAssignment = true ∧ Gen.Schema.axisValidateAssignment = false ∧
    Gen.Schema.propMetadataValidateAssignment = false ∧ Gen.Schema.relatedObjectValidateAssignment = false ∧
    Gen.Schema.displayHintValidateAssignment = false := by decide

/-- the validators the model mirrors are the ones the classes declare -/
theorem gen_validators :
    Gen.Schema.geffMetadataValidators = ["_validate_model_after@model_validator(mode='after')"] ∧
    Gen.Schema.axisValidators = ["_validate_model@model_validator(mode='after')"] ∧
    Gen.Schema.propMetadataValidators = ["_convert_dtype@field_validator('dtype', mode='before')"] ∧
    Gen.Schema.relatedObjectValidators = ["_validate_model@model_validator(mode='after')"] ∧
    Gen.Schema.displayHintValidators = [] := by decide

/-- the one fact the theorems need about the translated value lists: no allowed dtype name is empty
(the lists themselves are whatever `_valid_values.py` says — the model and `Schema.Spec` use them as they are) -/
theorem gen_valid_values :
    (∀ d ∈ Gen.ValidValues.dtypes, 1 ≤ d.length) ∧ Gen.ValidValues.axisTypes ≠ [] := by decide

/-! ## The property

`Valid env m` (`GeffModel/MetaSpec.lean`) is the conjunction of the invariants the property lists.
`env` carries the three library behaviours the model is parameterised by (regular-expression
search, numpy's dtype-name normalisation, the installed version); the only fact needed about them
is `hdef`: the package's own version — the *unvalidated default* of `geff_version` — matches the
version pattern (checked on every run by the harness).

Full-strength statement:

    theorem C07_invariant (hdef) (h : start env init = .ok o) (ops : List Op) :
        Valid env (run env o ops).val

It is **false** of the code as it stands: `Axis._validate_model` tests `min > max`, which is `False`
when a bound is NaN, so NaN bounds are accepted although `min <= max` does not hold
(`C07_counterexample_nan`; recorded as known finding `C07:invalid-object:nan-axis-bound`).  What is
proved is (a) the invariant the code does enforce, `ValidCode` — identical to `Valid` except that
`min <= max` reads "not `min > max`" — for every history, and (b) `Valid` itself under the explicit
hypothesis that no axis bound of the resulting object is NaN. -/

/-! `Op.WF` is the well-formedness of an operation's *inputs*; it is `True` for every operation except
`minMax` (`compute_and_add_axis_min_max`), whose per-axis bounds are `np.min` / `np.max` of one non-empty
selection of values and therefore satisfy "not `lo > hi`" — a fact about numpy's reductions that the
harness supplies and checks for every generated column.  (The model never computes on floats.) -/

/-- **C07 (enforced invariant, all histories)**: every object obtained by construction / parsing /
reading attributes, and then changed by any sequence of assignments (valid or invalid values),
copies and helper calls, satisfies the enforced invariant — induction over the operation list. -/
theorem C07_invariant_code (env : Env) (hdef : env.versionOk env.defaultVersion = true)
    (init : Init) (o : MetaObj) (h : start env init = .ok o) (ops : List Op) (hwf : ∀ op ∈ ops, op.WF) :
    ValidCode env (run env o ops).val :=
  run_valid hdef ops hwf (start_valid hdef h)

/-- **C07 (the specification, all histories, NaN bounds excluded)** -/
theorem C07_invariant_partial (env : Env) (hdef : env.versionOk env.defaultVersion = true)
    (init : Init) (o : MetaObj) (h : start env init = .ok o) (ops : List Op) (hwf : ∀ op ∈ ops, op.WF)
    (hnan : NoNaNBounds (run env o ops).val) :
    Valid env (run env o ops).val :=
  (valid_iff_validCode env _).2 ⟨C07_invariant_code env hdef init o h ops hwf, hnan⟩

/-- the same for every intermediate object of the history, not only the last one -/
theorem C07_every_step_partial (env : Env) (hdef : env.versionOk env.defaultVersion = true)
    (init : Init) (o : MetaObj) (h : start env init = .ok o) (ops : List Op) (hwf : ∀ op ∈ ops, op.WF) :
    ∀ r ∈ trace env o ops, NoNaNBounds r.2.val → Valid env r.2.val :=
  fun r hr hnan => (valid_iff_validCode env _).2 ⟨trace_valid hdef ops hwf (start_valid hdef h) r hr, hnan⟩

/-- the gap between the two is exactly "some axis bound is NaN" -/
theorem C07_gap (env : Env) (m : Meta) : Valid env m ↔ ValidCode env m ∧ NoNaNBounds m :=
  valid_iff_validCode env m

/-- **C07 (a failed operation is a no-op)**: whenever an operation raises, the object afterwards —
field values *and* fields-set — is the object before.  For assignment this is the roll-back of
`GeffMetadata.__setattr__`; the helpers work on copies. -/
theorem C07_failed_op_is_noop (env : Env) (o : MetaObj) (op : Op) (h : (step env o op).1 ≠ none) :
    (step env o op).2 = o :=
  step_failed_noop env o op h

/-- **C07 (what is raised)**: a rejected assignment raises a `ValidationError`, nothing else. -/
theorem C07_rejected_assignment_raises_validation_error (env : Env) (o : MetaObj) (f : String) (v : J)
    (e : Err) (h : (step env o (.assign f v)).1 = some e) : e = .validation :=
  assign_err_class env o f v e h

/-- **C07 (an assignment that would break an invariant is rejected)**: if storing the validated
value would give an object violating the enforced invariant, the assignment raises. -/
theorem C07_breaking_assignment_is_rejected (env : Env) (o : MetaObj) (ho : ValidCode env o.val)
    (f : String) (v : J) (m' : Meta) (hset : setField env o.val f v = .ok m') (hbad : ¬ ValidCode env m') :
    (step env o (.assign f v)).1 = some .validation := by
  have hfv := setField_fieldsValid ((validCode_iff env _).1 ho).1 hset
  have hafter : modelAfterOk m' ≠ true := fun h => hbad ((validCode_iff env _).2 ⟨hfv, h⟩)
  simp [step, assign, hset, hafter]

/-- **the specification oracle looks at the right value**: the driver evaluates `Valid` on
`ofDump d` where `d` is the implementation's observed `model_dump()`; on the dump of any value `m`
— valid or not — `ofDump` returns exactly `m`, so a verdict on an observed dump is a verdict on
the object the dump denotes. -/
theorem C07_oracle_decoder_exact (m : Meta) : ofDump (dump m) = some m := ofDump_dump m

/-! ## the counterexample to the full-strength statement, and non-vacuity -/

/-- a concrete environment: the version pattern accepts `"1.3"`, numpy names are fixed points -/
def exEnv : Env :=
  { pat := fun _ s => s == "1.3" || s == "0.3.1", npName := fun s => some s, defaultVersion := "1.3" }

def reqKeys : List (String × J) :=
  [("directed", .bool true), ("node_props_metadata", .obj []), ("edge_props_metadata", .obj [])]

/-- `GeffMetadata(directed=True, node_props_metadata={}, edge_props_metadata={},
                  axes=[Axis(name="x", min=nan, max=1.0)])` -/
def nanInit : Init :=
  .parse (.obj (reqKeys ++ [("axes", .arr [.obj [("name", .str "x"), ("min", .flt .nan), ("max", .flt (.fin 1 0))]])]))

def nanObj : MetaObj :=
  { val := { geff_version := "1.3", directed := true, node_props_metadata := [], edge_props_metadata := [],
             axes := some [{ name := "x", min := some .nan, max := some (.fin 1 0) }] },
    fieldsSet := ["directed", "axes", "node_props_metadata", "edge_props_metadata"] }

/-- **the full-strength statement fails**: an axis with a NaN bound is constructed without error and
violates `min <= max` (replayed on the implementation: `harness/corpus/C07/nan-axis-bound.json`) -/
theorem C07_counterexample_nan :
    ¬ (∀ (env : Env), env.versionOk env.defaultVersion = true → ∀ init o, start env init = .ok o →
        ∀ ops, (∀ op ∈ ops, op.WF) → Valid env (run env o ops).val) := by
  intro h
  have hs : start exEnv nanInit = .ok nanObj := by decide
  exact absurd (h exEnv (by decide) nanInit nanObj hs [] (by simp)) (by decide)

def exAxes : J := .arr [.obj [("name", .str "x")], .obj [("name", .str "y"), ("type", .str "space")]]
def exInit : Init := .parse (.obj (reqKeys ++ [("axes", exAxes)]))
def exObj : MetaObj :=
  { val := { geff_version := "1.3", directed := true, node_props_metadata := [], edge_props_metadata := [],
             axes := some [{ name := "x" }, { name := "y", type := some "space" }] },
    fieldsSet := ["directed", "axes", "node_props_metadata", "edge_props_metadata"] }

/-- non-vacuity: the hypotheses of the invariant theorems are met by a non-trivial history … -/
example : exEnv.versionOk exEnv.defaultVersion = true ∧ start exEnv exInit = .ok exObj := by decide

/-- … in which a duplicate-name assignment is rejected with `ValidationError` and rolled back (D3),
a display hint naming an undeclared axis likewise, and a valid hint is accepted -/
example :
    (step exEnv exObj (.assign "axes" (.arr [.obj [("name", .str "x")], .obj [("name", .str "x")]]))) =
      (some .validation, exObj) ∧
    (step exEnv exObj (.assign "display_hints"
        (.obj [("display_horizontal", .str "q"), ("display_vertical", .str "y")]))).1 = some .validation ∧
    (step exEnv exObj (.assign "display_hints"
        (.obj [("display_horizontal", .str "x"), ("display_vertical", .str "y")]))).1 = none ∧
    NoNaNBounds (run exEnv exObj [.assign "geff_version" (.str "0.3.1"), .copy,
        .updateAxes ["t", "x"] none (some [some "time", none]) none none none]).val := by decide

/-- `compute_and_add_axis_min_max` in a history: a well-formed call returns a new object whose axes carry
the bounds; a column that is absent, or whose entries are all flagged missing, raises `ValueError` and
the object stays what it was; an empty column leaves the axis alone -/
example :
    let ok : Op := .minMax [("x", .bounds (.fin (-3) 1) (.fin 5 0)), ("y", .noValues)]
    ok.WF ∧ (step exEnv exObj ok).1 = none ∧
    ((step exEnv exObj ok).2.val.axes.map (·.map (fun a => (a.name, a.min, a.max)))) =
      some [("x", some (.fin (-3) 1), some (.fin 5 0)), ("y", none, none)] ∧
    step exEnv exObj (.minMax [("x", .noValues)]) = (some .value, exObj) ∧
    step exEnv exObj (.minMax [("x", .allMissing), ("y", .noValues)]) = (some .value, exObj) ∧
    ¬ (Op.minMax [("x", .bounds (.fin 5 0) (.fin 1 0))]).WF := by decide

end GeffProps.C07
