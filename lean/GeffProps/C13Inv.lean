import GeffProps.C13
import GeffProofs.TrackletKinds
/-! # C13 — rejection classes, message kinds, cyclic graphs and invariances of the tracklet verdict

Property theorems only (second file for C13).  The second sentence of the property, clause by
clause, with the offending tracklet id provably in the returned error list:

* a tracklet running through a **division** (`C13_division_rejected`) or a **merge**
  (`C13_merge_rejected`), a **disconnected** tracklet (`C13_disconnected_rejected`), distinct maximal
  paths **sharing an id** (`C13_shared_id_rejected`), an **extendable** tracklet — forward, backward,
  single nodes included (`C13_extendable_rejected` = `C13_extendable_forward_rejected` ∨
  `C13_extendable_backward_rejected`; message: `C13_extendable_message`) — and
  two adjacent tracklets that should have been one, BOTH ids named (`C13_should_be_one_rejected`);
  none of these needs acyclicity or unique node ids;
* every rejection on an acyclic graph is of one of these kinds (`C13_rejected_classification`);
* which MESSAGE is produced, for every digraph, cyclic ones included (`C13_message_*`,
  `C13_ok_iff_any_graph`): the loop body is a decision list over five Prop-level conditions;
* on cyclic graphs the validator is stricter than the definition by exactly one clause: a class all
  of whose inner edges are tracklet edges and which contains a directed cycle gets "Cycle detected."
  (`C13_cyclic_exact`, `C13_iff_any_graph`);
* invariance: the whole error list (ids, kinds, named nodes) is a function of the SET of edges
  (`C13_edge_set`, `C13_edge_perm`, `C13_parallel_edges_collapse`) and, for the verdict and the set
  of named ids, of the SET of (node, id) pairs (`C13_node_set`, `C13_node_perm`) — on every digraph;
* edges with an endpoint outside the node list are NOT ignored: the endpoint counts as an
  unlabelled node (`C13_phantom_endpoint_*`).

All statements are for every directed graph and every labelling, with no bound on sizes. -/
set_option linter.unusedSectionVars false
namespace GeffProps.C13
open Geff.Graph Geff.Lineage Geff.Tracklet Relation
variable {α L : Type} [DecidableEq α] [DecidableEq L]

theorem validate_false_of_named {nl : List (α × L)} {es : List (α × α)} {t : L}
    (h : t ∈ (trackletErrors nl es).map (·.1)) : validateTracklets nl es = false := by
  unfold validateTracklets
  cases hE : trackletErrors nl es with
  | nil => rw [hE] at h; simp at h
  | cons a l => rfl

/-! ## the clauses of the property's second sentence (any digraph, no uniqueness needed) -/

/-- **through a division**: an edge `u → v` inside tracklet `t` whose source has a second
out-edge `u → w` — rejected, `t` is named, and the message is the "branch or merge" one. -/
theorem C13_division_rejected (nl : List (α × L)) (es : List (α × α)) {u v w : α} {t : L}
    (hu : (u, t) ∈ nl) (hv : (v, t) ∈ nl) (huv : (u, v) ∈ es) (huw : (u, w) ∈ es) (hne : w ≠ v) :
    (t, Verdict.branchMerge) ∈ trackletErrors nl es ∧
    t ∈ (trackletErrors nl es).map (·.1) ∧ validateTracklets nl es = false := by
  have h1 : (t, Verdict.branchMerge) ∈ trackletErrors nl es :=
    (mem_trackletErrors nl es t _).2 ⟨⟨u, hu⟩,
      (checkTracklet_branchMerge_iff nl es t ⟨u, hu⟩).2
        ((not_innerT_iff nl es t).2 ⟨u, v, ⟨huv, hu, hv⟩, fun hT => hne (hT.2.1 w huw)⟩),
      by simp⟩
  have h2 : t ∈ (trackletErrors nl es).map (·.1) := List.mem_map.2 ⟨_, h1, rfl⟩
  exact ⟨h1, h2, validate_false_of_named h2⟩

/-- **through a merge**: an edge `u → v` inside tracklet `t` whose target has a second in-edge
`w → v`. -/
theorem C13_merge_rejected (nl : List (α × L)) (es : List (α × α)) {u v w : α} {t : L}
    (hu : (u, t) ∈ nl) (hv : (v, t) ∈ nl) (huv : (u, v) ∈ es) (hwv : (w, v) ∈ es) (hne : w ≠ u) :
    (t, Verdict.branchMerge) ∈ trackletErrors nl es ∧
    t ∈ (trackletErrors nl es).map (·.1) ∧ validateTracklets nl es = false := by
  have h1 : (t, Verdict.branchMerge) ∈ trackletErrors nl es :=
    (mem_trackletErrors nl es t _).2 ⟨⟨u, hu⟩,
      (checkTracklet_branchMerge_iff nl es t ⟨u, hu⟩).2
        ((not_innerT_iff nl es t).2 ⟨u, v, ⟨huv, hu, hv⟩, fun hT => hne (hT.2.2 w hwv)⟩),
      by simp⟩
  have h2 : t ∈ (trackletErrors nl es).map (·.1) := List.mem_map.2 ⟨_, h1, rfl⟩
  exact ⟨h1, h2, validate_false_of_named h2⟩

/-- **disconnected**: two nodes of tracklet `t` that are not joined by a walk through edges
between nodes of `t`. -/
theorem C13_disconnected_rejected (nl : List (α × L)) (es : List (α × α)) {a b : α} {t : L}
    (ha : (a, t) ∈ nl) (hb : (b, t) ∈ nl) (hnc : ¬ ReflTransGen (AdjS nl es t) a b) :
    t ∈ (trackletErrors nl es).map (·.1) ∧ validateTracklets nl es = false := by
  have h := C13_errors_complete nl es t ⟨a, ha⟩ (fun hg => hnc (hg.connected a b ha hb))
  exact ⟨h, validate_false_of_named h⟩

/-- **distinct maximal paths sharing an id**: two nodes with the same id that are not connected
through tracklet edges (i.e. lie on different maximal unbranched paths). -/
theorem C13_shared_id_rejected (nl : List (α × L)) (es : List (α × α)) {a b : α} {t : L}
    (ha : (a, t) ∈ nl) (hb : (b, t) ∈ nl) (hnc : ¬ ReflTransGen (symT es) a b) :
    t ∈ (trackletErrors nl es).map (·.1) ∧ validateTracklets nl es = false := by
  have h := C13_errors_complete nl es t ⟨a, ha⟩ (fun hg => hnc (by
    refine ReflTransGen.mono (fun x y hxy => ?_) a b (hg.connected a b ha hb)
    rcases hxy with hxy | hxy
    · exact Or.inl (hg.inner_T _ _ hxy)
    · exact Or.inr (hg.inner_T _ _ hxy)))
  exact ⟨h, validate_false_of_named h⟩

/-- **extendable forward**: a tracklet edge `a → b` leaves tracklet `t` (`b` carries another id, no
id, or is not in the node list at all).  Single-node tracklets included. -/
theorem C13_extendable_forward_rejected (nl : List (α × L)) (es : List (α × α)) {a b : α} {t : L}
    (ha : (a, t) ∈ nl) (hT : T es a b) (hb : (b, t) ∉ nl) :
    t ∈ (trackletErrors nl es).map (·.1) ∧ validateTracklets nl es = false := by
  have h := C13_errors_complete nl es t ⟨a, ha⟩ (fun hg => hb ((hg.maximal a b hT).1 ha))
  exact ⟨h, validate_false_of_named h⟩

/-- **extendable backward**: a tracklet edge `a → b` enters tracklet `t`. -/
theorem C13_extendable_backward_rejected (nl : List (α × L)) (es : List (α × α)) {a b : α} {t : L}
    (hb : (b, t) ∈ nl) (hT : T es a b) (ha : (a, t) ∉ nl) :
    t ∈ (trackletErrors nl es).map (·.1) ∧ validateTracklets nl es = false := by
  have h := C13_errors_complete nl es t ⟨b, hb⟩ (fun hg => ha ((hg.maximal a b hT).2 hb))
  exact ⟨h, validate_false_of_named h⟩

/-- **two adjacent tracklets that should have been one**: a tracklet edge joins a node of `t` to a
node of `t' ≠ t` (unique node ids) — BOTH ids are named. -/
theorem C13_should_be_one_rejected (nl : List (α × L)) (es : List (α × α))
    (huniq : ∀ u l l', (u, l) ∈ nl → (u, l') ∈ nl → l = l') {a b : α} {t t' : L}
    (ha : (a, t) ∈ nl) (hb : (b, t') ∈ nl) (hne : t ≠ t') (hT : T es a b) :
    t ∈ (trackletErrors nl es).map (·.1) ∧ t' ∈ (trackletErrors nl es).map (·.1) ∧
    validateTracklets nl es = false := by
  have h1 := C13_extendable_forward_rejected nl es ha hT (fun h => hne (huniq b t t' h hb))
  have h2 := C13_extendable_backward_rejected nl es hb hT (fun h => hne (huniq a t t' ha h))
  exact ⟨h1.1, h2.1, h1.2⟩

/-- **completeness of the classes**: on an acyclic graph every named tracklet id runs through a
division, runs through a merge, is disconnected, or is extendable forward or backward — the
validator rejects for no other reason. -/
theorem C13_rejected_classification (nl : List (α × L)) (es : List (α × α)) (hacyc : Ranked es)
    (t : L) (ht : t ∈ (trackletErrors nl es).map (·.1)) :
    (∃ u v w, (u, t) ∈ nl ∧ (v, t) ∈ nl ∧ (u, v) ∈ es ∧ (u, w) ∈ es ∧ w ≠ v) ∨
    (∃ u v w, (u, t) ∈ nl ∧ (v, t) ∈ nl ∧ (u, v) ∈ es ∧ (w, v) ∈ es ∧ w ≠ u) ∨
    (∃ a b, (a, t) ∈ nl ∧ (b, t) ∈ nl ∧ ¬ ReflTransGen (AdjS nl es t) a b) ∨
    (∃ a b, T es a b ∧ (a, t) ∈ nl ∧ (b, t) ∉ nl) ∨
    (∃ a b, T es a b ∧ (b, t) ∈ nl ∧ (a, t) ∉ nl) := by
  obtain ⟨_, hbad⟩ := (C13_errors_exact nl es hacyc t).1 ht
  refine Classical.byContradiction fun hno => hbad ⟨?_, ?_, ?_⟩
  · rintro a b ⟨hab, ha, hb⟩
    refine ⟨hab, fun w hw => ?_, fun w hw => ?_⟩
    · refine Classical.byContradiction fun hne => hno (Or.inl ⟨a, b, w, ha, hb, hab, hw, hne⟩)
    · refine Classical.byContradiction fun hne => hno (Or.inr (Or.inl ⟨a, b, w, ha, hb, hab, hw, hne⟩))
  · intro a b ha hb
    refine Classical.byContradiction fun hnc => hno (Or.inr (Or.inr (Or.inl ⟨a, b, ha, hb, hnc⟩)))
  · intro a b hT
    constructor
    · intro ha
      refine Classical.byContradiction fun hb => hno (Or.inr (Or.inr (Or.inr (Or.inl ⟨a, b, hT, ha, hb⟩))))
    · intro hb
      refine Classical.byContradiction fun ha => hno (Or.inr (Or.inr (Or.inr (Or.inr ⟨a, b, hT, hb, ha⟩))))

/-- a negative verdict always comes with a named tracklet id (the error list is not empty) -/
theorem C13_rejected_names_some (nl : List (α × L)) (es : List (α × α))
    (h : validateTracklets nl es = false) : ∃ t, t ∈ (trackletErrors nl es).map (·.1) := by
  unfold validateTracklets at h
  cases hE : trackletErrors nl es with
  | nil => rw [hE] at h; simp at h
  | cons a l => exact ⟨a.1, by simp⟩


/-! ## which message, on every digraph (cycles allowed) -/

/-- **the loop body is a decision list**: for a tracklet id `t` that labels some node, on ANY
digraph, the message is
* "Invalid path structure (branch or merge detected)."  iff some edge between two nodes of `t` is not a tracklet edge
  (its source has another out-edge = division, or its target another in-edge = merge);
* else "Cycle detected."  iff the class contains a directed cycle;
* else "Not fully connected."  iff the class is not connected through its inner edges;
* else "Not maximal. Path can extend backward to node p."  iff a tracklet edge `p → s` enters the class;
* else "Not maximal. Path can extend forward to node n."  iff a tracklet edge `e → n` leaves the class;
* else no message — iff the class is a maximal unbranched path without directed cycle.
The node named in the two "Not maximal" messages is therefore the far end of the offending
tracklet edge, and it is unique. -/
theorem C13_message_decision_list (nl : List (α × L)) (es : List (α × α)) (t : L)
    (hl : ∃ u, (u, t) ∈ nl) :
    (checkTracklet nl es t = .branchMerge ↔ ∃ a b, ES nl es t a b ∧ ¬ T es a b) ∧
    (checkTracklet nl es t = .cycle ↔ InnerT nl es t ∧ CycleIn nl es t) ∧
    (checkTracklet nl es t = .notConnected ↔
      InnerT nl es t ∧ ¬ CycleIn nl es t ∧ ¬ ConnIn nl es t) ∧
    (∀ p, checkTracklet nl es t = .extendBack p ↔
      InnerT nl es t ∧ ¬ CycleIn nl es t ∧ ConnIn nl es t ∧ BackExt nl es t p) ∧
    (∀ n, checkTracklet nl es t = .extendFwd n ↔
      InnerT nl es t ∧ ¬ CycleIn nl es t ∧ ConnIn nl es t ∧ (∀ p, ¬ BackExt nl es t p) ∧
        FwdExt nl es t n) ∧
    (checkTracklet nl es t = .ok ↔ GoodTracklet nl es t ∧ ¬ CycleIn nl es t) :=
  ⟨(checkTracklet_branchMerge_iff nl es t hl).trans (not_innerT_iff nl es t),
   checkTracklet_cycle_iff nl es t hl, checkTracklet_notConnected_iff nl es t hl,
   checkTracklet_extendBack_iff nl es t hl, checkTracklet_extendFwd_iff nl es t hl,
   checkTracklet_ok_iff_good nl es t hl⟩

/-- an edge that is not a tracklet edge leaves a division or enters a merge -/
theorem C13_not_T_is_division_or_merge (es : List (α × α)) {a b : α} (hab : (a, b) ∈ es)
    (h : ¬ T es a b) : (∃ w, (a, w) ∈ es ∧ w ≠ b) ∨ (∃ w, (w, b) ∈ es ∧ w ≠ a) := by
  refine Classical.byContradiction fun hno => h ⟨hab, fun w hw => ?_, fun w hw => ?_⟩
  · exact Classical.byContradiction fun hne => hno (Or.inl ⟨w, hw, hne⟩)
  · exact Classical.byContradiction fun hne => hno (Or.inr ⟨w, hw, hne⟩)

/-! ## cyclic graphs: stricter than the definition by exactly one clause -/

/-- **C13 on every digraph**: tracklet id `t` is named iff it labels some node and its class is not
a maximal unbranched path OR contains a directed cycle (the second alternative is empty on acyclic
graphs: `C13_errors_exact`). -/
theorem C13_cyclic_exact (nl : List (α × L)) (es : List (α × α)) (t : L) :
    t ∈ (trackletErrors nl es).map (·.1) ↔
      (∃ u, (u, t) ∈ nl) ∧ (¬ GoodTracklet nl es t ∨ CycleIn nl es t) := by
  simp only [List.mem_map, Prod.exists, exists_and_right, exists_eq_right]
  constructor
  · rintro ⟨v, hv⟩
    obtain ⟨hl, hc, hne⟩ := (mem_trackletErrors nl es t v).1 hv
    refine ⟨hl, Classical.byContradiction fun hno => hne ?_⟩
    rw [← hc, checkTracklet_ok_iff_good nl es t hl]
    exact ⟨Classical.byContradiction fun h => hno (Or.inl h), fun h => hno (Or.inr h)⟩
  · rintro ⟨hl, hbad⟩
    refine ⟨checkTracklet nl es t, (mem_trackletErrors nl es t _).2 ⟨hl, rfl, fun hok => ?_⟩⟩
    obtain ⟨hg, hc⟩ := (checkTracklet_ok_iff_good nl es t hl).1 hok
    rcases hbad with h | h
    · exact h hg
    · exact hc h

/-- the "Cycle detected." message: exactly the classes that do not run through a division or merge
and contain a directed cycle -/
theorem C13_cycle_message (nl : List (α × L)) (es : List (α × α)) (t : L) :
    (t, Verdict.cycle) ∈ trackletErrors nl es ↔
      (∃ u, (u, t) ∈ nl) ∧ InnerT nl es t ∧ CycleIn nl es t := by
  rw [mem_trackletErrors]
  constructor
  · rintro ⟨hl, hc, _⟩; exact ⟨hl, (checkTracklet_cycle_iff nl es t hl).1 hc⟩
  · rintro ⟨hl, h⟩; exact ⟨hl, (checkTracklet_cycle_iff nl es t hl).2 h, by simp⟩

/-- **C13 (iff) without the acyclicity hypothesis**: on every digraph with unique node ids the
validator accepts iff the labelling is the documented partition AND no tracklet contains a
directed cycle.  So on cyclic inputs it is stricter than the definition by exactly that clause. -/
theorem C13_iff_any_graph (nl : List (α × L)) (es : List (α × α)) (hnd : (nl.map (·.1)).Nodup) :
    validateTracklets nl es = true ↔ TrackletSpecMasked nl es ∧ ∀ t, ¬ CycleIn nl es t := by
  rw [C13_spec_iff_all_good nl es hnd]
  unfold validateTracklets
  rw [List.isEmpty_iff]
  constructor
  · intro hnil
    have key : ∀ t, (∃ u, (u, t) ∈ nl) → GoodTracklet nl es t ∧ ¬ CycleIn nl es t := by
      intro t hl
      refine Classical.byContradiction fun hno => ?_
      have : t ∈ (trackletErrors nl es).map (·.1) := (C13_cyclic_exact nl es t).2 ⟨hl, by
        by_cases hg : GoodTracklet nl es t
        · exact Or.inr (Classical.byContradiction fun hc => hno ⟨hg, hc⟩)
        · exact Or.inl hg⟩
      simp [hnil] at this
    refine ⟨fun t => ?_, fun t => ?_⟩
    · by_cases hl : ∃ u, (u, t) ∈ nl
      · exact (key t hl).1
      · exact good_of_not_label nl es t hl
    · by_cases hl : ∃ u, (u, t) ∈ nl
      · exact (key t hl).2
      · rintro ⟨a, ha⟩
        rcases TransGen.head'_iff.1 ha with ⟨c, hac, _⟩
        exact hl ⟨a, hac.2.1⟩
  · rintro ⟨hgood, hnc⟩
    apply List.eq_nil_iff_forall_not_mem.2
    rintro ⟨t, v⟩ hm
    have : t ∈ (trackletErrors nl es).map (·.1) := List.mem_map.2 ⟨(t, v), hm, rfl⟩
    rcases ((C13_cyclic_exact nl es t).1 this).2 with h | h
    · exact h (hgood t)
    · exact hnc t h

/-- on an acyclic graph no class contains a cycle, so the extra clause is vacuous -/
theorem C13_no_cycle_of_ranked (nl : List (α × L)) (es : List (α × α)) (hacyc : Ranked es) (t : L) :
    ¬ CycleIn nl es t := by
  rintro ⟨a, ha⟩
  exact (ranked_iff_no_cycle es).1 hacyc a (TransGen.mono (fun x y hxy => hxy.1) _ _ ha)

/-! ## invariance: edge order / multiplicity, node order -/

/-- **the edge list matters only as a set**: two edge lists with the same members give the SAME
error list — same ids, same order, same kinds, same named nodes (any digraph).  networkx's
`DiGraph` collapses parallel edges, and docs/tracking.md speaks of the edges of a graph, i.e. a
set: a doubled edge is not a division. -/
theorem C13_edge_set (nl : List (α × L)) (es es' : List (α × α)) (h : ∀ e, e ∈ es ↔ e ∈ es') :
    trackletErrors nl es = trackletErrors nl es' ∧ validateTracklets nl es = validateTracklets nl es' := by
  have hE : trackletErrors nl es = trackletErrors nl es' := by
    unfold trackletErrors
    apply List.filterMap_congr
    intro t ht
    have hl : ∃ u, (u, t) ∈ nl := by
      obtain ⟨⟨u, l⟩, hm, rfl⟩ := List.mem_map.1 ((mem_dedup _ _).1 ht)
      exact ⟨u, hm⟩
    rw [checkTracklet_congr nl nl es es' t hl (fun _ => Iff.rfl) h]
  exact ⟨hE, by unfold validateTracklets; rw [hE]⟩

theorem C13_edge_perm (nl : List (α × L)) (es es' : List (α × α)) (h : es.Perm es') :
    trackletErrors nl es = trackletErrors nl es' ∧ validateTracklets nl es = validateTracklets nl es' :=
  C13_edge_set nl es es' fun _ => h.mem_iff

/-- parallel edges collapse: removing duplicates from the edge list changes nothing -/
theorem C13_parallel_edges_collapse (nl : List (α × L)) (es : List (α × α)) :
    trackletErrors nl (dedup es) = trackletErrors nl es ∧
    validateTracklets nl (dedup es) = validateTracklets nl es :=
  C13_edge_set nl (dedup es) es fun e => mem_dedup es e

/-- **the order of the node list is irrelevant** for the verdict and for WHICH (id, message) pairs
are reported (the order of the error list follows the first occurrence of each id). -/
theorem C13_node_set (nl nl' : List (α × L)) (es : List (α × α)) (h : ∀ p, p ∈ nl ↔ p ∈ nl') :
    (∀ t v, (t, v) ∈ trackletErrors nl es ↔ (t, v) ∈ trackletErrors nl' es) ∧
    validateTracklets nl es = validateTracklets nl' es := by
  have hmem : ∀ t v, (t, v) ∈ trackletErrors nl es ↔ (t, v) ∈ trackletErrors nl' es := by
    intro t v
    rw [mem_trackletErrors, mem_trackletErrors]
    have hlab : (∃ u, (u, t) ∈ nl) ↔ (∃ u, (u, t) ∈ nl') := exists_congr fun u => h (u, t)
    constructor
    · rintro ⟨hl, hc, hne⟩
      exact ⟨hlab.1 hl, (checkTracklet_congr nl nl' es es t hl h (fun _ => Iff.rfl)) ▸ hc, hne⟩
    · rintro ⟨hl, hc, hne⟩
      exact ⟨hlab.2 hl, (checkTracklet_congr nl' nl es es t hl (fun p => (h p).symm) (fun _ => Iff.rfl)) ▸ hc, hne⟩
  refine ⟨hmem, ?_⟩
  unfold validateTracklets
  cases h1 : trackletErrors nl es with
  | nil =>
    cases h2 : trackletErrors nl' es with
    | nil => rfl
    | cons a l =>
      have := (hmem a.1 a.2).2 (by rw [h2]; exact List.mem_cons_self)
      rw [h1] at this; simp at this
  | cons a l =>
    cases h2 : trackletErrors nl' es with
    | nil =>
      have := (hmem a.1 a.2).1 (by rw [h1]; exact List.mem_cons_self)
      rw [h2] at this; simp at this
    | cons b l' => rfl

theorem C13_node_perm (nl nl' : List (α × L)) (es : List (α × α)) (h : nl.Perm nl') :
    (∀ t v, (t, v) ∈ trackletErrors nl es ↔ (t, v) ∈ trackletErrors nl' es) ∧
    validateTracklets nl es = validateTracklets nl' es :=
  C13_node_set nl nl' es fun _ => h.mem_iff

/-! ## edges with an endpoint outside the node list

`validate_tracklets` documents "Edges must be between nodes in `node_ids`" but does not check it:
`nx.DiGraph(edges)` creates the foreign endpoint as a node of `G`, so it counts in every degree of
`G`.  The code therefore treats it exactly like a node without tracklet id (`C13_iff_masked`):
such an edge can make a tracklet extendable, and it can turn a tracklet edge into a division or
merge edge.  It is NOT ignored — in both directions (examples below). -/

/-- a tracklet edge from a node of `t` to an id that is not in the node list: `t` is rejected
(the path "can extend forward" to a node that does not exist) -/
theorem C13_phantom_endpoint_forward (nl : List (α × L)) (es : List (α × α)) {a x : α} {t : L}
    (ha : (a, t) ∈ nl) (hT : T es a x) (hx : x ∉ nl.map (·.1)) :
    t ∈ (trackletErrors nl es).map (·.1) ∧ validateTracklets nl es = false :=
  C13_extendable_forward_rejected nl es ha hT (fun h => hx (List.mem_map.2 ⟨(x, t), h, rfl⟩))

theorem C13_phantom_endpoint_backward (nl : List (α × L)) (es : List (α × α)) {x b : α} {t : L}
    (hb : (b, t) ∈ nl) (hT : T es x b) (hx : x ∉ nl.map (·.1)) :
    t ∈ (trackletErrors nl es).map (·.1) ∧ validateTracklets nl es = false :=
  C13_extendable_backward_rejected nl es hb hT (fun h => hx (List.mem_map.2 ⟨(x, t), h, rfl⟩))

/-- a second out-edge to an id outside the node list makes an inner edge of `t` a division edge -/
theorem C13_phantom_endpoint_division (nl : List (α × L)) (es : List (α × α)) {u v x : α} {t : L}
    (hu : (u, t) ∈ nl) (hv : (v, t) ∈ nl) (huv : (u, v) ∈ es) (hux : (u, x) ∈ es)
    (hx : x ∉ nl.map (·.1)) : (t, Verdict.branchMerge) ∈ trackletErrors nl es :=
  (C13_division_rejected nl es hu hv huv hux (fun h => hx (h ▸ List.mem_map.2 ⟨(v, t), hv, rfl⟩))).1

/-! ## extendable tracklets: both directions in one statement, and their message -/

/-- **extendable** (both directions in one statement): a tracklet edge `a → b` with exactly one
endpoint in tracklet `t` — `t` could be extended along it, forward or backward — is rejected with
`t` named.  Single-node tracklets are not exempt. -/
theorem C13_extendable_rejected (nl : List (α × L)) (es : List (α × α)) {a b : α} {t : L}
    (hT : T es a b) (h : ((a, t) ∈ nl ∧ (b, t) ∉ nl) ∨ ((b, t) ∈ nl ∧ (a, t) ∉ nl)) :
    t ∈ (trackletErrors nl es).map (·.1) ∧ validateTracklets nl es = false := by
  rcases h with ⟨ha, hb⟩ | ⟨hb, ha⟩
  · exact C13_extendable_forward_rejected nl es ha hT hb
  · exact C13_extendable_backward_rejected nl es hb hT ha

/-- the message of an extendable tracklet that is otherwise fine (no division/merge inside, no
cycle, connected): it names the node at the far end of the offending tracklet edge -/
theorem C13_extendable_message (nl : List (α × L)) (es : List (α × α)) (t : L)
    (hl : ∃ u, (u, t) ∈ nl) (hI : InnerT nl es t) (hc : ¬ CycleIn nl es t) (hconn : ConnIn nl es t) :
    (∀ p, BackExt nl es t p → (t, Verdict.extendBack p) ∈ trackletErrors nl es) ∧
    (∀ n, (∀ p, ¬ BackExt nl es t p) → FwdExt nl es t n → (t, Verdict.extendFwd n) ∈ trackletErrors nl es) := by
  constructor
  · intro p hp
    exact (mem_trackletErrors nl es t _).2 ⟨hl, (checkTracklet_extendBack_iff nl es t hl p).2 ⟨hI, hc, hconn, hp⟩, by simp⟩
  · intro n hnb hn
    exact (mem_trackletErrors nl es t _).2 ⟨hl, (checkTracklet_extendFwd_iff nl es t hl n).2 ⟨hI, hc, hconn, hnb, hn⟩, by simp⟩
/-! ## non-vacuity (evaluations of the model; tests, not the unbounded claims) -/
-- division 3→4, 3→5 with {1,2,3,4} one tracklet: "branch or merge"
example : trackletErrors [((1:Nat),(10:Nat)),(2,10),(3,10),(4,10),(5,30)] [(1,2),(2,3),(3,4),(3,5)]
    = [(10, .branchMerge)] := by decide
-- merge 1→3, 2→3 with {1,3} one tracklet
example : trackletErrors [((1:Nat),(10:Nat)),(2,20),(3,10)] [(1,3),(2,3)] = [(10, .branchMerge)] := by decide
-- disconnected
example : trackletErrors [((1:Nat),(10:Nat)),(2,10),(3,10)] [(1,2)] = [(10, .notConnected)] := by decide
-- two single-node tracklets that should have been one: both named, forward for the first, backward for the second
example : trackletErrors [((1:Nat),(10:Nat)),(2,20)] [(1,2)] = [(10, .extendFwd 2), (20, .extendBack 1)] := by decide
-- hypotheses of `C13_should_be_one_rejected` on that input
example : T [((1:Nat),(2:Nat))] 1 2 :=
  ⟨by simp [E], fun w hw => by simpa [E] using hw, fun w hw => by simpa [E] using hw⟩
-- a 2-cycle carrying one id satisfies the definition (both edges are tracklet edges) but is rejected: "Cycle detected."
example : trackletErrors [((1:Nat),(10:Nat)),(2,10)] [(1,2),(2,1)] = [(10, .cycle)] := by decide
-- cyclic graph, but no tracklet contains the cycle (1⇄2, each with a second out-edge): accepted
example : validateTracklets [((1:Nat),(10:Nat)),(2,20),(3,30),(4,40)] [(1,2),(2,1),(1,3),(2,4)] = true := by decide
-- a doubled edge is not a division
example : validateTracklets [((1:Nat),(10:Nat)),(2,10)] [(1,2),(1,2)] = true := by decide
-- phantom endpoint 9: accepted → rejected (extension) …
example : validateTracklets [((1:Nat),(10:Nat)),(2,10)] [(1,2)] = true ∧
    trackletErrors [((1:Nat),(10:Nat)),(2,10)] [(1,2),(2,9)] = [(10, .extendFwd 9)] := by decide
-- … and rejected → accepted (1→9 turns 1→2 into a division edge, so {1},{2} is right)
example : validateTracklets [((1:Nat),(10:Nat)),(2,20)] [(1,2)] = false ∧
    validateTracklets [((1:Nat),(10:Nat)),(2,20)] [(1,2),(1,9)] = true := by decide

end GeffProps.C13
