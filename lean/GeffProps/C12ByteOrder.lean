import GeffModel.ByteOrder
import GeffProps.C12
/-! # C12 — graph validation on read does not depend on the byte order of the stored id arrays

`GeffModel/ByteOrder.lean` models an id array as byte strings + the byte order recorded FOR THAT
ARRAY, and the reader as "decode every array by its own byte order, then `validate_data`".
The theorems quantify over both byte orders of the node ids and of the edge ids INDEPENDENTLY, over
the item width (1, 2, 4, 8 bytes: any `w > 0`), signedness, all in-range id values, all edge lists
and directedness. -/
namespace GeffProps.C12ByteOrder
open Geff.Validate Geff.ByteOrder GeffProps.C12

theorem leNat_leBytes (w v : Nat) : leNat (leBytes w v) = v % 256 ^ w := by
  induction w generalizing v with
  | zero => simp [leBytes, leNat, Nat.mod_one]
  | succ w ih =>
    simp only [leBytes, leNat, ih]
    rw [Nat.pow_succ, Nat.mul_comm (256 ^ w) 256, Nat.mod_mul]

theorem length_leBytes (w v : Nat) : (leBytes w v).length = w := by
  induction w generalizing v with
  | zero => rfl
  | succ w ih => simp [leBytes, ih]

theorem length_encodeU (e : Endian) (w v : Nat) : (encodeU e w v).length = w := by
  cases e <;> simp [encodeU, length_leBytes]

theorem decodeU_encodeU (e : Endian) (w v : Nat) : decodeU e (encodeU e w v) = v % 256 ^ w := by
  cases e <;> simp [decodeU, encodeU, leNat_leBytes]

private theorem pow8 (w : Nat) : (256 : Nat) ^ w = 2 ^ (8 * w) := by
  rw [Nat.pow_mul]

/-- **round trip of one item**: for every byte order, width `w > 0`, signedness and every value of
the type, decoding the stored bytes by the byte order they were stored with gives the value back -/
theorem decode_encode (signed : Bool) (e : Endian) (w : Nat) (hw : 0 < w) (v : Int)
    (hv : InRange signed w v) : decode signed e (encode e w v) = v := by
  have hM : (0 : Int) < 2 ^ (8 * w) := Int.pow_pos (by decide)
  have hsplit : (2 : Int) ^ (8 * w) = 2 * 2 ^ (8 * w - 1) := by
    have : 8 * w = (8 * w - 1) + 1 := by omega
    conv => lhs; rw [this, Int.pow_succ]
    omega
  have hnat : ((2 : Nat) ^ (8 * w) : Nat) = ((2 : Int) ^ (8 * w)) := by simp
  have hnat1 : (((2 : Nat) ^ (8 * w - 1) : Nat) : Int) = ((2 : Int) ^ (8 * w - 1)) := by simp
  unfold decode encode
  rw [length_encodeU, decodeU_encodeU, pow8]
  have hlt : (v % 2 ^ (8 * w)).toNat < 2 ^ (8 * w) := by
    have h1 := Int.emod_lt_of_pos v hM
    have h0 := Int.emod_nonneg v (Int.ne_of_gt hM)
    omega
  rw [Nat.mod_eq_of_lt hlt]
  have h0 := Int.emod_nonneg v (Int.ne_of_gt hM)
  have hcast : ((v % 2 ^ (8 * w)).toNat : Int) = v % 2 ^ (8 * w) := Int.toNat_of_nonneg h0
  cases signed with
  | false =>
    simp only [InRange, Bool.false_eq_true, if_false] at hv
    simp only [Bool.false_eq_true, if_false]
    rw [hcast, Int.emod_eq_of_lt hv.1 hv.2]
  | true =>
    simp only [InRange, if_true] at hv
    simp only [if_true]
    unfold toSigned
    by_cases hneg : 0 ≤ v
    · have hvm : v % 2 ^ (8 * w) = v := Int.emod_eq_of_lt hneg (by omega)
      rw [hvm] at hcast ⊢
      have : v.toNat < 2 ^ (8 * w - 1) := by omega
      rw [if_pos this, Int.toNat_of_nonneg hneg]
    · have hvm : v % 2 ^ (8 * w) = v + 2 ^ (8 * w) := by
        rw [← Int.add_emod_right v (2 ^ (8 * w))]
        exact Int.emod_eq_of_lt (by omega) (by omega)
      rw [hvm] at hcast ⊢
      have : ¬ (v + 2 ^ (8 * w)).toNat < 2 ^ (8 * w - 1) := by omega
      rw [if_neg this, hcast]
      omega

/-- **round trip of an array**: the values handed out for a stored array are the values written,
whatever the array's byte order -/
theorem values_store (e : Endian) (signed : Bool) (w : Nat) (hw : 0 < w) (vs : List Int)
    (hvs : ∀ v ∈ vs, InRange signed w v) : (store e signed w vs).values = vs := by
  unfold IdArray.values store
  simp only [List.map_map]
  induction vs with
  | nil => rfl
  | cons v vs ih =>
    simp only [List.map_cons, Function.comp_apply]
    rw [decode_encode signed e w hw v (hvs v (by simp)), ih (fun x hx => hvs x (by simp [hx]))]

theorem pairs_flat (edges : List (Int × Int)) : pairs (flat edges) = edges := by
  induction edges with
  | nil => rfl
  | cons e es ih => simp [flat, pairs, ih]

theorem mem_flat {edges : List (Int × Int)} {v : Int} (h : v ∈ flat edges) :
    ∃ e ∈ edges, v = e.1 ∨ v = e.2 := by
  induction edges with
  | nil => simp [flat] at h
  | cons e es ih =>
    simp only [flat, List.mem_cons] at h
    rcases h with h | h | h
    · exact ⟨e, by simp, Or.inl h⟩
    · exact ⟨e, by simp, Or.inr h⟩
    · obtain ⟨e', he', hv⟩ := ih h
      exact ⟨e', by simp [he'], hv⟩

/-- **C12 (byte order)**: for EVERY byte order of the node ids and EVERY byte order of the edge ids
(chosen independently), every item width `w > 0`, signedness, all ids and edges whose values lie in
the integer type and both directednesses, graph validation of what the reader hands out is graph
validation of the stored values. -/
theorem C12_read_graph_any_byteorder (directed signed : Bool) (en ee : Endian) (w : Nat) (hw : 0 < w)
    (ids : List Int) (edges : List (Int × Int)) (hids : ∀ v ∈ ids, InRange signed w v)
    (hedges : ∀ e ∈ edges, InRange signed w e.1 ∧ InRange signed w e.2) :
    readGraphStage directed (store en signed w ids) (store ee signed w (flat edges)) =
      graphStage directed ids edges := by
  unfold readGraphStage
  rw [values_store en signed w hw ids hids, values_store ee signed w hw (flat edges), pairs_flat]
  intro v hv
  obtain ⟨e, he, h | h⟩ := mem_flat hv
  · exact h ▸ (hedges e he).1
  · exact h ▸ (hedges e he).2

/-- … hence `read_to_memory(store, data_validation=ValidationConfig(graph=True))` passes iff the
stored node ids are unique, every stored edge endpoint is a node id, no self edge and no repeated
edge (ordered / unordered pairs), whatever the two byte orders. -/
theorem C12_read_graph_iff_any_byteorder (directed signed : Bool) (en ee : Endian) (w : Nat)
    (hw : 0 < w) (ids : List Int) (edges : List (Int × Int)) (hids : ∀ v ∈ ids, InRange signed w v)
    (hedges : ∀ e ∈ edges, InRange signed w e.1 ∧ InRange signed w e.2) :
    readGraphStage directed (store en signed w ids) (store ee signed w (flat edges)) = .ok ↔
      GraphValid directed ids edges := by
  rw [C12_read_graph_any_byteorder directed signed en ee w hw ids edges hids hedges, graphStage_iff]

/-- non-vacuity: little-endian int64 node ids, big-endian int64 edge ids, a valid path graph holding
a value whose bytes are not a palindrome -/
example : readGraphStage true (store .little true 8 [0, 1, 2, 300])
    (store .big true 8 (flat [(0, 1), (1, 2), (2, 300)])) = .ok := by decide

example : (∀ v ∈ [0, 1, 2, (300 : Int)], InRange true 8 v) := by decide

/-- re-labelling the edge bytes with the node array's dtype agrees with the reader when the two
byte orders (and signedness) coincide … -/
theorem view_eq_values_of_same_order (nodes edges : IdArray) (he : edges.endian = nodes.endian)
    (hs : edges.signed = nodes.signed) : edges.viewAs nodes = edges.values := by
  unfold IdArray.viewAs IdArray.values
  rw [he, hs]

/-- … and is NOT value preserving otherwise: one stored as big-endian int64 read under `<i8` is
2^56 -/
theorem C12_view_byteswaps : (store .big true 8 [1]).viewAs (store .little true 8 [0]) = [2 ^ 56] := by
  decide

/-- so a reader that hands out `edges.view(nodes.dtype)` rejects the valid graph nodes `[0, 1]`,
edge `(0, 1)` stored with opposite byte orders (while the modelled reader accepts it) … -/
theorem C12_view_counterexample_rejects_valid :
    readGraphStageView true (store .little true 8 [0, 1]) (store .big true 8 (flat [(0, 1)])) =
        .valueError "Some edges are missing nodes:" ∧
      readGraphStage true (store .little true 8 [0, 1]) (store .big true 8 (flat [(0, 1)])) = .ok := by
  decide

/-- … and accepts the invalid graph nodes `[0, 2^56]`, edge `(0, 1)` (node 1 does not exist) -/
theorem C12_view_counterexample_accepts_invalid :
    readGraphStageView true (store .little true 8 [0, 2 ^ 56]) (store .big true 8 (flat [(0, 1)])) = .ok ∧
      readGraphStage true (store .little true 8 [0, 2 ^ 56]) (store .big true 8 (flat [(0, 1)])) =
        .valueError "Some edges are missing nodes:" := by
  decide

end GeffProps.C12ByteOrder
