import GeffProofs.MockEdges
import GeffProofs.MockData
import Gen.MockForward
/-! # C20 — mock-data generators honour their parameters and emit valid geffs

Property theorems only.  `Gen.MockEdges.gen` is the edge generator of
`geff.testing.data.create_dummy_in_mem_geff` **as translated from the working tree** by T9
(`harness/translators/t9_mock_edges.py`, regenerated on every run); `Geff.MockData.*`
(`GeffModel/MockData.lean`) is the hand-written model of the rest of the six public helpers, tied to
the code by the correspondence `harness/corr/C20.py`. -/
namespace GeffProps.C20
open Geff.MockEdges

/-- Specification of the edge list for `(directed, num_nodes = n, num_edges = m)` (property C20):
exactly `min(requested, possible)` edges, every endpoint an existing node, no self edge, no edge
repeated — as an unordered pair when the graph is undirected. -/
def EdgesSpec (directed : Bool) (n m : Nat) (es : List (Nat × Nat)) : Prop :=
  es.length = min m (maxPossible directed n) ∧
  (∀ e ∈ es, e.1 < n ∧ e.2 < n ∧ e.1 ≠ e.2) ∧
  (es.map (key directed)).Nodup

/-- the translator accepted the source (no construct outside its subset) -/
theorem C20_translation_ok : Gen.MockEdges.translationOk = true := rfl

/-- **C20 (edges)**, about the function generated from the source: for *every* directedness, node
count and requested edge count the generator terminates without an exception and returns a list of
natural-number pairs that satisfies the specification. -/
theorem C20_edges (directed : Bool) (n m : Nat) :
    ∃ es : List (Nat × Nat),
      Gen.MockEdges.gen directed (n : Int) (m : Int) = .ok (es.map cast) ∧ EdgesSpec directed n m es := by
  refine ⟨gen directed n m, ?_, length_gen directed n m, gen_valid directed n m, gen_nodup directed n m⟩
  unfold Gen.MockEdges.gen
  rw [genCore_eq]

/-- `possible` really is the number of admissible edges: *no* list satisfying the validity and
no-repeat clauses is longer — so `min(requested, possible)` is the right count and not an artefact
of the generator. -/
theorem C20_possible_is_max (directed : Bool) (n : Nat) (es : List (Nat × Nat))
    (hv : ∀ e ∈ es, e.1 < n ∧ e.2 < n ∧ e.1 ≠ e.2) (hn : (es.map (key directed)).Nodup) :
    es.length ≤ maxPossible directed n := by
  have hsub : es.map (key directed) ⊆ (all directed n).map (key directed) := by
    intro k hk
    obtain ⟨⟨a, b⟩, he, rfl⟩ := List.mem_map.1 hk
    have h := hv (a, b) he
    simp only at h
    cases directed with
    | true =>
      simp only [key, if_true, all, List.map_append, List.mem_append, List.mem_map]
      rcases Nat.lt_or_ge a b with hab | hab
      · exact Or.inl ⟨(a, b), mem_fwd.2 ⟨hab, h.2.1⟩, rfl⟩
      · exact Or.inr ⟨(a, b), ⟨(b, a), mem_fwd.2 ⟨by omega, h.1⟩, rfl⟩, rfl⟩
    | false =>
      simp only [key, Bool.false_eq_true, if_false, all, List.mem_map]
      rcases Nat.lt_or_ge a b with hab | hab
      · exact ⟨(a, b), mem_fwd.2 ⟨hab, h.2.1⟩, rfl⟩
      · exact ⟨(b, a), mem_fwd.2 ⟨by omega, h.1⟩, by simp only [Nat.min_comm, Nat.max_comm]⟩
  have := length_le_of_nodup_subset hn hsub
  simpa [length_all] using this

/-- the executable decider the harness evaluates on the implementation's observed edge list is the
specification -/
theorem edgesOk_iff (directed : Bool) (n m : Nat) (es : List (Nat × Nat)) :
    edgesOk directed n m es = true ↔ EdgesSpec directed n m es := by
  have hnd : ∀ l : List (Nat × Nat), nodupB l = true ↔ l.Nodup := by
    intro l
    induction l with
    | nil => simp [nodupB]
    | cons x t ih => simp [nodupB, ih]
  unfold edgesOk EdgesSpec
  simp only [Bool.and_eq_true, beq_iff_eq, List.all_eq_true, decide_eq_true_eq, hnd]
  constructor
  · rintro ⟨⟨h1, h2⟩, h3⟩
    exact ⟨h1, fun e he => by have := h2 e he; tauto, h3⟩
  · rintro ⟨h1, h2, h3⟩
    exact ⟨⟨h1, fun e he => by have := h2 e he; tauto⟩, h3⟩

/-- Non-vacuity / pinned witnesses.  The first is the input on which the unrepaired generator
returned `(0,1),(1,2),(0,1)` (defect D9): the specification rejects that list and accepts what the
generated function returns now. -/
example : edgesOk false 3 3 [(0, 1), (1, 2), (0, 1)] = false := by decide
example : Gen.MockEdges.gen false 3 3 = .ok [(0, 1), (1, 2), (0, 2)] := by decide
example : Gen.MockEdges.gen true 3 100 = .ok [(0, 1), (1, 2), (0, 2), (1, 0), (2, 1), (2, 0)] := by decide
example : EdgesSpec true 3 100 [(0, 1), (1, 2), (0, 2), (1, 0), (2, 1), (2, 0)] :=
  (edgesOk_iff _ _ _ _).1 (by decide)


/-! ## The rest of `create_dummy_in_mem_geff` and the forwarding helpers -/
open Geff.MockData

/-- the axes requested by the four `include_*` flags, in the generator's order -/
def axisNames (p : Params) : List String :=
  (if p.t then ["t"] else []) ++ (if p.z then ["z"] else []) ++ (if p.y then ["y"] else []) ++
  (if p.x then ["x"] else [])

/-- the coordinate property of axis `name`: requested dtype (time dtype for `t`, position dtype
otherwise), one value per node, dense, fixed-length -/
def AxisProp (p : Params) (name : String) (kv : String × PropOut) : Prop :=
  kv.1 = name ∧ kv.2.dtype = npName (if name = "t" then p.timeDtype else p.posDtype) ∧
  kv.2.len = p.numNodes ∧ kv.2.varlength = false ∧ kv.2.missing = none

/-- the property an `extra_*_props` item asks for: its name, one value per node/edge, dense,
fixed-length, the requested dtype — or the caller's own array, untouched -/
def Requested (len : Nat) (item : Option String × Req) (kv : String × PropOut) : Prop :=
  item.1 = some kv.1 ∧ kv.2.len = len ∧ kv.2.varlength = false ∧ kv.2.missing = none ∧
  ((∃ d, item.2 = .auto d ∧ d ∈ dtypeStrs ∧ kv.2.dtype = npName d) ∨
   (∃ d tag, item.2 = .arr d len tag ∧ kv.2.dtype = d ∧ kv.2.values = .given tag))

/-- all node-side / edge-side property names a parameter record asks for -/
def nodeNames (p : Params) : List String :=
  axisNames p ++ (itemsOf p.extraNode).filterMap (·.1) ++ (if p.vl then ["var_length"] else []) ++
  (if p.ms then ["sparse_prop"] else [])

def edgeNames (p : Params) : List String :=
  (itemsOf p.extraEdge).filterMap (·.1) ++ (if p.ms then ["sparse_prop"] else [])

/-- the props-metadata dict describes the property dict entry by entry, in the same order -/
def Describes (md : Dict MetaOut) (props : Dict PropOut) : Prop := List.Forall₂ DescribesOne md props

theorem axisTriples_names (p : Params) : (axisTriples p).map (·.1) = axisNames p := by
  unfold axisTriples axisNames
  cases p.t <;> cases p.z <;> cases p.y <;> cases p.x <;> rfl

theorem axisTriples_spec (p : Params) :
    List.Forall₂ (AxisProp p) (axisNames p) ((axisTriples p).map tripleProp) := by
  unfold axisTriples axisNames
  cases p.t <;> cases p.z <;> cases p.y <;> cases p.x <;>
    simp [AxisProp, tripleProp, axisTriple]

theorem requested_of_stepOut {len : Nat} {items : List (Option String × Req)} {ts : List Triple}
    (h : List.Forall₂ (fun it t => stepOut len it = .ok t) items ts) :
    List.Forall₂ (Requested len) items (ts.map tripleProp) := by
  induction h with
  | nil => exact List.Forall₂.nil
  | cons hs _ ih =>
    obtain ⟨h1, h2, h3, h4, _, _, h7⟩ := stepOut_ok hs
    exact List.Forall₂.cons ⟨h1, h2, h3, h4, h7⟩ ih

/-- **C20 (parameters)**.  Whenever `create_dummy_in_mem_geff` accepts a parameter record whose
requested property names are pairwise distinct, the result has exactly the requested number of
nodes with the requested id dtype, the requested directedness, an edge list satisfying `EdgesSpec`,
exactly the requested axes, and its node / edge property dicts are — in order — the axis
coordinates, the requested extra properties (requested dtype, or the caller's array untouched), a
var-length property iff requested, a sparse property iff requested (of node resp. **edge** length);
the props metadata describes exactly these properties. -/
theorem C20_params (ok : Bool) (p : Params) (g : Geff) (h : createDummyInMemGeff ok p = .ok g)
    (hn : (nodeNames p).Nodup) (he : (edgeNames p).Nodup) :
    g.numNodes = p.numNodes ∧ g.idDtype = npName p.idDtype ∧ g.directed = p.directed ∧
    (∃ es, g.edges = es.map cast ∧ EdgesSpec p.directed p.numNodes p.numEdges es) ∧
    g.axes.map (·.name) = axisNames p ∧
    (∃ ax xn, g.nodeProps = ax ++ xn ++ (if p.vl then [("var_length", varLengthProp p.numNodes)] else [])
                                   ++ (if p.ms then [("sparse_prop", sparseProp p.numNodes)] else []) ∧
        List.Forall₂ (AxisProp p) (axisNames p) ax ∧
        List.Forall₂ (Requested p.numNodes) (itemsOf p.extraNode) xn) ∧
    (∃ xe, g.edgeProps = xe ++ (if p.ms then [("sparse_prop", sparseProp g.edges.length)] else []) ∧
        List.Forall₂ (Requested g.edges.length) (itemsOf p.extraEdge) xe) ∧
    Describes g.nodeMeta g.nodeProps ∧ Describes g.edgeMeta g.edgeProps := by
  obtain ⟨es, xn, xe, hgen, _, _, hxn, hxe, _, rfl⟩ := createDummy_ok h
  have hxn' := extraTriples_ok hxn
  have hxe' := extraTriples_ok hxe
  obtain ⟨es', hes', hspec⟩ := C20_edges p.directed p.numNodes p.numEdges
  have hes : es = es'.map cast := by rw [hes'] at hgen; cases hgen; rfl
  -- the pushed triples, and their names
  have hnames_n : (axisTriples p ++ xn ++ vlTriples p ++ msTriples p.ms p.numNodes).map (·.1) = nodeNames p := by
    simp only [List.map_append, axisTriples_names, forall₂_names hxn', nodeNames, vlTriples, msTriples]
    cases p.vl <;> cases p.ms <;> rfl
  have hnames_e : (xe ++ msTriples p.ms es.length).map (·.1) = edgeNames p := by
    simp only [List.map_append, forall₂_names hxe', edgeNames, msTriples]
    cases p.ms <;> rfl
  have hpn := pushAll_props_of_nodup {} (axisTriples p ++ xn ++ vlTriples p ++ msTriples p.ms p.numNodes)
    (by rw [hnames_n]; simpa [dictKeys] using hn)
  have hpe := pushAll_props_of_nodup {} (xe ++ msTriples p.ms es.length)
    (by rw [hnames_e]; simpa [dictKeys] using he)
  have hmn : metaDict (pushAll {} (axisTriples p ++ xn ++ vlTriples p ++ msTriples p.ms p.numNodes)).metas
      = (axisTriples p ++ xn ++ vlTriples p ++ msTriples p.ms p.numNodes).map tripleMeta := by
    rw [pushAll_metas]
    apply metaDict_of_nodup
    have : (fun x : String × MetaOut => x.1) ∘ tripleMeta = fun t : Triple => t.1 := rfl
    simp only [List.nil_append, List.map_map, this]
    rw [hnames_n]; exact hn
  have hme : metaDict (pushAll {} (xe ++ msTriples p.ms es.length)).metas
      = (xe ++ msTriples p.ms es.length).map tripleMeta := by
    rw [pushAll_metas]
    apply metaDict_of_nodup
    have : (fun x : String × MetaOut => x.1) ∘ tripleMeta = fun t : Triple => t.1 := rfl
    simp only [List.nil_append, List.map_map, this]
    rw [hnames_e]; exact he
  have hdesc_x : ∀ {len : Nat} {items : List (Option String × Req)} {ts : List Triple},
      List.Forall₂ (fun it t => stepOut len it = .ok t) items ts →
      ∀ t ∈ ts, DescribesOne (tripleMeta t) (tripleProp t) := by
    intro len items ts hf
    induction hf with
    | nil => intro t ht; cases ht
    | cons hs _ ih =>
      intro t ht
      rcases List.mem_cons.1 ht with rfl | ht
      · obtain ⟨_, _, h3, _, h5, h6, _⟩ := stepOut_ok hs
        exact ⟨rfl, by simp [tripleMeta, tripleProp, h3, h6], fun _ => h5⟩
      · exact ih t ht
  have hdesc_ax : ∀ t ∈ axisTriples p, DescribesOne (tripleMeta t) (tripleProp t) := by
    intro t ht
    have hone : ∀ name unit dtype values,
        DescribesOne (tripleMeta (axisTriple p.numNodes name unit dtype values))
          (tripleProp (axisTriple p.numNodes name unit dtype values)) := by
      intro name unit dtype values
      simp [DescribesOne, tripleMeta, tripleProp, axisTriple]
    simp only [axisTriples, List.mem_append] at ht
    rcases ht with ((ht | ht) | ht) | ht <;> split at ht <;> simp only [List.mem_singleton, List.not_mem_nil] at ht <;>
      subst ht <;> exact hone _ _ _ _
  refine ⟨rfl, rfl, rfl, ⟨es', hes, hspec⟩, ?_, ?_, ?_, ?_, ?_⟩
  · show (axisOuts p).map (·.name) = axisNames p
    unfold axisOuts axisNames
    cases p.t <;> cases p.z <;> cases p.y <;> cases p.x <;> rfl
  · refine ⟨(axisTriples p).map tripleProp, xn.map tripleProp, ?_, axisTriples_spec p, requested_of_stepOut hxn'⟩
    show (pushAll {} _).props = _
    rw [hpn]
    simp only [List.map_append, vlTriples, msTriples]
    cases p.vl <;> cases p.ms <;> simp [tripleProp, varLengthTriple, sparseTriple]
  · refine ⟨xe.map tripleProp, ?_, ?_⟩
    · show (pushAll {} _).props = _
      rw [hpe]
      simp only [List.map_append, msTriples, assemble]
      cases p.ms <;> simp [tripleProp, sparseTriple]
    · simpa [assemble] using requested_of_stepOut hxe'
  · show Describes (metaDict _) (pushAll {} _).props
    rw [hmn, hpn]
    apply describes_map
    intro t ht
    simp only [List.mem_append] at ht
    rcases ht with ((ht | ht) | ht) | ht
    · exact hdesc_ax t ht
    · exact hdesc_x hxn' t ht
    · unfold vlTriples at ht
      split at ht <;> simp only [List.mem_singleton, List.not_mem_nil] at ht
      subst ht; simp [DescribesOne, tripleMeta, tripleProp, varLengthTriple, varLengthProp]
    · unfold msTriples at ht
      split at ht <;> simp only [List.mem_singleton, List.not_mem_nil] at ht
      subst ht; simp [DescribesOne, tripleMeta, tripleProp, sparseTriple, sparseProp, sparseMeta]
  · show Describes (metaDict _) (pushAll {} _).props
    rw [hme, hpe]
    apply describes_map
    intro t ht
    simp only [List.mem_append] at ht
    rcases ht with ht | ht
    · exact hdesc_x hxe' t ht
    · unfold msTriples at ht
      split at ht <;> simp only [List.mem_singleton, List.not_mem_nil] at ht
      subst ht; simp [DescribesOne, tripleMeta, tripleProp, sparseTriple, sparseProp, sparseMeta]


/-! ### statements that need no assumption on the requested names -/

/-- **C20 (lengths)** — no assumption on names: every node property has one entry per node and every
edge property one entry per edge (what `write_arrays` and the structural validator require). -/
theorem C20_lengths (ok : Bool) (p : Params) (g : Geff) (h : createDummyInMemGeff ok p = .ok g) :
    (∀ kv ∈ g.nodeProps, kv.2.len = g.numNodes) ∧ (∀ kv ∈ g.edgeProps, kv.2.len = g.edges.length) := by
  obtain ⟨es, xn, xe, _, _, _, hxn, hxe, _, rfl⟩ := createDummy_ok h
  constructor
  · intro kv hkv
    rcases origin_node (extraTriples_ok hxn) hkv with h | ⟨_, rfl⟩ | ⟨_, rfl⟩
    · exact h.1
    · rfl
    · rfl
  · intro kv hkv
    rcases origin_edge (extraTriples_ok hxe) hkv with h | ⟨_, rfl⟩
    · exact h.1
    · rfl

/-- **C20 (var-length iff requested)** — no assumption on names. -/
theorem C20_varlength_iff (ok : Bool) (p : Params) (g : Geff) (h : createDummyInMemGeff ok p = .ok g) :
    (∃ kv ∈ g.nodeProps ++ g.edgeProps, kv.2.varlength = true) ↔ p.vl = true := by
  obtain ⟨es, xn, xe, _, _, _, hxn, hxe, _, rfl⟩ := createDummy_ok h
  constructor
  · rintro ⟨kv, hkv, hv⟩
    rcases List.mem_append.1 hkv with hkv | hkv
    · rcases origin_node (extraTriples_ok hxn) hkv with h | ⟨hvl, _⟩ | ⟨_, rfl⟩
      · rw [h.2.1] at hv; cases hv
      · exact hvl
      · cases hv
    · rcases origin_edge (extraTriples_ok hxe) hkv with h | ⟨_, rfl⟩
      · rw [h.2.1] at hv; cases hv
      · cases hv
  · intro hvl
    refine ⟨("var_length", varLengthProp p.numNodes), List.mem_append_left _ ?_, rfl⟩
    show _ ∈ (pushAll {} _).props
    rw [pushAll_append, pushAll_append]
    have h1 : ("var_length", varLengthProp p.numNodes) ∈ (pushAll (pushAll {} (axisTriples p ++ xn)) (vlTriples p)).props := by
      simp only [vlTriples, hvl, if_true, pushAll, List.foldl_cons, List.foldl_nil, Acc.push, varLengthTriple]
      exact self_mem_dictSet _ _ _
    unfold msTriples
    split
    · simp only [pushAll, List.foldl_cons, List.foldl_nil, Acc.push, sparseTriple]
      exact mem_dictSet_of_ne h1 (by show "var_length" ≠ "sparse_prop"; decide)
    · exact h1

/-- **C20 (sparse iff requested)** — no assumption on names: a property bears a missing mask only if
it is the var-length property (when requested) or the sparse property (when requested); and when
`include_missing` is set both the node side and the edge side carry `sparse_prop`, every other
entry missing, of node resp. edge length. -/
theorem C20_sparse_iff (ok : Bool) (p : Params) (g : Geff) (h : createDummyInMemGeff ok p = .ok g) :
    (∀ kv ∈ g.nodeProps, kv.2.missing ≠ none →
        (p.vl = true ∧ kv = ("var_length", varLengthProp p.numNodes)) ∨
        (p.ms = true ∧ kv = ("sparse_prop", sparseProp p.numNodes))) ∧
    (∀ kv ∈ g.edgeProps, kv.2.missing ≠ none → p.ms = true ∧ kv = ("sparse_prop", sparseProp g.edges.length)) ∧
    (p.ms = true → ("sparse_prop", sparseProp p.numNodes) ∈ g.nodeProps ∧
                   ("sparse_prop", sparseProp g.edges.length) ∈ g.edgeProps) := by
  obtain ⟨es, xn, xe, _, _, _, hxn, hxe, _, rfl⟩ := createDummy_ok h
  refine ⟨?_, ?_, ?_⟩
  · intro kv hkv hm
    rcases origin_node (extraTriples_ok hxn) hkv with h | h | h
    · exact absurd h.2.2 hm
    · exact Or.inl h
    · exact Or.inr h
  · intro kv hkv hm
    rcases origin_edge (extraTriples_ok hxe) hkv with h | h
    · exact absurd h.2.2 hm
    · exact h
  · intro hms
    constructor
    · show _ ∈ (pushAll {} _).props
      rw [pushAll_append]
      simp only [msTriples, hms, if_true, pushAll, List.foldl_cons, List.foldl_nil, Acc.push, sparseTriple]
      exact self_mem_dictSet _ _ _
    · show _ ∈ (pushAll {} _).props
      rw [pushAll_append]
      simp only [msTriples, hms, if_true, pushAll, List.foldl_cons, List.foldl_nil, Acc.push, sparseTriple, assemble]
      exact self_mem_dictSet _ _ _

/-! ### the forwarding helpers and the store -/

/-- `create_mock_geff` forwards all thirteen parameters: it succeeds exactly when the inner
generator succeeds, returns the inner generator's geff and writes the store from it. -/
theorem createMock_ok_iff (ok : Bool) (p : Params) (w : Written) (g : Geff) :
    createMockGeff ok p = .ok (w, g) ↔ createDummyInMemGeff ok p = .ok g ∧ w = ⟨g⟩ := by
  unfold createMockGeff
  show (match createDummyInMemGeff ok p with
        | .valueError => _ | .other e => _ | .ok g => _) = _ ↔ _
  cases hd : createDummyInMemGeff ok p with
  | valueError => simp
  | other e => simp
  | ok g' =>
    simp only [writeArrays, Outcome.ok.injEq, Prod.mk.injEq]
    constructor
    · rintro ⟨rfl, rfl⟩; exact ⟨rfl, rfl⟩
    · rintro ⟨rfl, rfl⟩; exact ⟨rfl, rfl⟩

/-- what has to hold of an in-memory geff for `write_arrays` / `read_to_memory` to round-trip it
(the hypotheses of C01) and for it to be graph-valid (C12): property lengths, unique names, node ids
`0..n-1` (unique by construction), endpoints among them, no self / repeated edge. -/
def WritePre (directed : Bool) (g : Geff) : Prop :=
  (∀ kv ∈ g.nodeProps, kv.2.len = g.numNodes) ∧ (∀ kv ∈ g.edgeProps, kv.2.len = g.edges.length) ∧
  (dictKeys g.nodeProps).Nodup ∧ (dictKeys g.edgeProps).Nodup ∧
  ∃ es : List (Nat × Nat), g.edges = es.map cast ∧
    (∀ e ∈ es, e.1 < g.numNodes ∧ e.2 < g.numNodes ∧ e.1 ≠ e.2) ∧ (es.map (key directed)).Nodup

/-- **C20 (store = in-memory geff)**.  Whatever `create_mock_geff` returns, the geff handed to
`write_arrays` *is* the returned in-memory geff, that geff is the one the inner generator builds for
the **same thirteen parameters**, and it satisfies the preconditions under which writing and reading
back is the identity (C01) and graph validation succeeds (C12). -/
theorem C20_store_eq_memory (ok : Bool) (p : Params) (w : Written) (g : Geff)
    (h : createMockGeff ok p = .ok (w, g)) :
    w.geff = g ∧ createDummyInMemGeff ok p = .ok g ∧ WritePre p.directed g := by
  obtain ⟨hd, hw⟩ := (createMock_ok_iff ok p w g).1 h
  refine ⟨by rw [hw], hd, ?_⟩
  obtain ⟨hl1, hl2⟩ := C20_lengths ok p g hd
  obtain ⟨es, xn, xe, hgen, _, _, _, _, _, rfl⟩ := createDummy_ok hd
  obtain ⟨es', hes', hspec⟩ := C20_edges p.directed p.numNodes p.numEdges
  have hes : es = es'.map cast := by rw [hes'] at hgen; cases hgen; rfl
  exact ⟨hl1, hl2, nodup_keys_pushAll _ _ List.nodup_nil, nodup_keys_pushAll _ _ List.nodup_nil,
    es', hes, hspec.2.1, hspec.2.2⟩

/-- … and `create_mock_geff` accepts exactly what the inner generator accepts. -/
theorem C20_mock_accepts (ok : Bool) (p : Params) (g : Geff) (h : createDummyInMemGeff ok p = .ok g) :
    createMockGeff ok p = .ok (⟨g⟩, g) :=
  (createMock_ok_iff ok p ⟨g⟩ g).2 ⟨h, rfl⟩

/-- what one well-formed `extra_*_props` argument is: `None` or a dict with string keys whose values
are supported dtype strings or arrays with one entry per node / edge -/
def ExtraOk (len : Nat) (x : Extra) : Prop :=
  x ≠ .notDict ∧ ∀ item ∈ itemsOf x, (∃ k, item.1 = some k) ∧
    ((∃ d, item.2 = .auto d ∧ d ∈ dtypeStrs) ∨ (∃ d tag, item.2 = .arr d len tag))

/-- **C20 (what is accepted)**: the generator accepts *every* parameter record whose extra-property
arguments are well-formed (array lengths = number of nodes resp. `min(requested, possible)` edges) —
for all dtypes names, flags, sizes — except, on a tree where defect D15 is unrepaired (`ok = false`),
a var-length property on an empty node set. -/
theorem C20_accepts (ok : Bool) (p : Params)
    (hn : ExtraOk p.numNodes p.extraNode)
    (he : ExtraOk (min p.numEdges (maxPossible p.directed p.numNodes)) p.extraEdge)
    (hok : ok = true ∨ p.numNodes ≠ 0 ∨ p.vl = false) :
    ∃ g, createDummyInMemGeff ok p = .ok g := by
  obtain ⟨es', hes', hspec⟩ := C20_edges p.directed p.numNodes p.numEdges
  obtain ⟨xn, hxn⟩ := extraTriples_total hn.2
  have hlen : (es'.map cast).length = min p.numEdges (maxPossible p.directed p.numNodes) := by
    rw [List.length_map]; exact hspec.1
  obtain ⟨xe, hxe⟩ := extraTriples_total he.2
  exact createDummy_accepts ok p _ xn xe hes' hn.1 he.1 hxn (by rw [hlen]; exact hxe) hok

/-- the excluded case is real (defect D15 of `create_props_metadata`, owned by C01; recorded as a
known finding until that repair lands): on an unrepaired tree `include_varlength` with
`num_nodes = 0` raises `IndexError`. -/
theorem C20_counterexample_empty_varlength :
    createDummyInMemGeff false { idDtype := "uint8", timeDtype := "float64", posDtype := "float64",
                                 directed := true, numNodes := 0, numEdges := 0, vl := true }
      = .other "IndexError" := by decide

/-- the four convenience wrappers are `create_mock_geff` on fixed parameter records -/
theorem C20_wrappers (ok : Bool) (n m : Nat) (d : Bool) :
    createSimple2dGeff ok n m d = createMockGeff ok (simpleParams n m d false true true) ∧
    createSimple3dGeff ok n m d = createMockGeff ok (simpleParams n m d true true true) ∧
    createSimpleTemporalGeff ok n m d = createMockGeff ok (simpleParams n m d false false false) ∧
    nodeNames (simpleParams n m d false true true) = ["t", "y", "x"] ∧
    nodeNames (simpleParams n m d true true true) = ["t", "z", "y", "x"] ∧
    nodeNames (simpleParams n m d false false false) = ["t"] ∧
    (∀ z y x, edgeNames (simpleParams n m d z y x) = ["score", "color"]) :=
  ⟨rfl, rfl, rfl, rfl, rfl, rfl, fun _ _ _ => rfl⟩

/-- `create_empty_geff`: no nodes, no edges, no axes, no properties — for either directedness -/
theorem C20_empty (ok d : Bool) :
    createEmptyGeff ok d =
      .ok (⟨{ numNodes := 0, idDtype := "uint64", edges := [], directed := d, axes := [],
              nodeProps := [], edgeProps := [], nodeMeta := [], edgeMeta := [] }⟩,
           { numNodes := 0, idDtype := "uint64", edges := [], directed := d, axes := [],
             nodeProps := [], edgeProps := [], nodeMeta := [], edgeMeta := [] }) := by
  cases ok <;> cases d <;> decide

/-! ### the forwarding, read off the source (translator T9b → `Gen.MockForward`) -/

/-- **C20 (forwarding, on the source text)**: `create_mock_geff` has the same parameters with the
same defaults as `create_dummy_in_mem_geff` and passes *every one of them* on under its own name —
the statement whose failure was the `include_missing` defect.  `decide` on the table regenerated
from the working tree. -/
theorem C20_forwarding_source :
    Gen.MockForward.translationOk = true ∧
    Gen.MockForward.mockParams = Gen.MockForward.innerParams ∧
    Gen.MockForward.mockDefaults = Gen.MockForward.innerDefaults ∧
    Gen.MockForward.mockCall = Gen.MockForward.innerParams.map (fun k => (k, k)) := by decide

def pyBool (b : Bool) : String := if b then "True" else "False"

/-- the keyword arguments a `create_simple_*` wrapper passes, as the model's `simpleParams` states
them (left: Python keyword / right: Python expression) -/
def simpleCall (z y x : Bool) : List (String × String) :=
  [("node_id_dtype", "'uint'"), ("node_axis_dtypes", "{'position': 'float64', 'time': 'float64'}"),
   ("directed", "directed"), ("num_nodes", "num_nodes"), ("num_edges", "num_edges"),
   ("extra_edge_props", "{'score': 'float64', 'color': 'int'}"),
   ("include_t", "True"), ("include_z", pyBool z), ("include_y", pyBool y), ("include_x", pyBool x)]

/-- the wrappers in the source are the parameter records of the model (`simpleParams`,
`createEmptyGeff`); everything not passed falls back to the defaults, which are the model's
(`Params` field defaults: 5, 4, none, none, true ×4, false ×2). -/
theorem C20_wrappers_source :
    Gen.MockForward.wrappers =
      [("create_simple_2d_geff", ["num_nodes", "num_edges", "directed"], simpleCall false true true),
       ("create_simple_3d_geff", ["num_nodes", "num_edges", "directed"], simpleCall true true true),
       ("create_simple_temporal_geff", ["num_nodes", "num_edges", "directed"], simpleCall false false false),
       ("create_empty_geff", ["directed"],
        [("node_id_dtype", "'uint'"), ("node_axis_dtypes", "{'position': 'float64', 'time': 'float64'}"),
         ("directed", "directed"), ("num_nodes", "0"), ("num_edges", "0"),
         ("include_t", "False"), ("include_z", "False"), ("include_y", "False"), ("include_x", "False")])] ∧
    Gen.MockForward.innerDefaults =
      [("num_nodes", "5"), ("num_edges", "4"), ("extra_node_props", "None"), ("extra_edge_props", "None"),
       ("include_t", "True"), ("include_z", "True"), ("include_y", "True"), ("include_x", "True"),
       ("include_varlength", "False"), ("include_missing", "False")] := by decide

/-- Non-vacuity of `C20_params` / `C20_store_eq_memory`: a record with every kind of request (axes
subset, generated and caller-supplied extra properties, var-length and sparse property, more edges
requested than possible) is accepted, with pairwise distinct names. -/
def demo : Params :=
  { idDtype := "uint8", timeDtype := "float32", posDtype := "double", directed := false,
    numNodes := 3, numEdges := 7, z := false, vl := true, ms := true,
    extraNode := .dict [(some "label", .auto "str"), (some "score", .arr "float64" 3 0)],
    extraEdge := .dict [(some "w", .auto "int8")] }

def isOk {α : Type} : Outcome α → Bool
  | .ok _ => true
  | _ => false

example : isOk (createMockGeff false demo) = true := by decide
example : (nodeNames demo).Nodup ∧ (edgeNames demo).Nodup := by decide

end GeffProps.C20
