import GeffProofs.MockEdges
/-! # C20 — mock-data generators honour their parameters and emit valid geffs

Property theorems only.  `Gen.MockEdges.gen` is the edge generator of
`geff.testing.data.create_dummy_in_mem_geff` **as translated from the working tree** by T9
(`harness/translators/t9_mock_edges.py`, regenerated on every run); `Geff.MockData.*`
(`GeffModel/MockData.lean`) is the hand-written model of the rest of the six public helpers, tied to
the code by the correspondence `harness/corr/C20.py`. -/
namespace GeffProps.C20
open Geff.MockEdges

/-- Specification of the edge list for `(directed, num_nodes = n, num_edges = m)` (property C20):
exactly `min(requested, possible)` edges, every endpoint an existing node, no self edge, no edge
repeated — as an unordered pair when the graph is undirected. -/
def EdgesSpec (directed : Bool) (n m : Nat) (es : List (Nat × Nat)) : Prop :=
  es.length = min m (maxPossible directed n) ∧
  (∀ e ∈ es, e.1 < n ∧ e.2 < n ∧ e.1 ≠ e.2) ∧
  (es.map (key directed)).Nodup

/-- the translator accepted the source (no construct outside its subset) -/
theorem C20_translation_ok : Gen.MockEdges.translationOk = true := rfl

/-- **C20 (edges)**, about the function generated from the source: for *every* directedness, node
count and requested edge count the generator terminates without an exception and returns a list of
natural-number pairs that satisfies the specification. -/
theorem C20_edges (directed : Bool) (n m : Nat) :
    ∃ es : List (Nat × Nat),
      Gen.MockEdges.gen directed (n : Int) (m : Int) = .ok (es.map cast) ∧ EdgesSpec directed n m es := by
  refine ⟨gen directed n m, ?_, length_gen directed n m, gen_valid directed n m, gen_nodup directed n m⟩
  unfold Gen.MockEdges.gen
  rw [genCore_eq]

/-- `possible` really is the number of admissible edges: *no* list satisfying the validity and
no-repeat clauses is longer — so `min(requested, possible)` is the right count and not an artefact
of the generator. -/
theorem C20_possible_is_max (directed : Bool) (n : Nat) (es : List (Nat × Nat))
    (hv : ∀ e ∈ es, e.1 < n ∧ e.2 < n ∧ e.1 ≠ e.2) (hn : (es.map (key directed)).Nodup) :
    es.length ≤ maxPossible directed n := by
  have hsub : es.map (key directed) ⊆ (all directed n).map (key directed) := by
    intro k hk
    obtain ⟨⟨a, b⟩, he, rfl⟩ := List.mem_map.1 hk
    have h := hv (a, b) he
    simp only at h
    cases directed with
    | true =>
      simp only [key, if_true, all, List.map_append, List.mem_append, List.mem_map]
      rcases Nat.lt_or_ge a b with hab | hab
      · exact Or.inl ⟨(a, b), mem_fwd.2 ⟨hab, h.2.1⟩, rfl⟩
      · exact Or.inr ⟨(a, b), ⟨(b, a), mem_fwd.2 ⟨by omega, h.1⟩, rfl⟩, rfl⟩
    | false =>
      simp only [key, Bool.false_eq_true, if_false, all, List.mem_map]
      rcases Nat.lt_or_ge a b with hab | hab
      · exact ⟨(a, b), mem_fwd.2 ⟨hab, h.2.1⟩, by simp [Nat.min_def, Nat.max_def]; omega⟩
      · exact ⟨(b, a), mem_fwd.2 ⟨by omega, h.1⟩, by simp [Nat.min_def, Nat.max_def]; omega⟩
  have := length_le_of_nodup_subset hn hsub
  simpa [length_all] using this

/-- the executable decider the harness evaluates on the implementation's observed edge list is the
specification -/
theorem edgesOk_iff (directed : Bool) (n m : Nat) (es : List (Nat × Nat)) :
    edgesOk directed n m es = true ↔ EdgesSpec directed n m es := by
  have hnd : ∀ l : List (Nat × Nat), nodupB l = true ↔ l.Nodup := by
    intro l
    induction l with
    | nil => simp [nodupB]
    | cons x t ih => simp [nodupB, ih]
  unfold edgesOk EdgesSpec
  simp only [Bool.and_eq_true, beq_iff_eq, List.all_eq_true, decide_eq_true_eq, hnd]
  constructor
  · rintro ⟨⟨h1, h2⟩, h3⟩
    exact ⟨h1, fun e he => by have := h2 e he; tauto, h3⟩
  · rintro ⟨h1, h2, h3⟩
    exact ⟨⟨h1, fun e he => by have := h2 e he; tauto⟩, h3⟩

/-- Non-vacuity / pinned witnesses.  The first is the input on which the unrepaired generator
returned `(0,1),(1,2),(0,1)` (defect D9): the specification rejects that list and accepts what the
generated function returns now. -/
example : edgesOk false 3 3 [(0, 1), (1, 2), (0, 1)] = false := by decide
example : Gen.MockEdges.gen false 3 3 = .ok [(0, 1), (1, 2), (0, 2)] := by decide
example : Gen.MockEdges.gen true 3 100 = .ok [(0, 1), (1, 2), (0, 2), (1, 0), (2, 1), (2, 0)] := by decide
example : EdgesSpec true 3 100 [(0, 1), (1, 2), (0, 2), (1, 0), (2, 1), (2, 0)] :=
  (edgesOk_iff _ _ _ _).1 (by decide)

end GeffProps.C20
