import GeffProofs.ValidateData
import GeffProofs.Tracklet
import GeffProps.C14
/-! # C12 — optional data validators accept exactly the valid data

Property theorems only.  Models: `Geff.Validate.*` (`GeffModel/ValidateData.lean`), tied to
`geff/validate/graph.py`, `shapes.py`, `data.py` by the correspondence `harness/corr/C12.py` and by
the translator T7 (`Gen.ValidateDispatch`, regenerated from `validate/data.py` on every run).
Integers are unbounded `Int` (numpy exactness per dtype is exercised by the correspondence).

PARTIAL (stated in the evidence too): the symmetric / positive-definite stage of
`validate_ellipsoid` (`np.allclose`, `np.linalg.eigvals`) is float linear algebra and has no Lean
model; the full statement
  "ellipsoid validation passes iff each unmasked matrix is square with side = number of space axes,
   symmetric and positive-definite"
is therefore only proved for its shape part (`C12_ellipsoid_shape_partial`); the rest is decided by
differential testing on matrices clearly inside / outside the set. -/
namespace GeffProps.C12
open Geff.Graph Geff.Validate

/-! ## graph validators: offenders exact -/

/-- `validate_unique_node_ids`: valid iff no id is repeated; the offenders are exactly the ids
occurring more than once, each once, in ascending order (this determines the array). -/
theorem C12_offenders_exact_unique (ids : List Int) :
    ((validateUniqueNodeIds ids).1 = true ↔ ids.Nodup) ∧
    (∀ x, x ∈ (validateUniqueNodeIds ids).2 ↔ 1 < ids.count x) ∧
    (validateUniqueNodeIds ids).2.Pairwise (· < ·) :=
  ⟨uniqueValid_iff ids, mem_uniqueOffenders ids, (sorted_npUnique ids).filter _⟩

/-- `validate_nodes_for_edges`: valid iff every endpoint is a node id; the offenders are exactly
the rows with a dangling endpoint, in row order, repeats kept. -/
theorem C12_offenders_exact_nodes_for_edges (ids : List Int) (edges : List (Int × Int)) :
    ((validateNodesForEdges ids edges).1 = true ↔ ∀ e ∈ edges, e.1 ∈ ids ∧ e.2 ∈ ids) ∧
    (validateNodesForEdges ids edges).2 = edges.filter (fun e => decide ¬ (e.1 ∈ ids ∧ e.2 ∈ ids)) := by
  refine ⟨nodesForEdgesValid_iff ids edges, ?_⟩
  unfold validateNodesForEdges
  simp only
  congr 1
  funext e
  by_cases h1 : e.1 ∈ ids <;> by_cases h2 : e.2 ∈ ids <;> simp [h1, h2]

/-- `validate_no_self_edges`: valid iff no row joins a node to itself; the offenders are exactly
the nodes with a self edge, each once, ascending. -/
theorem C12_offenders_exact_self (edges : List (Int × Int)) :
    ((validateNoSelfEdges edges).1 = true ↔ ∀ e ∈ edges, e.1 ≠ e.2) ∧
    (∀ x, x ∈ (validateNoSelfEdges edges).2 ↔ (x, x) ∈ edges) ∧
    (validateNoSelfEdges edges).2.Pairwise (· < ·) :=
  ⟨selfValid_iff edges, mem_selfOffenders edges, sorted_npUnique _⟩

/-- `validate_no_repeated_edges`: valid iff no row occurs twice; the offenders are exactly the
rows occurring more than once, each once, in lexicographic order. -/
theorem C12_offenders_exact_repeated (edges : List (Int × Int)) :
    ((validateNoRepeatedEdges edges).1 = true ↔ edges.Nodup) ∧
    (∀ e, e ∈ (validateNoRepeatedEdges edges).2 ↔ 1 < edges.count e) ∧
    (validateNoRepeatedEdges edges).2.Pairwise LexLt :=
  ⟨repeatedValid_iff edges, mem_repeatedOffenders edges, (sorted_npUniqueRows edges).filter _⟩

/-! ## graph validation as a whole -/

/-- two rows are the same edge: equal as ordered pairs, or — in an undirected graph — also when
one is the other reversed -/
def SameEdge (directed : Bool) (e f : Int × Int) : Prop := e = f ∨ (directed = false ∧ e = f.swap)
instance (directed : Bool) (e f : Int × Int) : Decidable (SameEdge directed e f) := by
  unfold SameEdge; infer_instance

/-- Specification of a valid graph (property C12). -/
def GraphValid (directed : Bool) (ids : List Int) (edges : List (Int × Int)) : Prop :=
  ids.Nodup ∧                                               -- node ids are unique
  (∀ e ∈ edges, e.1 ∈ ids ∧ e.2 ∈ ids) ∧                    -- every endpoint is a node id
  (∀ e ∈ edges, e.1 ≠ e.2) ∧                                -- no edge joins a node to itself
  edges.Pairwise (fun e f => ¬ SameEdge directed e f)       -- no edge is repeated

theorem graphStage_iff (directed : Bool) (ids : List Int) (edges : List (Int × Int)) :
    graphStage directed ids edges = .ok ↔ GraphValid directed ids edges := by
  have hrep : (validateNoRepeatedEdges (if directed then edges else edges.map sortPair)).1 = true ↔
      edges.Pairwise (fun e f => ¬ SameEdge directed e f) := by
    rw [repeatedValid_iff]
    cases directed with
    | true =>
      simp only [if_true, SameEdge, Bool.true_eq_false, false_and, or_false]
      rfl
    | false =>
      simp only [Bool.false_eq_true, if_false, SameEdge, true_and]
      exact nodup_map_sortPair edges
  have key : graphStage directed ids edges = .ok ↔
      (validateUniqueNodeIds ids).1 = true ∧ (validateNodesForEdges ids edges).1 = true ∧
      (validateNoSelfEdges edges).1 = true ∧
      (validateNoRepeatedEdges (if directed then edges else edges.map sortPair)).1 = true := by
    unfold graphStage
    cases (validateUniqueNodeIds ids).1 <;> cases (validateNodesForEdges ids edges).1 <;>
      cases (validateNoSelfEdges edges).1 <;>
      cases (validateNoRepeatedEdges (if directed then edges else edges.map sortPair)).1 <;> simp
  rw [key, uniqueValid_iff, nodesForEdgesValid_iff, selfValid_iff, hrep]
  rfl

/-- outcome of each graph call of `validate_data` (the call plus its `if not valid: raise`) -/
def graphResult (directed : Bool) (ids : List Int) (edges : List (Int × Int)) (other : Call → Outcome) :
    Call → Outcome
  | .uniqueNodeIds => if (validateUniqueNodeIds ids).1 then .ok else .valueError "Some node ids are not unique:"
  | .nodesForEdges => if (validateNodesForEdges ids edges).1 then .ok else .valueError "Some edges are missing nodes:"
  | .noSelfEdges => if (validateNoSelfEdges edges).1 then .ok else .valueError "Self edges found in data:"
  | .noRepeatedEdges =>
    if (validateNoRepeatedEdges (if directed then edges else edges.map sortPair)).1 then .ok
    else .valueError "Repeated edges found in data:"
  | c => other c

theorem validateData_graph_only (directed : Bool) (ids : List Int) (edges : List (Int × Int))
    (d : Decl) (other : Call → Outcome) :
    validateData { graph := true } d (graphResult directed ids edges other) =
      graphStage directed ids edges := by
  obtain ⟨s, e, tp⟩ := d
  have hc : called { graph := true } ⟨s, e, tp⟩ =
      [.uniqueNodeIds, .nodesForEdges, .noSelfEdges, .noRepeatedEdges] := by
    cases s <;> cases e <;> cases tp <;> rfl
  unfold validateData graphStage
  rw [hc]
  simp only [List.map_cons, List.map_nil, graphResult]
  cases (validateUniqueNodeIds ids).1 <;> cases (validateNodesForEdges ids edges).1 <;>
    cases (validateNoSelfEdges edges).1 <;>
    cases (validateNoRepeatedEdges (if directed then edges else edges.map sortPair)).1 <;> rfl

/-- **C12 (graph iff)**: with graph validation enabled (and nothing else), `validate_data` passes
iff node ids are unique, every edge endpoint is a node id, no edge joins a node to itself and no
edge is repeated — as an ordered pair in a directed graph, as an unordered pair in an undirected
one — for all id lists, edge lists, directedness, declarations in the metadata and whatever the
other (disabled) validators would do. -/
theorem C12_graph_iff (directed : Bool) (ids : List Int) (edges : List (Int × Int))
    (d : Decl) (other : Call → Outcome) :
    validateData { graph := true } d (graphResult directed ids edges other) = .ok ↔
      GraphValid directed ids edges := by
  rw [validateData_graph_only, graphStage_iff]

/-- the error raised names the first violated condition, in the order unique ids, endpoints,
self edges, repeated edges; no other outcome exists -/
theorem C12_graph_error_kind (directed : Bool) (ids : List Int) (edges : List (Int × Int)) :
    (graphStage directed ids edges = .valueError "Some node ids are not unique:" ↔ ¬ ids.Nodup) ∧
    (graphStage directed ids edges = .valueError "Some edges are missing nodes:" ↔
      ids.Nodup ∧ ¬ ∀ e ∈ edges, e.1 ∈ ids ∧ e.2 ∈ ids) ∧
    (∀ o, graphStage directed ids edges = o → o = .ok ∨ ∃ m, o = .valueError m) := by
  refine ⟨?_, ?_, ?_⟩
  · unfold graphStage
    rw [← uniqueValid_iff]
    cases (validateUniqueNodeIds ids).1
    · simp
    · simp only [Bool.not_true, Bool.false_eq_true, if_false, not_true_eq_false, iff_false]
      repeat' split
      all_goals simp
  · unfold graphStage
    rw [← uniqueValid_iff, ← nodesForEdgesValid_iff]
    cases (validateUniqueNodeIds ids).1
    · simp
    · cases (validateNodesForEdges ids edges).1
      · simp
      · simp only [Bool.not_true, Bool.false_eq_true, if_false, not_true_eq_false, and_false, iff_false]
        repeat' split
        all_goals simp
  · intro o h
    subst h
    unfold graphStage
    repeat' split
    all_goals simp

/-! ## sphere -/

/-- **C12 (sphere iff)**: considering only entries not flagged missing, sphere validation passes
iff the radii are 1-D and none of them is negative (`ndim` = rank of the values array, `flat` its
entries when 1-D; the mask, when present, has one flag per entry). -/
theorem C12_sphere_iff (ndim : Nat) (flat : List Num) (missing : Option (List Bool))
    (hlen : ∀ m, missing = some m → m.length = flat.length) :
    validateSphere ndim flat missing = .ok ↔
      ndim = 1 ∧ ∀ x, Unmasked flat missing x → x.ltZero = false := by
  obtain ⟨r, hr⟩ := applyMask_isSome flat missing hlen
  unfold validateSphere
  by_cases hn : ndim = 1
  · simp only [hn, ne_eq, not_true_eq_false, if_false, hr, true_and]
    constructor
    · intro h x hx
      split at h
      · cases h
      · rename_i hany
        have hx' := (mem_applyMask_iff flat missing r hr x).2 hx
        cases hlt : x.ltZero with
        | false => rfl
        | true => exact absurd (List.any_eq_true.2 ⟨x, hx', hlt⟩) hany
    · intro h
      rw [if_neg]
      intro hany
      obtain ⟨x, hx, hlt⟩ := List.any_eq_true.1 hany
      have := h x ((mem_applyMask_iff flat missing r hr x).1 hx)
      rw [this] at hlt; cases hlt
  · simp [hn]

/-- with a well-formed mask the only outcomes are success and the two documented `ValueError`s -/
theorem C12_sphere_outcomes (ndim : Nat) (flat : List Num) (missing : Option (List Bool))
    (hlen : ∀ m, missing = some m → m.length = flat.length) :
    validateSphere ndim flat missing = .ok ∨
    validateSphere ndim flat missing = .valueError "Sphere radius values must be 1D" ∨
    validateSphere ndim flat missing = .valueError "Sphere radius values must be non-negative." := by
  obtain ⟨r, hr⟩ := applyMask_isSome flat missing hlen
  unfold validateSphere
  rw [hr]
  by_cases hn : ndim = 1
  · simp only [hn, ne_eq, not_true_eq_false, if_false]
    split
    · right; right; rfl
    · left; rfl
  · simp [hn]

/-! ## ellipsoid, shape stage -/

/-- **C12 (ellipsoid shape), partial**: the stages of `validate_ellipsoid` before the float linear
algebra pass iff there is at least one space axis, the covariance array has rank 3 and both
matrix extents equal the number of space axes.
Full statement (not proved, no Lean model of `np.allclose` / `np.linalg.eigvals`):
`validateEllipsoid axes cov missing = ok ↔ shape as below ∧ ∀ unmasked matrix, symmetric ∧ positive-definite`. -/
theorem C12_ellipsoid_shape_partial (axes : Option (List String)) (shape : List Nat) :
    ellipsoidShapeStage axes shape = .ok ↔
      0 < spaceAxes axes ∧ ∃ n, shape = [n, spaceAxes axes, spaceAxes axes] := by
  unfold ellipsoidShapeStage
  generalize spaceAxes axes = d
  by_cases hd : d = 0
  · simp [hd]
  · simp only [hd, if_false]
    constructor
    · intro h
      split at h
      · rename_i n d1 d2
        split at h
        · cases h
        rename_i h1
        split at h
        · cases h
        rename_i h2
        simp only [ne_eq, Decidable.not_not] at h1 h2
        subst h1; subst h2
        exact ⟨by omega, n, rfl⟩
      · cases h
    · rintro ⟨_, n, rfl⟩
      simp

/-- the shape stage never fails with anything but a `ValueError` (e.g. no IndexError on rank < 3) -/
theorem C12_ellipsoid_shape_outcomes (axes : Option (List String)) (shape : List Nat) :
    ellipsoidShapeStage axes shape = .ok ∨ ∃ m, ellipsoidShapeStage axes shape = .valueError m := by
  unfold ellipsoidShapeStage
  repeat' split
  all_goals simp

/-- **C12 (ellipsoid, masks), partial**: with the two float tests taken as given per matrix
(`sym[i]`, `pd[i]` — no Lean model of `np.allclose` / `np.linalg.eigvals`), ellipsoid validation
passes iff the shape is (N, d, d) for d = number of space axes > 0 and every matrix *not flagged
missing* is symmetric and positive-definite.  What is missing for the full statement: a model of
the float tests themselves (differential evidence only). -/
theorem C12_ellipsoid_iff_modulo_float_partial (axes : Option (List String)) (shape : List Nat)
    (sym pd : List Bool) (missing : Option (List Bool))
    (hlen : ∀ m, missing = some m → m.length = (sym.zip pd).length) :
    validateEllipsoid axes shape sym pd missing = .ok ↔
      (0 < spaceAxes axes ∧ ∃ n, shape = [n, spaceAxes axes, spaceAxes axes]) ∧
      ∀ x, Unmasked (sym.zip pd) missing x → x.1 = true ∧ x.2 = true := by
  obtain ⟨r, hr⟩ := applyMask_isSome (sym.zip pd) missing hlen
  unfold validateEllipsoid
  rw [← C12_ellipsoid_shape_partial]
  cases hs : ellipsoidShapeStage axes shape with
  | ok =>
    simp only [hr, true_and]
    constructor
    · intro h x hx
      have hx' := (mem_applyMask_iff _ missing r hr x).2 hx
      split at h
      · cases h
      rename_i h1
      split at h
      · cases h
      rename_i h2
      simp only [Bool.not_eq_true', Bool.not_eq_false, List.all_eq_true] at h1 h2
      exact ⟨h1 x hx', h2 x hx'⟩
    · intro h
      have h1 : r.all (·.1) = true := List.all_eq_true.2 fun x hx =>
        (h x ((mem_applyMask_iff _ missing r hr x).1 hx)).1
      have h2 : r.all (·.2) = true := List.all_eq_true.2 fun x hx =>
        (h x ((mem_applyMask_iff _ missing r hr x).1 hx)).2
      simp [h1, h2]
  | valueError m => simp
  | other n => simp

/-! ## dispatch -/

/-- the config flag that governs a call -/
def flagOf : Call → Flag
  | .uniqueNodeIds | .nodesForEdges | .noSelfEdges | .noRepeatedEdges => .graph
  | .sphere => .sphere | .ellipsoid => .ellipsoid | .tracklets => .tracklet | .lineages => .lineage

/-- the property a call validates is declared in the metadata (graph validation needs none) -/
def declared (d : Decl) : Call → Bool
  | .uniqueNodeIds | .nodesForEdges | .noSelfEdges | .noRepeatedEdges => true
  | .sphere => d.sphere
  | .ellipsoid => d.ellipsoid
  | .tracklets => match d.trackProps with | some (t, _) => t | none => false
  | .lineages => match d.trackProps with | some (_, l) => l | none => false

/-- a call is evaluated iff its flag is on and its property is declared — for all 2^5 configs and
all declarations -/
theorem called_iff (c : Config) (d : Decl) (call : Call) :
    call ∈ called c d ↔ c.get (flagOf call) = true ∧ declared d call = true := by
  rw [mem_called]
  obtain ⟨ds, de, tp⟩ := d
  cases call <;>
    simp only [dispatchTable, List.mem_cons, Prod.mk.injEq, reduceCtorEq, false_and, true_and,
      List.not_mem_nil, or_false, false_or, exists_eq_left, List.all_cons, List.all_nil,
      Bool.and_true, Guard.holds, flagOf, declared, Bool.and_eq_true] <;>
    cases tp <;> simp [Option.isSome]

/-- **C12 (disabled never raises)**: for every config, every declaration and whatever each
validator would do on the data (`result`, errors included): a validator that is not enabled, or
whose property is not declared, is not evaluated; the outcome does not depend on it; and when
`validate_data` fails, the failure is the outcome of an enabled, declared validator. -/
theorem C12_disabled_never_raises (c : Config) (d : Decl) (result : Call → Outcome) :
    (∀ call, (c.get (flagOf call) = false ∨ declared d call = false) → call ∉ called c d) ∧
    (∀ result', (∀ call, c.get (flagOf call) = true → declared d call = true → result call = result' call) →
      validateData c d result = validateData c d result') ∧
    (validateData c d result ≠ .ok →
      ∃ call, c.get (flagOf call) = true ∧ declared d call = true ∧ result call = validateData c d result) := by
  refine ⟨?_, ?_, ?_⟩
  · intro call h hm
    have := (called_iff c d call).1 hm
    rcases h with h | h
    · rw [h] at this; exact absurd this.1 (by simp)
    · rw [h] at this; exact absurd this.2 (by simp)
  · intro r' h
    unfold validateData
    apply firstError_map_congr
    intro call hm
    obtain ⟨h1, h2⟩ := (called_iff c d call).1 hm
    exact h call h1 h2
  · intro hne
    unfold validateData at hne ⊢
    obtain ⟨call, hm, hr⟩ := List.mem_map.1 (firstError_mem _ hne)
    obtain ⟨h1, h2⟩ := (called_iff c d call).1 hm
    exact ⟨call, h1, h2, hr⟩

/-- `validate_data` passes iff every enabled, declared validator passes -/
theorem C12_passes_iff (c : Config) (d : Decl) (result : Call → Outcome) :
    validateData c d result = .ok ↔
      ∀ call, c.get (flagOf call) = true → declared d call = true → result call = .ok := by
  unfold validateData
  rw [firstError_ok_iff]
  simp only [List.mem_map, forall_exists_index, and_imp, forall_apply_eq_imp_iff₂]
  constructor
  · intro h call h1 h2; exact h call ((called_iff c d call).2 ⟨h1, h2⟩)
  · intro h call hm
    obtain ⟨h1, h2⟩ := (called_iff c d call).1 hm
    exact h call h1 h2

/-- with the default `ValidationConfig()` nothing is evaluated -/
theorem C12_default_config_calls_nothing (d : Decl) : called {} d = [] := by
  obtain ⟨s, e, tp⟩ := d
  cases s <;> cases e <;> cases tp <;> rfl

/-- **tie to the current source (T7)**: the fields and defaults of `ValidationConfig`, the guards
dominating every validator call of `validate_data` (in source order) and its unguarded statements,
as extracted from the working tree's `validate/data.py`, are the model's dispatch table. -/
theorem C12_dispatch_table_current :
    Gen.ValidateDispatch.translationOk = true ∧
    Gen.ValidateDispatch.configFields =
      [Flag.graph, .sphere, .ellipsoid, .lineage, .tracklet].map (fun f => (f.name, ({} : Config).get f)) ∧
    Gen.ValidateDispatch.calls = dispatchTable.map (fun p => (p.1.pyName, p.2.map Guard.toGen)) ∧
    Gen.ValidateDispatch.unguarded = ["meta = memory_geff['metadata']"] := by
  decide

/-- **tie to the current source (T7), repairs**: `validate_data` canonicalises the edge rows of an
undirected graph before the repeated-edge check, passes the missing mask to both shape validators
and takes tracklet / lineage ids through `_nodes_with_id`. -/
theorem C12_source_passes_directedness_and_masks :
    Gen.ValidateDispatch.canonicalisesUndirected = true ∧
    Gen.ValidateDispatch.idsThroughNodesWithId = true ∧
    Gen.ValidateDispatch.callArgs.lookup "validate_sphere" = some 2 ∧
    Gen.ValidateDispatch.callArgs.lookup "validate_ellipsoid" = some 3 := by
  decide

/-! ## lineage ids with a missing mask (repair D14; used by C14 / C16) -/

/-- `validate_data(lineage=True)` on a property with a `missing` mask: exactly the (node, id)
pairs at unflagged positions are validated (all edges kept), and — node ids being unique — the
verdict is the lineage specification of C14 for those pairs: ids agree exactly on weakly connected
components and no lineage is attached to a node without id. -/
theorem C12_lineage_ids_masked {α L : Type} [DecidableEq α] [DecidableEq L]
    (nodes : List α) (values : List L) (m : Option (List Bool)) (es : List (α × α))
    (nl : List (α × L)) (hsel : Geff.Tracklet.nodesWithId nodes values m = some nl) (hnd : nodes.Nodup) :
    (Geff.Lineage.validateLineages nl es = true ↔ GeffProps.C14.Spec nl es) ∧
    (∀ m', m = some m' → ∀ p, p ∈ nl ↔ (p, false) ∈ (nodes.zip values).zip m') :=
  ⟨GeffProps.C14.C14_iff nl es
      (Geff.Tracklet.uniq_of_nodup nl (Geff.Tracklet.nodesWithId_nodup nodes values m nl hsel hnd)),
   fun m' hm p => by subst hm; exact Geff.Tracklet.mem_nodesWithId nodes values m' nl hsel p⟩

/-! ## Non-vacuity and the pre-repair failing inputs (evaluations of the model) -/
example : GraphValid true [1, 2, 3] [(1, 2), (2, 1), (2, 3)] :=
  ⟨by decide, by decide, by decide, by decide⟩
-- D6a: (1,2),(2,1) in an undirected graph is a repeated edge
example : graphStage false [1, 2] [(1, 2), (2, 1)] = .valueError "Repeated edges found in data:" := by decide
example : graphStage true [1, 2] [(1, 2), (2, 1)] = .ok := by decide
example : (validateUniqueNodeIds [3, 1, 3, 2, 1]).2 = [1, 3] := by decide
example : (validateNoRepeatedEdges [(2, 1), (1, 2), (2, 1), (1, 2), (0, 5)]).2 = [(1, 2), (2, 1)] := by decide
example : (validateNoSelfEdges [(18446744073709551615, 18446744073709551615), (1, 2)]).2 =
    [18446744073709551615] := by decide
-- D6c: a negative fill value under the mask is ignored; -1.0 = 0xBFF0…, NaN and -0.0 are not negative
example : validateSphere 1 [.int (-1), .int 2] (some [true, false]) = .ok := by decide
example : validateSphere 1 [.f64 0xBFF0000000000000] none ≠ .ok := by decide
example : validateSphere 1 [.f64 0x8000000000000000, .f64 0xFFF8000000000000] none = .ok := by decide
-- D6b: (N,3,3) with three space axes passes the shape stage, (N,3,3) with two does not
example : ellipsoidShapeStage (some ["time", "space", "space", "space"]) [10, 3, 3] = .ok := by decide
example : ellipsoidShapeStage (some ["space", "space"]) [10, 3, 3] ≠ .ok := by decide
-- a non-symmetric, non-positive-definite matrix under the mask is ignored
example : validateEllipsoid (some ["space", "space"]) [2, 2, 2] [true, false] [true, false]
    (some [false, true]) = .ok := by decide
example : validateEllipsoid (some ["space", "space"]) [2, 2, 2] [true, false] [true, false] none ≠ .ok := by
  decide
-- D14: two unlabelled lone nodes next to a labelled pair: accepted (before the repair: "lineage 0" invalid)
example : (Geff.Tracklet.nodesWithId [(1:Nat), 2, 3, 4] [(7:Nat), 7, 0, 0] (some [false, false, true, true])).map
    (fun nl => Geff.Lineage.validateLineages nl [(1, 2)]) = some true := by decide
-- … but a lineage attached to an unlabelled node is rejected
example : (Geff.Tracklet.nodesWithId [(1:Nat), 2, 3] [(7:Nat), 7, 0] (some [false, false, true])).map
    (fun nl => Geff.Lineage.validateLineages nl [(1, 2), (2, 3)]) = some false := by decide
example : called { sphere := true, tracklet := true } ⟨true, false, some (true, false)⟩ =
    [.sphere, .tracklets] := by decide

end GeffProps.C12
