import GeffProofs.MetaUtilsGen
import GeffProps.C10
/-! # C10 on the metadata helpers as they are written now (translator T14)

`Gen/MetaUtils.lean` is regenerated on every run from `geff_spec/utils.py`: the six helpers
`axes_from_lists`, `update_metadata_axes`, `create_or_update_metadata`,
`add_or_update_props_metadata`, `create_props_metadata`, `compute_and_add_axis_min_max`, statement by
statement, as Lean `do`-blocks over the primitives of `GeffModel/PyDoMeta.lean`.  This file proves
that the generated functions ARE the hand-written model functions (`Geff.MetaW.*`) that every theorem
of `GeffProps/C10.lean` is about, and restates the C10 facts about derived metadata on the generated
functions directly.  An edit of the Python source that changes what a helper computes breaks a proof
obligation here (the check then searches for a failing input with its model-independent oracle).

Modelled, not verified (see `GeffModel/PyDoMeta.lean`): pydantic's constructors and validated
assignment are primitives; `copy.deepcopy` / `model_copy()` are the identity on immutable values
(aliasing is C18's subject); numpy's `min`/`max`/mask indexing are primitives over an abstract order.

Property theorems only; helper lemmas in `GeffProofs/MetaUtilsGen.lean`. -/
namespace GeffProps.C10Gen
open Geff.Np Geff.MetaW Geff.PyDoMeta GeffProofs.MetaUtilsGen
variable {κ : Type}

/-- the translator accepted every statement of the six functions -/
theorem translated : Gen.MetaUtils.translationOk = true := by decide

/-- what the primitives assume about assignment, re-read from the class bodies: a field of
`GeffMetadata` validates on assignment, a field of `Axis` / `PropMetadata` does not -/
theorem assignment_flags : Gen.MetaUtils.geffMetadataValidatesAssignment = true ∧
    Gen.MetaUtils.axisValidatesAssignment = false ∧ Gen.MetaUtils.propMetadataValidatesAssignment = false := by
  decide

section
variable [LT κ] [DecidableLT κ]

/-! ## the generated functions are the model -/

/-- **`axes_from_lists` as written = the model**, for all eight arguments (`None`, short, long lists,
invalid axis fields included) -/
theorem C10Gen_axes_from_lists_is_model (ls : AxisLists) (roiMin roiMax : Option (List (Option κ))) :
    Gen.MetaUtils.axesFromLists ls.names ls.units ls.types ls.scales ls.scaledUnits ls.offset roiMin roiMax
      = Geff.MetaW.axesFromLists ls roiMin roiMax :=
  axesFromLists_eq ls roiMin roiMax

/-- **`update_metadata_axes` as written = the model** -/
theorem C10Gen_update_metadata_axes_is_model (m : Meta κ) (names : List String) (ls : AxisLists)
    (hn : ls.names = some names) :
    Gen.MetaUtils.updateMetadataAxes m names ls.units ls.types ls.scales ls.scaledUnits ls.offset
      = Geff.MetaW.updateMetadataAxes m ls :=
  updateMetadataAxes_eq m names ls hn

/-- **`create_or_update_metadata` as written = the model**; the Python variable `metadata` is
`GeffMetadata | None`, so the generated function returns an optional: it is never `None` -/
theorem C10Gen_create_or_update_is_model (version : String) (md : Option (Meta κ)) (d : Bool)
    (axes : Option (List (Axis κ))) :
    Gen.MetaUtils.createOrUpdateMetadata version md d axes
      = (Geff.MetaW.createOrUpdateMetadata version md d axes).map some :=
  createOrUpdateMetadata_eq version md d axes
end

/-- **`add_or_update_props_metadata` as written = the model** for `c_type="node"` … -/
theorem C10Gen_add_or_update_node_is_model (m : Meta κ) (ps : List PropMeta) :
    Gen.MetaUtils.addOrUpdatePropsMetadata m ps "node" = .ok (Geff.MetaW.addOrUpdatePropsMetadata m ps true) :=
  addOrUpdatePropsMetadata_node m ps

/-- … for `c_type="edge"` … -/
theorem C10Gen_add_or_update_edge_is_model (m : Meta κ) (ps : List PropMeta) :
    Gen.MetaUtils.addOrUpdatePropsMetadata m ps "edge" = .ok (Geff.MetaW.addOrUpdatePropsMetadata m ps false) :=
  addOrUpdatePropsMetadata_edge m ps

/-- … and any other `c_type` is refused by `@validate_call` before anything is edited -/
theorem C10Gen_add_or_update_other (m : Meta κ) (ps : List PropMeta) (c : String) (h1 : c ≠ "node") (h2 : c ≠ "edge") :
    Gen.MetaUtils.addOrUpdatePropsMetadata m ps c = .error .valueError :=
  addOrUpdatePropsMetadata_other m ps c h1 h2

/-- **`create_props_metadata` as written = the model** (returned entry AND the property as it is left
in the caller's dict: float16 upcast in place), for every property (dense of any dtype, object arrays
of any elements, empty) -/
theorem C10Gen_create_props_metadata_is_model (id : String) (p : PropData κ) :
    Gen.MetaUtils.createPropsMetadata id p none none none = Geff.MetaW.createPropsMetadata id p :=
  createPropsMetadata_eq id p

section
variable [LT κ] [DecidableLT κ] [Min κ] [Max κ]

/-- **`compute_and_add_axis_min_max` as written = the model** wherever the model speaks (hypothesis:
the model's outcome is not "unmodelled", which it is exactly for an axis whose column is a non-empty
object array — numpy's reduction of an array of arrays is outside the model).
Full statement without the hypothesis is false only in the outcome CLASS of that case (the generated
code answers `IndexError` for a mask of the wrong length before it reaches the reduction). -/
theorem C10Gen_compute_min_max_is_model (m : Meta κ) (np : List (String × PropData κ))
    (hmod : Geff.MetaW.computeAndAddAxisMinMax m np ≠ .error unm) :
    Gen.MetaUtils.computeAndAddAxisMinMax m np = Geff.MetaW.computeAndAddAxisMinMax m np :=
  computeAndAddAxisMinMax_eq m np hmod
end

/-! ## the C10 facts, on the generated functions -/

section
variable [LT κ] [DecidableLT κ]

/-- **D17 on the code as written**: `axes_from_lists` succeeds only when each of the five `axis_*`
lists (`axis_offset` included) has exactly one entry per axis name, and then axis `j` carries entry
`j` of every list and of `roi_min` / `roi_max` -/
theorem C10Gen_axes_from_lists (ls : AxisLists) (roiMin roiMax : Option (List (Option κ))) (names : List String)
    (axes : List (Axis κ)) (hn : ls.names = some names)
    (h : Gen.MetaUtils.axesFromLists ls.names ls.units ls.types ls.scales ls.scaledUnits ls.offset roiMin roiMax = .ok axes) :
    axes.length = names.length ∧
    (∀ j n a, names[j]? = some n → axes[j]? = some a → FromLists ls roiMin roiMax j n a) ∧
    lenOk ls.units names.length = true ∧ lenOk ls.types names.length = true ∧
    lenOk ls.scales names.length = true ∧ lenOk ls.scaledUnits names.length = true ∧
    lenOk ls.offset names.length = true := by
  rw [C10Gen_axes_from_lists_is_model] at h
  exact GeffProps.C10.C10_axes_from_lists ls roiMin roiMax names axes hn h

/-- **`roi_min` / `roi_max` are NOT length-checked by the code**: a roi list shorter than the axis
names can never produce axes (the real code raises `IndexError`, so the write fails and nothing wrong
is stored); a longer one is truncated to the first entries (the only caller, `SgBackend.write`,
refuses a non-empty graph whose `ndims` differs from the number of axes right afterwards) -/
theorem C10Gen_roi_not_short (ls : AxisLists) (roi : List (Option κ)) (roiMax : Option (List (Option κ)))
    (names : List String) (axes : List (Axis κ)) (hn : ls.names = some names)
    (h : Gen.MetaUtils.axesFromLists ls.names ls.units ls.types ls.scales ls.scaledUnits ls.offset (some roi) roiMax = .ok axes) :
    names.length ≤ roi.length ∧ ∀ (j : Nat) (a : Axis κ), axes[j]? = some a → roi[j]? = some a.min := by
  obtain ⟨hlen, hj, -⟩ := C10Gen_axes_from_lists ls (some roi) roiMax names axes hn h
  have key : ∀ (j : Nat) (a : Axis κ), axes[j]? = some a → roi[j]? = some a.min := by
    intro j a ha
    have hlt : j < names.length := by
      have := (List.getElem?_eq_some_iff.1 ha).1; omega
    obtain ⟨-, -, -, -, -, -, hmin, -⟩ := hj j names[j] a (List.getElem?_eq_getElem hlt) ha
    simp only [pick] at hmin
    cases hr : roi[j]? with
    | none => simp [hr] at hmin
    | some v => simp only [hr, Except.ok.injEq] at hmin; rw [hmin]
  refine ⟨?_, key⟩
  cases hnl : names.length with
  | zero => omega
  | succ k =>
    have hk : k < axes.length := by omega
    have := key k axes[k] (List.getElem?_eq_getElem hk)
    have := (List.getElem?_eq_some_iff.1 this).1
    omega

/-- **directed flag, version and caller fields through `create_or_update_metadata` as written**: the
result is an object (never `None`) whose `directed` is the graph's, whose version is `GEFF_VERSION`,
whose property metadata / opaque fields are the caller's, and whose axes are the given ones (else the
caller's) -/
theorem C10Gen_create_or_update (version : String) (md : Option (Meta κ)) (d : Bool) (axes : Option (List (Axis κ)))
    (r : Option (Meta κ)) (h : Gen.MetaUtils.createOrUpdateMetadata version md d axes = .ok r) :
    ∃ m, r = some m ∧ m.geffVersion = version ∧ m.directed = d ∧ m.nodeProps = callerNodeProps md ∧
      m.edgeProps = callerEdgeProps md ∧ m.rest = callerRest md ∧ m.hintNames = callerHints md ∧
      m.axes = axes.or (md.bind (·.axes)) := by
  rw [C10Gen_create_or_update_is_model] at h
  cases hm : Geff.MetaW.createOrUpdateMetadata version md d axes with
  | error e => simp [hm, Except.map] at h
  | ok m =>
    simp only [hm, Except.map, Except.ok.injEq] at h
    exact ⟨m, h.symm, createOrUpdate_spec hm⟩
end

/-- **one entry per written property, dtype/varlength updated, caller's unit/name/description kept —
`add_or_update_props_metadata` as written** (`c_type="node"`; the edge side is symmetric): the keys
afterwards are the old keys plus the identifiers; an identifier that was present keeps its entry with
ONLY dtype and varlength replaced, a new one gets the given entry; every other key, the edge side and
every other field of the metadata are untouched -/
theorem C10Gen_add_or_update_node (m m' : Meta κ) (pms : List PropMeta)
    (hnd : (pms.map (·.identifier)).Nodup)
    (h : Gen.MetaUtils.addOrUpdatePropsMetadata m pms "node" = .ok m') :
    (∀ k, k ∈ keys m'.nodeProps ↔ k ∈ keys m.nodeProps ∨ k ∈ pms.map (·.identifier)) ∧
    (∀ p ∈ pms, lookup p.identifier m'.nodeProps =
      some (match lookup p.identifier m.nodeProps with
        | some q => { q with dtype := p.dtype, varlength := p.varlength }
        | none => p)) ∧
    (∀ k, k ∉ pms.map (·.identifier) → lookup k m'.nodeProps = lookup k m.nodeProps) ∧
    m'.edgeProps = m.edgeProps ∧ m'.axes = m.axes ∧ m'.directed = m.directed ∧
    m'.geffVersion = m.geffVersion ∧ m'.rest = m.rest ∧ m'.hintNames = m.hintNames := by
  rw [C10Gen_add_or_update_node_is_model] at h
  cases h
  refine ⟨fun k => addOrUpdateDict_keys _ _ k, fun p hp => ?_, fun k hk => addOrUpdateDict_frame _ _ k hk,
    rfl, rfl, rfl, rfl, rfl, rfl⟩
  have := addOrUpdateDict_hit m.nodeProps pms hnd p hp
  simp only [Geff.MetaW.addOrUpdatePropsMetadata, if_true]
  rw [this]
  cases lookup p.identifier m.nodeProps <;> rfl

/-- **dtype and var-length flag of a fresh entry — `create_props_metadata` as written**: the entry
carries the identifier, the name of the dtype that gets STORED (float16 upcast to float32; the element
dtype of an object array, int64 when it is empty), `varlength` iff the values are an object array;
and the caller's dict is left holding the upcast values -/
theorem C10Gen_create_props_metadata (id : String) (p p' : PropData κ) (pm : PropMeta)
    (h : Gen.MetaUtils.createPropsMetadata id p none none none = .ok (pm, p')) :
    p' = upcast p ∧ pm = entryOf id p' := by
  rw [C10Gen_create_props_metadata_is_model] at h
  exact createPropsMetadata_spec h

section
variable [LT κ] [DecidableLT κ] [Min κ] [Max κ] [LE κ] [Std.IsLinearOrder κ] [Std.LawfulOrderMin κ]
  [Std.LawfulOrderMax κ]

/-- **axis min/max = least/greatest non-missing value — `compute_and_add_axis_min_max` as written**:
on success every field of the metadata except the axes is untouched; every axis keeps name, type,
unit, scale, scaled unit and offset; an axis whose column is empty is unchanged; otherwise its min/max
are the least/greatest of the values NOT flagged missing (and at least one exists: an all-missing
column makes numpy raise, the call fails) -/
theorem C10Gen_compute_min_max (m m' : Meta κ) (np : List (String × PropData κ))
    (h : Gen.MetaUtils.computeAndAddAxisMinMax m np = .ok m') (axes : List (Axis κ)) (hax : m.axes = some axes)
    (hmod : Geff.MetaW.computeAndAddAxisMinMax m np ≠ .error unm) :
    ∃ axes', m' = { m with axes := some axes' } ∧ axes'.map strip = axes.map strip ∧
      ∀ a' ∈ axes', ∃ a ∈ axes, ∃ p, lookup a.name np = some p ∧ (p.values.len = 0 → a' = a) ∧
        (p.values.len ≠ 0 → ∃ dt tr rows vals lo hi, p.values = .dense dt tr rows ∧
          keptValues rows p.missing = .ok vals ∧ a'.min = some lo ∧ a'.max = some hi ∧
          GeffProps.C10.IsMin lo vals ∧ GeffProps.C10.IsMax hi vals) := by
  rw [C10Gen_compute_min_max_is_model m np hmod] at h
  rcases computeMinMax_spec h with ⟨hn, -⟩ | ⟨axes0, axes', h0, hm, rfl⟩
  · rw [hax] at hn; cases hn
  · rw [hax] at h0; cases h0
    refine ⟨axes', rfl, ?_, ?_⟩
    · exact mapM_map_congr strip strip hm (fun a a' ha => (axisMinMax_spec ha).1)
    · intro a' ha'
      obtain ⟨a, ha, haa⟩ := mapM_mem hm a' ha'
      obtain ⟨-, p, hl, h0, hpos⟩ := axisMinMax_spec haa
      refine ⟨a, ha, p, hl, h0, fun hne => ?_⟩
      obtain ⟨dt, tr, rows, vals, lo, hi, hv, hk, hlo, hhi, hmin, hmax⟩ := hpos hne
      exact ⟨dt, tr, rows, vals, lo, hi, hv, hk, hmin, hmax, List.min?_eq_some_iff.1 hlo, List.max?_eq_some_iff.1 hhi⟩
end

/-! ## the constructor primitive enforces the C07 axis invariants -/

section
variable [LT κ] [DecidableLT κ]
/-- an `Axis` that the constructor primitive accepts satisfies the four clauses of C07's
`Axis.ValidBy` (type is an axis type; min and max both or neither; not `max < min`; a non-empty scaled
unit comes with a scale) -/
theorem C10Gen_newAxis_valid (name : String) (type unit : Option String) (min max : Option κ)
    (scale scaledUnit offset : Option String) (a : Axis κ)
    (h : newAxis name type unit min max scale scaledUnit offset = .ok a) :
    (∀ t ∈ a.type, t ∈ Gen.ValidValues.axisTypes) ∧ (a.min.isSome = a.max.isSome) ∧
    (∀ lo ∈ a.min, ∀ hi ∈ a.max, ¬ hi < lo) ∧ (∀ u ∈ a.scaledUnit, u ≠ "" → a.scale.isSome = true) := by
  unfold newAxis at h
  split at h
  · rename_i hv
    cases h
    simp only [axisValid, Bool.and_eq_true] at hv
    obtain ⟨⟨h1, h2⟩, h3⟩ := hv
    refine ⟨?_, ?_, ?_, ?_⟩
    · intro t ht; cases type <;> simp_all
    · cases min <;> cases max <;> simp_all
    · intro lo hlo hi hhi; cases min <;> cases max <;> simp_all
    · intro u hu hne; cases scaledUnit <;> simp_all
  · cases h
end

/-! ## non-vacuity: the generated functions run -/

/-- the exception of an outcome (for `decide`-checked examples) -/
def errOf {α : Type} : Res α → Option Err
  | .error e => some e
  | .ok _ => none

def exLists : AxisLists :=
  { names := some ["y", "x"], units := some [some "um", none], types := none, scales := none, scaledUnits := none,
    offset := some [some "1.0", some "2.0"] }

def exAxes : Option (List (Axis Int)) :=
  (Gen.MetaUtils.axesFromLists exLists.names exLists.units exLists.types exLists.scales
    exLists.scaledUnits exLists.offset (some [some 0, some 1, some 9]) (some [some 5, some 6, some 9])).toOption
example : exAxes.map (·.map (fun a => (a.name, a.unit, a.offset))) =
    some [("y", some "um", some "1.0"), ("x", none, some "2.0")] := by decide
/-- a roi list LONGER than the axis names is truncated -/
example : exAxes.map (·.map (fun a => (a.min, a.max))) = some [(some 0, some 5), (some 1, some 6)] := by decide
-- D17: a long and a short `axis_offset` are both refused with ValueError
example : errOf (Gen.MetaUtils.axesFromLists (κ := Int) (some ["y", "x"]) none none none none (some [some "1.0"]) none none)
    = some .valueError := by decide
example : errOf (Gen.MetaUtils.axesFromLists (κ := Int) (some ["y"]) none none none none (some [none, none]) none none)
    = some .valueError := by decide
-- a short roi list: IndexError (the write fails)
example : errOf (Gen.MetaUtils.axesFromLists (κ := Int) (some ["y", "x"]) none none none none none (some [some 1]) (some [some 2]))
    = some (.other "IndexError") := by decide
example : (Gen.MetaUtils.createOrUpdateMetadata "1.3" (some GeffProps.C10.exMd) false none).toOption.map
    (·.map (fun m => (m.directed, m.geffVersion))) = some (some (false, "1.3")) := by decide
example : (Gen.MetaUtils.addOrUpdatePropsMetadata GeffProps.C10.exMd
    [{ identifier := "x", dtype := "float64", varlength := false, unit := none, name := none, description := none },
     { identifier := "v", dtype := "int64", varlength := true, unit := none, name := none, description := none }]
    "node").toOption.map (fun m => m.nodeProps.map (fun q => (q.1, q.2.dtype, q.2.varlength, q.2.unit)))
    = some [("x", "float64", false, some "um"), ("v", "int64", true, none)] := by decide
example : (Gen.MetaUtils.createPropsMetadata (κ := Int) "h" ⟨.dense .f16 [] [[1], [2]], none⟩ none none none).toOption.map
    (fun r => (r.1.dtype, r.1.varlength, r.2.values)) = some ("float32", false, .dense .f32 [] [[1], [2]]) := by decide
example : errOf (Gen.MetaUtils.createPropsMetadata (κ := Int) "v" ⟨.object [(.i64, 1), (.f64, 1)], none⟩ none none none)
    = some .valueError := by decide
def exCols : List (String × PropData Int) :=
  [("x", { values := .dense .f64 [] [[3], [-1], [7]], missing := some [false, false, true] })]
/-- the stale range 100..200 is replaced by the range of the NON-missing values -/
example : (Gen.MetaUtils.computeAndAddAxisMinMax GeffProps.C10.exMd exCols).toOption.bind (fun m => m.axes.map
    (·.map (fun a => (a.min, a.max)))) = some [(some (-1), some 3)] := by decide
example : Geff.MetaW.computeAndAddAxisMinMax GeffProps.C10.exMd exCols ≠ .error unm := by
  intro h
  have := congrArg errOf h
  revert this
  decide
/-- every entry missing: numpy raises ValueError, the call (and the write) fails -/
example : errOf (Gen.MetaUtils.computeAndAddAxisMinMax GeffProps.C10.exMd
    [("x", { values := .dense .f64 [] [[3], [-1]], missing := some [true, true] })]) = some .valueError := by decide

end GeffProps.C10Gen
