import GeffProps.C05
import GeffProofs.LinkStructKV
/-! # C05 ← C04: every "not recognised" crash state is a state C04's validator rejects

The C05 theorems conclude `recognised f kv = false ∨ new ∨ old`, with `recognised` (`GeffModel/KV.lean`)
documented as *necessary for `validate_structure` / `read_to_memory` to accept a store* — a Bool written
independently of C04.  `Geff.LinkStruct.recognised_of_validate` (`GeffProofs/LinkStructKV.lean`) proves
that sentence about C04's validator model on the tree view `toTargetKV I f kv` of the key-value state, for
**every** interpretation `I` of the opaque documents (which document describes a group / an array of which
dtype and shape; what the `geff` attribute parses to).  So in each C05 theorem the first disjunct can be
read as: `validate_structure` raises `ValueError` on that state (`C04_sound_complete` + `C04_error_class`),
hence so does `read_to_memory` / `GeffReader(validate=True)` (`C04_reader_outcome`). -/
namespace GeffProps.C05Links
open Geff.KV Geff.KV.Prog Gen.Paths Geff.LinkStruct

/-- **`recognised` is necessary for acceptance by C04's validator** (for every reading of the documents) -/
theorem C05_recognised_necessary_for_validator (I : Interp) (f : Fmt) (kv : KV)
    (h : Geff.Structure.validateStructure (toTargetKV I f kv) = .ok ()) : recognised f kv = true :=
  recognised_of_validate I f kv h

/-- … so a state that is not recognised is rejected — with `ValueError` — by the validator, and by the
reader's constructor with validation on (C04's second observation point) -/
theorem C05_unrecognised_rejected (I : Interp) (f : Fmt) (kv : KV) (h : recognised f kv = false) :
    Geff.Structure.validateStructure (toTargetKV I f kv) = .error .valueError ∧
    Geff.Structure.readerInit true (toTargetKV I f kv) = .error .valueError := by
  have hv := rejected_of_not_recognised I f kv h
  exact ⟨hv, (GeffProps.C04.C04_reader_outcome _).1 _ hv⟩

/-- **C05, crash points of `write_arrays`, against C04's validator** — `C05_every_crash_point` with its
first disjunct discharged: for every admissible start store, graph, flag setting, **every** `k` and every
interpretation of the documents, after a storage failure at mutation `k` the store is **rejected by
`validate_structure` (`ValueError`)**, or is exactly the committed new store, or — only when overwriting, or
when the write was refused without touching anything — exactly the previous store. -/
theorem C05_every_crash_point_rejected_by_validator (I : Interp) (d : Docs) (kind : Kind) (f : Fmt) (g : G)
    (overwrite validate : Bool) (kv₀ : KV) (hpre : PreOK kind f overwrite kv₀) (k : Nat) :
    let ops := (writeArrays d kind f g overwrite validate kv₀).ops
    let kv := run kv₀ (ops.take k)
    let w := writeCommitted d kind f g overwrite kv₀
    Geff.Structure.validateStructure (toTargetKV I f kv) = .error .valueError ∨
      (w.val = .ok () ∧ kv = run kv₀ w.ops) ∨ ((overwrite = true ∨ ops = []) ∧ kv = kv₀) := by
  intro ops kv w
  rcases GeffProps.C05.C05_every_crash_point d kind f g overwrite validate kv₀ hpre k with h | h | h
  · exact Or.inl (rejected_of_not_recognised I f _ h)
  · exact Or.inr (Or.inl h)
  · exact Or.inr (Or.inr h)

/-- the same for failures inside a concurrent batch (`C05_every_failure_state`) -/
theorem C05_every_failure_state_rejected_by_validator (I : Interp) (d : Docs) (kind : Kind) (f : Fmt) (g : G)
    (overwrite validate : Bool) (kv₀ : KV) (hpre : PreOK kind f overwrite kv₀) (T : List Op)
    (hT : CrashSeq (phases d kind f g overwrite validate kv₀) T) :
    let P := phases d kind f g overwrite validate kv₀
    Geff.Structure.validateStructure (toTargetKV I f (run kv₀ T)) = .error .valueError ∨
      (P.committed = true ∧ geffView f (run kv₀ T) = geffView f (run kv₀ (P.D ++ P.W ++ P.C))) ∨
      run kv₀ T = kv₀ := by
  intro P
  rcases GeffProps.C05.C05_every_failure_state d kind f g overwrite validate kv₀ hpre T hT with h | h | h
  · exact Or.inl (rejected_of_not_recognised I f _ h)
  · exact Or.inr (Or.inl h)
  · exact Or.inr (Or.inr h)

/-- … for `write_dicts` … -/
theorem C05_every_crash_point_write_dicts_rejected_by_validator (I : Interp) (d : Docs) (kind : Kind) (f : Fmt)
    (g : G) (validate : Bool) (kv₀ : KV) (hpre : PreOK kind f false kv₀) (k : Nat) :
    let ops := (writeDicts d kind f g validate kv₀).ops
    let kv := run kv₀ (ops.take k)
    let w := writeCommitted d kind f g false kv₀
    Geff.Structure.validateStructure (toTargetKV I f kv) = .error .valueError ∨
      (w.val = .ok () ∧ kv = run kv₀ w.ops) ∨ (ops = [] ∧ kv = kv₀) := by
  intro ops kv w
  rcases GeffProps.C05.C05_every_crash_point_write_dicts d kind f g validate kv₀ hpre k with h | h | h
  · exact Or.inl (rejected_of_not_recognised I f _ h)
  · exact Or.inr (Or.inl h)
  · exact Or.inr (Or.inr h)

/-- … and for `geff.write` (every backend) and the converters, crash points and batch failures -/
theorem C05_every_crash_point_api_rejected_by_validator (I : Interp) (d : Docs) (kind : Kind) (f : Fmt) (g : G)
    (overwrite validate : Bool) (kv₀ : KV) (hpre : PreOK kind f overwrite kv₀) (k : Nat) :
    let ops := (apiWrite d kind f g overwrite validate kv₀).ops
    let kv := run kv₀ (ops.take k)
    let w := apiCommitted d kind f g overwrite kv₀
    Geff.Structure.validateStructure (toTargetKV I f kv) = .error .valueError ∨
      (w.val = .ok () ∧ kv = run kv₀ w.ops) ∨ kv = kv₀ := by
  intro ops kv w
  rcases GeffProps.C05.C05_every_crash_point_api d kind f g overwrite validate kv₀ hpre k with h | h | h
  · exact Or.inl (rejected_of_not_recognised I f _ h)
  · exact Or.inr (Or.inl h)
  · exact Or.inr (Or.inr h)

theorem C05_every_failure_state_api_rejected_by_validator (I : Interp) (d : Docs) (kind : Kind) (f : Fmt) (g : G)
    (overwrite validate : Bool) (kv₀ : KV) (hpre : PreOK kind f overwrite kv₀) (T : List Op)
    (hT : CrashSeq (apiPhases d kind f g overwrite validate kv₀) T) :
    let P := apiPhases d kind f g overwrite validate kv₀
    Geff.Structure.validateStructure (toTargetKV I f (run kv₀ T)) = .error .valueError ∨
      (P.committed = true ∧ geffView f (run kv₀ T) = geffView f (run kv₀ (P.D ++ P.W ++ P.C))) ∨
      run kv₀ T = kv₀ := by
  intro P
  rcases GeffProps.C05.C05_every_failure_state_api d kind f g overwrite validate kv₀ hpre T hT with h | h | h
  · exact Or.inl (rejected_of_not_recognised I f _ h)
  · exact Or.inr (Or.inl h)
  · exact Or.inr (Or.inr h)

/-- after the clean-up of a write whose validation failed (`C05_cleanup`) the store is rejected by the
validator too: the `geff` attribute is gone -/
theorem C05_cleanup_leaves_rejected_store (I : Interp) (d : Docs) (kind : Kind) (f : Fmt) (g : G) (overwrite : Bool)
    (kv₀ : KV) (hstart : CleanS f kv₀ ∨ (overwrite = true ∧ HoldsGeff f kv₀))
    (hvis : kind = .path → ForeignVisible f kv₀)
    (hcommit : (writeCommitted d kind f g overwrite kv₀).val = .ok ()) (hinv : g.valid = false) :
    Geff.Structure.validateStructure
      (toTargetKV I f (run kv₀ (writeArrays d kind f g overwrite true kv₀).ops)) = .error .valueError := by
  obtain ⟨_, _, hattr, _⟩ := GeffProps.C05.C05_cleanup d kind f g overwrite kv₀ hstart hvis hcommit hinv
  apply rejected_of_not_recognised
  unfold recognised
  rw [hattr]; rfl

/-! ## non-vacuity: the abstraction on the concrete stores of `GeffProps/C05.lean` -/

section Examples

/-- under the interpretation `Geff.LinkStruct.exInterp` of the example documents, the committed store of the
example is a tree C04's validator accepts (so the implication
`recognised_of_validate` is not vacuous) … -/
example : Geff.Structure.validateStructure (toTargetKV exInterp .v2 GeffProps.C05.exOld) = .ok () := by decide +kernel
example : recognised .v2 GeffProps.C05.exOld = true := by decide +kernel
/-- … its tree really has the members the store holds, the foreign array included … -/
example : (match toTargetKV exInterp .v2 GeffProps.C05.exOld with
    | .store (some (.group g)) _ => Geff.Structure.keys g
    | _ => []) = ["raw", "nodes", "edges"] := by decide +kernel
/-- … and the crash state after three mutations of the overwriting write (delete phase) is rejected -/
example : Geff.Structure.validateStructure (toTargetKV exInterp .v2
    (run GeffProps.C05.exOld ((writeArrays GeffProps.C05.exDocs .mem .v2 (GeffProps.C05.exG "B" true) true true
      GeffProps.C05.exOld).ops.take 3))) = .error .valueError := by decide +kernel

end Examples

end GeffProps.C05Links
