import GeffProofs.ArrHeap
import Gen.WriteSideArrayOps
/-! # C18, write side, arrays — "writing never alters the contents of the caller's id arrays or property arrays"

Property theorems only.  Model: `Geff.ArrHeap` (`GeffModel/ArrHeap.lean`) — numpy array objects
(*cells*: identity, header, the buffer they read and write) and buffers; what exists when a
write-side function is entered is the caller's.  `Gen.WriteSideArrayOps.fns` is regenerated from the
AST of every write-side function by translator T11 on every run: per function a program over versions
of local names in the vocabulary `fresh / derive / write / setHdr`, plus the list of constructs the
translator could not classify.

* Layer A (`C18_heap_frame`, `C18_fresh_iff_not_view_derived`, `C18_write_through_view_changes`):
  over **arbitrary sequences** of `alloc / view / writeInto / setHdr` on a heap: if every write goes
  through a cell whose buffer the program allocated itself — equivalently, a cell that is not derived
  from an entry cell through views — and every header assignment to a cell created by the program,
  every buffer and every cell that existed at entry is what it was; conversely a write through a view
  of a caller's cell changes the caller's buffer.
* Layer B (`C18_prog_frame`): **every execution** of a program that passes the static check
  `Prog.safe` — any number of events in any order, each an instance of an operation of the program,
  a `derive` binding being allowed to produce *any* existing object or a view of any existing object —
  leaves every entry buffer and every entry cell unchanged.
* The obligation on the generated term (`write_side_ops_safe`, by `decide`): nothing unclassified,
  every extracted program is `Prog.safe`.
* `C18_write_pure_arrays`: the three together, for every write-side function that was extracted.

Trusted (harness-checked on every run, see `harness/corr/C18.py`): the translator's extraction
(AST → operations, reaching definitions, kinds from annotations) and its allow-list of library calls
assumed not to modify their array arguments (each one used by the source is exercised on snapshots),
the classification alloc/view of the numpy vocabulary (compared with `np.shares_memory`), and that
numpy itself behaves like `step` (random operation sequences on real arrays against the driver). -/
namespace GeffProps.C18Arrays
open Geff.ArrHeap Gen.WriteSideArrayOps

/-! ## Obligations on the regenerated programs (T11) -/

/-- the translator understood every write-side unit -/
theorem write_side_translated : Gen.WriteSideArrayOps.translationOk = true := by decide

/-- nothing was left unclassified, and in every extracted program every in-place write and every
header assignment goes through a variable that can only hold an array the function allocated
itself (never a parameter, never anything obtained from another value) -/
theorem write_side_ops_safe : ∀ f ∈ fns, f.unclassified = [] ∧ f.prog.safe = true := by decide

/-- the list contains the entry points the property names … -/
theorem write_side_units_present :
    (∃ f ∈ fns, f.name = "packages/geff/src/geff/core_io/_base_write.py:write_arrays") ∧
    (∃ f ∈ fns, f.name = "packages/geff/src/geff/core_io/_base_write.py:write_id_arrays") ∧
    (∃ f ∈ fns, f.name = "packages/geff/src/geff/core_io/_base_write.py:write_props_arrays") ∧
    (∃ f ∈ fns, f.name = "packages/geff/src/geff/core_io/_base_write.py:write_dicts") ∧
    (∃ f ∈ fns, f.name = "packages/geff/src/geff/core_io/_base_write.py:dict_props_to_arr") ∧
    (∃ f ∈ fns, f.name = "packages/geff/src/geff/core_io/_utils.py:construct_var_len_props") ∧
    (∃ f ∈ fns, f.name = "packages/geff/src/geff/core_io/_serialization.py:serialize_vlen_property_data") ∧
    (∃ f ∈ fns, f.name = "packages/geff-spec/src/geff_spec/utils.py:create_props_metadata") ∧
    (∃ f ∈ fns, f.name = "packages/geff-spec/src/geff_spec/utils.py:compute_and_add_axis_min_max") ∧
    (∃ f ∈ fns, f.name = "packages/geff/src/geff/_graph_libs/_networkx.py:NxBackend.write") ∧
    (∃ f ∈ fns, f.name = "packages/geff/src/geff/_graph_libs/_rustworkx.py:RxBackend.write") ∧
    (∃ f ∈ fns, f.name = "packages/geff/src/geff/_graph_libs/_spatial_graph.py:SgBackend.write") ∧
    (∃ f ∈ fns, f.name = "packages/geff/src/geff/_graph_libs/_api_wrapper.py:write") := by decide

/-- … and the obligation is not vacuous: the extracted programs do contain in-place writes (into the
arrays `construct_var_len_props` builds) and fresh allocations -/
theorem write_side_has_writes :
    (fns.any fun f => f.prog.ops.any fun | .write _ => true | _ => false) = true ∧
    (fns.any fun f => f.prog.ops.any fun | .fresh _ => true | _ => false) = true := by decide

/-! ## Layer A: arbitrary operation sequences on the heap -/

/-- **frame theorem**: any sequence of operations whose writes go through cells on buffers allocated
after entry, and whose header assignments go to cells created after entry, leaves every buffer and
every cell that existed at entry unchanged -/
theorem C18_heap_frame (h : Heap) (ops : List Op)
    (hs : safeRun h.bufs.length h.cells.length h ops = true) :
    (∀ b, b < h.bufs.length → (run h ops).bufs[b]? = h.bufs[b]?) ∧
    (∀ c, c < h.cells.length → (run h ops).cells[c]? = h.cells[c]?) :=
  let k := run_keeps _ _ ops h (Nat.le_refl _) (Nat.le_refl _) hs
  ⟨k.bufs, k.cells⟩

/-- "its buffer was allocated by the program" is the same as "it is not derived from a cell that
existed at entry through views": along every run from a well-formed heap, with the ghost list that
marks entry cells, views of marked cells, views of those …, a cell is marked iff its buffer is an
entry buffer — so a write is safe iff its target is unmarked -/
theorem C18_fresh_iff_not_view_derived (h : Heap) (wf : h.WF) (ops : List Op) (t : Nat) (c : Cell)
    (new : Buf) :
    let r := runD h (List.replicate h.cells.length true) ops
    r.1 = run h ops ∧
    (r.1.cells[t]? = some c →
      ((Op.writeInto t new).safe h.bufs.length h.cells.length r.1 = true ↔ r.2[t]? ≠ some true)) := by
  intro r
  refine ⟨runD_fst _ _ _, fun hc => ?_⟩
  have inv := runD_inv ops (DInv.init h wf)
  have key := inv.iff t c hc
  simp only [Op.safe, hc, decide_eq_true_eq]
  constructor
  · intro hle hd; have := key.1 hd; omega
  · intro hn
    apply Nat.le_of_not_lt
    intro hlt; exact hn (key.2 hlt)

/-- **converse witness**, in general: a write through a view of a caller's cell replaces the contents
of the caller's buffer -/
theorem C18_write_through_view_changes (h : Heap) (wf : h.WF) (i : Nat) (c : Cell)
    (hc : h.cells[i]? = some c) (hd : Nat) (new : Buf) :
    (run h [.view i hd, .writeInto h.cells.length new]).bufs[c.buf]? = some new := by
  have hb := wf i c hc
  simp only [run, List.foldl_cons, List.foldl_nil, step, hc]
  rw [List.getElem?_append_right (Nat.le_refl _)]
  simp [hb]

/-! ## Layer B: every execution of a statically safe program -/

/-- an execution of program `p`: any events, in any order and number, each an instance of an
operation of `p` -/
def Exec (p : Prog) (evs : List Ev) : Prop := ∀ e ∈ evs, e.allowed p = true

/-- **every execution of a `Prog.safe` program leaves every caller cell unchanged**: for every heap
and every binding of the parameters to objects of that heap (other variables are unbound at entry),
whatever the events are -/
theorem C18_prog_frame (p : Prog) (hp : p.safe = true) (s : State)
    (henv : ∀ x, p.params.contains x = false → s.env x = none) (evs : List Ev) (hx : Exec p evs) :
    (∀ b, b < s.heap.bufs.length → (runEv s evs).heap.bufs[b]? = s.heap.bufs[b]?) ∧
    (∀ c, c < s.heap.cells.length → (runEv s evs).heap.cells[c]? = s.heap.cells[c]?) :=
  let k := runEv_keeps hp evs s (BInv.init p s henv) hx
  ⟨k.bufs, k.cells⟩

/-- **C18 (write side, arrays)**: every execution of every extracted write-side function leaves the
contents (buffers) and the headers (dtype, shape, strides, flags) of every array that existed when
it was entered exactly as they were -/
theorem C18_write_pure_arrays (f : Fn) (hf : f ∈ fns) (s : State)
    (henv : ∀ x, f.prog.params.contains x = false → s.env x = none) (evs : List Ev)
    (hx : Exec f.prog evs) :
    (∀ b, b < s.heap.bufs.length → (runEv s evs).heap.bufs[b]? = s.heap.bufs[b]?) ∧
    (∀ c, c < s.heap.cells.length → (runEv s evs).heap.cells[c]? = s.heap.cells[c]?) :=
  C18_prog_frame f.prog (write_side_ops_safe f hf).2 s henv evs hx

/-! ## Non-vacuity and the seeded defects as regression examples -/

/-- the shape of `construct_var_len_props`: parameter 0, an element obtained from it (1), an own
array (2) that is written -/
def pOk : Prog := ⟨[0], [.derive 1 [0], .fresh 2, .write [2]]⟩

example : pOk.safe = true := by decide

/-- the caller's array `[7, 8]` (cell 0 on buffer 0) -/
def callerState : State := ⟨⟨[[7, 8]], [⟨0, 1⟩]⟩, envOf [(0, 0)]⟩

example : ∀ x, pOk.params.contains x = false → callerState.env x = none := by
  intro x hx
  have : x ≠ 0 := by intro h; subst h; simp [pOk] at hx
  have hb : (0 == x) = false := by simpa using fun h : 0 = x => this h.symm
  simp [callerState, envOf, List.find?, hb]

/-- an execution of it that does write (into its own array) and keeps the caller's -/
example : Exec pOk [.bindAlias 1 0, .bindFresh 2 [0, 0] 5, .write 2 [1, 0]] := by
  intro e he
  simp only [List.mem_cons, List.not_mem_nil, or_false] at he
  rcases he with rfl | rfl | rfl <;> decide
example : (runEv callerState [.bindAlias 1 0, .bindFresh 2 [0, 0] 5, .write 2 [1, 0]]).heap
    = ⟨[[7, 8], [1, 0]], [⟨0, 1⟩, ⟨1, 5⟩]⟩ := by decide

/-- seeded C18-2 (`values = prop_dict["values"]; values[missing] = …`): the written variable is
obtained from a parameter — the obligation fails, and there is an execution that changes the
caller's buffer -/
def pSeeded2 : Prog := ⟨[0], [.derive 1 [0], .write [1]]⟩
theorem seeded2_not_safe : pSeeded2.safe = false := by decide
theorem seeded2_changes_caller :
    Exec pSeeded2 [.bindAlias 1 0, .write 1 [0, 8]] ∧
    (runEv callerState [.bindAlias 1 0, .write 1 [0, 8]]).heap.bufs[0]? = some [0, 8] := by
  refine ⟨?_, by decide⟩
  intro e he
  simp only [List.mem_cons, List.not_mem_nil, or_false] at he
  rcases he with rfl | rfl <;> decide

/-- seeded C18-6 (`ids.byteswap(inplace=True)` on a parameter) -/
theorem seeded6_not_safe : (⟨[0], [.write [0]]⟩ : Prog).safe = false := by decide
/-- seeded C18-9 (`values[i] = array.astype(…)` where `values` is the caller's object array on one
path and an own copy on the other: one unsafe version suffices) -/
theorem seeded9_not_safe : (⟨[0], [.derive 1 [0], .fresh 2, .write [1, 2]]⟩ : Prog).safe = false := by
  decide
/-- a header assignment (`ids.flags.writeable = False`, `ids.dtype = …`) on a parameter -/
theorem header_write_not_safe : (⟨[0], [.setHdr [0]]⟩ : Prog).safe = false := by decide
/-- a harmless fresh copy that is then edited does not break the obligation -/
example : (⟨[0], [.derive 1 [0], .fresh 2, .write [2], .setHdr [2]]⟩ : Prog).safe = true := by decide

/-- Layer A, concretely: a copy may be edited, a view may not -/
example : safeRun 1 1 ⟨[[7, 8]], [⟨0, 1⟩]⟩ [.alloc [7, 8] 1, .writeInto 1 [0, 8]] = true := by decide
example : safeRun 1 1 ⟨[[7, 8]], [⟨0, 1⟩]⟩ [.view 0 2, .writeInto 1 [0, 8]] = false := by decide
example : (run ⟨[[7, 8]], [⟨0, 1⟩]⟩ [.view 0 2, .writeInto 1 [0, 8]]).bufs = [[0, 8]] := by decide
example : (run ⟨[[7, 8]], [⟨0, 1⟩]⟩ [.setHdr 0 9]).cells = [⟨0, 9⟩] := by decide

end GeffProps.C18Arrays
