import GeffProps.C13Data
import GeffModel.TrackletHist
/-! # C13 over HISTORIES of validator calls on the same array objects

Property theorems only (fourth file for C13).  Model: `GeffModel/TrackletHist.lean` (a heap of the
caller's arrays addressed by object, in-place edits, calls of `validate_tracklets`,
`validate_lineages`, `validate_data`).  The property speaks of the graph and labelling GIVEN to the
validator: in a history the k-th call has to decide the documented definition on the contents its
argument arrays have when it is made — whatever was validated before, on these or other objects.

* `C13_history_split` — the trace of a history is the trace of a prefix followed by the trace of the
  rest run on the heap the prefix leaves.
* `C13_history_call_current_contents` — whatever precedes it, a `validate_tracklets` call returns
  `validateTrackletsArrays` of the CURRENT contents of the three addressed arrays.
* `C13_history_earlier_calls_irrelevant` — deleting every earlier call (of any of the three entry
  points, on any arrays) from the history changes neither the heap nor any later result: a result
  depends on the in-place edits before it only.
* `C13_history_iff` — int64 contents, unique node ids, acyclic edge array AT THE TIME OF THE CALL:
  the call returns `(True, [])` iff the current labelling is the documented tracklet partition of
  the current graph; otherwise `(False, msgs)` with a message for exactly the offending ids.
* `C13_history_data_current_contents` — the same for `validate_data(g, cfg)` on a geff built from
  the addressed arrays.
-/
namespace GeffProps.C13
open Geff.Graph Geff.Tracklet

theorem C13_history_split (h : Heap) (pre post : List HOp) :
    runHist h (pre ++ post) = runHist h pre ++ runHist (heapAfter h pre) post := by
  induction pre generalizing h with
  | nil => rfl
  | cons op ops ih =>
    simp only [List.cons_append, runHist, heapAfter]
    cases callResult h op with
    | none => exact ih _
    | some r => simp only [List.cons_append]; rw [ih]

/-- calls do not change the heap -/
theorem stepHeap_call (h : Heap) (op : HOp) (hc : isCall op = true) : stepHeap h op = h := by
  cases op <;> first | rfl | (simp [isCall] at hc)

/-- only calls produce a result -/
theorem callResult_edit (h : Heap) (op : HOp) (hc : isCall op = false) : callResult h op = none := by
  cases op <;> first | rfl | (simp [isCall] at hc)

/-- the heap a history leaves is the heap its in-place edits leave -/
theorem heapAfter_filter_edits (h : Heap) (ops : List HOp) :
    heapAfter h (ops.filter fun op => !isCall op) = heapAfter h ops := by
  induction ops generalizing h with
  | nil => rfl
  | cons op ops ih =>
    cases hc : isCall op with
    | true =>
      rw [List.filter_cons_of_neg (by simp [hc])]
      simp only [heapAfter]
      rw [stepHeap_call h op hc]
      exact ih h
    | false =>
      rw [List.filter_cons_of_pos (by simp [hc])]
      simp only [heapAfter]
      exact ih _

/-- **whatever precedes it**, a `validate_tracklets` call returns the verdict and the messages of the
CURRENT contents of the arrays it is given. -/
theorem C13_history_call_current_contents (h : Heap) (pre post : List HOp) (n e l : Nat)
    (nodes labels : List Int) (edges : List (Int × Int))
    (hn : (heapAfter h pre).ints[n]? = some nodes) (he : (heapAfter h pre).pairs[e]? = some edges)
    (hl : (heapAfter h pre).ints[l]? = some labels) :
    runHist h (pre ++ .callTracklets n e l :: post) =
      runHist h pre ++ .tracklets (validateTrackletsArrays nodes labels edges)
        :: runHist (heapAfter h pre) post := by
  rw [C13_history_split]
  simp only [runHist, callResult, hn, he, hl, stepHeap]

/-- **earlier calls are irrelevant**: the results of the calls in `post` are the same whether or not
the calls in `pre` (tracklet, lineage or validate_data, on any arrays) were made. -/
theorem C13_history_earlier_calls_irrelevant (h : Heap) (pre post : List HOp) :
    runHist h (pre ++ post) =
      runHist h pre ++ runHist (heapAfter h (pre.filter fun op => !isCall op)) post := by
  rw [C13_history_split, heapAfter_filter_edits]

/-- a history of edits only produces no result, so with the previous theorem: the results of `post`
after `pre` are those of `post` after the edits of `pre` alone -/
theorem runHist_edits (h : Heap) (ops : List HOp) (hall : ∀ op ∈ ops, isCall op = false) :
    runHist h ops = [] := by
  induction ops generalizing h with
  | nil => rfl
  | cons op ops ih =>
    simp only [runHist]
    rw [callResult_edit h op (hall op List.mem_cons_self)]
    exact ih _ fun o ho => hall o (List.mem_cons_of_mem _ ho)

theorem C13_history_results_after_edits_only (h : Heap) (pre post : List HOp) :
    runHist h ((pre.filter fun op => !isCall op) ++ post) =
      runHist (heapAfter h pre) post := by
  rw [C13_history_split, heapAfter_filter_edits, runHist_edits, List.nil_append]
  intro op hop
  have := (List.mem_filter.1 hop).2
  simpa using this

/-- **C13 at every point of a history**: if, when the call is made, the addressed arrays hold int64
values, unique node ids and an acyclic edge list, the call returns `(True, [])` iff the current
labelling is the documented tracklet partition of the current graph; and a message is rendered for
`t` iff `t` is a current tracklet id that is not a maximal unbranched path. -/
theorem C13_history_iff (h : Heap) (pre post : List HOp) (n e l : Nat)
    (nodes labels : List Int) (edges : List (Int × Int))
    (hn : (heapAfter h pre).ints[n]? = some nodes) (he : (heapAfter h pre).pairs[e]? = some edges)
    (hl : (heapAfter h pre).ints[l]? = some labels)
    (hni : ∀ x ∈ nodes, InInt64 x) (hli : ∀ x ∈ labels, InInt64 x)
    (hei : ∀ e ∈ edges, InInt64 e.1 ∧ InInt64 e.2) (hnd : nodes.Nodup) (hacyc : Ranked edges) :
    ∃ r, runHist h (pre ++ .callTracklets n e l :: post) =
        runHist h pre ++ .tracklets r :: runHist (heapAfter h pre) post ∧
      (r = .result true [] ↔ TrackletSpecMasked (nodes.zip labels) edges) ∧
      (∀ t, (∃ v m, (t, v) ∈ trackletErrors (nodes.zip labels) edges ∧ message t v = some m) ↔
        (∃ u, (u, t) ∈ nodes.zip labels) ∧ ¬ GoodTracklet (nodes.zip labels) edges t) := by
  obtain ⟨h1, h2, h3, h4⟩ := C13_arrays_iff nodes labels edges hni hli hei hnd hacyc
  refine ⟨_, C13_history_call_current_contents h pre post n e l nodes labels edges hn he hl, ⟨?_, h3⟩, h4⟩
  intro hr
  rw [h1] at hr
  injection hr with hv _
  exact h2.1 hv

/-- `validate_data(g, cfg)` in a history: the tracklet / lineage block of the CURRENT contents -/
theorem C13_history_data_current_contents (h : Heap) (pre post : List HOp) (n e : Nat) (cfg : TrackCfg)
    (tnp : Option (List (String × String))) (props : List (String × PropRef))
    (nodes : List Int) (edges : List (Int × Int)) (ps : List (String × IdProp))
    (hn : (heapAfter h pre).ints[n]? = some nodes) (he : (heapAfter h pre).pairs[e]? = some edges)
    (hp : resolveProps (heapAfter h pre) props = some ps) :
    runHist h (pre ++ .callData n e cfg tnp props :: post) =
      runHist h pre ++ .data (validateDataTracks cfg tnp ps nodes edges)
        :: runHist (heapAfter h pre) post := by
  rw [C13_history_split]
  simp only [runHist, callResult, hn, he, hp, stepHeap]

/-! non-vacuity: validate, edit the edge array in place, validate again (seeded change C13-15) -/
-- 1 → 2 → 3 → 4 labelled [7,7,7,7] is one maximal unbranched path; after `edges[2] = (2, 4)` node 2 divides
example : runHist ⟨[[1, 2, 3, 4], [7, 7, 7, 7]], [[(1, 2), (2, 3), (3, 4)]]⟩
    [.callTracklets 0 0 1, .setPair 0 2 (2, 4), .callTracklets 0 0 1] =
    [.tracklets (.result true []),
     .tracklets (.result false ["Tracklet 7: Invalid path structure (branch or merge detected)."])] := by
  decide +kernel
-- the other direction, with a lineage call first and one node array shared by two edge arrays
example : runHist ⟨[[1, 2, 3, 4], [7, 8, 9, 10], [5, 5, 5, 5]], [[(1, 2), (2, 3), (2, 4)], [(1, 2)]]⟩
    [.callLineages 0 0 2, .callTracklets 0 1 1, .setPair 0 0 (1, 3), .callTracklets 0 0 1] =
    [.lineages true [],
     .tracklets (.result false ["Tracklet 7: Not maximal. Path can extend forward to node 2.",
                                "Tracklet 8: Not maximal. Path can extend backward to node 1."]),
     .tracklets (.result true [])] := by
  decide +kernel
-- the hypotheses of `C13_history_iff` are met after the edit of the first example
example : (heapAfter ⟨[[1, 2, 3, 4], [7, 7, 7, 7]], [[(1, 2), (2, 3), (3, 4)]]⟩
    [.callTracklets 0 0 1, .setPair 0 2 (2, 4)]).pairs[0]? = some [(1, 2), (2, 3), (2, 4)] := by decide

end GeffProps.C13
