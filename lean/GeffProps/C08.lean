import GeffModel.MetaOps
import GeffModel.SchemaSpec
import Gen.SchemaPublished
import Gen.SchemaExported
/-! # C08 — metadata survives serialisation and matches the published JSON schema (under construction) -/
namespace GeffProps.C08
open Geff.Meta Geff.Meta.Schema

/-! ## Gen obligations (re-checked by the kernel whenever `geff-schema.json`, the pydantic models or
`_valid_values.py` change) -/

/-- the file shipped to other implementations parses to exactly the specified schema -/
theorem published_parses_to_spec : parseRoot parseFuel Gen.SchemaPublished.doc = some Spec.doc := by rfl

/-- so does the schema exported by the working tree's pydantic models -/
theorem exported_parses_to_spec : parseRoot parseFuel Gen.SchemaExported.doc = some Spec.doc := by rfl

end GeffProps.C08
