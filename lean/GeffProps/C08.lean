import GeffProofs.MetaRoundtrip
import GeffProofs.MetaSchema
import Gen.SchemaPublished
import Gen.SchemaExported
/-! # C08 — metadata survives serialisation and matches the published JSON schema

*Every valid metadata object survives serialisation unchanged: through JSON text and through zarr
attributes in either zarr format reading returns an equal object, and foreign attributes stored
beside `geff` are preserved.  Its serialised form always validates against the published
geff-schema.json, and the published schema gives the same verdict on every document as the schema
exported from the Python model […].*

Model: `dump` (= `model_dump(mode="json")`), `parse` (= `model_validate`), `writeAttrs` /
`readAttrs` on an abstract attribute map (`GeffModel/Meta.lean`); schema syntax, parser and
evaluator in `GeffModel/SchemaEval.lean`; the hand-written typed schema `Schema.Spec`
(`GeffModel/SchemaSpec.lean`).  Tie: translators T2, T3, T4 (obligations below, re-checked by the
kernel on every run) and the correspondence `harness/corr/C08.py` (which also cross-checks the
evaluator against `jsonschema` on every dump and on single structural mutations).

A JSON *text* is not modelled: encoding a document to text and decoding it again is the identity
of the JSON library on JSON-native values (exercised by the correspondence); the models work on
the document.  "Equal object" is pydantic's `==`: equal field values (the fields-set is not part
of it — after a round trip every field is set). -/
set_option autoImplicit false
namespace GeffProps.C08
open Geff.Meta Geff.Meta.Schema

/-! ## Gen obligations (re-checked whenever `geff-schema.json`, the pydantic models or
`_valid_values.py` change) -/

theorem gen_translation_ok :
    Gen.SchemaPublished.translationOk = true ∧ Gen.SchemaExported.translationOk = true ∧
    Gen.Schema.translationOk = true ∧ Gen.ValidValues.translationOk = true := by decide

/-- the file shipped to other implementations parses to exactly the specified schema: same keywords,
same enums (= the lists of `_valid_values.py`), same pattern (= `VERSION_PATTERN`), same required
sets; no keyword outside the evaluator's vocabulary occurs in it -/
theorem published_parses_to_spec : parseRoot parseFuel Gen.SchemaPublished.doc = some Spec.doc := by rfl

/-- so does the schema exported by the working tree's pydantic models (with `geff_version` required) -/
theorem exported_parses_to_spec : parseRoot parseFuel Gen.SchemaExported.doc = some Spec.doc := by rfl

/-- the model's dump has exactly the declared fields, in declaration order — at every level -/
theorem gen_dump_fields (m : Meta) (a : Axis) (p : PropMeta) (r : RelatedObject) (h : DisplayHint) :
    (dumpFields m).map (·.1) = Gen.Schema.geffMetadataFields.map (·.name) ∧
    (match dumpAxis a with
     | .obj kvs => kvs.map (·.1)
     | _ => []) = Gen.Schema.axisFields.map (·.name) ∧
    (match dumpProp p with
     | .obj kvs => kvs.map (·.1)
     | _ => []) = Gen.Schema.propMetadataFields.map (·.name) ∧
    (match dumpRelated r with
     | .obj kvs => kvs.map (·.1)
     | _ => []) = Gen.Schema.relatedObjectFields.map (·.name) ∧
    (match dumpHint h with
     | .obj kvs => kvs.map (·.1)
     | _ => []) = Gen.Schema.displayHintFields.map (·.name) := by
  refine ⟨?_, ?_, ?_, ?_, ?_⟩ <;> rfl

/-! ## The schema never drifts -/

/-- **C08 (no drift)**: on *every* instance document — valid, invalid, mutated, anything — and for
every interpretation of `pattern`, the published schema and the schema exported from the Python
model give the same verdict. -/
theorem C08_no_drift (mp : String → String → Bool) (inst : J) :
    verdict mp Gen.SchemaPublished.doc inst = verdict mp Gen.SchemaExported.doc inst := by
  unfold verdict
  rw [published_parses_to_spec, exported_parses_to_spec]

/-! ## Every dump validates -/

/-- **C08 (dump validates)**: the serialised form `{"geff": dump m}` of every valid metadata value
validates against the published `geff-schema.json`.  (`pattern` is interpreted by the same
regular-expression engine `env.pat` that the model's version check uses.) -/
theorem C08_dump_valid (env : Env) (m : Meta) (h : Valid env m) :
    verdict env.pat Gen.SchemaPublished.doc (.obj [("geff", dump m)]) = true := by
  unfold verdict
  rw [published_parses_to_spec]
  exact root_valid 3 h

/-- the same under the invariant the code actually enforces (NaN bounds included) -/
theorem C08_dump_valid_code (env : Env) (m : Meta) (h : ValidCode env m) :
    verdict env.pat Gen.SchemaPublished.doc (.obj [("geff", dump m)]) = true := by
  unfold verdict
  rw [published_parses_to_spec]
  exact root_valid 3 h

/-! ## Serialisation round trips -/

/-- **C08 (round trip through a document)**: parsing the dump of a valid metadata value succeeds and
returns the same field values (and every field counts as set).  `NpFix`: the valid dtype names are
fixed points of numpy's dtype-name normalisation (checked on every run). -/
theorem C08_roundtrip (env : Env) (hnp : NpFix env) (m : Meta) (h : Valid env m) :
    parse env (dump m) = .ok { val := m, fieldsSet := fieldNames } :=
  parse_dump hnp ((valid_iff_validCode env m).1 h).1

/-- **C08 (round trip through zarr attributes, foreign attributes preserved)**: writing into an
attribute map — whatever it held, including a stale `geff` — and reading back returns the same
value, and every attribute other than `geff` is what it was. -/
theorem C08_attrs_roundtrip (env : Env) (hnp : NpFix env) (m : Meta) (h : Valid env m) (attrs : Attrs) :
    readAttrs env (writeAttrs attrs m) = .ok { val := m, fieldsSet := fieldNames } ∧
    ∀ k, k ≠ "geff" → lookup (writeAttrs attrs m) k = lookup attrs k :=
  ⟨readAttrs_writeAttrs hnp ((valid_iff_validCode env m).1 h).1 attrs, fun k hk => foreign_attrs_kept attrs m k hk⟩

/-- **C08 (store histories)**: after any sequence of earlier writes `ms`, reading returns exactly the
object written last — nothing of the older objects survives (cleared fields stay cleared) — and the
foreign attributes are still what they were before the first write. -/
theorem C08_rewrite (env : Env) (hnp : NpFix env) (ms : List Meta) (m : Meta) (h : Valid env m) (attrs : Attrs) :
    readAttrs env (writeAttrs (ms.foldl writeAttrs attrs) m) = .ok { val := m, fieldsSet := fieldNames } ∧
    ∀ k, k ≠ "geff" → lookup (writeAttrs (ms.foldl writeAttrs attrs) m) k = lookup attrs k := by
  refine ⟨(C08_attrs_roundtrip env hnp m h _).1, fun k hk => ?_⟩
  rw [(C08_attrs_roundtrip env hnp m h _).2 k hk]
  induction ms generalizing attrs with
  | nil => rfl
  | cons m1 ms ih =>
    simp only [List.foldl_cons]
    rw [ih (writeAttrs attrs m1)]
    exact foreign_attrs_kept attrs m1 k hk

/-- what is stored under `geff` is the dump, so `C08_dump_valid` applies to the stored attribute -/
theorem C08_stored_attr_is_dump (m : Meta) (attrs : Attrs) : lookup (writeAttrs attrs m) "geff" = some (dump m) :=
  lookup_setKey_same attrs "geff" (dump m)

/-! ## non-vacuity -/

def exEnv : Env :=
  { pat := fun _ s => s == "1.3" || s == "0.3.1", npName := fun s => some s, defaultVersion := "1.3" }

def exMeta : Meta :=
  { geff_version := "0.3.1", directed := true,
    axes := some [{ name := "x", type := some "space", unit := some "micrometer", min := some (.fin (-3) 1),
                    max := some .pinf, scale := some (.fin 1 1), scaled_unit := some "nanometer" },
                  { name := "t", type := some "time" }],
    node_props_metadata := [("x", { identifier := "x", dtype := "float64" }),
                            ("seg", { identifier := "seg", dtype := "uint64", varlength := true, name := some "Seg" })],
    edge_props_metadata := [],
    sphere := some "r", track_node_props := some [("lineage", "l")],
    related_objects := some [{ type := "labels", path := "../seg", label_prop := some "seg" }],
    display_hints := some { display_horizontal := "x", display_vertical := "x", display_time := some "t" },
    extra := [("app", .obj [("k", .arr [.int 1, .flt (.fin 5 1), .null])])] }

/-- the hypotheses of the theorems above hold for a non-trivial value -/
example : Valid exEnv exMeta ∧ NpFix exEnv := ⟨by decide, fun _ _ => rfl⟩

/-- the evaluator is not constantly `true`: dropping a required key, a wrong type, a bad enum value and
an empty identifier are rejected by the published schema -/
example :
    verdict exEnv.pat Gen.SchemaPublished.doc (.obj [("geff", dump exMeta)]) = true ∧
    verdict exEnv.pat Gen.SchemaPublished.doc (.obj [("geff", .obj ((dumpFields exMeta).drop 1))]) = false ∧
    verdict exEnv.pat Gen.SchemaPublished.doc (.obj [("geff", dump { exMeta with geff_version := "abc" })]) = false ∧
    verdict exEnv.pat Gen.SchemaPublished.doc
      (.obj [("geff", dump { exMeta with axes := some [{ name := "x", type := some "foo" }], display_hints := none })]) = false ∧
    verdict exEnv.pat Gen.SchemaPublished.doc
      (.obj [("geff", dump { exMeta with node_props_metadata := [("", { identifier := "", dtype := "int8" })] })]) = false := by
  refine ⟨?_, ?_, ?_, ?_, ?_⟩ <;> rfl

end GeffProps.C08
