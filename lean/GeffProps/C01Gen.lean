import GeffProofs.BaseWriteGen
import GeffProps.C01ReadOpts
/-! # C01 on the writer as it is written now (translator T22)

`Gen/BaseWrite.lean` is regenerated on every run from `geff/core_io/_base_write.py`:
`write_id_arrays`, `write_props_arrays` and `write_arrays`, statement by statement, as Lean
`do`-blocks over the primitives of `GeffModel/PyDoWrite.lean` (each defined from the store
primitives of `GeffModel/Store.lean` / `GeffModel/WriteRead.lean`), the var-length branch calling the
GENERATED encoder of `Gen/Serialization.lean` (T12).  This file states that the generated functions
ARE the hand-written model (`Geff.WR.writeIdArrays`, `writePropsArrays`, `writeCore`) that every
theorem of `GeffProps/C01.lean` is about, and restates the round trip and the error branches on the
generated writer — so an edit of the Python source that changes what the writer stores breaks a proof
obligation here (and the check then searches for a failing input).

Packaging: a generated function takes the store content first and returns it together with the
dicts Python edits in place.  NOT proved here (see `…_partial`): the equality for
`structure_validation=True` (the `try: validate_structure … except ValueError: delete_geff; raise`
block is translated and type-checked, its equality with `validate s; pure s` is not proved), and the
`overwrite=True` branch on a target that holds a geff (`delete_geff` is a primitive; C06's subject).

Property theorems only; helper lemmas in `GeffProofs/BaseWriteGen.lean`. -/
namespace GeffProps.C01Gen
open Geff.Np Geff.Store Geff.WR Geff.PyDoWrite GeffProofs.BaseWriteGen GeffProps.C01
open Gen.Paths (NODES EDGES IDS PROPS)

/-- the translator accepted every statement of the three functions -/
theorem translated : Gen.BaseWrite.translationOk = true := by decide

/-- **`write_id_arrays` as written = the model**, for every store, every pair of id arrays and both
formats: the two dtype checks (TypeError) in this order, the root group opened, both arrays stored. -/
theorem C01Gen_write_id_arrays_is_model (s : St) (r : StoreRef) (n e : NdArr) (f : Fmt) :
    Gen.BaseWrite.writeIdArrays s r n e f = Geff.WR.writeIdArrays s n e :=
  writeIdArrays_eq s r n e f

/-- **`write_props_arrays` as written = the model** (no `props_unsquish`), for every store, every
property dict and both groups: `require_group`, then per property `create_props_metadata`, the
var-length branch through the generated encoder, `create_group` (refusing an existing node),
`values`, `missing` only when present, `data` only for var-length; the dict is returned unchanged and
the metadata list in order. -/
theorem C01Gen_write_props_arrays_is_model (s : St) (r : StoreRef) (grp : String) (ps : Props) (f : Fmt)
    (hg : grp = NODES ∨ grp = EDGES) :
    Gen.BaseWrite.writePropsArrays s r grp ps none f =
      (Geff.WR.writePropsArrays vlenCodec s grp ps none).map (fun x => (x.1, ps, x.2)) := by
  rw [writePropsArrays_none s r grp ps f hg]
  unfold writePropsArraysSpec
  simp only [pure_bind]
  cases h : Geff.WR.writePropsArrays vlenCodec s grp ps none <;> simp [Except.map, bind, Except.bind, pure, Except.pure]

/-- any other group name is refused with `ValueError` before anything is touched -/
theorem C01Gen_write_props_arrays_bad_group (s : St) (r : StoreRef) (grp : String) (ps : Props)
    (u : Option UnsquishDict) (f : Fmt) (hg : grp ≠ NODES ∧ grp ≠ EDGES) :
    Gen.BaseWrite.writePropsArrays s r grp ps u f = .error .valueError := by
  have hc : [NODES, EDGES].contains grp = false := by
    simp only [List.contains_cons, List.contains_nil, Bool.or_false, Bool.or_eq_false_iff, beq_eq_false_iff_ne, ne_eq]
    exact ⟨hg.1, hg.2⟩
  unfold Gen.BaseWrite.writePropsArrays
  simp only [hc, Bool.not_false, if_true, raiseValueError, bind, Except.bind, throw, throwThe, MonadExceptOf.throw]

/-- **the `props_unsquish` pre-pass as written**: it is `unsquishG` — the model's `unsquish` with the one
test the code makes in addition (`np.issubdtype(values.dtype, np.object_)`, which in the model's
vocabulary can only fire on a dense array *labelled* with dtype object; `unsquishOneG_is_model`) —
followed by the function without pre-pass on the edited dict. -/
theorem C01Gen_unsquish_is_model (s : St) (r : StoreRef) (grp : String) (ps : Props) (u : UnsquishDict) (f : Fmt)
    (hg : grp = NODES ∨ grp = EDGES) :
    Gen.BaseWrite.writePropsArrays s r grp ps (some u) f =
      (unsquishG ps u >>= fun ps' => Gen.BaseWrite.writePropsArrays s r grp ps' none f) :=
  writePropsArrays_some s r grp ps u f hg

theorem unsquishOneG_is_model (ps : Props) (name : String) (news : List String)
    (h : ∀ p a, lookupKey name ps = some p → p.values = .dense a → a.dtype ≠ .obj) :
    unsquishOneG ps name news = unsquishOne ps name news :=
  unsquishOneG_eq ps name news h

/-- **`write_arrays` as written = the model** (`structure_validation=False`, no unsquish), for every
target store without a geff (whatever `overwrite` says), every graph, every caller metadata, both
formats: the guard, the id arrays, `len(node_ids)` (TypeError on a 0-d array), the empty axis
properties of an empty graph, both property groups, the metadata update, the axis check and the
attribute write — in this order, with these outcomes. -/
theorem C01Gen_write_arrays_is_model (validate : St → Outcome Unit) (s0 : St) (r : StoreRef) (g : InMem)
    (md : CallerMeta) (f : Fmt) (ow : Bool) (hg : hasGeff s0 = false) :
    (Gen.BaseWrite.writeArrays validate s0 r g.nodeIds g.nodeProps g.edgeIds g.edgeProps md none none f false ow).map (·.1)
      = writeCore vlenCodec s0 g md :=
  writeArrays_novalidate validate s0 r g md f ow hg

theorem hasGeff_of_fresh (s0 : St) (h : Fresh s0) : hasGeff s0 = false := by
  unfold hasGeff
  rcases h.root with h0 | ⟨a, h0, ha⟩
  · rw [h0]
  · rw [h0]
    simp only [List.any_eq_false, decide_eq_true_eq]
    exact ha

/-- **C01 round trip on the generated writer** (`C01_roundtrip` transported): for every fresh target,
every well-formed graph and consistent caller metadata, the writer *as written* succeeds and
`read_to_memory` on what it left behind returns the same graph. -/
theorem C01Gen_roundtrip (validate : St → Outcome Unit) (s0 : St) (r : StoreRef) (f : Fmt) (ow : Bool)
    (g : InMem) (md : CallerMeta) (n e : Nat) (nps eps : Props)
    (hfresh : Fresh s0) (hwf : WFGeff g n e nps eps) (hax : AxesOK md n nps) :
    ∃ out, Gen.BaseWrite.writeArrays validate s0 r g.nodeIds g.nodeProps g.edgeIds g.edgeProps md none none f false ow = .ok out ∧
      ∃ rr, readCore vlenCodec out.1 = .ok rr ∧ Spec g.nodeIds g.edgeIds (expectedNodeProps md n nps) eps rr := by
  obtain ⟨s', hw, _, rr, hr, hspec⟩ := C01_roundtrip vlenCodec vlenCodec_lawful s0 g md n e nps eps hfresh hwf hax
  have h := C01Gen_write_arrays_is_model validate s0 r g md f ow (hasGeff_of_fresh s0 hfresh)
  rw [hw] at h
  cases hgen : Gen.BaseWrite.writeArrays validate s0 r g.nodeIds g.nodeProps g.edgeIds g.edgeProps md none none f false ow with
  | error err => rw [hgen] at h; cases h
  | ok out =>
    rw [hgen] at h
    simp only [Except.map, Except.ok.injEq] at h
    exact ⟨out, rfl, rr, by rw [h]; exact hr, hspec⟩

/-- **`C01_roundtrip_validated` / `C01_roundtrip_every_configuration` transported — partial.**
Full statement wanted: the generated `write_arrays` with `structure_validation=True` succeeds and
every read configuration returns the written graph.  Proved: the generated writer with
`structure_validation=False` succeeds, C04's validator model ACCEPTS the store it leaves (so the
`try` block of the code has nothing to catch), and `read_to_memory` under every configuration
(any `structure_validation`, selection, accepting data validator) returns the written graph
restricted to the selection.  Missing: the equality of the translated `try/except` block with
`validate s; pure s` (the block is generated and type-checked, not characterised). -/
theorem C01Gen_roundtrip_every_configuration_partial (s0 : St) (r : StoreRef) (f : Fmt) (ow : Bool)
    (g : InMem) (md : CallerMeta) (n e : Nat) (nps eps : Props)
    (hfresh : Fresh s0) (hwf : WFGeff g n e nps eps) (hax : Geff.Bridge.AxesStrict md n nps)
    (hmdN : ∀ kv ∈ md.nodeProps, kv.1 ∈ (expectedNodeProps md n nps).map (·.1))
    (hmdE : ∀ kv ∈ md.edgeProps, kv.1 ∈ eps.map (·.1)) :
    ∃ out, Gen.BaseWrite.writeArrays Geff.Bridge.validate s0 r g.nodeIds g.nodeProps g.edgeIds g.edgeProps md none none f false ow = .ok out ∧
      Geff.Bridge.validate out.1 = .ok () ∧
      ∀ (sv : Bool) (nn en : List String) (dv : Option Geff.Validate.Config)
        (vd : Geff.Validate.Config → ReadResult → Outcome Unit),
        (∀ k ∈ nn, (lookupKey k (expectedNodeProps md n nps)).isSome = true) →
        (∀ k ∈ en, (lookupKey k eps).isSome = true) →
        (∀ cfg r, dv = some cfg → vd cfg r = .ok ()) →
        ∃ r', Geff.WR.readToMemoryOpts vlenCodec Geff.Bridge.validate vd ⟨sv, some nn, some en, dv⟩ out.1 = .ok r' ∧
          Spec g.nodeIds g.edgeIds (GeffProps.C01ReadOpts.restrictProps (expectedNodeProps md n nps) nn)
            (GeffProps.C01ReadOpts.restrictProps eps en) r' := by
  obtain ⟨s', hw, hall⟩ := GeffProps.C01ReadOpts.C01_roundtrip_every_configuration s0 g md n e nps eps hfresh hwf hax hmdN hmdE
  unfold Geff.WR.writeArrays at hw
  cases hcore : writeCore vlenCodec s0 g md with
  | error err => rw [hcore] at hw; cases hw
  | ok s1 =>
    rw [hcore] at hw
    simp only [bind, Except.bind] at hw
    cases hv : Geff.Bridge.validate s1 with
    | error err => rw [hv] at hw; cases hw
    | ok u =>
      rw [hv] at hw
      simp only [pure, Except.pure, Except.ok.injEq] at hw
      subst hw
      have h := C01Gen_write_arrays_is_model Geff.Bridge.validate s0 r g md f ow (hasGeff_of_fresh s0 hfresh)
      rw [hcore] at h
      cases hgen : Gen.BaseWrite.writeArrays Geff.Bridge.validate s0 r g.nodeIds g.nodeProps g.edgeIds g.edgeProps md none none f false ow with
      | error err => rw [hgen] at h; cases h
      | ok out =>
        rw [hgen] at h
        simp only [Except.map, Except.ok.injEq] at h
        refine ⟨out, rfl, by rw [h]; exact hv, ?_⟩
        rw [h]; exact hall

/-! ## the error branches of the generated writer -/

/-- ids of different dtypes: `TypeError` from `write_id_arrays` as written -/
theorem C01Gen_error_id_dtype (s : St) (r : StoreRef) (n e : NdArr) (f : Fmt) (h : n.dtype ≠ e.dtype) :
    Gen.BaseWrite.writeIdArrays s r n e f = .error .typeError := by
  rw [writeIdArrays_eq]; unfold Geff.WR.writeIdArrays; rw [if_pos h]; rfl

/-- ids that are not integers: `TypeError` from `write_id_arrays` as written -/
theorem C01Gen_error_non_integer_ids (s : St) (r : StoreRef) (n e : NdArr) (f : Fmt) (h : n.dtype.isInteger = false) :
    Gen.BaseWrite.writeIdArrays s r n e f = .error .typeError := by
  rw [writeIdArrays_eq]; unfold Geff.WR.writeIdArrays
  by_cases hd : n.dtype ≠ e.dtype
  · rw [if_pos hd]; rfl
  · rw [if_neg hd]; simp only [h, Bool.not_false, if_true]; rfl

/-- … and `write_arrays` as written passes that `TypeError` on, on every target without a geff -/
theorem C01Gen_write_arrays_id_error (validate : St → Outcome Unit) (s0 : St) (r : StoreRef) (g : InMem)
    (md : CallerMeta) (f : Fmt) (ow sv : Bool) (nu eu : Option UnsquishDict) (hg : hasGeff s0 = false)
    (h : g.nodeIds.dtype ≠ g.edgeIds.dtype ∨ g.nodeIds.dtype.isInteger = false) :
    Gen.BaseWrite.writeArrays validate s0 r g.nodeIds g.nodeProps g.edgeIds g.edgeProps md nu eu f sv ow = .error .typeError := by
  have hid : Gen.BaseWrite.writeIdArrays s0 (removeTilde r) g.nodeIds g.edgeIds f = .error .typeError := by
    rcases h with h | h
    · exact C01Gen_error_id_dtype _ _ _ _ _ h
    · exact C01Gen_error_non_integer_ids _ _ _ _ _ h
  unfold Gen.BaseWrite.writeArrays
  simp only [checkForGeff, pure, Except.pure, hg, Bool.false_eq_true, if_false, hid, bind, Except.bind]

/-- a target that already holds a geff, `overwrite=False`: `FileExistsError` from `write_arrays` as
written, before anything is touched -/
theorem C01Gen_error_existing_geff (validate : St → Outcome Unit) (s0 : St) (r : StoreRef) (g : InMem)
    (md : CallerMeta) (f : Fmt) (sv : Bool) (nu eu : Option UnsquishDict) (h : hasGeff s0 = true) :
    Gen.BaseWrite.writeArrays validate s0 r g.nodeIds g.nodeProps g.edgeIds g.edgeProps md nu eu f sv false = .error .fileExists := by
  unfold Gen.BaseWrite.writeArrays
  simp only [checkForGeff, pure, Except.pure, h, if_true, Bool.false_eq_true, if_false, raiseFileExistsError, bind, Except.bind,
    throw, throwThe, MonadExceptOf.throw]

/-! ## non-vacuity: the generated writer runs -/

example : (Gen.BaseWrite.writeArrays (fun _ => pure ()) exS0 .theStore exNodeIds
      (some [("values", exDense), ("poly", exVlen), ("t", exT)]) exEdgeIds (some []) exMd none none .v2 true false).map (·.1) =
    writeCore vlenCodec exS0 exG exMd := by rfl
example : (Gen.BaseWrite.writeIdArrays [] .theStore exNodeIds ⟨.i64, [0, 2], []⟩ .v3) = .error .typeError := by rfl
example : (Gen.BaseWrite.writePropsArrays [] .theStore "nodes" [("pos", ⟨.dense ⟨.i8, [1, 2], [.i 1, .i 2]⟩, none⟩)]
    (some [("pos", ["y", "x"])]) .v2).map (·.2.1) =
    .ok [("y", ⟨.dense ⟨.i8, [1], [.i 1]⟩, none⟩), ("x", ⟨.dense ⟨.i8, [1], [.i 2]⟩, none⟩)] := by rfl
example : Fresh exS0 ∧ hasGeff exS0 = false := ⟨⟨Or.inr ⟨_, rfl, by decide⟩, fun _ => rfl, fun _ => rfl⟩, rfl⟩

end GeffProps.C01Gen
