import GeffProps.C13
import GeffProps.C13Inv
import GeffModel.TrackletData
/-! # C13 — the integer-array entry point, the rendered messages and the `validate_data` wiring

Property theorems only (third file for C13).  Model: `GeffModel/TrackletData.lean`
(`validateTrackletsArrays` = `validate_tracklets` with its int64 cast, loop order and rendered
f-strings; `validateDataTracks` = the tracklet / lineage block of `validate_data` with
`_nodes_with_id`, `KeyError` for a declared but absent property, numpy's `IndexError` for a mask of
the wrong length, and the order tracklet-before-lineage). -/
set_option linter.unusedSectionVars false
namespace GeffProps.C13
open Geff.Graph Geff.Tracklet Relation
open Geff.Lineage hiding message DataOutcome

/-! ## `validate_tracklets` on integer arrays -/

/-- **no exception escapes the loop** (any integer arrays, any digraph): the call returns its pair;
the flag is "no error" and every collected (id, verdict) is rendered, in loop order. -/
theorem C13_arrays_result (nodes labels : List Int) (edges : List (Int × Int)) :
    validateTrackletsArrays nodes labels edges =
      .result (trackletErrorsInt64 nodes labels edges).isEmpty
        ((trackletErrorsInt64 nodes labels edges).filterMap fun p => message p.1 p.2) := by
  unfold validateTrackletsArrays
  have hnone : (trackletErrorsInt64 nodes labels edges).find? (fun p => isExc p.2) = none := by
    apply List.find?_eq_none.2
    rintro ⟨t, v⟩ hp
    have := C13_no_exception _ _ t v hp
    cases v <;> simp_all [isExc]
  simp only [hnone]

/-- every collected error is rendered: one message per named tracklet id, none dropped -/
theorem C13_every_error_rendered (nl : List (Int × Int)) (es : List (Int × Int)) :
    ∀ p ∈ trackletErrors nl es, (message p.1 p.2).isSome = true := by
  rintro ⟨t, v⟩ hp
  obtain ⟨_, _, hne⟩ := (mem_trackletErrors nl es t v).1 hp
  have := C13_no_exception nl es t v hp
  cases v <;> simp_all [message]

/-- **every message names its tracklet**: it starts with `Tracklet <id>: ` -/
theorem C13_message_names (t : Int) (v : Verdict Int) (m : String) (h : message t v = some m) :
    ∃ rest, m = "Tracklet " ++ toString t ++ ": " ++ rest := by
  cases v <;> simp only [message, Option.some.injEq, reduceCtorEq] at h <;> subst h
  · exact ⟨"Invalid path structure (branch or merge detected).", by simp [String.append_assoc]⟩
  · exact ⟨"Cycle detected.", by simp [String.append_assoc]⟩
  · exact ⟨"Not fully connected.", by simp [String.append_assoc]⟩
  · rename_i p
    exact ⟨"Not maximal. Path can extend backward to node " ++ toString p ++ ".", by
      simp only [String.append_assoc]; rw [← String.append_assoc (s₁ := ": ")]; rfl⟩
  · rename_i n
    exact ⟨"Not maximal. Path can extend forward to node " ++ toString n ++ ".", by
      simp only [String.append_assoc]; rw [← String.append_assoc (s₁ := ": ")]; rfl⟩

theorem nodup_zip_fst {β γ : Type} (nodes : List β) (labels : List γ) (h : nodes.Nodup) :
    ((nodes.zip labels).map (·.1)).Nodup := (map_fst_zip_sublist nodes labels).nodup h

/-- **C13 at the entry point**: for int64 arrays with unique node ids and an acyclic edge list,
`validate_tracklets` returns `(True, [])` iff the labelling is the documented partition (edge
endpoints outside the node list counting as unlabelled nodes); otherwise `(False, msgs)` with one
rendered message per offending tracklet id, in first-occurrence order, and a message is produced
for `t` iff `t` is not a maximal unbranched path. -/
theorem C13_arrays_iff (nodes labels : List Int) (edges : List (Int × Int))
    (hn : ∀ x ∈ nodes, InInt64 x) (hl : ∀ x ∈ labels, InInt64 x)
    (he : ∀ e ∈ edges, InInt64 e.1 ∧ InInt64 e.2) (hnd : nodes.Nodup) (hacyc : Ranked edges) :
    validateTrackletsArrays nodes labels edges =
      .result (validateTracklets (nodes.zip labels) edges)
        ((trackletErrors (nodes.zip labels) edges).filterMap fun p => message p.1 p.2) ∧
    (validateTracklets (nodes.zip labels) edges = true ↔ TrackletSpecMasked (nodes.zip labels) edges) ∧
    (TrackletSpecMasked (nodes.zip labels) edges →
      validateTrackletsArrays nodes labels edges = .result true []) ∧
    (∀ t, (∃ v m, (t, v) ∈ trackletErrors (nodes.zip labels) edges ∧ message t v = some m) ↔
      (∃ u, (u, t) ∈ nodes.zip labels) ∧ ¬ GoodTracklet (nodes.zip labels) edges t) := by
  have hid := C13_int64_cast_identity nodes labels edges hn hl he
  have hres := C13_arrays_result nodes labels edges
  rw [hid] at hres
  have hiff := C13_iff_masked (nodes.zip labels) edges (nodup_zip_fst nodes labels hnd) hacyc
  refine ⟨hres, hiff, ?_, ?_⟩
  · intro hs
    have hv := hiff.2 hs
    rw [hres]
    unfold validateTracklets at hv
    rw [List.isEmpty_iff] at hv
    rw [hv]; rfl
  · intro t
    rw [← C13_errors_exact (nodes.zip labels) edges hacyc t]
    simp only [List.mem_map, Prod.exists, exists_and_right, exists_eq_right]
    constructor
    · rintro ⟨v, m, hv, _⟩; exact ⟨v, hv⟩
    · rintro ⟨v, hv⟩
      have := C13_every_error_rendered _ _ (t, v) hv
      obtain ⟨m, hm⟩ := Option.isSome_iff_exists.1 this
      exact ⟨v, m, hv, hm⟩

/-- **uint64 arrays** (any values in [0, 2^64)): the flag returned equals the verdict on the TRUE
ids; the ids printed are the wrapped images (known finding `C13:uint64-id-wrapped-in-message` when
an offending id is ≥ 2^63). -/
theorem C13_arrays_uint64 (nodes labels : List Int) (edges : List (Int × Int))
    (hn : ∀ x ∈ nodes, InUInt64 x) (hl : ∀ x ∈ labels, InUInt64 x)
    (he : ∀ e ∈ edges, InUInt64 e.1 ∧ InUInt64 e.2)
    (hnd : ((nodes.zip labels).map (·.1)).Nodup) (hacyc : Ranked edges) :
    (∃ msgs, validateTrackletsArrays nodes labels edges =
        .result (validateTracklets (nodes.zip labels) edges) msgs ∧
      msgs.length = (trackletErrors (nodes.zip labels) edges).length) ∧
    (trackletErrorsInt64 nodes labels edges).map (·.1) =
      ((trackletErrors (nodes.zip labels) edges).map (·.1)).map toInt64 := by
  obtain ⟨h1, h2⟩ := C13_uint64_wrap_verdict nodes labels edges hn hl he hnd hacyc
  refine ⟨⟨(trackletErrorsInt64 nodes labels edges).filterMap fun p => message p.1 p.2, ?_, ?_⟩, h2⟩
  · rw [C13_arrays_result, h1]
  · have hlen : ∀ (l : List (Int × Verdict Int)), (∀ p ∈ l, (message p.1 p.2).isSome = true) →
        (l.filterMap fun p => message p.1 p.2).length = l.length := by
      intro l
      induction l with
      | nil => intro _; rfl
      | cons a t ih =>
        intro h
        obtain ⟨m, hm⟩ := Option.isSome_iff_exists.1 (h a List.mem_cons_self)
        rw [List.filterMap_cons, hm]
        simp only [List.length_cons]
        rw [ih fun p hp => h p (List.mem_cons_of_mem _ hp)]
    have := congrArg List.length h2
    simp only [List.length_map] at this
    rw [hlen _ (by unfold trackletErrorsInt64; exact C13_every_error_rendered _ _), this]

/-! ## through `validate_data` -/

theorem zip_map_fst_snd {β γ : Type} (nl : List (β × γ)) : (nl.map (·.1)).zip (nl.map (·.2)) = nl := by
  induction nl with
  | nil => rfl
  | cons p t ih => simp [ih]

/-- **dispatch**: nothing is validated (and nothing can be raised) when the geff declares no
`track_node_props`, when neither flag is set, or when the enabled kind is not declared -/
theorem C13_validate_data_dispatch (cfg : TrackCfg) (tnp : List (String × String))
    (props : List (String × IdProp)) (nodes : List Int) (edges : List (Int × Int)) :
    validateDataTracks cfg none props nodes edges = .ok ∧
    (cfg.tracklet = false → cfg.lineage = false →
      validateDataTracks cfg (some tnp) props nodes edges = .ok) ∧
    (tnp.lookup "tracklet" = none → cfg.lineage = false →
      validateDataTracks cfg (some tnp) props nodes edges = .ok) := by
  refine ⟨rfl, ?_, ?_⟩
  · intro h1 h2; simp [validateDataTracks, branch, h1, h2]
  · intro h1 h2
    cases hc : cfg.tracklet <;> simp [validateDataTracks, branch, h1, h2, hc]

/-- **order of checks, which error wins**: the tracklet branch runs first; whatever it raises is the
outcome of `validate_data` — the lineage branch is not reached — and only when it passes does the
lineage branch decide.  The key order of `track_node_props` plays no role
(`C13_track_node_props_key_order`). -/
theorem C13_tracklet_error_wins (cfg : TrackCfg) (tnp : List (String × String))
    (props : List (String × IdProp)) (nodes : List Int) (edges : List (Int × Int)) :
    (branch cfg.tracklet "tracklet" tnp props (fun p => trackletBranch nodes p edges) ≠ .ok →
      validateDataTracks cfg (some tnp) props nodes edges =
        branch cfg.tracklet "tracklet" tnp props (fun p => trackletBranch nodes p edges)) ∧
    (branch cfg.tracklet "tracklet" tnp props (fun p => trackletBranch nodes p edges) = .ok →
      validateDataTracks cfg (some tnp) props nodes edges =
        branch cfg.lineage "lineage" tnp props (fun p => lineageBranch nodes p edges)) := by
  unfold validateDataTracks
  constructor
  · intro h
    cases hb : branch cfg.tracklet "tracklet" tnp props (fun p => trackletBranch nodes p edges) <;>
      simp_all
  · intro h; simp only [h]

/-- the tracklet branch once the declared property is found -/
theorem C13_tracklet_branch (nodes : List Int) (p : IdProp) (edges : List (Int × Int))
    (hn : ∀ x ∈ nodes, InInt64 x) (hv : ∀ x ∈ p.values, InInt64 x)
    (he : ∀ e ∈ edges, InInt64 e.1 ∧ InInt64 e.2) (hnd : nodes.Nodup) (hacyc : Ranked edges) :
    (nodesWithId nodes p.values p.missing = none → trackletBranch nodes p edges = .indexError) ∧
    (∀ nl, nodesWithId nodes p.values p.missing = some nl →
      (trackletBranch nodes p edges = .ok ↔ TrackletSpecMasked nl edges) ∧
      (¬ TrackletSpecMasked nl edges → trackletBranch nodes p edges =
        .valueError "Found invalid tracklets:\n"
          ("\n".intercalate ((trackletErrors nl edges).filterMap fun q => message q.1 q.2))) ∧
      (∀ m', p.missing = some m' → ∀ q, q ∈ nl ↔ (q, false) ∈ (nodes.zip p.values).zip m') ∧
      (p.missing = none → nl = nodes.zip p.values)) := by
  refine ⟨fun h => by unfold trackletBranch; rw [h], ?_⟩
  intro nl hsel
  have hsub : ∀ q ∈ nl, q ∈ nodes.zip p.values := by
    cases hm : p.missing with
    | none => rw [hm, nodesWithId_none] at hsel; cases hsel; exact fun _ h => h
    | some m' => rw [hm] at hsel; exact fun q hq => (nodesWithId_sublist nodes p.values m' nl hsel).subset hq
  have hn' : ∀ x ∈ nl.map (·.1), InInt64 x := by
    intro x hx
    obtain ⟨q, hq, rfl⟩ := List.mem_map.1 hx
    exact hn _ (List.of_mem_zip (hsub q hq)).1
  have hv' : ∀ x ∈ nl.map (·.2), InInt64 x := by
    intro x hx
    obtain ⟨q, hq, rfl⟩ := List.mem_map.1 hx
    exact hv _ (List.of_mem_zip (hsub q hq)).2
  have hnd' : (nl.map (·.1)).Nodup := nodesWithId_nodup nodes p.values p.missing nl hsel hnd
  have hid := C13_int64_cast_identity (nl.map (·.1)) (nl.map (·.2)) edges hn' hv' he
  have hres := C13_arrays_result (nl.map (·.1)) (nl.map (·.2)) edges
  rw [hid, zip_map_fst_snd] at hres
  have hiff := C13_iff_masked nl edges hnd' hacyc
  have hout : trackletBranch nodes p edges =
      match (trackletErrors nl edges).isEmpty with
      | true => .ok
      | false => .valueError "Found invalid tracklets:\n"
          ("\n".intercalate ((trackletErrors nl edges).filterMap fun q => message q.1 q.2)) := by
    unfold trackletBranch
    rw [hsel]
    simp only [hres]
    cases (trackletErrors nl edges).isEmpty <;> rfl
  refine ⟨?_, ?_, ?_, ?_⟩
  · rw [hout, ← hiff]
    unfold validateTracklets
    cases (trackletErrors nl edges).isEmpty <;> simp
  · intro hns
    have : (trackletErrors nl edges).isEmpty = false := by
      cases h : (trackletErrors nl edges).isEmpty with
      | false => rfl
      | true => exact absurd (hiff.1 h) hns
    rw [hout, this]
  · intro m' hm q; rw [hm] at hsel; exact mem_nodesWithId nodes p.values m' nl hsel q
  · intro hm; rw [hm, nodesWithId_none] at hsel; cases hsel; rfl

/-- **C13 through `validate_data`** with tracklet validation enabled on a geff that declares a
tracklet property `key`: a declared property that is not among the node properties is
`KeyError(key)`; otherwise the outcome of the tracklet branch is the one of
`C13_tracklet_branch`, and it is the outcome of the whole block unless it passes and lineage
validation is enabled too. -/
theorem C13_validate_data_tracklet (cfg : TrackCfg) (tnp : List (String × String))
    (props : List (String × IdProp)) (nodes : List Int) (edges : List (Int × Int)) (key : String)
    (hcfg : cfg.tracklet = true) (hkey : tnp.lookup "tracklet" = some key) :
    (props.lookup key = none →
      validateDataTracks cfg (some tnp) props nodes edges = .keyError key) ∧
    (∀ p, props.lookup key = some p →
      (trackletBranch nodes p edges ≠ .ok →
        validateDataTracks cfg (some tnp) props nodes edges = trackletBranch nodes p edges) ∧
      (trackletBranch nodes p edges = .ok → cfg.lineage = false →
        validateDataTracks cfg (some tnp) props nodes edges = .ok)) := by
  have hb : ∀ r, branch cfg.tracklet "tracklet" tnp props r =
      match props.lookup key with
      | none => .keyError key
      | some p => r p := by
    intro r; unfold branch; rw [hcfg, hkey]; rfl
  obtain ⟨hw1, hw2⟩ := C13_tracklet_error_wins cfg tnp props nodes edges
  constructor
  · intro hnone
    have : branch cfg.tracklet "tracklet" tnp props (fun p => trackletBranch nodes p edges) = .keyError key := by
      rw [hb, hnone]
    rw [hw1 (by rw [this]; simp), this]
  · intro p hp
    have : branch cfg.tracklet "tracklet" tnp props (fun p => trackletBranch nodes p edges) =
        trackletBranch nodes p edges := by rw [hb, hp]
    constructor
    · intro hne; rw [hw1 (by rw [this]; exact hne), this]
    · intro hok hlin
      rw [hw2 (by rw [this]; exact hok)]
      unfold branch; rw [hlin]; rfl

/-- **outcome classes**: the block ends in `ok`, in one of the two `ValueError`s (first argument
`"Found invalid tracklets:\n"` or `"Found invalid lineages:\n"`), in `KeyError(k)` for a property
name `k` declared in `track_node_props`, or in numpy's `IndexError` (mask length); no exception
escapes from `validate_tracklets` itself. -/
theorem C13_validate_data_outcomes (cfg : TrackCfg) (tnp : Option (List (String × String)))
    (props : List (String × IdProp)) (nodes : List Int) (edges : List (Int × Int)) :
    (∀ name, validateDataTracks cfg tnp props nodes edges ≠ .raised name) ∧
    (∀ a b, validateDataTracks cfg tnp props nodes edges = .valueError a b →
      a = "Found invalid tracklets:\n" ∨ a = "Found invalid lineages:\n") ∧
    (∀ k, validateDataTracks cfg tnp props nodes edges = .keyError k →
      ∃ l, tnp = some l ∧ k ∈ l.map (·.2)) := by
  have hT : ∀ p, (∀ name, trackletBranch nodes p edges ≠ .raised name) ∧
      (∀ a b, trackletBranch nodes p edges = .valueError a b → a = "Found invalid tracklets:\n") ∧
      (∀ k, trackletBranch nodes p edges ≠ .keyError k) := by
    intro p
    unfold trackletBranch
    cases nodesWithId nodes p.values p.missing with
    | none => simp
    | some nl =>
      simp only [C13_arrays_result]
      cases (trackletErrorsInt64 (nl.map (·.1)) (nl.map (·.2)) edges).isEmpty <;> simp
  have hL : ∀ p, (∀ name, lineageBranch nodes p edges ≠ .raised name) ∧
      (∀ a b, lineageBranch nodes p edges = .valueError a b → a = "Found invalid lineages:\n") ∧
      (∀ k, lineageBranch nodes p edges ≠ .keyError k) := by
    intro p
    unfold lineageBranch validateDataLineage
    cases nodesWithId nodes p.values p.missing with
    | none => simp [ofLineage]
    | some nl =>
      simp only
      split <;> simp [ofLineage]
  have hB : ∀ (en : Bool) (nm : String) (l : List (String × String)) (run : IdProp → DataOutcome),
      ((∀ p, (∀ name, run p ≠ .raised name) ∧ (∀ a b, run p = .valueError a b → a = "Found invalid tracklets:\n" ∨ a = "Found invalid lineages:\n") ∧
        (∀ k, run p ≠ .keyError k)) →
      (∀ name, branch en nm l props run ≠ .raised name) ∧
      (∀ a b, branch en nm l props run = .valueError a b → a = "Found invalid tracklets:\n" ∨ a = "Found invalid lineages:\n") ∧
      (∀ k, branch en nm l props run = .keyError k → k ∈ l.map (·.2))) := by
    intro en nm l run hrun
    unfold branch
    cases en with
    | false => simp
    | true =>
      simp only [if_true]
      cases hk : l.lookup nm with
      | none => simp
      | some key =>
        simp only
        cases hp : props.lookup key with
        | none =>
          simp only [ne_eq, reduceCtorEq, not_false_eq_true, implies_true, false_implies,
            DataOutcome.keyError.injEq, true_and]
          intro k hk'
          subst hk'
          have := List.lookup_eq_some_iff.1 hk
          obtain ⟨l1, l2, hl, _⟩ := this
          rw [hl]; simp
        | some p =>
          simp only
          obtain ⟨h1, h2, h3⟩ := hrun p
          exact ⟨h1, h2, fun k hk' => absurd hk' (h3 k)⟩
  cases tnp with
  | none => simp [validateDataTracks]
  | some l =>
    have b1 := hB cfg.tracklet "tracklet" l (fun p => trackletBranch nodes p edges) (fun p =>
      ⟨(hT p).1, fun a b h => Or.inl ((hT p).2.1 a b h), (hT p).2.2⟩)
    have b2 := hB cfg.lineage "lineage" l (fun p => lineageBranch nodes p edges) (fun p =>
      ⟨(hL p).1, fun a b h => Or.inr ((hL p).2.1 a b h), (hL p).2.2⟩)
    unfold validateDataTracks
    simp only
    cases hb : branch cfg.tracklet "tracklet" l props (fun p => trackletBranch nodes p edges) with
    | ok =>
      simp only
      exact ⟨b2.1, b2.2.1, fun k hk => ⟨l, rfl, b2.2.2 k hk⟩⟩
    | valueError a b => rw [hb] at b1; exact ⟨b1.1, b1.2.1, fun k hk => ⟨l, rfl, b1.2.2 k hk⟩⟩
    | keyError k => rw [hb] at b1; exact ⟨b1.1, b1.2.1, fun k hk => ⟨l, rfl, b1.2.2 k hk⟩⟩
    | indexError => rw [hb] at b1; exact ⟨b1.1, b1.2.1, fun k hk => ⟨l, rfl, b1.2.2 k hk⟩⟩
    | raised name => rw [hb] at b1; exact absurd rfl (b1.1 name)

/-! ## the key order of `track_node_props` -/
theorem lookup_perm {β γ : Type} [DecidableEq β] (k : β) {l l' : List (β × γ)} (h : l.Perm l')
    (hnd : (l.map (·.1)).Nodup) : l.lookup k = l'.lookup k := by
  induction h with
  | nil => rfl
  | cons x _ ih =>
    obtain ⟨x1, x2⟩ := x
    simp only [List.map_cons, List.nodup_cons] at hnd
    simp only [List.lookup_cons, ih hnd.2]
  | swap x y l =>
    obtain ⟨x1, x2⟩ := x
    obtain ⟨y1, y2⟩ := y
    simp only [List.map_cons, List.nodup_cons, List.mem_cons, not_or] at hnd
    have hne : y1 ≠ x1 := hnd.1.1
    simp only [List.lookup_cons]
    cases hky : (k == y1) <;> cases hkx : (k == x1) <;> simp_all
  | trans h1 _ ih1 ih2 =>
    rw [ih1 hnd, ih2 ((h1.map _).nodup_iff.1 hnd)]

/-- **the key order of `track_node_props` is irrelevant** (a Python dict has unique keys): listing
the lineage key before the tracklet key changes neither what is validated nor which error wins. -/
theorem C13_track_node_props_key_order (cfg : TrackCfg) (tnp tnp' : List (String × String))
    (h : tnp.Perm tnp') (hnd : (tnp.map (·.1)).Nodup)
    (props : List (String × IdProp)) (nodes : List Int) (edges : List (Int × Int)) :
    validateDataTracks cfg (some tnp) props nodes edges =
      validateDataTracks cfg (some tnp') props nodes edges := by
  unfold validateDataTracks branch
  simp only [lookup_perm "tracklet" h hnd, lookup_perm "lineage" h hnd]

/-! ## non-vacuity (evaluations of the model; tests, not the unbounded claims) -/
-- valid: 1→2 one tracklet; 3 isolated
example : validateTrackletsArrays [1, 2, 3] [7, 7, 8] [(1, 2)] = .result true [] := by decide
-- messages verbatim, loop order = first occurrence of the id
example : validateTrackletsArrays [1, 2, 3] [7, 8, 7] [(1, 2)] =
    .result false ["Tracklet 7: Not fully connected.",
                   "Tracklet 8: Not maximal. Path can extend backward to node 1."] := by decide
-- both enabled, both invalid, lineage key first: the tracklet error wins
example : validateDataTracks ⟨true, true⟩ (some [("lineage", "lin"), ("tracklet", "trk")])
    [("lin", ⟨[1, 2], none⟩), ("trk", ⟨[5, 6], none⟩)] [1, 2] [(1, 2)] =
    .valueError "Found invalid tracklets:\n"
      "Tracklet 5: Not maximal. Path can extend forward to node 2.\nTracklet 6: Not maximal. Path can extend backward to node 1." := by
  decide +kernel
-- tracklets valid, lineages invalid
example : validateDataTracks ⟨true, true⟩ (some [("tracklet", "trk"), ("lineage", "lin")])
    [("lin", ⟨[1, 2], none⟩), ("trk", ⟨[5, 5], none⟩)] [1, 2] [(1, 2)] =
    .valueError "Found invalid lineages:\n"
      "Lineage 1: Does not form a valid, isolated connected component.\nLineage 2: Does not form a valid, isolated connected component." := by
  decide +kernel
-- declared but not loaded: KeyError; mask of the wrong length: IndexError
example : validateDataTracks ⟨true, false⟩ (some [("tracklet", "trk")]) [] [1, 2] [(1, 2)] = .keyError "trk" := by decide
example : validateDataTracks ⟨true, false⟩ (some [("tracklet", "trk")])
    [("trk", ⟨[5, 5], some [false]⟩)] [1, 2] [(1, 2)] = .indexError := by decide
-- masked: node 3 carries no id, the tracklet {1,2} could be extended into it
example : validateDataTracks ⟨true, false⟩ (some [("tracklet", "trk")])
    [("trk", ⟨[5, 5, 0], some [false, false, true]⟩)] [1, 2, 3] [(1, 2), (2, 3)] =
    .valueError "Found invalid tracklets:\n" "Tracklet 5: Not maximal. Path can extend forward to node 3." := by
  decide

end GeffProps.C13
