import GeffProps.C09
import GeffProps.C01
import GeffProofs.LinkStorePReadFull
/-! # C09 ← C01 — a partial read of a written graph is the restriction of the graph that was written

`GeffProps.C09.C09_build_eq_restrict` relates a partial `GeffReader.build` to the *full read of the same
store* (`Geff.PRead.readToMemory`, C09's own model on C09's own store abstraction: contents as rows).
`GeffProps.C01.C01_roundtrip_validated` relates C01's full read (`Geff.WR.readCore`, on the flat path →
entry store) to the graph that was written.  The two store abstractions are connected here
(`Geff.Link.absStore`: the flat store's contents as C09's reader sees them; `Geff.Link.memOf`: C01's read
result as C09's in-memory geff — `GeffProofs/LinkStorePRead*.lean`):

* `C09_full_read_is_C01_read`: on every store C01's writer produces, C09's full-read model on the
  translated contents returns the translation of what C01's reader model returns, and the translated
  store meets C09's hypothesis `Store.WF` (so that hypothesis of `C09_build_eq_restrict` is discharged on
  written stores);
* `C09_partial_read_of_written`: composition with C01's round trip — writing a well-formed graph and
  then reading any selection of properties under any masks returns exactly the restriction of **the
  graph that was written** (ids, edges, every written property, float16 upcast, by name). -/
namespace GeffProps.C09Links
open Geff.Np Geff.Store Geff.WR Geff.Link
open Gen.Paths (NODES EDGES IDS PROPS)

/-- **C09 ← C01 (the two full reads agree on written stores)**: under the hypotheses of C01's validated
round trip, with integer-valued id arrays: C01's `write_arrays` model succeeds with a store `s'` whose
translated contents `S` exist, are well formed in C09's sense, and on which C09's `read_to_memory` model
returns the translation `full` of what C01's `read_to_memory` model returns (`r`, which is the written
graph: `GeffProps.C01.Spec`). -/
theorem C09_full_read_is_C01_read (s0 : St) (g : InMem) (md : CallerMeta) (n e : Nat) (nps eps : Props)
    (hfresh : Fresh s0) (hwf : WFGeff g n e nps eps) (hax : Geff.Bridge.AxesStrict md n nps)
    (hmdN : ∀ kv ∈ md.nodeProps, kv.1 ∈ (expectedNodeProps md n nps).map (·.1))
    (hmdE : ∀ kv ∈ md.edgeProps, kv.1 ∈ eps.map (·.1))
    (ids : List Int) (hids : intsOf g.nodeIds.flat = some ids)
    (es : List (Int × Int)) (hes : (intsOf g.edgeIds.flat).bind pairsOf = some es) :
    ∃ s' r S full, writeArrays vlenCodec Geff.Bridge.validate s0 g md = .ok s' ∧
      readToMemory vlenCodec Geff.Bridge.validate s' = .ok r ∧
      GeffProps.C01.Spec g.nodeIds g.edgeIds (expectedNodeProps md n nps) eps r ∧
      absStore s' = some S ∧ memOf r = some full ∧ S.WF = true ∧ S.ids = ids ∧ S.edges = es ∧
      ids.length = n ∧ es.length = e ∧
      Geff.PRead.readToMemory castId S = .ok full ∧
      (∀ k p, lookupKey k (expectedNodeProps md n nps) = some p →
        ∃ mp, memPropOf (upcast p) = some mp ∧ Geff.PRead.lookup k full.nodeProps = some mp) ∧
      (∀ k p, lookupKey k eps = some p →
        ∃ mp, memPropOf (upcast p) = some mp ∧ Geff.PRead.lookup k full.edgeProps = some mp) := by
  obtain ⟨s', r, hw, hrd, hcore, _, hW, h1, h2, _, _, _, _⟩ := roundtrip_exact s0 g md n e nps eps hfresh hwf hax hmdN hmdE
  obtain ⟨hnd, hwr, _⟩ := expected_spec md n nps hwf.nodeNames hwf.nodeOK hax.ok
  have hrows := expected_rows md n nps hwf.nodeNames hwf.nodeOK
  obtain ⟨hkn, hke⟩ := written_groupKeys_nodup vlenCodec s0 s' g md {} hfresh
    (writeCore_of_writeArrays _ _ s0 s' g md hw)
  have hidn : ids.length = n := by
    rw [intsOf_length _ _ hids, hwf.nodeIdsWF, hwf.nodeShape]; simp [prod]
  have hesn : es.length = e := by
    cases hi : intsOf g.edgeIds.flat with
    | none => rw [hi] at hes; cases hes
    | some l =>
      rw [hi] at hes
      simp only [Option.bind_some] at hes
      have h1 := pairsOf_length l.length l es (Nat.le_refl _) hes
      have h2 := intsOf_length _ _ hi
      have h3 : g.edgeIds.flat.length = e * 2 := by rw [hwf.edgeIdsWF, hwf.edgeShape]; simp [prod]
      omega
  obtain ⟨S, full, hS, hfull, hSwf, hSi, hSe, hpread⟩ := pread_full_eq_readCore s0 s' g.nodeIds g.edgeIds
    (expectedNodeProps md n nps) eps md n e hW hnd hwr hrows hwf.edgeNames (fun kp hm => (hwf.edgeOK kp hm).1)
    (fun kp hm => (hwf.edgeOK kp hm).2) hmdN hmdE ids hids hidn es hes hesn hkn hke r hcore
  obtain ⟨r', hr', _, _, _, h4, h5⟩ := readCore_written vlenCodec vlenCodec_lawful s0 s' g.nodeIds g.edgeIds
    (expectedNodeProps md n nps) eps md hW hnd hwr hwf.edgeNames (fun kp hm => (hwf.edgeOK kp hm).1)
  rw [hcore] at hr'
  cases hr'
  have hspec : GeffProps.C01.Spec g.nodeIds g.edgeIds (expectedNodeProps md n nps) eps r :=
    ⟨h1, h2, GeffProps.C01.sameProps_of_lookup _ _ h4, GeffProps.C01.sameProps_of_lookup _ _ h5⟩
  -- the properties of `full`, by name
  unfold memOf at hfull
  cases hi : intsOf r.nodeIds.flat with
  | none => simp [hi] at hfull
  | some ids' =>
    cases he : (intsOf r.edgeIds.flat).bind pairsOf with
    | none => simp [hi, he] at hfull
    | some es' =>
      cases hPn : optMapSnd memPropOf r.nodeProps with
      | none => simp [hi, he, hPn] at hfull
      | some Pn =>
        cases hPe : optMapSnd memPropOf r.edgeProps with
        | none => simp [hi, he, hPn, hPe] at hfull
        | some Pe =>
          cases hMn : optMapSnd pmOf r.md.nodeProps with
          | none => simp [hi, he, hPn, hPe, hMn] at hfull
          | some Mn =>
            cases hMe : optMapSnd pmOf r.md.edgeProps with
            | none => simp [hi, he, hPn, hPe, hMn, hMe] at hfull
            | some Me =>
              simp only [hi, he, hPn, hPe, hMn, hMe, Option.some.injEq] at hfull
              subst hfull
              refine ⟨s', r, S, _, hw, hrd, hspec, hS, (by unfold memOf; simp only [hi, he, hPn, hPe, hMn, hMe]), hSwf, hSi, hSe,
                hidn, hesn, hpread, ?_, ?_⟩
              · intro k p hk
                have := h4 k
                rw [hk] at this
                exact optMapSnd_lookup memPropOf r.nodeProps Pn hPn k (upcast p) this
              · intro k p hk
                have := h5 k
                rw [hk] at this
                exact optMapSnd_lookup memPropOf r.edgeProps Pe hPe k (upcast p) this

/-- **C09 ∘ C01**: write a well-formed graph with C01's `write_arrays` model, then — on the store that
results — run any sequence of `read_node_props` / `read_edge_props` calls and `build` with any masks of
the right length (C09's model): the result is exactly `restrict` (C09's specification) of `full`, and
`full` is the graph that was written: its node ids and edges are the written ones and, by name, every
written node / edge property (float16 upcast).  Without a node mask the written edges must join written
nodes (`hclosed`; part of C12's graph validity, cf. `C09_build_eq_restrict`). -/
theorem C09_partial_read_of_written (s0 : St) (g : InMem) (md : CallerMeta) (n e : Nat) (nps eps : Props)
    (hfresh : Fresh s0) (hwf : WFGeff g n e nps eps) (hax : Geff.Bridge.AxesStrict md n nps)
    (hmdN : ∀ kv ∈ md.nodeProps, kv.1 ∈ (expectedNodeProps md n nps).map (·.1))
    (hmdE : ∀ kv ∈ md.edgeProps, kv.1 ∈ eps.map (·.1))
    (ids : List Int) (hids : intsOf g.nodeIds.flat = some ids)
    (es : List (Int × Int)) (hes : (intsOf g.edgeIds.flat).bind pairsOf = some es)
    (calls : List Geff.PRead.Call) (nm em : Option (List Bool))
    (hnm : ∀ m, nm = some m → m.length = n) (hem : ∀ m, em = some m → m.length = e)
    (hclosed : nm = none → ∀ ed ∈ es, ed.1 ∈ ids ∧ ed.2 ∈ ids) :
    ∃ s' S full, writeArrays vlenCodec Geff.Bridge.validate s0 g md = .ok s' ∧ absStore s' = some S ∧
      Geff.PRead.build castId (Geff.PRead.runCalls (Geff.PRead.Reader.init S) calls) nm em =
        .ok (Geff.PRead.restrict (Geff.PRead.keys (Geff.PRead.runCalls (Geff.PRead.Reader.init S) calls).nodeProps)
               (Geff.PRead.keys (Geff.PRead.runCalls (Geff.PRead.Reader.init S) calls).edgeProps) nm em full) ∧
      full.nodeIds = ids ∧ full.edgeIds = es ∧
      (∀ k p, lookupKey k (expectedNodeProps md n nps) = some p →
        ∃ mp, memPropOf (upcast p) = some mp ∧ Geff.PRead.lookup k full.nodeProps = some mp) ∧
      (∀ k p, lookupKey k eps = some p →
        ∃ mp, memPropOf (upcast p) = some mp ∧ Geff.PRead.lookup k full.edgeProps = some mp) := by
  obtain ⟨s', r, S, full, hw, _, _, hS, _, hSwf, hSi, hSe, hidn, hesn, hpread, hpn, hpe⟩ :=
    C09_full_read_is_C01_read s0 g md n e nps eps hfresh hwf hax hmdN hmdE ids hids es hes
  have hbuild := GeffProps.C09.C09_build_eq_restrict castId S calls nm em full hSwf
    ⟨by rw [hSi, hidn]; exact hnm, by rw [hSe, hesn]; exact hem⟩
    (by
      intro h0
      unfold Geff.PRead.Store.edgesClosed
      rw [hSi, hSe, List.all_eq_true]
      intro ed hed
      have := hclosed h0 ed hed
      simp [this.1, this.2])
    hpread
  obtain ⟨fp, fe, _, _, hfe⟩ := Geff.PRead.full_read_spec castId S full hSwf hpread
  refine ⟨s', S, full, hw, hS, hbuild, ?_, ?_, hpn, hpe⟩
  · rw [hfe]; exact hSi
  · rw [hfe]; exact hSe

/-! ## non-vacuity: C01's example graph (`GeffProps.C01.exG`: uint64 ids at both ends of the range, a
masked float32 matrix, a var-length int8 property with a zero-sized element, a float64 axis `t`), written
into C01's example target with a foreign attribute and a foreign sibling array -/

def exWritten : Option St := (writeArrays vlenCodec Geff.Bridge.validate GeffProps.C01.exS0 GeffProps.C01.exG
  GeffProps.C01.exMd).toOption

/-- the translated contents of the written store exist; ids and the var-length table as C09 sees them -/
example : (exWritten.bind absStore).map (fun S => (S.ids, S.edges, Geff.PRead.keys S.nodeProps, S.WF)) =
    some ([18446744073709551615, 0], [(0, 18446744073709551615)], ["t", "poly", "values"], true) := by
  decide +kernel

/-- C09's model of a masked partial read (only `poly`, node 0 only) on the store C01's writer model wrote:
the kept id, no edge (its other endpoint is masked out), the var-length element of node 0 -/
example : (exWritten.bind absStore).bind (fun S =>
      (Geff.PRead.build castId (Geff.PRead.runCalls (Geff.PRead.Reader.init S) [.nodes (some ["poly"])])
        (some [true, false]) none).toOption.map
        (fun m => (m.nodeIds, m.edgeIds, m.nodeProps.map (fun p => (p.1, p.2.values))))) =
    some ([18446744073709551615], [], [("poly", .object [⟨.i8, [0, 2], []⟩])]) := by
  decide +kernel

end GeffProps.C09Links
