import GeffProps.C06
import GeffProofs.LinkStructKV
/-! # C06 ← C04: a geff C04's validator accepts is a geff the guard protects; a refused write leaves it valid

C06's theorems speak of `HoldsGeff f kv` (a root group document of format `f`, a `geff` attribute, no
shadowing format-3 root document) and of `checkForGeff`.  Through the tree view `toTargetKV I f kv` of the
key-value state (`GeffProofs/LinkStructKV.lean`, any interpretation `I` of the opaque documents) these are
tied to C04's model of `validate_structure`:

* every store the validator accepts holds a geff in C06's sense (`C06_validated_store_holds_geff`), so the
  hypothesis `HoldsGeff` of `C06_guard_sees_geff` / `C06_overwrite_eq_fresh` is discharged by C04 acceptance;
* a refused write leaves the store byte for byte, hence the validator's verdict on it is unchanged
  (`C06_refused_state_still_valid`; trivial, but it is the statement that ties the two models), and a valid
  geff stays valid (`C06_valid_geff_is_protected`). -/
namespace GeffProps.C06Links
open Geff.KV Geff.KV.Prog Gen.Paths Geff.LinkStruct

/-- a store C04's validator accepts when read in format `f` (and whose format-2 root is not shadowed by a
format-3 root document) holds a geff in the sense of C06 -/
theorem C06_validated_store_holds_geff (I : Interp) (f : Fmt) (kv : KV)
    (hval : Geff.Structure.validateStructure (toTargetKV I f kv) = .ok ()) (hclean : FmtClean f kv) :
    HoldsGeff f kv := by
  have hr := recognised_of_validate I f kv hval
  unfold recognised at hr
  simp only [Bool.and_eq_true] at hr
  obtain ⟨⟨⟨⟨⟨hattr, hroot⟩, _⟩, _⟩, _⟩, _⟩ := hr
  refine ⟨hroot, ?_, hclean⟩
  unfold geffAttrIn at hattr
  cases hg : get kv (rootDocKey f) with
  | none => rw [hg] at hattr; cases hattr
  | some b =>
    cases b with
    | raw _ => rw [hg] at hattr; cases hattr
    | root g o =>
      rw [hg] at hattr
      cases g with
      | none => cases hattr
      | some m => exact ⟨m, o, rfl⟩

/-- … so the guard of every entry point sees it, on every kind of store (`C06_guard_sees_geff` with its
hypothesis discharged by the validator) -/
theorem C06_guard_sees_validated_geff (I : Interp) (kind : Kind) (f : Fmt) (kv : KV)
    (hval : Geff.Structure.validateStructure (toTargetKV I f kv) = .ok ()) (hclean : FmtClean f kv) :
    checkForGeff kind kv = true :=
  GeffProps.C06.C06_guard_sees_geff kind f kv (C06_validated_store_holds_geff I f kv hval hclean)

/-- **after a refused write C04's verdict is unchanged** — for `write_arrays`, `write_dicts` and
`geff.write` / the converters, writing in any format `f`, and a reader of any format `fr` with any
interpretation of the documents: the store after the refusal is the store before, so
`validate_structure` returns on it what it returned before -/
theorem C06_refused_state_still_valid (I : Interp) (fr : Fmt) (d : Docs) (kind : Kind) (f : Fmt) (g : G)
    (validate : Bool) (kv : KV) (h : checkForGeff kind kv = true) :
    Geff.Structure.validateStructure (toTargetKV I fr (Prog.final (writeArrays d kind f g false validate) kv)) =
      Geff.Structure.validateStructure (toTargetKV I fr kv) ∧
    Geff.Structure.validateStructure (toTargetKV I fr (Prog.final (writeDicts d kind f g validate) kv)) =
      Geff.Structure.validateStructure (toTargetKV I fr kv) ∧
    Geff.Structure.validateStructure (toTargetKV I fr (Prog.final (apiWrite d kind f g false validate) kv)) =
      Geff.Structure.validateStructure (toTargetKV I fr kv) := by
  rw [(GeffProps.C06.C06_refuse_write_arrays d kind f g validate kv h).2.2,
    (GeffProps.C06.C06_refuse_write_dicts d kind f g validate kv h).2.2,
    (GeffProps.C06.C06_refuse_api d kind f g validate kv h).2.2]
  exact ⟨rfl, rfl, rfl⟩

/-- **a valid geff is protected**: where C04's validator accepts the store (read in format `fr`), every
entry point called without overwrite — writing any graph in any format — raises `FileExistsError`, performs
no mutation, and the store is still accepted afterwards -/
theorem C06_valid_geff_is_protected (I : Interp) (fr : Fmt) (d : Docs) (kind : Kind) (f : Fmt) (g : G)
    (validate : Bool) (kv : KV)
    (hval : Geff.Structure.validateStructure (toTargetKV I fr kv) = .ok ()) (hclean : FmtClean fr kv) :
    (writeArrays d kind f g false validate kv).val = .error .fileExists ∧
    (writeArrays d kind f g false validate kv).ops = [] ∧
    (apiWrite d kind f g false validate kv).val = .error .fileExists ∧
    (apiWrite d kind f g false validate kv).ops = [] ∧
    Geff.Structure.validateStructure (toTargetKV I fr (Prog.final (writeArrays d kind f g false validate) kv)) = .ok () ∧
    Geff.Structure.validateStructure (toTargetKV I fr (Prog.final (apiWrite d kind f g false validate) kv)) = .ok () := by
  have hc := C06_guard_sees_validated_geff I kind fr kv hval hclean
  obtain ⟨a1, a2, _⟩ := GeffProps.C06.C06_refuse_write_arrays d kind f g validate kv hc
  obtain ⟨b1, b2, _⟩ := GeffProps.C06.C06_refuse_api d kind f g validate kv hc
  obtain ⟨s1, _, s3⟩ := C06_refused_state_still_valid I fr d kind f g validate kv hc
  exact ⟨a1, a2, b1, b2, by rw [s1]; exact hval, by rw [s3]; exact hval⟩

/-- **C06, overwrite = fresh write, for every geff C04's validator accepts** — `C06_overwrite_eq_fresh` with
its hypothesis `HoldsGeff f kv₀` discharged by the validator's verdict on the old store -/
theorem C06_overwrite_eq_fresh_of_validated (I : Interp) (d : Docs) (kind : Kind) (f : Fmt) (g : G) (kv₀ : KV)
    (hval : Geff.Structure.validateStructure (toTargetKV I f kv₀) = .ok ()) (hclean : FmtClean f kv₀)
    (hvis : kind = .path → ForeignVisible f kv₀) :
    let ow := writeCommitted d kind f g true kv₀
    let fr := writeCommitted d kind f g false []
    ow.val = fr.val ∧
    (ow.val = .ok () → geffView f (run kv₀ ow.ops) = geffView f (run [] fr.ops) ∧
                        geffAttrIn f (run kv₀ ow.ops) = some g.geff) ∧
    ownedPart (run kv₀ ow.ops) = ownedPart (run [] fr.ops) ∧
    foreignPart (run kv₀ ow.ops) = foreignPart kv₀ :=
  GeffProps.C06.C06_overwrite_eq_fresh d kind f g kv₀ (C06_validated_store_holds_geff I f kv₀ hval hclean) hvis

/-! ## non-vacuity -/

section Examples

/-- the store of `GeffProps/C06.lean` (a MemoryStore with a foreign array and the geff "A"), under the
interpretation `exInterp` of its documents, is accepted by C04's validator and is format-clean: the
hypotheses of `C06_valid_geff_is_protected` / `C06_overwrite_eq_fresh_of_validated` are met -/
example : Geff.Structure.validateStructure (toTargetKV exInterp .v2 GeffProps.C06.exOld) = .ok () := by decide +kernel
example : FmtClean .v2 GeffProps.C06.exOld := fun _ => by decide +kernel
/-- … and without the `geff` attribute document the same store is rejected (the implication
`C06_validated_store_holds_geff` has a false conclusion to avoid) -/
example : Geff.Structure.validateStructure
    (toTargetKV exInterp .v2 (erase GeffProps.C06.exOld (rootDocKey .v2))) = .error .valueError := by decide +kernel

end Examples

end GeffProps.C06Links
