import GeffProps.C10
import GeffProofs.LinkStructMeta
/-! # C10 ← C04: the "successful validated write" of C10 discharged by C04's theorem

`GeffProps/C10.lean` models `write_arrays(..., structure_validation=True)` as `writeArraysValidated`:
the write succeeds iff the Bool `accepted n e w` holds of the description `w` of the written store —
`accepted` being documented as "what C04's `Conformant` guarantees" but written independently of C04.
Here that sentence is a theorem: for every C04 tree `t` that `w` describes (`Geff.LinkStruct.Describes`,
the view between C04's tree and C10's store description, `GeffProofs/LinkStructMeta.lean`),

    validateStructure t = ok  ⟹(C04_sound_complete)  Conformant t  ⟹(accepted_of_conformant)  accepted n e w,

so the C10 theorems hold with "the un-validated write returned `w` and C04's validator accepts a store
`w` describes" in place of the hypothesis `writeArraysValidated … = ok w`. -/
namespace GeffProps.C10Links
open Geff.Np Geff.MetaW Geff.LinkStruct
variable {κ : Type}

/-- **`Conformant t → accepted (view of t)`** — C04's specification of an accepted store implies C10's
`accepted`, for every description `w` of `t` -/
theorem C10_accepted_of_C04_conformant (n e : Nat) (w : Written κ) (t : Geff.Structure.Target)
    (hd : Describes n e w t) (hc : GeffProps.C04.Conformant t) : accepted n e w = true :=
  accepted_of_conformant n e w t hd hc

/-- … hence so does a normal return of C04's model of `validate_structure` (`C04_sound_complete`) -/
theorem C10_accepted_of_C04_validator (n e : Nat) (w : Written κ) (t : Geff.Structure.Target)
    (hd : Describes n e w t) (hval : Geff.Structure.validateStructure t = .ok ()) : accepted n e w = true :=
  accepted_of_conformant n e w t hd ((GeffProps.C04.C04_sound_complete t).1 hval)

section
variable [LT κ] [DecidableLT κ] [Min κ] [Max κ]

omit [LT κ] [DecidableLT κ] in
/-- C10's validated write succeeds whenever the un-validated one does and C04's validator accepts a store
the result describes -/
theorem C10_validated_write_of_C04 (md : Meta κ) (n e : Nat) (np ep : Option (List (String × PropData κ)))
    (nu eu : Option (List (String × List String))) (w : Written κ) (t : Geff.Structure.Target)
    (hw : writeArrays md n np ep nu eu = .ok w) (hd : Describes n e w t)
    (hval : Geff.Structure.validateStructure t = .ok ()) :
    writeArraysValidated md n e np ep nu eu = .ok w := by
  have hacc := C10_accepted_of_C04_validator n e w t hd hval
  unfold writeArraysValidated
  rw [hw]
  show (if accepted n e w = true then pure w else Except.error Err.valueError) = Except.ok w
  rw [if_pos hacc]; rfl

/-- **C10 (props metadata) with the validator of C04** — `C10_props_metadata_exact` with its hypothesis
"the validated write succeeded" replaced by: `write_arrays` (validation aside) returned `w`, and C04's
model of `validate_structure` returns normally on a store `t` that `w` describes.  Then the stored
`node_props_metadata` / `edge_props_metadata` have exactly one entry per stored property, each exact. -/
theorem C10_props_metadata_exact_via_C04 (md : Meta κ) (n e : Nat) (np ep : Option (List (String × PropData κ)))
    (nu eu : Option (List (String × List String))) (w : Written κ) (t : Geff.Structure.Target)
    (hmdn : GeffProps.C10.DictWF md.nodeProps) (hmde : GeffProps.C10.DictWF md.edgeProps)
    (hnp : GeffProps.C10.PropsWF np) (hep : GeffProps.C10.PropsWF ep)
    (hw : writeArrays md n np ep nu eu = .ok w) (hd : Describes n e w t)
    (hval : Geff.Structure.validateStructure t = .ok ()) :
    GeffProps.C10.PropsExact md.nodeProps w.md.nodeProps w.nodes ∧
    GeffProps.C10.PropsExact md.edgeProps w.md.edgeProps w.edges :=
  GeffProps.C10.C10_props_metadata_exact md n e np ep nu eu w hmdn hmde hnp hep
    (C10_validated_write_of_C04 md n e np ep nu eu w t hw hd hval)

end

section
variable [LT κ] [DecidableLT κ] [Min κ] [Max κ] [LE κ] [Std.IsLinearOrder κ] [Std.LawfulOrderMin κ]
  [Std.LawfulOrderMax κ]

/-- **C10 (axis range) with the validator of C04** — the same replacement in `C10_axis_range` -/
theorem C10_axis_range_via_C04 (md : Meta κ) (n e : Nat) (np ep : Option (List (String × PropData κ)))
    (nu eu : Option (List (String × List String))) (w : Written κ) (t : Geff.Structure.Target) (hn : 0 < n)
    (hw : writeArrays md n np ep nu eu = .ok w) (hd : Describes n e w t)
    (hval : Geff.Structure.validateStructure t = .ok ()) : GeffProps.C10.AxisRange n w :=
  GeffProps.C10.C10_axis_range md n e np ep nu eu w hn
    (C10_validated_write_of_C04 md n e np ep nu eu w t hw hd hval)

end

/-! ## non-vacuity: the concrete write of `GeffProps/C10.lean` and a store it describes -/

section Examples
open Geff.Structure (Node Grp Target)

/-- what `writeArrays exMd 3 (some exNodes) (some []) none none` returns -/
def exWritten : Written Int :=
  { md := { GeffProps.C10.exMd with
      axes := some [{ name := "x", type := some "space", unit := some "pixel", min := some (-1), max := some 7,
                      scale := some "0.5", scaledUnit := none, offset := some "2.0" }],
      nodeProps := [("x", { identifier := "x", dtype := "float64", varlength := false, unit := some "um",
                            name := none, description := some "stale dtype and flag" }),
                    ("v", { identifier := "v", dtype := "int64", varlength := true, unit := none,
                            name := none, description := none })] },
    nodes := some [{ name := "x", dtype := .f64, hasData := false, hasMissing := false, len := 3, ndim := 1,
                     rows := [[3], [-1], [7]] },
                   { name := "v", dtype := .i64, hasData := true, hasMissing := true, len := 3, ndim := 2, rows := [] }],
    edges := some [] }

example : (writeArrays GeffProps.C10.exMd 3 (some GeffProps.C10.exNodes) (some []) none none).toOption = some exWritten := by
  decide

def exX : Grp := [("values", .array ⟨.f64, [3]⟩)]
def exV : Grp := [("values", .array ⟨.u64, [3, 2]⟩), ("data", .array ⟨.i64, [3]⟩), ("missing", .array ⟨.bool, [3]⟩)]
def exNodeProps : Grp := [("x", .group exX), ("v", .group exV)]
def exNodesG : Grp := [("ids", .array ⟨.i64, [3]⟩), ("props", .group exNodeProps)]
def exEdgesG : Grp := [("ids", .array ⟨.i64, [0, 2]⟩), ("props", .group [])]
def exGraph : Grp := [("nodes", .group exNodesG), ("edges", .group exEdgesG)]
def exMeta : Geff.Structure.Meta := ⟨[("x", ⟨.f64, false⟩), ("v", ⟨.i64, true⟩)], [], some ["x"]⟩
/-- the store that write leaves, as C04's tree -/
def exTree : Target := .store (some (.group exGraph)) (.ok exMeta)

example : Geff.Structure.validateStructure exTree = .ok () := by decide

/-- `exWritten` describes `exTree` -/
theorem exWritten_describes_exTree : Describes 3 0 exWritten exTree := by
  refine ⟨?_, ?_⟩
  · intro m hm
    cases hm
    refine ⟨?_, ?_, rfl⟩ <;> intro k <;>
      simp [Geff.Structure.keys, Geff.MetaW.keys, exWritten, exMeta, GeffProps.C10.exMd]
  · intro graph hg
    cases hg
    refine ⟨?_, ?_⟩
    · intro nodes hn
      have h0 : Geff.Structure.get exGraph Gen.Paths.NODES = some (.group exNodesG) := rfl
      rw [h0] at hn; cases hn
      refine ⟨⟨exNodeProps, rfl, ?_, ?_⟩, ?_⟩
      · intro k; simp [Geff.Structure.keys, exNodeProps]
      · intro st hst pn hpn
        simp only [List.mem_cons, List.not_mem_nil, or_false] at hst
        rcases hst with rfl | rfl
        · have h1 : Geff.Structure.get exNodeProps "x" = some (.group exX) := rfl
          rw [h1] at hpn; cases hpn
          exact ⟨exX, ⟨.f64, [3]⟩, rfl, rfl, rfl, rfl, rfl, rfl⟩
        · have h1 : Geff.Structure.get exNodeProps "v" = some (.group exV) := rfl
          rw [h1] at hpn; cases hpn
          exact ⟨exV, ⟨.u64, [3, 2]⟩, rfl, rfl, rfl, rfl, rfl, rfl⟩
      · intro ids hi
        have h1 : Geff.Structure.get exNodesG Gen.Paths.IDS = some (.array ⟨.i64, [3]⟩) := rfl
        rw [h1] at hi; cases hi; rfl
    · intro edges he
      have h0 : Geff.Structure.get exGraph Gen.Paths.EDGES = some (.group exEdgesG) := rfl
      rw [h0] at he; cases he
      refine ⟨⟨[], rfl, ?_, ?_⟩, ?_⟩
      · intro k; simp [Geff.Structure.keys]
      · intro st hst; simp at hst
      · intro ids hi
        have h1 : Geff.Structure.get exEdgesG Gen.Paths.IDS = some (.array ⟨.i64, [0, 2]⟩) := rfl
        rw [h1] at hi; cases hi; rfl

/-- the hypotheses of `C10_props_metadata_exact_via_C04` are met by this write and this tree … -/
example : writeArrays GeffProps.C10.exMd 3 (some GeffProps.C10.exNodes) (some []) none none = .ok exWritten := by
  have h : (writeArrays GeffProps.C10.exMd 3 (some GeffProps.C10.exNodes) (some []) none none).toOption = some exWritten := by
    decide
  cases hr : writeArrays GeffProps.C10.exMd 3 (some GeffProps.C10.exNodes) (some []) none none with
  | error e => rw [hr] at h; cases h
  | ok w => rw [hr] at h; simp only [Except.toOption, Option.some.injEq] at h; rw [h]

/-- … and the link is not vacuous in the other direction either: a store description that C10's `accepted`
refuses (the stale edge entry of `GeffProps.C10.exStale`) describes no tree C04's validator accepts — here
the tree above with that entry in its metadata is rejected -/
example : Geff.Structure.validateStructure
    (.store (some (.group exGraph)) (.ok { exMeta with edgeProps := [("gone", ⟨.i8, false⟩)] })) = .error .valueError := by
  decide

end Examples

end GeffProps.C10Links
