import GeffProofs.BaseReadGen
import GeffProps.C09
/-! # C09 on the source-derived reader (translator T20)

`Gen.BaseRead` is regenerated on every run from `geff/core_io/_base_read.py` of the tree under test by
`harness/translators/t20_pydo_base_read.py`: the methods `_mask_to_indices`, `_load_zarr_subset`,
`_load_prop_to_memory`, `build`, `read_node_props`, `read_edge_props` of `GeffReader`, statement by
statement, as Lean `do`-blocks over the zarr / numpy / dict primitives of `GeffModel/PyDoRead.lean`
(each defined from the primitives of the hand-written model `GeffModel/PartialRead.lean`; the var-length
branch calls the *generated* `Gen.Serialization.deserializeVlenPropertyData` of T12).

Property theorems only (proofs of the equalities: `GeffProofs/BaseReadGen.lean`):

* `translated` — the translator accepted every construct of the six methods;
* `C09Gen_*_eq` — each generated function equals the hand-written model function for **all** inputs (the
  packaging differs and is exact: `packRows` adds the trailing shape to the loaded rows, `toGenProp` /
  `toGen` turn the model's result into the dicts Python returns, `packRead` turns "new reader + pending
  exception" into the state-monad result).  For `_load_prop_to_memory` and `build` the equality needs the
  offset table of every *var-length* property to be a table (`TablesOk`: at most 2-D, one row of
  non-negative integers per element after the uint64 cast — outside this the hand-written model says
  "unmodelled" and claims nothing);
* `C09Gen_build_eq_restrict` — the C09 refinement theorem transported to the generated code: the
  generated `build`, on the reader produced by any sequence of generated `read_*_props` calls, under any
  masks of the right length, equals `restrict` of the generated full read;
* `C09Gen_no_dangling_edge`, `C09Gen_metadata_exact`, and the error statements
  `C09Gen_error_only_wrong_length` / `C09Gen_wrong_node_mask` / `C09Gen_wrong_edge_mask`. -/
namespace GeffProps.C09Gen
open Geff.Np Geff.PRead Geff.PyDoRead GeffProofs.BaseReadGen
open GeffProps.C09 (MasksFit exStore castId)

/-- every method of the reader was inside the translator's subset -/
theorem translated : Gen.BaseRead.translationOk = true := by decide

/-! ## generated function = hand-written model function, for all inputs -/

/-- `_mask_to_indices`: `None` stays `None`, a mask of the wrong length is an `IndexError`, otherwise
the positions of the `True` entries in increasing order -/
theorem C09Gen_maskToIndices_eq (mask : Option (List Bool)) (n : Nat) :
    Gen.BaseRead.maskToIndices mask n = Geff.PRead.maskToIndices mask n :=
  maskToIndices_eq mask n

/-- `_load_zarr_subset`: the rows at the indices in the given order (the whole array for `None`, no
rows — and the trailing shape kept — for the empty selection, `IndexError` out of bounds) -/
theorem C09Gen_loadZarrSubset_eq {α : Type} (z : ZArr α) (idx : Option (List Nat)) :
    Gen.BaseRead.loadZarrSubset z idx = packRows z.trail (Geff.PRead.loadZarrSubset z.rows idx) :=
  loadZarrSubset_eq z idx

/-- `_load_prop_to_memory`, including the var-length branch through the generated decoder of T12 -/
theorem C09Gen_loadPropToMemory_eq (cast : Dtype → Val → Val) (zp : ZarrProp) (mask : Option (List Bool))
    (pm : PropMeta) (htab : pm.varlength = true → TableOk cast zp) :
    Gen.BaseRead.loadPropToMemory cast zp mask pm = toGenProp <$> Geff.PRead.loadPropToMemory cast zp mask pm :=
  loadPropToMemory_eq cast zp mask pm htab

/-- `build` on any reader whose loaded-property dicts and metadata dicts have unique keys (Python
dicts always have) -/
theorem C09Gen_build_eq (cast : Dtype → Val → Val) (r : Reader) (nm em : Option (List Bool))
    (hn : (keys r.nodeProps).Nodup) (he : (keys r.edgeProps).Nodup)
    (hmn : (keys r.store.nodeMeta).Nodup) (hme : (keys r.store.edgeMeta).Nodup)
    (htn : TablesOk cast r.store.nodeMeta r.nodeProps) (hte : TablesOk cast r.store.edgeMeta r.edgeProps) :
    Gen.BaseRead.build cast r nm em = toGen <$> Geff.PRead.build cast r nm em :=
  build_eq cast r nm em hn he hmn hme htn hte

/-- `read_node_props`: the reader afterwards and the pending exception are those of the model, for
every reader state and every argument (`None`, names, repeated names, unknown names) -/
theorem C09Gen_readNodeProps_eq (names : Option (List String)) (r : Reader) :
    Gen.BaseRead.readNodeProps names r = packRead (Geff.PRead.readNodeProps r names) :=
  readNodeProps_eq names r

theorem C09Gen_readEdgeProps_eq (names : Option (List String)) (r : Reader) :
    Gen.BaseRead.readEdgeProps names r = packRead (Geff.PRead.readEdgeProps r names) :=
  readEdgeProps_eq names r

/-- any sequence of calls of the generated methods leaves the reader the model predicts -/
theorem C09Gen_runCalls_eq (r : Reader) (calls : List Call) : genRunCalls r calls = runCalls r calls :=
  genRunCalls_eq r calls

/-! ## the refinement theorem on the generated code -/

/-- what the theorems assume about the store: `Store.WF` (C09: unique property names, one row per
node / edge — what `validate_structure` accepts), metadata dicts with unique keys (a Python dict), and
var-length offset tables that are tables -/
structure StoreOk (cast : Dtype → Val → Val) (s : Store) : Prop where
  wf : s.WF = true
  nodeMetaKeys : (keys s.nodeMeta).Nodup
  edgeMetaKeys : (keys s.edgeMeta).Nodup
  nodeTables : TablesOk cast s.nodeMeta s.nodeProps
  edgeTables : TablesOk cast s.edgeMeta s.edgeProps

/-- the full read through the generated code: `GeffReader(store)`, `read_node_props(None)`,
`read_edge_props(None)`, `build()` — the body of `read_to_memory` without data validation -/
def genFullRead (cast : Dtype → Val → Val) (s : Store) : Res GInMem :=
  Gen.BaseRead.build cast (genRunCalls (Reader.init s) [.nodes none, .edges none]) none none

/-- generated `build` after generated `read_*_props` calls = the model's, on every acceptable store -/
theorem C09Gen_build_eq_model (cast : Dtype → Val → Val) (s : Store) (calls : List Call)
    (nm em : Option (List Bool)) (hok : StoreOk cast s) :
    Gen.BaseRead.build cast (genRunCalls (Reader.init s) calls) nm em
      = toGen <$> Geff.PRead.build cast (runCalls (Reader.init s) calls) nm em := by
  rw [genRunCalls_eq]
  have hst : (runCalls (Reader.init s) calls).store = s := runCalls_store _ _
  have hinv := runCalls_inv (Reader.init s) calls (init_inv s)
  have hnd := runCalls_nodup (Reader.init s) calls (init_nodup s)
  generalize runCalls (Reader.init s) calls = r at hst hinv hnd
  subst hst
  exact build_eq cast r nm em hnd.1 hnd.2 hok.nodeMetaKeys hok.edgeMetaKeys
    (tablesOk_sub cast _ _ _ hok.nodeTables hinv.1) (tablesOk_sub cast _ _ _ hok.edgeTables hinv.2)

/-- the generated full read is the model's full read -/
theorem C09Gen_full_read_eq (cast : Dtype → Val → Val) (s : Store) (hok : StoreOk cast s) :
    genFullRead cast s = toGen <$> readToMemory cast s :=
  C09Gen_build_eq_model cast s [.nodes none, .edges none] none none hok

/-- **C09 on the generated reader** — for every acceptable store, every sequence of generated
`read_*_props` calls on a fresh reader and all masks of the right length (`None`, all-true, all-false,
the empty selection included): if the generated full read succeeds with (the Python packaging of)
`full`, the generated partial `build` succeeds and returns exactly (the packaging of)
`restrict (loaded node names) (loaded edge names) nm em full` — kept nodes in stored order, the
selected edges with both end points kept, every loaded property's values / decoded var-length values /
missing flags at the kept positions, metadata pruned to the loaded properties. -/
theorem C09Gen_build_eq_restrict (cast : Dtype → Val → Val) (s : Store) (calls : List Call)
    (nm em : Option (List Bool)) (full : InMem)
    (hok : StoreOk cast s) (hmasks : MasksFit s nm em)
    (hclosed : nm = none → s.edgesClosed = true)
    (hfull : genFullRead cast s = .ok (toGen full)) :
    Gen.BaseRead.build cast (genRunCalls (Reader.init s) calls) nm em =
      .ok (toGen (restrict (keys (genRunCalls (Reader.init s) calls).nodeProps)
                           (keys (genRunCalls (Reader.init s) calls).edgeProps) nm em full)) := by
  rw [C09Gen_full_read_eq cast s hok] at hfull
  have hfull' : readToMemory cast s = .ok full := by
    cases h : readToMemory cast s with
    | error e => rw [h] at hfull; cases hfull
    | ok f =>
      rw [h] at hfull
      simp only [map_ok, Except.ok.injEq] at hfull
      rw [toGen_injective hfull]
  rw [C09Gen_build_eq_model cast s calls nm em hok, genRunCalls_eq,
    GeffProps.C09.C09_build_eq_restrict cast s calls nm em full hok.wf hmasks hclosed hfull']
  rfl

/-- every successful generated full read is the packaging of a model result (so the hypothesis
`hfull` above is no restriction) -/
theorem C09Gen_full_read_form (cast : Dtype → Val → Val) (s : Store) (hok : StoreOk cast s) (g : GInMem)
    (h : genFullRead cast s = .ok g) : ∃ full, g = toGen full ∧ readToMemory cast s = .ok full := by
  rw [C09Gen_full_read_eq cast s hok] at h
  cases hf : readToMemory cast s with
  | error e => rw [hf] at h; cases h
  | ok f =>
    rw [hf] at h
    simp only [map_ok, Except.ok.injEq] at h
    exact ⟨f, h.symm, rfl⟩

/-- **no dangling edge, generated code** — both end points of every edge the generated `build`
returns are among the node ids it returns -/
theorem C09Gen_no_dangling_edge (cast : Dtype → Val → Val) (s : Store) (calls : List Call)
    (nm em : Option (List Bool)) (out : GInMem)
    (hok : StoreOk cast s) (hmasks : MasksFit s nm em)
    (hclosed : nm = none → s.edgesClosed = true)
    (hb : Gen.BaseRead.build cast (genRunCalls (Reader.init s) calls) nm em = .ok out) :
    ∀ e ∈ out.edgeIds.rows, e.1 ∈ out.nodeIds.rows ∧ e.2 ∈ out.nodeIds.rows := by
  rw [C09Gen_build_eq_model cast s calls nm em hok] at hb
  cases hm : Geff.PRead.build cast (runCalls (Reader.init s) calls) nm em with
  | error e => rw [hm] at hb; cases hb
  | ok o =>
    rw [hm] at hb
    simp only [map_ok, Except.ok.injEq] at hb
    subst hb
    exact GeffProps.C09.C09_no_dangling_edge cast s calls nm em o hok.wf hmasks hclosed hm

/-- **metadata, generated code** — the metadata the generated `build` returns lists exactly the
loaded properties -/
theorem C09Gen_metadata_exact (cast : Dtype → Val → Val) (s : Store) (calls : List Call)
    (nm em : Option (List Bool)) (out : GInMem)
    (hok : StoreOk cast s) (hmasks : MasksFit s nm em)
    (hb : Gen.BaseRead.build cast (genRunCalls (Reader.init s) calls) nm em = .ok out) :
    (∀ k, k ∈ keys out.metadata.nodePropsMetadata ↔ k ∈ keys out.nodeProps) ∧
    (∀ k, k ∈ keys out.metadata.edgePropsMetadata ↔ k ∈ keys out.edgeProps) := by
  rw [C09Gen_build_eq_model cast s calls nm em hok] at hb
  cases hm : Geff.PRead.build cast (runCalls (Reader.init s) calls) nm em with
  | error e => rw [hm] at hb; cases hb
  | ok o =>
    rw [hm] at hb
    simp only [map_ok, Except.ok.injEq] at hb
    subst hb
    have := GeffProps.C09.C09_metadata_exact cast s calls nm em o hok.wf hmasks hm
    have hk : ∀ l : List (String × MemProp), keys (toGenProps l) = keys l := by
      intro l; simp [keys, toGenProps, List.map_map, Function.comp_def]
    simpa [toGen, hk] using this

/-- **errors only for a mask of the wrong length** — on a store whose full read succeeds the
generated `build` can only fail when a mask does not have one entry per node / edge -/
theorem C09Gen_error_only_wrong_length (cast : Dtype → Val → Val) (s : Store) (calls : List Call)
    (nm em : Option (List Bool)) (full : InMem) (e : Err)
    (hok : StoreOk cast s) (hclosed : nm = none → s.edgesClosed = true)
    (hfull : genFullRead cast s = .ok (toGen full))
    (hb : Gen.BaseRead.build cast (genRunCalls (Reader.init s) calls) nm em = .error e) :
    ¬ MasksFit s nm em := by
  intro hmasks
  rw [C09Gen_build_eq_restrict cast s calls nm em full hok hmasks hclosed hfull] at hb
  cases hb

/-- a node mask of the wrong length is an `IndexError` of the generated `build`, for every reader -/
theorem C09Gen_wrong_node_mask (cast : Dtype → Val → Val) (r : Reader) (m : List Bool)
    (em : Option (List Bool)) (h : m.length ≠ r.store.ids.length) :
    Gen.BaseRead.build cast r (some m) em = .error (.other "IndexError") := by
  unfold Gen.BaseRead.build
  have hs : shapeAt (selfNodes r).shape 0 = .ok r.store.ids.length := rfl
  rw [hs]
  simp only [ok_bind, maskToIndices_eq, Geff.PRead.maskToIndices, h, if_false]
  rfl

/-- a mask of the wrong length handed to the generated `_load_prop_to_memory` is an `IndexError` -/
theorem C09Gen_wrong_prop_mask (cast : Dtype → Val → Val) (zp : ZarrProp) (m : List Bool) (pm : PropMeta)
    (h : m.length ≠ zp.values.rows.length) :
    Gen.BaseRead.loadPropToMemory cast zp (some m) pm = .error (.other "IndexError") := by
  unfold Gen.BaseRead.loadPropToMemory
  have hs : shapeAt (propValues zp).shape 0 = .ok zp.values.rows.length := rfl
  rw [hs]
  simp only [ok_bind, maskToIndices_eq, Geff.PRead.maskToIndices, h, if_false]
  rfl

/-- an edge mask of the wrong length: the generated `build` never succeeds — it raises the
`IndexError` of the length check, unless loading the node side has already raised -/
theorem C09Gen_wrong_edge_mask (cast : Dtype → Val → Val) (s : Store) (calls : List Call)
    (nm : Option (List Bool)) (m : List Bool) (hok : StoreOk cast s) (h : m.length ≠ s.edges.length) :
    ∃ e, Gen.BaseRead.build cast (genRunCalls (Reader.init s) calls) nm (some m) = .error e ∧
      (e = .other "IndexError" ∨
        Geff.PRead.loadProps cast s.nodeMeta nm (genRunCalls (Reader.init s) calls).nodeProps = .error e) := by
  rw [C09Gen_build_eq_model cast s calls nm (some m) hok, genRunCalls_eq]
  have hst : (runCalls (Reader.init s) calls).store = s := runCalls_store _ _
  generalize runCalls (Reader.init s) calls = r at hst
  subst hst
  simp only [Geff.PRead.build]
  cases hni : Geff.PRead.maskToIndices nm r.store.ids.length with
  | error e =>
    refine ⟨e, rfl, Or.inl ?_⟩
    cases nm with
    | none => simp [Geff.PRead.maskToIndices] at hni
    | some mm =>
      simp only [Geff.PRead.maskToIndices] at hni
      split at hni
      · cases hni
      · cases hni; rfl
  | ok ni =>
    simp only [ok_bind]
    have hload : ∀ (α : Type) (rows : List α) (e : Err), Geff.PRead.loadZarrSubset rows ni = .error e → e = .other "IndexError" := by
      intro α rows e he
      cases ni with
      | none => simp [Geff.PRead.loadZarrSubset] at he
      | some is =>
        simp only [Geff.PRead.loadZarrSubset] at he
        clear hni
        induction is generalizing e with
        | nil => simp [pure, Except.pure] at he
        | cons i t ih =>
          rw [List.mapM_cons] at he
          cases hi : rows[i]? with
          | none => simp [hi, bind, Except.bind] at he; exact he.symm
          | some x =>
            simp only [hi, bind, Except.bind] at he
            generalize hX : (List.mapM _ t : Res (List α)) = X at he
            cases X with
            | error e' => simp at he; subst he; exact ih e' hX
            | ok l => simp [pure, Except.pure] at he
    cases hnodes : Geff.PRead.loadZarrSubset r.store.ids ni with
    | error e => exact ⟨e, rfl, Or.inl (hload _ _ e hnodes)⟩
    | ok nodes =>
      simp only [ok_bind]
      cases hnp : loadProps cast r.store.nodeMeta nm r.nodeProps with
      | error e => exact ⟨e, rfl, Or.inr rfl⟩
      | ok np =>
        refine ⟨.other "IndexError", ?_, Or.inl rfl⟩
        simp [Geff.PRead.maskToIndices, h]
/-! ## non-vacuity: the example store of `GeffProps/C09.lean` (a missing-bearing property, a
var-length property whose data are not in element order, a 2-D edge property) -/

theorem exStore_ok : StoreOk castId exStore := by
  refine ⟨by decide, by decide, by decide, ?_, ?_⟩
  · intro q hq pm hl hv
    simp only [exStore, List.mem_cons, List.mem_nil_iff, or_false] at hq
    rcases hq with rfl | rfl
    · simp [exStore, lookup] at hl; subst hl; simp at hv
    · refine ⟨by decide, ?_⟩
      intro r hr
      simp only [castId, List.map_cons, List.map_nil, List.mem_cons, List.mem_nil_iff, or_false] at hr
      rcases hr with rfl | rfl | rfl <;> exact ⟨by decide, by decide⟩
  · intro q hq pm hl hv
    simp only [exStore, List.mem_cons, List.mem_nil_iff, or_false] at hq
    subst hq
    simp [exStore, lookup] at hl; subst hl; simp at hv

/-- the hypotheses of `C09Gen_build_eq_restrict` are met on it, and the generated full read succeeds -/
example : StoreOk castId exStore ∧ MasksFit exStore (some [true, false, true]) none ∧
    (genFullRead castId exStore).isOk = true :=
  ⟨exStore_ok, ⟨by intro m h; cases h; rfl, by intro m h; cases h⟩, by decide⟩

/-- the generated code, evaluated: the masked build keeps nodes 5 and 9, only the edge (9,9), and the
var-length rows of the kept nodes decoded from the FULL data array -/
def exGenBuild : Option GInMem :=
  (Gen.BaseRead.build castId (genRunCalls (Reader.init exStore) [.nodes (some ["v"]), .edges none])
    (some [true, false, true]) none).toOption

example : exGenBuild.map (·.nodeIds.rows) = some [5, 9] := by decide
example : exGenBuild.map (·.edgeIds.rows) = some [(9, 9)] := by decide
example : exGenBuild.map (fun g => g.nodeProps.map (fun p => (p.1, p.2.values))) =
    some [("v", .object [some { dtype := .i64, shape := [2], flat := [.i 20, .i 21] },
                         some { dtype := .i64, shape := [0], flat := [] }])] := by decide
example : exGenBuild.map (fun g => keys g.metadata.nodePropsMetadata) = some ["v"] := by decide
/-- the empty selection (all-false mask) succeeds on the generated code: no nodes, no edges, no rows -/
example : (Gen.BaseRead.build castId (genRunCalls (Reader.init exStore) [.nodes none, .edges none])
    (some [false, false, false]) none).toOption.map (fun g => (g.nodeIds.rows, g.edgeIds.rows)) = some ([], []) := by decide
/-- a mask of the wrong length is an IndexError of the generated code -/
example : Gen.BaseRead.build castId (Reader.init exStore) (some [true]) none = .error (.other "IndexError") :=
  C09Gen_wrong_node_mask castId (Reader.init exStore) [true] none (by decide)

end GeffProps.C09Gen
