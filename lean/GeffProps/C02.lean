import GeffProofs.WriteRead
import GeffModel.GraphOf
/-! # C02 — the on-disk layout means what docs/specification.md says, in both directions

Property theorems only.  Specification: `Geff.Spec.denote` (`GeffModel/SpecDecode.lean`), written from
the document alone with its literal names.  Library: `Geff.WR.writeArrays` / `readCore`. -/
namespace GeffProps.C02
open Geff.Np Geff.Store Geff.WR Geff.Spec

/-- **Gen obligation** (translator T1): the path constants of `geff/_path.py`, regenerated from the
working tree on every run, are the names docs/specification.md uses. -/
theorem paths_are_spec_names :
    Gen.Paths.translationOk = true ∧
    Gen.Paths.NODES = "nodes" ∧ Gen.Paths.EDGES = "edges" ∧ Gen.Paths.IDS = "ids" ∧ Gen.Paths.PROPS = "props" ∧
    Gen.Paths.VALUES = "values" ∧ Gen.Paths.MISSING = "missing" ∧ Gen.Paths.DATA = "data" ∧
    Gen.Paths.NODE_IDS = "nodes/ids" ∧ Gen.Paths.EDGE_IDS = "edges/ids" ∧
    Gen.Paths.NODE_PROPS = "nodes/props" ∧ Gen.Paths.EDGE_PROPS = "edges/props" := by decide

end GeffProps.C02
