import GeffProofs.SpecDecode
import GeffProofs.StoreTree
/-! # C02 — the on-disk layout means what docs/specification.md says, in both directions

Property theorems only.  Specification: `Geff.Spec.denote` (`GeffModel/SpecDecode.lean`) — the graph a
zarr hierarchy denotes, written from the document alone with its literal names, sharing no definition
with the model of the library (`GeffModel/WriteRead.lean`); `Geff.Spec.graphOf` is the abstraction from
what `read_to_memory` returns to such a graph.  Tie: `harness/corr/C02.py` (Lean `denote` on raw dumps of
real stores; an independent zarr-only writer; the real reader with validation on and off). -/
namespace GeffProps.C02
open Geff.Np Geff.Store Geff.WR Geff.Spec

/-- **Gen obligation** (translator T1): the path constants of `geff/_path.py`, regenerated from the
working tree on every run, are the names docs/specification.md uses. -/
theorem paths_are_spec_names :
    Gen.Paths.translationOk = true ∧
    Gen.Paths.NODES = "nodes" ∧ Gen.Paths.EDGES = "edges" ∧ Gen.Paths.IDS = "ids" ∧ Gen.Paths.PROPS = "props" ∧
    Gen.Paths.VALUES = "values" ∧ Gen.Paths.MISSING = "missing" ∧ Gen.Paths.DATA = "data" ∧
    Gen.Paths.NODE_IDS = "nodes/ids" ∧ Gen.Paths.EDGE_IDS = "edges/ids" ∧
    Gen.Paths.NODE_PROPS = "nodes/props" ∧ Gen.Paths.EDGE_PROPS = "edges/props" := by decide

/-- the graph given to the writer: ids, edges, and per property one cell per element (`none` where the
missing mask is set; float16 upcast to float32) -/
def graphOfInput (directed : Bool) (nodeIds edgeIds : NdArr) (nps eps : Props) : Graph :=
  ⟨directed, nodeIds.dtype, nodeIds.flat, pairs edgeIds.flat,
    nps.map (fun kp => (kp.1, propD (upcast kp.2))), eps.map (fun kp => (kp.1, propD (upcast kp.2)))⟩

/-- equal as attributed graphs: the order in which a hierarchy lists its property groups is not part of
the graph -/
def SameGraph (G H : Graph) : Prop :=
  G.directed = H.directed ∧ G.idDtype = H.idDtype ∧ G.nodes = H.nodes ∧ G.edges = H.edges ∧
  (∀ k, find k G.nodeProps = find k H.nodeProps) ∧ (∀ k, find k G.edgeProps = find k H.edgeProps)

theorem find_map_propD (ps : Props) (k : String) :
    find k (ps.map (fun kp => (kp.1, propD (upcast kp.2)))) = (lookupKey k ps).map (fun p => propD (upcast p)) := by
  induction ps with
  | nil => rfl
  | cons a t ih =>
    obtain ⟨k', p⟩ := a
    unfold lookupKey at ih ⊢
    simp only [List.map_cons, find, List.find?_cons]
    by_cases h : k' = k
    · simp [h]
    · simp only [h, if_false, decide_false]; exact ih

/-- **C02, first direction (library writer → specification-only decoder).**  For every target holding
nothing of a geff yet, every well-formed graph (as in C01), caller metadata naming only properties that
get written and axes as the specification wants them: the store `write_arrays` produces is laid out as
docs/specification.md says (`denote` is defined on it), denotes exactly the graph given to the writer —
same directedness, ids and edges, and for every property the same cells, missing ones absent — **and is
accepted by the library's structural validation** (`Geff.Bridge.validate`: C04's model of
`validate_structure`, sound and complete by `C04_sound_complete`, on the tree view of the store). -/
theorem C02_writer_conforms (s0 : St) (g : InMem) (md : CallerMeta) (n e : Nat) (nps eps : Props)
    (hfresh : Fresh s0) (hwf : WFGeff g n e nps eps) (hax : Geff.Bridge.AxesStrict md n nps)
    (hmdN : ∀ kv ∈ md.nodeProps, kv.1 ∈ (expectedNodeProps md n nps).map (·.1))
    (hmdE : ∀ kv ∈ md.edgeProps, kv.1 ∈ eps.map (·.1)) :
    ∃ s', writeArrays vlenCodec Geff.Bridge.validate s0 g md = .ok s' ∧ Geff.Bridge.validate s' = .ok () ∧
      ∃ G, denote s' = some G ∧
        SameGraph G (graphOfInput md.directed g.nodeIds g.edgeIds (expectedNodeProps md n nps) eps) := by
  obtain ⟨hnd, hw, hchk⟩ := expected_spec md n nps hwf.nodeNames hwf.nodeOK hax.ok
  have hrows := expected_rows md n nps hwf.nodeNames hwf.nodeOK
  have hlen : g.nodeIds.len?.isSome = true := by unfold NdArr.len?; rw [hwf.nodeShape]; rfl
  obtain ⟨s', hwrite, hW⟩ := writeCore_spec vlenCodec vlenCodec_lawful s0 g md (expectedNodeProps md n nps) eps hfresh
    hwf.idSame.symm hwf.idInt hlen (nodePropsToWrite_eq g md n nps hwf.nodeShape hwf.nodeProps) hwf.edgeProps
    hnd hw hwf.edgeNames (fun kp hm => (hwf.edgeOK kp hm).1) hchk
  obtain ⟨G, hG, h1, h2, h3, h4, h5, h6⟩ := denote_of_written s0 s' g.nodeIds g.edgeIds n e (expectedNodeProps md n nps)
    eps md hW hwf.nodeShape hwf.edgeShape hwf.idInt hwf.idSame hwf.nodeIdsWF hwf.edgeIdsWF hnd
    (fun kp hm => ⟨hw kp hm, hrows kp hm⟩) hwf.edgeNames hwf.edgeOK
  have hval := Geff.Bridge.validate_written s0 s' g md n e nps eps hwf hax hmdN hmdE hW
  refine ⟨s', ?_, hval, G, hG, h1, h2, h3, h4, ?_, ?_⟩
  · unfold writeArrays
    simp only [hwrite, hval, bind, Except.bind, pure, Except.pure]
  · intro k; rw [h5 k]; exact (find_map_propD _ k).symm
  · intro k; rw [h6 k]; exact (find_map_propD _ k).symm

/-- **C02, second direction (any conformant store → library reader).**  For *every* store the
specification assigns a graph to — whatever produced it: `props` groups absent or empty, `missing`
arrays absent or all-false, arbitrary values under missing entries, var-length sections in any order
and with gaps, offset tables of any integer dtype, omitted `varlength`, foreign attributes beside
`geff`, foreign siblings, metadata entries in any order — `read_to_memory` (structural validation off)
succeeds and returns exactly the graph the store denotes.  `IntsFit`: integer arrays hold integers below
2^64 (true of every zarr array; the model's integers are unbounded). -/
theorem C02_reader_accepts_all_conformant (s : St) (hfit : IntsFit s) (G : Graph) (h : denote s = some G) :
    ∃ r, readCore vlenCodec s = .ok r ∧ graphOf r = G :=
  readCore_of_denote s hfit G h

/-- the same with structural validation on (the default of `read_to_memory`; `Geff.Bridge.validate` = C04's
model of `validate_structure` on the tree view) — PARTIAL: that the validator accepts this conformant store
is the hypothesis `hval`.  Full statement: without `hval`.  It is **false** as it stands, and the
counterexample is the recorded known finding: `exStore` below has an int64 offset table, as the
specification's example prescribes; `denote` is defined on it, the validator refuses it
(`validator_rejects_int64_table`).  Also not derivable: `denote` tolerates metadata entries without a
property group, the validator does not.  What is missing for the rest is the inclusion
`denote`-conformant ∧ uint64 tables ∧ metadata keys = property groups ⊆ C04-`Conformant`.  The harness
reads every independent store with the real validator on. -/
theorem C02_reader_accepts_all_conformant_validated_partial (s : St) (hfit : IntsFit s)
    (G : Graph) (h : denote s = some G) (hval : Geff.Bridge.validate s = .ok ()) :
    ∃ r, readToMemory vlenCodec Geff.Bridge.validate s = .ok r ∧ graphOf r = G := by
  obtain ⟨r, hr, hg⟩ := readCore_of_denote s hfit G h
  exact ⟨r, by unfold readToMemory; simp only [hval, hr, bind, Except.bind], hg⟩

/-! ## non-vacuity and sensitivity (evaluations of the decoder, not the unbounded claim) -/

section Examples

/-- an independent layout: no `nodes/props` metadata beyond one var-length property whose sections lie
out of order with a gap in `data`, an int64 offset table, an all-false `missing`, omitted `varlength`
for the dense edge property, a foreign attribute and a foreign sibling -/
def exStore : St := [
  ([], .group [("creator", .other), ("geff", .geff ⟨false, none,
      [("poly", ⟨"poly", "int8", some true⟩)], [("w", ⟨"w", "float32", none⟩)]⟩)]),
  (["raw"], .array ⟨.u8, [1], [.i 7]⟩),
  (["edges"], .group []), (["edges", "ids"], .array ⟨.i16, [1, 2], [.i 5, .i (-3)]⟩),
  (["edges", "props"], .group []), (["edges", "props", "w"], .group []),
  (["edges", "props", "w", "values"], .array ⟨.f32, [1], [.f "3fc00000"]⟩),
  (["edges", "props", "w", "missing"], .array ⟨.bool, [1], [.b false]⟩),
  (["nodes"], .group []), (["nodes", "ids"], .array ⟨.i16, [2], [.i 5, .i (-3)]⟩),
  (["nodes", "props"], .group []), (["nodes", "props", "poly"], .group []),
  (["nodes", "props", "poly", "values"], .array ⟨.i64, [2, 2], [.i 3, .i 2, .i 0, .i 1]⟩),
  (["nodes", "props", "poly", "data"], .array ⟨.i8, [5], [.i 9, .i 0, .i 0, .i 1, .i 2]⟩)]

example : denote exStore = some ⟨false, .i16, [.i 5, .i (-3)], [(.i 5, .i (-3))],
    [("poly", ⟨true, [some ⟨.i8, [2], [.i 1, .i 2]⟩, some ⟨.i8, [1], [.i 9]⟩]⟩)],
    [("w", ⟨false, [some ⟨.f32, [], [.f "3fc00000"]⟩]⟩)]⟩ := by decide

/-- … and the model reader returns that graph on it (an instance of `C02_reader_accepts_all_conformant`) -/
example : (match readCore vlenCodec exStore with | .ok r => decide (some (graphOf r) = denote exStore) | .error _ => false) = true := by
  decide

example : IntsFit exStore := intsFit_of_bool _ (by decide)

/-- the known finding as a theorem about the models: a store with an int64 offset table (the dtype the
specification's example shows) denotes a graph, the reader (validation off) returns it, and the
structural validator refuses it -/
theorem validator_rejects_int64_table :
    (denote exStore).isSome = true ∧ Geff.Bridge.validate exStore = .error .valueError := by
  constructor
  · decide
  · rfl

/-- sensitivity: the decoder notices the symmetric mistakes a same-library round trip cannot see —
swapped edge columns change the graph; `props` stored under another name, a missing `data`, a mask of
the wrong length, edge ids of another dtype are not conformant -/
example : (denote ((["edges", "ids"], .array ⟨.i16, [1, 2], [.i (-3), .i 5]⟩) :: exStore.filter (·.1 ≠ ["edges", "ids"]))).map (·.edges)
    = some [(.i (-3), .i 5)] := by decide
example : denote (exStore.map (fun kv => (kv.1.map (fun k => if k = "props" then "properties" else k), kv.2))) ≠ denote exStore := by
  decide
example : denote (exStore.filter (·.1 ≠ ["nodes", "props", "poly", "data"])) = none := by decide
example : denote ((["edges", "props", "w", "missing"], .array ⟨.bool, [2], [.b false, .b true]⟩) ::
    exStore.filter (·.1 ≠ ["edges", "props", "w", "missing"])) = none := by decide
example : denote ((["edges", "ids"], .array ⟨.i32, [1, 2], [.i 5, .i (-3)]⟩) :: exStore.filter (·.1 ≠ ["edges", "ids"])) = none := by
  decide

/-- the example of `GeffProps.C01` written by the model writer is conformant -/
example : (match writeCore vlenCodec [] ⟨⟨.u8, [2], [.i 1, .i 2]⟩, ⟨.u8, [0, 2], []⟩,
      some [("p", ⟨.dense ⟨.i8, [2], [.i 3, .i 4]⟩, some ⟨.bool, [2], [.b true, .b false]⟩⟩)], some []⟩ ⟨true, none, [], []⟩ with
    | .ok s => decide (denote s = some ⟨true, .u8, [.i 1, .i 2], [], [("p", ⟨false, [none, some ⟨.i8, [], [.i 4]⟩]⟩)], []⟩)
    | .error _ => false) = true := by decide

end Examples

end GeffProps.C02
