import GeffProofs.SpecDecode
/-! # C02 — the on-disk layout means what docs/specification.md says, in both directions

Property theorems only.  Specification: `Geff.Spec.denote` (`GeffModel/SpecDecode.lean`) — the graph a
zarr hierarchy denotes, written from the document alone with its literal names, sharing no definition
with the model of the library (`GeffModel/WriteRead.lean`); `Geff.Spec.graphOf` is the abstraction from
what `read_to_memory` returns to such a graph.  Tie: `harness/corr/C02.py` (Lean `denote` on raw dumps of
real stores; an independent zarr-only writer; the real reader with validation on and off). -/
namespace GeffProps.C02
open Geff.Np Geff.Store Geff.WR Geff.Spec

/-- **Gen obligation** (translator T1): the path constants of `geff/_path.py`, regenerated from the
working tree on every run, are the names docs/specification.md uses. -/
theorem paths_are_spec_names :
    Gen.Paths.translationOk = true ∧
    Gen.Paths.NODES = "nodes" ∧ Gen.Paths.EDGES = "edges" ∧ Gen.Paths.IDS = "ids" ∧ Gen.Paths.PROPS = "props" ∧
    Gen.Paths.VALUES = "values" ∧ Gen.Paths.MISSING = "missing" ∧ Gen.Paths.DATA = "data" ∧
    Gen.Paths.NODE_IDS = "nodes/ids" ∧ Gen.Paths.EDGE_IDS = "edges/ids" ∧
    Gen.Paths.NODE_PROPS = "nodes/props" ∧ Gen.Paths.EDGE_PROPS = "edges/props" := by decide

/-- the graph given to the writer: ids, edges, and per property one cell per element (`none` where the
missing mask is set; float16 upcast to float32) -/
def graphOfInput (directed : Bool) (nodeIds edgeIds : NdArr) (nps eps : Props) : Graph :=
  ⟨directed, nodeIds.dtype, nodeIds.flat, pairs edgeIds.flat,
    nps.map (fun kp => (kp.1, propD (upcast kp.2))), eps.map (fun kp => (kp.1, propD (upcast kp.2)))⟩

/-- equal as attributed graphs: the order in which a hierarchy lists its property groups is not part of
the graph -/
def SameGraph (G H : Graph) : Prop :=
  G.directed = H.directed ∧ G.idDtype = H.idDtype ∧ G.nodes = H.nodes ∧ G.edges = H.edges ∧
  (∀ k, find k G.nodeProps = find k H.nodeProps) ∧ (∀ k, find k G.edgeProps = find k H.edgeProps)

theorem find_map_propD (ps : Props) (k : String) :
    find k (ps.map (fun kp => (kp.1, propD (upcast kp.2)))) = (lookupKey k ps).map (fun p => propD (upcast p)) := by
  induction ps with
  | nil => rfl
  | cons a t ih =>
    obtain ⟨k', p⟩ := a
    unfold lookupKey at ih ⊢
    simp only [List.map_cons, find, List.find?_cons]
    by_cases h : k' = k
    · simp [h]
    · simp only [h, if_false, decide_false]; exact ih

/-- **C02, first direction (library writer → specification-only decoder).**  For every target holding
nothing of a geff yet, every well-formed graph (as in C01) and consistent caller metadata: the store
`write_arrays` produces is laid out as docs/specification.md says (`denote` is defined on it) and
denotes exactly the graph given to the writer — same directedness, ids and edges, and for every
property the same cells, missing ones absent.

PARTIAL with respect to the property text, which continues "… and is accepted by the library's
structural validation": the full statement has the further conjunct `validateStructure s' = ok` for
C04's model of `validate_structure`.  Missing: the bridge from the flat store `St` to C04's nested
store type and the proof that the written store is `Conformant` there (then `C04_sound_complete` gives
acceptance).  The harness runs the real `validate_structure` on every written store and it must accept. -/
theorem C02_writer_conforms_partial (s0 : St) (g : InMem) (md : CallerMeta) (n e : Nat) (nps eps : Props)
    (hfresh : Fresh s0) (hwf : WFGeff g n e nps eps) (hax : AxesOK md n nps) :
    ∃ s', writeCore vlenCodec s0 g md = .ok s' ∧ ∃ G, denote s' = some G ∧
      SameGraph G (graphOfInput md.directed g.nodeIds g.edgeIds (expectedNodeProps md n nps) eps) := by
  obtain ⟨hnd, hw, hchk⟩ := expected_spec md n nps hwf.nodeNames hwf.nodeOK hax
  have hrows := expected_rows md n nps hwf.nodeNames hwf.nodeOK
  have hlen : g.nodeIds.len?.isSome = true := by unfold NdArr.len?; rw [hwf.nodeShape]; rfl
  obtain ⟨s', hwrite, hW⟩ := writeCore_spec vlenCodec vlenCodec_lawful s0 g md (expectedNodeProps md n nps) eps hfresh
    hwf.idSame.symm hwf.idInt hlen (nodePropsToWrite_eq g md n nps hwf.nodeShape hwf.nodeProps) hwf.edgeProps
    hnd hw hwf.edgeNames (fun kp hm => (hwf.edgeOK kp hm).1) hchk
  obtain ⟨G, hG, h1, h2, h3, h4, h5, h6⟩ := denote_of_written s0 s' g.nodeIds g.edgeIds n e (expectedNodeProps md n nps)
    eps md hW hwf.nodeShape hwf.edgeShape hwf.idInt hwf.idSame hwf.nodeIdsWF hwf.edgeIdsWF hnd
    (fun kp hm => ⟨hw kp hm, hrows kp hm⟩) hwf.edgeNames hwf.edgeOK
  refine ⟨s', hwrite, G, hG, h1, h2, h3, h4, ?_, ?_⟩
  · intro k; rw [h5 k]; exact (find_map_propD _ k).symm
  · intro k; rw [h6 k]; exact (find_map_propD _ k).symm

/-- **C02, second direction (any conformant store → library reader).**  For *every* store the
specification assigns a graph to — whatever produced it: `props` groups absent or empty, `missing`
arrays absent or all-false, arbitrary values under missing entries, var-length sections in any order
and with gaps, offset tables of any integer dtype, omitted `varlength`, foreign attributes beside
`geff`, foreign siblings, metadata entries in any order — `read_to_memory` (structural validation off)
succeeds and returns exactly the graph the store denotes.  `IntsFit`: integer arrays hold integers below
2^64 (true of every zarr array; the model's integers are unbounded). -/
theorem C02_reader_accepts_all_conformant (s : St) (hfit : IntsFit s) (G : Graph) (h : denote s = some G) :
    ∃ r, readCore vlenCodec s = .ok r ∧ graphOf r = G :=
  readCore_of_denote s hfit G h

/-- the same with structural validation on (the default of `read_to_memory`) — PARTIAL: `validate` is a
parameter standing for C04's model of `validate_structure`, and that it accepts this conformant store is
the named hypothesis `hval`.  Missing: deriving `hval` from `denote s = some G` through
`C04_sound_complete` (needs the bridge between the two store types and `denote`-conformant ⊆
C04-`Conformant`; they differ at least on offset tables of a dtype other than uint64 — the known finding).
The harness reads every independent store with the real validator on; where that failed on the unrepaired
tree it was D5 / D19 / the int64 offset table. -/
theorem C02_reader_accepts_all_conformant_validated_partial (validate : St → Outcome Unit) (s : St) (hfit : IntsFit s)
    (G : Graph) (h : denote s = some G) (hval : validate s = .ok ()) :
    ∃ r, readToMemory vlenCodec validate s = .ok r ∧ graphOf r = G := by
  obtain ⟨r, hr, hg⟩ := readCore_of_denote s hfit G h
  exact ⟨r, by unfold readToMemory; simp only [hval, hr, bind, Except.bind], hg⟩

/-! ## non-vacuity and sensitivity (evaluations of the decoder, not the unbounded claim) -/

section Examples

/-- an independent layout: no `nodes/props` metadata beyond one var-length property whose sections lie
out of order with a gap in `data`, an int64 offset table, an all-false `missing`, omitted `varlength`
for the dense edge property, a foreign attribute and a foreign sibling -/
def exStore : St := [
  ([], .group [("creator", .other), ("geff", .geff ⟨false, none,
      [("poly", ⟨"poly", "int8", some true⟩)], [("w", ⟨"w", "float32", none⟩)]⟩)]),
  (["raw"], .array ⟨.u8, [1], [.i 7]⟩),
  (["edges"], .group []), (["edges", "ids"], .array ⟨.i16, [1, 2], [.i 5, .i (-3)]⟩),
  (["edges", "props"], .group []), (["edges", "props", "w"], .group []),
  (["edges", "props", "w", "values"], .array ⟨.f32, [1], [.f "3fc00000"]⟩),
  (["edges", "props", "w", "missing"], .array ⟨.bool, [1], [.b false]⟩),
  (["nodes"], .group []), (["nodes", "ids"], .array ⟨.i16, [2], [.i 5, .i (-3)]⟩),
  (["nodes", "props"], .group []), (["nodes", "props", "poly"], .group []),
  (["nodes", "props", "poly", "values"], .array ⟨.i64, [2, 2], [.i 3, .i 2, .i 0, .i 1]⟩),
  (["nodes", "props", "poly", "data"], .array ⟨.i8, [5], [.i 9, .i 0, .i 0, .i 1, .i 2]⟩)]

example : denote exStore = some ⟨false, .i16, [.i 5, .i (-3)], [(.i 5, .i (-3))],
    [("poly", ⟨true, [some ⟨.i8, [2], [.i 1, .i 2]⟩, some ⟨.i8, [1], [.i 9]⟩]⟩)],
    [("w", ⟨false, [some ⟨.f32, [], [.f "3fc00000"]⟩]⟩)]⟩ := by decide

/-- … and the model reader returns that graph on it (an instance of `C02_reader_accepts_all_conformant`) -/
example : (match readCore vlenCodec exStore with | .ok r => decide (some (graphOf r) = denote exStore) | .error _ => false) = true := by
  decide

example : IntsFit exStore := intsFit_of_bool _ (by decide)

/-- sensitivity: the decoder notices the symmetric mistakes a same-library round trip cannot see —
swapped edge columns change the graph; `props` stored under another name, a missing `data`, a mask of
the wrong length, edge ids of another dtype are not conformant -/
example : (denote ((["edges", "ids"], .array ⟨.i16, [1, 2], [.i (-3), .i 5]⟩) :: exStore.filter (·.1 ≠ ["edges", "ids"]))).map (·.edges)
    = some [(.i (-3), .i 5)] := by decide
example : denote (exStore.map (fun kv => (kv.1.map (fun k => if k = "props" then "properties" else k), kv.2))) ≠ denote exStore := by
  decide
example : denote (exStore.filter (·.1 ≠ ["nodes", "props", "poly", "data"])) = none := by decide
example : denote ((["edges", "props", "w", "missing"], .array ⟨.bool, [2], [.b false, .b true]⟩) ::
    exStore.filter (·.1 ≠ ["edges", "props", "w", "missing"])) = none := by decide
example : denote ((["edges", "ids"], .array ⟨.i32, [1, 2], [.i 5, .i (-3)]⟩) :: exStore.filter (·.1 ≠ ["edges", "ids"])) = none := by
  decide

/-- the example of `GeffProps.C01` written by the model writer is conformant -/
example : (match writeCore vlenCodec [] ⟨⟨.u8, [2], [.i 1, .i 2]⟩, ⟨.u8, [0, 2], []⟩,
      some [("p", ⟨.dense ⟨.i8, [2], [.i 3, .i 4]⟩, some ⟨.bool, [2], [.b true, .b false]⟩⟩)], some []⟩ ⟨true, none, [], []⟩ with
    | .ok s => decide (denote s = some ⟨true, .u8, [.i 1, .i 2], [], [("p", ⟨false, [none, some ⟨.i8, [], [.i 4]⟩]⟩)], []⟩)
    | .error _ => false) = true := by decide

end Examples

end GeffProps.C02
