import GeffProofs.Structure
/-! # C04 — structural validation accepts exactly the spec-conformant stores

Property theorems only.  Model: `Geff.Structure.validateStructure` (`GeffModel/Structure.lean`, a
line-by-line model of the *repaired* `geff/validate/structure.py`, `expect_array`/`expect_group`/
`open_storelike` and the outcome of `GeffMetadata.read`), tied to the implementation by
`harness/corr/C04.py` (every abstract store is built with the raw zarr API and run through the
real `validate_structure`, `GeffReader(validate=True)` and `geff validate`).

`Conformant` is written from docs/specification.md as a plain conjunction.  Two readings are fixed
here (see the notes in `harness/corr/C04.py`): a `missing`/`data` member of a property group that
is not an array is non-conformant (the specification knows only arrays of these names and the
reader rejects anything else), and the `values` of a variable-length property are `uint64` rows
(what geff writes and its reader casts to) of a 2-D array next to a 1-D `data` array.

`Dtype` is numpy's dtype *class* as `_dtype_matches`/`np.issubdtype` see it: every unicode width
and the variable-length string dtype are `str`, every byte-string width `bytes`, anything outside
numpy's bool/int/float/str/bytes/object families is `other` (never a valid metadata dtype, so it
never meets an equal stated dtype in a store whose metadata parses). -/
namespace GeffProps.C04
open Geff.Np Geff.Structure Gen.Paths

/-! ## Obligations on the regenerated constants (translator T1, `geff/_path.py`) -/

/-- the translator understood `_path.py` -/
theorem paths_translated : Gen.Paths.translationOk = true := by decide

/-- `expect_group(graph, _path.NODE_PROPS)`: the model walks the two components -/
theorem node_props_path : NODE_PROPS = NODES ++ "/" ++ PROPS := by decide

/-- the member names the validator distinguishes are distinct and are single path components as
the specification names them -/
theorem paths_as_specified :
    [NODES, EDGES, IDS, PROPS, VALUES, MISSING, DATA]
      = ["nodes", "edges", "ids", "props", "values", "missing", "data"] := by decide

/-! ## Specification (docs/specification.md, property C04) -/

/-- One property group `propNode` (a member of a `props` group) against its metadata entry `pm`
and the length `n` of the id array: it is a group with a `values` array whose first dimension is
`n`; a fixed-shape property has the stated dtype and no `data` member; a variable-length one has
`uint64` rows `(offset, shape…)` and a flat `data` array of the stated dtype; `missing` is absent
or a 1-D boolean array of length `n`. -/
def ConformantProp (n : Nat) (pm : PropMeta) (propNode : Node) : Prop :=
  ∃ pg v, propNode = .group pg ∧ get pg VALUES = some (.array v) ∧
    v.shape.head? = some n ∧
    (if pm.varlength = true then
       v.dtype = Dtype.u64 ∧ v.shape.length = 2 ∧
       ∃ d, get pg DATA = some (.array d) ∧ d.dtype = pm.dtype ∧ d.shape.length = 1
     else v.dtype = pm.dtype ∧ get pg DATA = none) ∧
    (get pg MISSING = none ∨ get pg MISSING = some (.array ⟨Dtype.bool, [n]⟩))

/-- The optional `props` group of `nodes`/`edges` against the metadata: absent only when the
metadata lists no property; otherwise a group whose members are exactly the properties named in
the metadata, each conformant. -/
def ConformantProps (n : Nat) (md : List (String × PropMeta)) : Option Node → Prop
  | none => md = []
  | some (.array _) => False
  | some (.group props) =>
    (∀ name, name ∈ keys md ↔ name ∈ keys props) ∧
    (∀ name pm propNode, lookup md name = some pm → get props name = some propNode →
      ConformantProp n pm propNode)

/-- An axis names a node property with 1-D values and no `missing` member. -/
def ConformantAxis (nodes : Grp) (m : Meta) (ax : String) : Prop :=
  ax ∈ keys m.nodeProps ∧
  ∃ props pg v, get nodes PROPS = some (.group props) ∧ get props ax = some (.group pg) ∧
    get pg VALUES = some (.array v) ∧ v.shape.length = 1 ∧ get pg MISSING = none

/-- **Conformance** of the target of `validate_structure`. -/
def Conformant : Target → Prop
  | .missingPath => False
  | .store root attrs =>
    ∃ graph m nodes edges nodeIds edgeIds N E,
      root = some (.group graph) ∧ attrs = .ok m ∧
      get graph NODES = some (.group nodes) ∧ get graph EDGES = some (.group edges) ∧
      get nodes IDS = some (.array nodeIds) ∧ nodeIds.dtype.isInteger = true ∧ nodeIds.shape = [N] ∧
      get edges IDS = some (.array edgeIds) ∧ edgeIds.shape = [E, 2] ∧
      edgeIds.dtype = nodeIds.dtype ∧
      ConformantProps N m.nodeProps (get nodes PROPS) ∧
      ConformantProps E m.edgeProps (get edges PROPS) ∧
      ∀ axes, m.axes = some axes → ∀ ax ∈ axes, ConformantAxis nodes m ax

/-! ## The validator decides conformance -/

theorem checkMissing_iff (pg : Grp) (n : Nat) (u : Unit) :
    checkMissing pg n = .ok u ↔
      (get pg MISSING = none ∨ get pg MISSING = some (.array ⟨Dtype.bool, [n]⟩)) := by
  unfold checkMissing
  split
  · simp only [bind_eq_ok, require_eq_ok, expectArray_eq_ok, shape0_eq_ok, exists_and_left,
      exists_const, Arr.ndim, beq_iff_eq]
    constructor
    · rintro ⟨⟨md, ms⟩, hm, h1, k, hk, rfl, hb⟩
      right
      rcases ms with _ | ⟨k', _ | _⟩ <;> simp_all
    · rintro (h | h)
      · simp_all
      · exact ⟨_, h, rfl, n, rfl, rfl, rfl⟩
  · rename_i h
    cases hm : Geff.Structure.get pg MISSING <;> simp_all

theorem checkPropDtype_iff (pg : Grp) (v : Arr) (pm : PropMeta) (u : Unit) :
    checkPropDtype pg v pm = .ok u ↔
      (if pm.varlength = true then
         v.dtype = Dtype.u64 ∧ v.shape.length = 2 ∧
         ∃ d, get pg DATA = some (.array d) ∧ d.dtype = pm.dtype ∧ d.shape.length = 1
       else v.dtype = pm.dtype ∧ get pg DATA = none) := by
  unfold checkPropDtype
  split
  · simp only [bind_eq_ok, require_eq_ok, expectArray_eq_ok, exists_and_left, exists_const,
      Arr.ndim, dtypeMatches, beq_iff_eq]
    constructor
    · rintro ⟨d, hd, h1, h2, h3, h4⟩; exact ⟨h1, h3, d, hd, h2, h4⟩
    · rintro ⟨h1, h3, d, hd, h2, h4⟩; exact ⟨d, hd, h1, h2, h3, h4⟩
  · simp only [bind_eq_ok, require_eq_ok, exists_const, dtypeMatches, beq_iff_eq,
      Bool.not_eq_true', Option.isSome_eq_false_iff, Option.isNone_iff_eq_none]

theorem validateProp_iff (propNode : Node) (n : Nat) (pm : PropMeta) (u : Unit) :
    validateProp propNode n pm = .ok u ↔ ConformantProp n pm propNode := by
  unfold validateProp ConformantProp
  cases propNode with
  | array a => simp
  | group pg =>
    simp only [bind_eq_ok, pure_eq_ok, require_eq_ok, expectArray_eq_ok, exists_eq_left',
      exists_and_left, Node.group.injEq, checkMissing_iff, checkPropDtype_iff, shape0_eq_ok,
      exists_const, beq_iff_eq, Arr.ndim]
    constructor
    · rintro ⟨h0, v, hv, hr, hd, n', hn, rfl, hm⟩
      exact ⟨v, hv, hn, hd, hm⟩
    · rintro ⟨v, hv, hn, hd, hm⟩
      refine ⟨by simp [hv, isArrayNode], v, hv, ?_, hd, n, hn, rfl, hm⟩
      obtain ⟨vd, vs⟩ := v
      cases vs with
      | nil => simp at hn
      | cons a t => simp

theorem validatePropsGroup_iff (props : Grp) (n : Nat) (md : List (String × PropMeta)) (u : Unit) :
    validatePropsGroup props n md = .ok u ↔ ConformantProps n md (some (.group props)) := by
  unfold validatePropsGroup ConformantProps
  simp only [bind_eq_ok, each_eq_ok, require_eq_ok, getItem_eq_ok, validateProp_iff, exists_const,
    lookup_isSome_iff, Geff.Structure.get]
  constructor
  · rintro ⟨h1, h2⟩
    refine ⟨fun name => ⟨h1 name, fun h => (h2 name h).1⟩, ?_⟩
    intro name pm propNode hpm hpn
    have hk : name ∈ keys props := (lookup_isSome_iff props name).1 (by simp [hpn])
    obtain ⟨_, pm', hpm', pn', hpn', hc⟩ := h2 name hk
    rw [hpm] at hpm'; rw [hpn] at hpn'
    cases hpm'; cases hpn'; exact hc
  · rintro ⟨h1, h2⟩
    refine ⟨fun name h => (h1 name).1 h, fun name h => ?_⟩
    have hm : name ∈ keys md := (h1 name).2 h
    refine ⟨hm, ?_⟩
    cases hpm : lookup md name with
    | none => exact absurd hm ((lookup_eq_none_iff md name).1 hpm)
    | some pm =>
      cases hpn : lookup props name with
      | none => exact absurd h ((lookup_eq_none_iff props name).1 hpn)
      | some pn => exact ⟨pm, rfl, pn, rfl, h2 name pm pn hpm hpn⟩

theorem validateOptionalPropsGroup_iff (parent : Grp) (n : Nat) (md : List (String × PropMeta))
    (u : Unit) :
    validateOptionalPropsGroup parent n md = .ok u ↔ ConformantProps n md (get parent PROPS) := by
  unfold validateOptionalPropsGroup
  cases h : Geff.Structure.get parent PROPS with
  | none => simp [ConformantProps]
  | some nd =>
    cases nd with
    | array a => simp [ConformantProps, h]
    | group ch => simp [h, validatePropsGroup_iff]

theorem validateNodesGroup_iff (nodes : Grp) (m : Meta) (u : Unit) :
    validateNodesGroup nodes m = .ok u ↔
      ∃ ids N, get nodes IDS = some (.array ids) ∧ ids.dtype.isInteger = true ∧ ids.shape = [N] ∧
        ConformantProps N m.nodeProps (get nodes PROPS) := by
  unfold validateNodesGroup
  simp only [bind_eq_ok, require_eq_ok, expectArray_eq_ok, shape0_eq_ok, exists_const,
    validateOptionalPropsGroup_iff, Arr.ndim, beq_iff_eq]
  constructor
  · rintro ⟨⟨dt, sh⟩, hi, hint, hlen, N, hN, hc⟩
    refine ⟨_, N, hi, hint, ?_, hc⟩
    rcases sh with _ | ⟨k, _ | _⟩ <;> simp_all
  · rintro ⟨ids, N, hi, hint, hs, hc⟩
    exact ⟨ids, hi, hint, by simp [hs], N, by simp [hs], hc⟩

theorem validateEdgesGroup_iff (edges : Grp) (m : Meta) (u : Unit) :
    validateEdgesGroup edges m = .ok u ↔
      ∃ ids E, get edges IDS = some (.array ids) ∧ ids.shape = [E, 2] ∧
        ids.dtype.isInteger = true ∧ ConformantProps E m.edgeProps (get edges PROPS) := by
  unfold validateEdgesGroup
  simp only [bind_eq_ok, require_eq_ok, expectArray_eq_ok, shape0_eq_ok, shapeLast_eq_ok,
    exists_const, validateOptionalPropsGroup_iff, Arr.ndim, beq_iff_eq]
  constructor
  · rintro ⟨⟨dt, sh⟩, hi, hlen, l, hl, rfl, hint, E, hE, hc⟩
    refine ⟨_, E, hi, ?_, hint, hc⟩
    rcases sh with _ | ⟨a, _ | ⟨b, _ | _⟩⟩ <;> simp_all
  · rintro ⟨ids, E, hi, hs, hint, hc⟩
    exact ⟨ids, hi, by simp [hs], 2, by simp [hs], rfl, hint, E, by simp [hs], hc⟩

theorem validateAxesStructure_iff (graph : Grp) (m : Meta) (u : Unit) :
    validateAxesStructure graph m = .ok u ↔
      ∀ axes, m.axes = some axes → ∀ ax ∈ axes,
        ax ∈ keys m.nodeProps ∧
        ∃ props v, getPath graph [NODES, PROPS] = some (.group props) ∧
          getPath props [ax, VALUES] = some (.array v) ∧ v.shape.length = 1 ∧
          getPath props [ax, MISSING] = none := by
  unfold validateAxesStructure
  cases hax : m.axes with
  | none => simp
  | some axes =>
    cases axes with
    | nil => simp
    | cons a t =>
      simp only [bind_eq_ok, require_eq_ok, expectGroupPath_eq_ok, expectArrayPath_eq_ok,
        each_eq_ok, exists_const, lookup_isSome_iff, Arr.ndim, beq_iff_eq, Option.some.injEq,
        forall_eq', Bool.not_eq_true', Option.isSome_eq_false_iff, Option.isNone_iff_eq_none]
      constructor
      · rintro ⟨props, hp, h⟩ ax hmem
        obtain ⟨h1, _, h3, v, hv, hr⟩ := h ax hmem
        exact ⟨h1, props, v, hp, hv, hr, h3⟩
      · intro h
        obtain ⟨_, props, _, hp, _⟩ := h a (by simp)
        refine ⟨props, hp, fun ax hmem => ?_⟩
        obtain ⟨h1, props', v, hp', hv, hr, h3⟩ := h ax hmem
        rw [hp] at hp'; cases hp'
        exact ⟨h1, by simp [hv], h3, v, hv, hr⟩

theorem axesStep_eq (graph : Grp) (m : Meta) :
    (if m.axes.isSome = true then validateAxesStructure graph m else (pure () : Out Unit))
      = validateAxesStructure graph m := by
  unfold validateAxesStructure
  cases m.axes <;> rfl

/-- the axis condition as `_validate_axes_structure` reads it (paths from the graph group) is the
specification's `ConformantAxis` (members of the `nodes` group) -/
theorem axis_paths_iff (graph nodes : Grp) (m : Meta) (ax : String)
    (hn : get graph NODES = some (.group nodes)) :
    (ax ∈ keys m.nodeProps ∧
      ∃ props v, getPath graph [NODES, PROPS] = some (.group props) ∧
        getPath props [ax, VALUES] = some (.array v) ∧ v.shape.length = 1 ∧
        getPath props [ax, MISSING] = none) ↔ ConformantAxis nodes m ax := by
  unfold ConformantAxis
  simp only [getPath_two, hn]
  constructor
  · rintro ⟨h1, props, v, hp, hv, hr, hm⟩
    refine ⟨h1, props, ?_⟩
    rcases hg : Geff.Structure.get props ax with _ | (a | pg)
    · simp [hg] at hv
    · simp [hg] at hv
    · simp only [hg] at hv hm
      exact ⟨pg, v, hp, rfl, hv, hr, hm⟩
  · rintro ⟨h1, props, pg, v, hp, hg, hv, hr, hm⟩
    exact ⟨h1, props, v, hp, by simp [hg, hv], hr, by simp [hg, hm]⟩

/-- **C04 (soundness and completeness)**: for every target — every tree of groups and arrays with
any dtypes and shapes, every outcome of reading the metadata, a missing path — structural
validation returns normally iff the target is conformant. -/
theorem C04_sound_complete (t : Target) : validateStructure t = .ok () ↔ Conformant t := by
  cases t with
  | missingPath => simp [validateStructure, openStorelike, Conformant]
  | store root attrs =>
    rcases root with _ | (a | graph)
    · simp [validateStructure, openStorelike, Conformant]
    · simp [validateStructure, openStorelike, Conformant]
    · cases attrs with
      | ok m =>
        unfold validateStructure Conformant
        simp only [axesStep_eq, bind_eq_ok, pure_eq_ok, require_eq_ok, expectGroup_eq_ok,
          expectArray_eq_ok, openStorelike, readMetadata, validateNodesGroup_iff,
          validateEdgesGroup_iff, validateAxesStructure_iff, exists_const, beq_iff_eq,
          exists_eq_left', Option.some.injEq, Node.group.injEq, MetaRead.ok.injEq]
        constructor
        · rintro ⟨nodes, hn, ⟨nid, N, hnid, hint, hns, hnp⟩, edges, he, ⟨eid, E, heid, hes, _, hep⟩,
            nid', hnid', eid', heid', hdt, hax⟩
          rw [hnid] at hnid'; rw [heid] at heid'
          cases hnid'; cases heid'
          refine ⟨graph, m, nodes, edges, nid, eid, N, E, rfl, rfl, hn, he, hnid, hint, hns, heid,
            hes, hdt.symm, hnp, hep, ?_⟩
          intro axes ha ax hmem
          exact (axis_paths_iff graph nodes m ax hn).1 (hax axes ha ax hmem)
        · rintro ⟨graph', m', nodes, edges, nid, eid, N, E, hg, hm, hn, he, hnid, hint, hns, heid,
            hes, hdt, hnp, hep, hax⟩
          cases hg; cases hm
          refine ⟨nodes, hn, ⟨nid, N, hnid, hint, hns, hnp⟩, edges, he,
            ⟨eid, E, heid, hes, by rw [hdt]; exact hint, hep⟩, nid, hnid, eid, heid, hdt.symm, ?_⟩
          intro axes ha ax hmem
          exact (axis_paths_iff graph nodes m ax hn).2 (hax axes ha ax hmem)
      | noGeffKey => simp [validateStructure, openStorelike, readMetadata, Conformant]
      | notMapping => simp [validateStructure, openStorelike, readMetadata, Conformant]
      | invalid => simp [validateStructure, openStorelike, readMetadata, Conformant]

/-- **C04 (error class)**: a non-conformant target is always rejected by `ValueError` or
`FileNotFoundError` — never accepted, never by another exception (`Err.other`: the `IndexError`
of `shape[0]` on a 0-d array, the `KeyError` of a failed dict access are unreachable) — and
`FileNotFoundError` is raised exactly for a path that does not exist. -/
theorem C04_error_class (t : Target) (h : ¬ Conformant t) :
    (validateStructure t = .error .valueError ∨ validateStructure t = .error .fileNotFound) ∧
    (validateStructure t = .error .fileNotFound ↔ t = .missingPath) := by
  have hne : validateStructure t ≠ .ok () := fun hk => h ((C04_sound_complete t).1 hk)
  rcases validateStructure_outcome t with ⟨rfl, hfnf⟩ | ⟨hnm, hve⟩
  · exact ⟨Or.inr hfnf, fun _ => rfl, fun _ => hfnf⟩
  · cases hr : validateStructure t with
    | ok u => exact absurd hr hne
    | error e =>
      have := hve e hr
      subst this
      exact ⟨Or.inl rfl, ⟨fun hc => (by cases hc), fun hc => absurd hc hnm⟩⟩

/-- the same without the hypothesis: every outcome is `ok`, `ValueError` or `FileNotFoundError` -/
theorem C04_no_other_exception (t : Target) (name : String) :
    validateStructure t ≠ .error (.other name) := by
  intro hc
  rcases validateStructure_outcome t with ⟨_, hfnf⟩ | ⟨_, hve⟩
  · rw [hfnf] at hc; cases hc
  · cases hve _ hc

/-! ## The reader's constructor (second observation point) -/

theorem mem_groupKeys (g : Grp) (name : String) :
    name ∈ groupKeys g ↔ ∃ ch, (name, Node.group ch) ∈ g := by
  unfold groupKeys
  simp only [List.mem_map, List.mem_filter]
  constructor
  · rintro ⟨⟨k, nd⟩, ⟨hmem, hg⟩, rfl⟩
    cases nd with
    | array a => simp at hg
    | group ch => exact ⟨ch, hmem⟩
  · rintro ⟨ch, hmem⟩
    exact ⟨(name, .group ch), ⟨hmem, rfl⟩, rfl⟩

theorem lookup_mem {β : Type} (d : List (String × β)) (k : String) (v : β) (h : lookup d k = some v) :
    (k, v) ∈ d := by
  induction d with
  | nil => simp [lookup] at h
  | cons p t ih =>
    obtain ⟨k', v'⟩ := p
    by_cases hk : k' = k
    · simp [lookup, hk] at h; subst h; subst hk; simp
    · simp [lookup, hk] at h; exact List.mem_cons_of_mem _ (ih h)

/-- the names the reader offers for one side of a conformant store are the metadata's -/
theorem readPropNames_conformant (graph parent : Grp) (side : String) (n : Nat)
    (md : List (String × PropMeta))
    (hp : get graph side = some (.group parent))
    (hc : ConformantProps n md (get parent PROPS)) :
    ∃ names, readPropNames graph parent [side, PROPS] = .ok names ∧
      ∀ name, name ∈ names ↔ name ∈ keys md := by
  unfold readPropNames
  cases hprops : Geff.Structure.get parent PROPS with
  | none =>
    rw [hprops] at hc
    simp only [ConformantProps] at hc
    subst hc
    exact ⟨[], by simp, by simp [keys]⟩
  | some nd =>
    rw [hprops] at hc
    cases nd with
    | array a => simp [ConformantProps] at hc
    | group props =>
      obtain ⟨hkeys, hall⟩ := hc
      refine ⟨groupKeys props, ?_, fun name => ?_⟩
      · simp [openGroupPath, getPath_two, hp, hprops]
      · rw [mem_groupKeys, hkeys name]
        constructor
        · rintro ⟨ch, hmem⟩
          exact List.mem_map.2 ⟨_, hmem, rfl⟩
        · intro hk
          -- a listed member of a conformant props group is a group
          have hk' : name ∈ keys md := (hkeys name).2 hk
          cases hpm : lookup md name with
          | none => exact absurd hk' ((lookup_eq_none_iff md name).1 hpm)
          | some pm =>
            cases hpn : lookup props name with
            | none => exact absurd hk ((lookup_eq_none_iff props name).1 hpn)
            | some pn =>
              obtain ⟨pg, _, hg, _⟩ := hall name pm pn hpm hpn
              subst hg
              exact ⟨pg, lookup_mem props name _ hpn⟩

/-- **C04 at the reader**: `GeffReader(source, validate=True)` has exactly the outcome of
`validate_structure(source)` — it raises the same exception on a non-conformant target and on a
conformant one its constructor cannot fail any more — and the property names it offers are
exactly those listed in the metadata. -/
theorem C04_reader_outcome (t : Target) :
    (∀ e, validateStructure t = .error e → readerInit true t = .error e) ∧
    (validateStructure t = .ok () → ∃ names, readerInit true t = .ok names ∧
      ∀ m, readMetadata t = .ok m →
        (∀ name, name ∈ names.1 ↔ name ∈ keys m.nodeProps) ∧
        (∀ name, name ∈ names.2 ↔ name ∈ keys m.edgeProps)) := by
  constructor
  · intro e he
    simp [readerInit, he, bind, Except.bind]
  · intro hok
    have hconf := (C04_sound_complete t).1 hok
    cases t with
    | missingPath => exact absurd hconf id
    | store root attrs =>
      obtain ⟨graph, m, nodes, edges, nid, eid, N, E, rfl, rfl, hn, he, hnid, _, _, heid, _, _,
        hnp, hep, _⟩ := hconf
      obtain ⟨nn, hnn, hnn'⟩ := readPropNames_conformant graph nodes NODES N m.nodeProps hn hnp
      obtain ⟨en, hen, hen'⟩ := readPropNames_conformant graph edges EDGES E m.edgeProps he hep
      refine ⟨(nn, en), ?_, ?_⟩
      · simp [readerInit, hok, openStorelike, readMetadata, openArrayPath, getPath_two, hn, he,
          hnid, heid, expectGroup, hnn, hen, bind, Except.bind, pure, Except.pure]
      · intro m' hm'
        simp [readMetadata, pure, Except.pure] at hm'
        subst hm'
        exact ⟨hnn', hen'⟩

/-! ## Non-vacuity and regression examples (evaluations of the model, i.e. tests) -/

private def i64 (sh : List Nat) : Node := .array ⟨Dtype.i64, sh⟩
private def arr (d : Dtype) (sh : List Nat) : Node := .array ⟨d, sh⟩

/-- the smallest conformant geff: no `props` groups at all -/
def minimal : Target :=
  .store (some (.group [("nodes", .group [("ids", i64 [0])]),
                        ("edges", .group [("ids", i64 [0, 2])])]))
    (.ok ⟨[], [], none⟩)

/-- three nodes, two edges; a fixed-shape axis property, a masked property, a variable-length one,
a string property; one edge property -/
def typical : Target :=
  .store (some (.group [
      ("nodes", .group [("ids", i64 [3]),
        ("props", .group [
          ("t", .group [("values", arr Dtype.f64 [3])]),
          ("score", .group [("values", arr Dtype.i32 [3, 2]), ("missing", arr Dtype.bool [3])]),
          ("poly", .group [("values", arr Dtype.u64 [3, 2]), ("data", arr Dtype.f32 [7]),
                           ("missing", arr Dtype.bool [3])]),
          ("label", .group [("values", arr Dtype.str [3])])])]),
      ("edges", .group [("ids", i64 [2, 2]),
        ("props", .group [("w", .group [("values", arr Dtype.f32 [2])])])])]))
    (.ok ⟨[("t", ⟨Dtype.f64, false⟩), ("score", ⟨Dtype.i32, false⟩), ("poly", ⟨Dtype.f32, true⟩),
           ("label", ⟨Dtype.str, false⟩)],
          [("w", ⟨Dtype.f32, false⟩)], some ["t"]⟩)

example : validateStructure minimal = .ok () := by decide
example : validateStructure typical = .ok () := by decide
example : Conformant minimal := (C04_sound_complete _).1 (by decide)
example : Conformant typical := (C04_sound_complete _).1 (by decide)
/-- the hypothesis of `C04_error_class` is satisfiable in both error classes -/
example : ¬ Conformant .missingPath := fun h => h
example : ¬ Conformant (.store none .noGeffKey) := fun h => by
  have := (C04_sound_complete _).2 h; revert this; decide

/-- replace a node of `typical`'s tree -/
private def withNodes (nodes : Grp) (m : Meta) : Target :=
  .store (some (.group [("nodes", .group nodes), ("edges", .group [("ids", i64 [1, 2])])])) (.ok m)

/-! D5 / D19 regression: the inputs on which the unrepaired `validate_structure` was wrong
(corpus cases `harness/corpus/C04/`), on the model of the repaired code. -/
-- 2-D node ids were accepted
example : validateStructure (withNodes [("ids", i64 [3, 2])] ⟨[], [], none⟩) = .error .valueError := by decide
-- 0-d node ids raised IndexError
example : validateStructure (withNodes [("ids", i64 [])] ⟨[], [], none⟩) = .error .valueError := by decide
-- id arrays of different integer dtypes were accepted
example : validateStructure (withNodes [("ids", arr Dtype.u8 [3])] ⟨[], [], none⟩) = .error .valueError := by decide
-- a 2-D `missing` was accepted
example : validateStructure (withNodes [("ids", i64 [3]), ("props", .group [("p", .group
    [("values", arr Dtype.f64 [3]), ("missing", arr Dtype.bool [3, 2])])])]
    ⟨[("p", ⟨Dtype.f64, false⟩)], [], none⟩) = .error .valueError := by decide
-- 0-d values raised IndexError
example : validateStructure (withNodes [("ids", i64 [3]), ("props", .group [("p", .group
    [("values", arr Dtype.f64 [])])])] ⟨[("p", ⟨Dtype.f64, false⟩)], [], none⟩)
    = .error .valueError := by decide
-- metadata listing an edge property although there is no `edges/props` group was accepted
example : validateStructure (withNodes [("ids", i64 [3])] ⟨[], [("w", ⟨Dtype.f64, false⟩)], none⟩)
    = .error .valueError := by decide
-- a conformant store without `nodes/props` was rejected
example : validateStructure (withNodes [("ids", i64 [3])] ⟨[], [], none⟩) = .ok () := by decide
-- a `missing` member that is a group was accepted
example : validateStructure (withNodes [("ids", i64 [3]), ("props", .group [("p", .group
    [("values", arr Dtype.f64 [3]), ("missing", .group [])])])]
    ⟨[("p", ⟨Dtype.f64, false⟩)], [], none⟩) = .error .valueError := by decide

end GeffProps.C04
