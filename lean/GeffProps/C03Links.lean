import GeffProps.C03
import GeffProofs.LinkStoreSg
/-! # C03 ← C01 — the named hypothesis `StoreRoundTrip` of the C03 round trips, discharged by C01's model

`GeffProps/C03.lean` states the networkx / rustworkx / spatial-graph round trips for *every* store
function satisfying `StoreRoundTrip` (what is read back is the in-memory geff that was written, up to the
order of the property dicts).  Here the store is **C01's model**: `Geff.Link.storeVia d axes s0` =
`write_arrays` (model `Geff.WR.writeArrays`, C11's codec, C04's validator model `Geff.Bridge.validate` in
the loop) into a target `s0`, then `read_to_memory`, with the translation `toInMem` / `ofRead` between
C03's column representation (`MemGeff`) and C01's arrays (`InMem`) in between
(`GeffProofs/LinkStoreMem.lean`).

`StoreRoundTrip` quantifies over all `MemValid` in-memory geffs; C01's store cannot hold all of them
(e.g. a column of dtype `object`, a property called `a/b`, rows that are not arrays), so the hypothesis
is discharged on the domain `Geff.Link.Storable` (valid zarr node names; per column a supported dtype
other than float16 and rows that are arrays of one shape / one rank) — and everything the backends'
`write` produces on C03's domains lies in it (`nxWrite_storable`, `sg_storable`), given that attribute
names are valid node names and attribute values are scalars or arrays with `prod shape` leaves, not
Python `None` (`NxStorable`).  The corollaries
below therefore carry **no hypothesis about the store**: only the target being fresh. -/
namespace GeffProps.C03Links
open Geff.Np Geff.Dicts Geff.Backends Geff.Link GeffProps.C03

/-- **C01's store model satisfies `StoreRoundTrip` on `Storable`** (ids of any integer dtype `d`, any
fresh target `s0`: foreign attributes / siblings allowed; no axes in the metadata). -/
theorem C03_store_hypothesis_discharged (d : Dtype) (hd : d.isInteger = true) (s0 : Geff.Store.St)
    (hfresh : Geff.WR.Fresh s0) :
    ∀ m, MemValid m → Storable m → ∃ m', storeVia d none s0 m = .ok m' ∧ MemEquiv m m' :=
  fun m hv hs => storeVia_roundtrip d hd none s0 hfresh m hv hs (axesStrict_none m _ _) (Or.inl rfl)

/-- **C03 (networkx round trip) through C01's store, no store hypothesis**: for every attribute graph in
C03's domain (`NxDomain`) whose attribute names are valid zarr node names and whose array attributes are
arrays (`NxStorable`), every integer id dtype and every fresh target: `geff.write` (networkx) →
`write_arrays` → store → `read_to_memory` → `NxBackend.construct` succeeds and shows the same graph. -/
theorem C03_nx_roundtrip_via_store (d : Dtype) (hd : d.isInteger = true) (s0 : Geff.Store.St)
    (hfresh : Geff.WR.Fresh s0) (G : NxGraph) (h : NxDomain G) (hG : NxStorable G) :
    ∃ G', nxWriteRead (storeVia d none s0) G = .ok G' ∧ nxObs G' = nxObs G := by
  obtain ⟨m, hm, hv, hobs⟩ := nxWrite_obs G h
  obtain ⟨m', hst, heq⟩ := C03_store_hypothesis_discharged d hd s0 hfresh m hv (nxWrite_storable G hG m hm)
  obtain ⟨G', hG', hobs'⟩ := C03_nx_construct m' (memEquiv_valid m m' heq hv)
  refine ⟨G', by simp only [nxWriteRead, writeRead, hm, hst, hG'], ?_⟩
  rw [hobs', memEquiv_obs m m' heq hv, hobs]

/-- **written by networkx, read by rustworkx, through C01's store** -/
theorem C03_nx_to_rx_via_store (d : Dtype) (hd : d.isInteger = true) (s0 : Geff.Store.St)
    (hfresh : Geff.WR.Fresh s0) (G : NxGraph) (h : NxDomain G) (hG : NxStorable G) :
    ∃ G', nxWriteRxRead (storeVia d none s0) G = .ok G' ∧ rxObs G' = nxObs G := by
  obtain ⟨m, hm, hv, hobs⟩ := nxWrite_obs G h
  obtain ⟨m', hst, heq⟩ := C03_store_hypothesis_discharged d hd s0 hfresh m hv (nxWrite_storable G hG m hm)
  obtain ⟨G', hG', hobs'⟩ := C03_rx_construct m' (memEquiv_valid m m' heq hv)
  refine ⟨G', by simp only [nxWriteRxRead, writeRead, hm, hst, hG'], ?_⟩
  rw [hobs', memEquiv_obs m m' heq hv, hobs]

/-- **C03 (rustworkx round trip) through C01's store**: as `C03_rx_roundtrip`, the attribute graph
`(nd, ed) = rxDicts g d'` the rustworkx graph denotes being in the domain. -/
theorem C03_rx_roundtrip_via_store (d : Dtype) (hd : d.isInteger = true) (s0 : Geff.Store.St)
    (hfresh : Geff.WR.Fresh s0) (g : RxGraph) (d' : Option (List (Nat × Int)))
    (nd : List (Int × Attrs)) (ed : List ((Int × Int) × Attrs))
    (hdict : rxDicts g d' = .ok (nd, ed)) (h : NxDomain ⟨g.directed, nd, ed⟩) (hG : NxStorable ⟨g.directed, nd, ed⟩) :
    (∃ G', rxWriteRead (storeVia d none s0) g d' = .ok G' ∧ rxObs G' = nxObs ⟨g.directed, nd, ed⟩) ∧
    (∃ G', rxWriteNxRead (storeVia d none s0) g d' = .ok G' ∧ nxObs G' = nxObs ⟨g.directed, nd, ed⟩) := by
  have hw : rxWrite g d' = nxWrite ⟨g.directed, nd, ed⟩ := by simp only [rxWrite, hdict, nxWrite]
  obtain ⟨G1, h1, o1⟩ := C03_nx_to_rx_via_store d hd s0 hfresh ⟨g.directed, nd, ed⟩ h hG
  obtain ⟨G2, h2, o2⟩ := C03_nx_roundtrip_via_store d hd s0 hfresh ⟨g.directed, nd, ed⟩ h hG
  refine ⟨⟨G1, ?_, o1⟩, ⟨G2, ?_, o2⟩⟩
  · rw [rxWriteRead, hw]; exact h1
  · rw [rxWriteNxRead, hw]; exact h2

/-- **C03 (spatial-graph round trip and its cross-backend reads) through C01's store**, the axis names in
the metadata as `SgBackend.write` passes them: for a spatial-graph graph in C03's domain whose axis and
attribute names are valid zarr node names and whose attribute columns are arrays of one shape. -/
theorem C03_sg_roundtrip_via_store (d : Dtype) (hd : d.isInteger = true) (s0 : Geff.Store.St)
    (hfresh : Geff.WR.Fresh s0) (g : SgGraph) (names : List String) (h : SgGraphDomain g names)
    (hn : ∀ a ∈ names, Geff.WR.validName a = true)
    (hnode : ∀ p ∈ g.nodeAttrs, Geff.WR.validName p.1 = true ∧ ColOK p.2)
    (hedge : ∀ p ∈ g.edgeAttrs, Geff.WR.validName p.1 = true ∧ ColOK p.2) :
    (∃ g', writeRead (sgWrite g names) (storeVia d (some names) s0) (fun m => sgConstruct m (some names)) = .ok g' ∧
        sgObs names g' = sgObs names g) ∧
    (∃ g', writeRead (sgWrite g names) (storeVia d (some names) s0) nxConstruct = .ok g' ∧ nxObs g' = sgObs names g) ∧
    (∃ g', writeRead (sgWrite g names) (storeVia d (some names) s0) rxConstruct = .ok g' ∧ rxObs g' = sgObs names g) := by
  obtain ⟨m, hm, hdom, hobs⟩ := sgWrite_spec g names h
  obtain ⟨hst, hax⟩ := sg_storable g names m hm hdom hn hnode hedge
  obtain ⟨m', hst, heq⟩ := storeVia_roundtrip d hd (some names) s0 hfresh m hdom.valid hst hax (Or.inr hdom.nonempty)
  have hdom' : SgDomain m' names := sgDomain_of_equiv m m' names heq hdom
  obtain ⟨gs, gn, gr, h1, h2, h3, o1, o2, o3⟩ := C03_sg_construct m' names hdom'
  have hmo := memEquiv_obs m m' heq hdom.valid
  refine ⟨⟨gs, by simp only [writeRead, hm, hst, h1], ?_⟩, ⟨gn, by simp only [writeRead, hm, hst, h2], ?_⟩,
    ⟨gr, by simp only [writeRead, hm, hst, h3], ?_⟩⟩
  · rw [o1, hmo, hobs]
  · rw [← o2, o1, hmo, hobs]
  · rw [← o3, o1, hmo, hobs]

/-! ## non-vacuity -/

/-- the empty target and C01's example target (foreign attribute, foreign sibling array) are fresh -/
example : Geff.WR.Fresh [] := ⟨Or.inl rfl, fun _ => rfl, fun _ => rfl⟩

/-- C03's example graph `exG` (bool property on a subset, integers on both sides of 2^63, a float list
property, a string edge property) meets the additional hypothesis `NxStorable` -/
theorem exG_storable : NxStorable GeffProps.C03.exG := by
  constructor <;> intro d hd kv hkv <;>
    simp only [GeffProps.C03.exG, List.mem_cons, List.not_mem_nil, or_false] at hd <;>
    rcases hd with rfl | rfl | rfl <;>
    simp only [List.mem_cons, List.not_mem_nil, or_false] at hkv <;>
    (try rcases hkv with rfl | rfl) <;> (try subst hkv) <;> (try cases hkv) <;>
    exact ⟨by decide, by simp [PyWF, prod]⟩

/-- the model's round trip of `exG` through C01's store model into the empty target evaluates to a graph
showing `exG`'s attributes: bool stays bool under missing elements, 2^63+1 stays an exact integer, 2^64-1
stays a node id, an absent property stays absent -/
def exRT : Option NxGraph := (nxWriteRead (storeVia .u64 none []) GeffProps.C03.exG).toOption

example : exRT.map (fun g => (g.nodeAttr 5 "f", g.nodeAttr 18446744073709551615 "f", g.nodeAttr 5 "p",
      g.hasNode 18446744073709551615, g.edgeAttr (5, 7) "w")) =
    some (some (.sc (.b true)), none, some (.sc (.i 9223372036854775809)), true, some (.sc (.s "a"))) := by
  decide +kernel

/-- … and so does the spatial-graph example of C03 through the store with its axes in the metadata -/
example : (writeRead (sgWrite GeffProps.C03.exSgG ["y", "x"]) (storeVia .u64 (some ["y", "x"]) [])
      (fun m => sgConstruct m (some ["y", "x"]))).toOption.map
    (fun g => (g.nodeAttr ["y", "x"] 9 "x", g.nodeAttr ["y", "x"] 4 "lab", g.position == GeffProps.C03.exSgG.position)) =
    some (some (.sc (.f "0000000000001440")), some (.sc (.i 3)), true) := by decide +kernel

/-- outside `Storable`: a property name containing a separator is not a zarr node name — C01's writer
model leaves its domain (`unmodelled:node-name`) instead of returning a graph -/
example : (storeVia .u64 none [] ⟨true, [1], [], [("a/b", ⟨.i64, false, [([], [.i 1])], none⟩)], []⟩).toOption = none := by
  decide +kernel

end GeffProps.C03Links
