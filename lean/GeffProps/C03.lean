import GeffModel.Backends
/-! # C03 — graph-library round trips are faithful and the backends agree (theorems follow) -/
namespace GeffProps.C03
open Geff.Dicts Geff.Backends

theorem placeholder_setColumn_nil (n : String) (es : List (Option PyVal)) : setColumn n [] es = [] := by
  cases es with
  | nil => rfl
  | cons e t => cases e <;> rfl

end GeffProps.C03
