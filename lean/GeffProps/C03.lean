import GeffProofs.C03Aux
/-! # C03 — graph-library round trips are faithful and the backends agree

Property theorems only.  Models: `GeffModel/Dicts.lean` (`write_dicts`, `dict_props_to_arr`,
`_determine_default_value`, `_exact_int_array`, numpy's dtype inference for Python scalars) and
`GeffModel/Backends.lean` (`NxBackend`, `RxBackend`, `SgBackend` construct / write and the
observation each `GraphAdapter` offers), tied to the implementation by `harness/corr/C03.py`.

How the statement of the property is read here

* an *attribute graph* is observed through what the backends' graph adapters offer: directedness,
  "is `i` a node", "is `(u, v)` an edge" (either orientation when undirected), and for every node /
  edge and property name `none` (the element lacks the property — *no fill value is ever shown*) or
  `some v`, where `v : PyVal` carries its **kind** in its constructor
  (`sc (b _) | sc (i _) | sc (f _) | sc (s _) | arr _ _` = bool | int | float | str | array), so
  equality of observations is equality of the sets of present properties, of values and of kinds;
* the zarr store between `write` and `read` is property C01's subject: it enters as the explicit,
  named hypothesis `StoreRoundTrip` (what is read back is the in-memory geff that was written, up
  to the order of the property dicts) — exercised on every round-trip case of the correspondence.
-/
namespace GeffProps.C03
open Geff.Np Geff.Dicts Geff.Backends

/-! The definitions the statements use live in `GeffProofs/C03Aux.lean` (they are needed by helper
lemmas): `Obs` (directed, hasNode, hasEdge, nodeAttr, edgeAttr), `nxObs` / `rxObs` / `sgObs` (a backend graph
seen through its adapter), `memObs` (the SPECIFICATION: the attribute graph an in-memory geff
denotes — element `k` has property `name` iff the property exists and `k` is not marked missing,
with value `values[k]`), `MemEquiv` (same ids, edges, directedness, properties up to their order),
`SgDomain` / `SgGraphDomain` (the spatial-graph backend's documented domain, for an in-memory geff /
for a spatial-graph graph);
`MemValid`, `NxDomain`, `RegularVals`, `LeafClass` are in `GeffProofs/Backends.lean` / `Dicts.lean`. -/

/-- **named hypothesis** (property C01, not re-proved here) -/
def StoreRoundTrip (store : MemGeff → Except Err MemGeff) : Prop :=
  ∀ m, MemValid m → ∃ m', store m = .ok m' ∧ MemEquiv m m'

/-! ## backends agree -/

/-- **C03 (networkx construct is the specified graph)**: for every valid in-memory geff — any
number of nodes / edges / properties, any dtypes, any missing masks, variable-length or not —
`NxBackend.construct` succeeds and the graph shows exactly what the geff denotes. -/
theorem C03_nx_construct (m : MemGeff) (h : MemValid m) :
    ∃ g, nxConstruct m = .ok g ∧ nxObs g = memObs m := by
  obtain ⟨g, hg, hd, hn, he, hna, hea⟩ := nxConstruct_spec m h
  refine ⟨g, hg, ?_⟩
  simp only [nxObs, memObs, Obs.mk.injEq]
  refine ⟨hd, ?_, ?_, ?_, ?_⟩
  · funext i; exact nx_hasNode_eq g _ hn i
  · funext e; rw [nx_hasEdge_eq g _ he e, hd]
  · funext i name; exact hna i name
  · funext e name; exact hea e name

/-- **C03 (rustworkx construct is the specified graph)**, observed through `to_rx_id_map` as the
(repaired) `RxGraphAdapter` does. -/
theorem C03_rx_construct (m : MemGeff) (h : MemValid m) :
    ∃ g, rxConstruct m = .ok g ∧ rxObs g = memObs m := by
  obtain ⟨g, hg, hd, hn, he, hna, hea⟩ := rxConstruct_spec m h
  refine ⟨g, hg, ?_⟩
  simp only [rxObs, memObs, Obs.mk.injEq]
  exact ⟨hd, funext hn, funext he, funext fun i => funext fun n => hna i n,
    funext fun e => funext fun n => hea e n⟩

/-- **C03 (backends agree)**: constructing from one in-memory geff through networkx and through
rustworkx yields graphs with the same nodes, edges, directedness and, per element, the same
present properties with equal values and kinds. -/
theorem C03_backends_agree (m : MemGeff) (h : MemValid m) :
    ∃ gn gr, nxConstruct m = .ok gn ∧ rxConstruct m = .ok gr ∧ nxObs gn = rxObs gr := by
  obtain ⟨gn, h1, h2⟩ := C03_nx_construct m h
  obtain ⟨gr, h3, h4⟩ := C03_rx_construct m h
  exact ⟨gn, gr, h1, h3, h2.trans h4.symm⟩

/-- **C03 (spatial-graph construct agrees, on its documented domain)**: for a valid non-empty geff
with ≥ 1 axis whose axes are scalar, non-missing node properties of one numeric dtype and whose
other properties are numeric, regular and non-missing (`SgDomain`), `SgBackend.construct` succeeds
and the graph — axes read back out of `position` as `SgGraphAdapter` does — shows exactly what the
geff denotes; hence it agrees with networkx and rustworkx.  (Axes of different dtypes are promoted
by `np.stack`: known finding `C03:sg-mixed-axis-dtypes`, outside `SgDomain`.) -/
theorem C03_sg_construct (m : MemGeff) (names : List String) (h : SgDomain m names) :
    ∃ gs gn gr, sgConstruct m (some names) = .ok gs ∧ nxConstruct m = .ok gn ∧ rxConstruct m = .ok gr ∧
      sgObs names gs = memObs m ∧ sgObs names gs = nxObs gn ∧ sgObs names gs = rxObs gr := by
  obtain ⟨gs, h1, o1⟩ := sgConstruct_spec m names h
  obtain ⟨gn, h2, o2⟩ := C03_nx_construct m h.valid
  obtain ⟨gr, h3, o3⟩ := C03_rx_construct m h.valid
  exact ⟨gs, gn, gr, h1, h2, h3, o1, o1.trans o2.symm, o1.trans o3.symm⟩

/-! ## the dict → array layer: absent stays absent, kind preserved -/

/-- **C03 (dict layer)**: for a property whose present values are all scalars or all lists of one
shape, with leaves of one class (`LeafClass`: bool | ints fitting int64 | ints fitting uint64 | float
| str) — on *any* subset of the elements — `dict_props_to_arr` builds one array of which element
`i` is marked missing iff it lacks the property, and every present entry reads back as exactly the
value given (same kind: the fill value never changes the inferred dtype). -/
theorem C03_dict_layer {ι : Type} (K : LeafClass) (sh : Option (List Nat)) (data : List (ι × Attrs))
    (name : String) (h : RegularVals K sh (present data name)) :
    ∃ c, dictPropToArr data name = .ok c ∧ c.WF data.length ∧
      ∀ i (hi : i < data.length), c.entry i = (data[i]).2.lookup name :=
  dictPropToArr_regular K sh data name h

/-- **C03 (dict layer, ragged lists)**: the same for a variable-length list property — lists of
one rank and one leaf class (`RaggedVals`; integers ≥ 2^63 are the known finding
`C03:ragged-int-values-ge-2^63`) on any subset of the elements. -/
theorem C03_dict_layer_ragged {ι : Type} (K : LeafClass) (r w : Nat) (data : List (ι × Attrs))
    (name : String) (h : RaggedVals K r w (present data name)) :
    ∃ c, dictPropToArr data name = .ok c ∧ c.WF data.length ∧
      ∀ i (hi : i < data.length), c.entry i = (data[i]).2.lookup name :=
  dictPropToArr_ragged K r w data name h

/-- **C03 (dict layer, `None` entries — repair C03-06)**: `None` is none of the five kinds; next to
list values the library's convention (`construct_var_len_props`) is that it marks a missing value.
For a property whose non-`None` present values are ragged-domain lists (at least one) and whose
other elements lack the attribute or hold `None`, in any combination, `dict_props_to_arr` builds
one variable-length column in which an element is flagged missing iff it lacks the attribute
**or** holds `None` (`shown`), and every list reads back exactly. -/
theorem C03_dict_layer_none {ι : Type} (K : LeafClass) (r w : Nat) (data : List (ι × Attrs)) (name : String)
    (h : RaggedVals K r w ((present data name).filter (fun x => !x.isNone)))
    (harr : ∃ x ∈ present data name, x.isArr = true)
    (hnone : ∃ x ∈ filledValues data name, x.isNone = true) :
    ∃ c, dictPropToArr data name = .ok c ∧ c.WF data.length ∧
      ∀ i (hi : i < data.length), c.entry i = shown ((data[i]).2.lookup name) :=
  dictPropToArr_none K r w data name h harr hnone

/-! ## networkx round trip -/

/-- `geff.write(graph, store)` then `geff.read(store, backend=…)` with the store abstracted:
`written` is what the backend's `write` hands to `write_arrays`, `construct` the reading backend -/
def writeRead {γ : Type} (written : Except Err MemGeff) (store : MemGeff → Except Err MemGeff)
    (construct : MemGeff → Except Err γ) : Except Err γ :=
  match written with
  | .error e => .error e
  | .ok m =>
    match store m with
    | .error e => .error e
    | .ok m' => construct m'

/-- written by networkx, read by networkx -/
def nxWriteRead (store : MemGeff → Except Err MemGeff) (G : NxGraph) : Except Err NxGraph :=
  writeRead (nxWrite G) store nxConstruct

/-- written by networkx, read by rustworkx -/
def nxWriteRxRead (store : MemGeff → Except Err MemGeff) (G : NxGraph) : Except Err RxGraph :=
  writeRead (nxWrite G) store rxConstruct

/-- `geff.write(g, store, node_id_dict=d)` then `geff.read(store, backend="rustworkx")` -/
def rxWriteRead (store : MemGeff → Except Err MemGeff) (g : RxGraph) (d : Option (List (Nat × Int))) :
    Except Err RxGraph :=
  writeRead (rxWrite g d) store rxConstruct

/-- `geff.write(g, store, node_id_dict=d)` then `geff.read(store, backend="networkx")` -/
def rxWriteNxRead (store : MemGeff → Except Err MemGeff) (g : RxGraph) (d : Option (List (Nat × Int))) :
    Except Err NxGraph :=
  writeRead (rxWrite g d) store nxConstruct

/-- **C03 (networkx round trip)**: for every attribute graph in the documented domain
(`NxDomain`: ids in `[0, 2^64)`, simple graph, every property *regular* on the subset of elements
that has it) and every store satisfying `StoreRoundTrip`, writing the graph and reading it back
with networkx succeeds and returns a graph with the same nodes, edges, directedness and per
element the same present properties with equal values and kinds.  In particular an element that
lacked a property still lacks it, and a bool / large-integer property that some elements lack
stays bool / integer. -/
theorem C03_nx_roundtrip (store : MemGeff → Except Err MemGeff) (hs : StoreRoundTrip store)
    (G : NxGraph) (h : NxDomain G) :
    ∃ G', nxWriteRead store G = .ok G' ∧ nxObs G' = nxObs G := by
  obtain ⟨m, hm, hv, hobs⟩ := nxWrite_obs G h
  obtain ⟨m', hst, heq⟩ := hs m hv
  obtain ⟨G', hG', hobs'⟩ := C03_nx_construct m' (memEquiv_valid m m' heq hv)
  refine ⟨G', by simp only [nxWriteRead, writeRead, hm, hst, hG'], ?_⟩
  rw [hobs', memEquiv_obs m m' heq hv, hobs]

/-- **C03 (written by networkx, read by rustworkx)**: the other ordered backend pair of the
dict-based writers — the rustworkx graph read back shows the networkx graph that was written. -/
theorem C03_nx_to_rx (store : MemGeff → Except Err MemGeff) (hs : StoreRoundTrip store)
    (G : NxGraph) (h : NxDomain G) :
    ∃ G', nxWriteRxRead store G = .ok G' ∧ rxObs G' = nxObs G := by
  obtain ⟨m, hm, hv, hobs⟩ := nxWrite_obs G h
  obtain ⟨m', hst, heq⟩ := hs m hv
  obtain ⟨G', hG', hobs'⟩ := C03_rx_construct m' (memEquiv_valid m m' heq hv)
  refine ⟨G', by simp only [nxWriteRxRead, writeRead, hm, hst, hG'], ?_⟩
  rw [hobs', memEquiv_obs m m' heq hv, hobs]

/-- **C03 (rustworkx round trip)**: let `(nd, ed) = rxDicts g d` be the attribute graph the
rustworkx graph `g` denotes under `node_id_dict = d` (node payloads at the indices in use —
holes skipped — renamed through `d`, or the indices themselves when `d = None`; the edge list
renamed likewise).  If that graph is in the documented domain, writing `g` and reading it back
with rustworkx yields a graph that shows — through `to_rx_id_map`, as the repaired adapter does —
exactly that attribute graph; reading it with networkx likewise. -/
theorem C03_rx_roundtrip (store : MemGeff → Except Err MemGeff) (hs : StoreRoundTrip store)
    (g : RxGraph) (d : Option (List (Nat × Int))) (nd : List (Int × Attrs)) (ed : List ((Int × Int) × Attrs))
    (hd : rxDicts g d = .ok (nd, ed)) (h : NxDomain ⟨g.directed, nd, ed⟩) :
    (∃ G', rxWriteRead store g d = .ok G' ∧ rxObs G' = nxObs ⟨g.directed, nd, ed⟩) ∧
    (∃ G', rxWriteNxRead store g d = .ok G' ∧ nxObs G' = nxObs ⟨g.directed, nd, ed⟩) := by
  have hw : rxWrite g d = nxWrite ⟨g.directed, nd, ed⟩ := by simp only [rxWrite, hd, nxWrite]
  obtain ⟨G1, h1, o1⟩ := C03_nx_to_rx store hs ⟨g.directed, nd, ed⟩ h
  obtain ⟨G2, h2, o2⟩ := C03_nx_roundtrip store hs ⟨g.directed, nd, ed⟩ h
  refine ⟨⟨G1, ?_, o1⟩, ⟨G2, ?_, o2⟩⟩
  · rw [rxWriteRead, hw]; exact h1
  · rw [rxWriteNxRead, hw]; exact h2

/-- **C03 (spatial-graph round trip and its cross-backend reads)**: for a spatial-graph graph in
the backend's documented domain (`SgGraphDomain`: unique ids, simple, `ndims = len(axis_names) ≥ 1`
distinct axis names that are not attribute names, `position` of that width, numeric regular
attributes) writing it with `axis_names` (`sgWrite`: `position` unsquished into one property per
axis) and reading it back through any store satisfying `StoreRoundTrip` with spatial-graph,
networkx or rustworkx succeeds and shows the same graph: same ids, edges, directedness, per node
the same axis coordinates and attributes with equal values and kinds.  (Partial only in that the
spatial-graph container itself — the order in which it reports nodes, its spatial index — is
library code, abstracted by `SgGraph`.) -/
theorem C03_sg_roundtrip (store : MemGeff → Except Err MemGeff) (hs : StoreRoundTrip store)
    (g : SgGraph) (names : List String) (h : SgGraphDomain g names) :
    (∃ g', writeRead (sgWrite g names) store (fun m => sgConstruct m (some names)) = .ok g' ∧
        sgObs names g' = sgObs names g) ∧
    (∃ g', writeRead (sgWrite g names) store nxConstruct = .ok g' ∧ nxObs g' = sgObs names g) ∧
    (∃ g', writeRead (sgWrite g names) store rxConstruct = .ok g' ∧ rxObs g' = sgObs names g) := by
  obtain ⟨m, hm, hdom, hobs⟩ := sgWrite_spec g names h
  obtain ⟨m', hst, heq⟩ := hs m hdom.valid
  have hdom' : SgDomain m' names := sgDomain_of_equiv m m' names heq hdom
  obtain ⟨gs, gn, gr, h1, h2, h3, o1, o2, o3⟩ := C03_sg_construct m' names hdom'
  have hmo := memEquiv_obs m m' heq hdom.valid
  refine ⟨⟨gs, by simp only [writeRead, hm, hst, h1], ?_⟩, ⟨gn, by simp only [writeRead, hm, hst, h2], ?_⟩,
    ⟨gr, by simp only [writeRead, hm, hst, h3], ?_⟩⟩
  · rw [o1, hmo, hobs]
  · rw [← o2, o1, hmo, hobs]
  · rw [← o3, o1, hmo, hobs]

/-! ## non-vacuity and the defects the theorems exclude -/

/-- a directed graph with a bool property on a subset of the nodes, an integer property with a
value ≥ 2^63 next to a small one and a missing one, ids on both sides of 2^63 -/
def exG : NxGraph :=
  { directed := true,
    nodes := [(5, [("f", .sc (.b true)), ("p", .sc (.i 9223372036854775809))]),
              (18446744073709551615, [("p", .sc (.i 5)), ("v", .arr [2] [.f "000000000000f83f", .f "0000000000000000"])]),
              (7, [("f", .sc (.b false))])],
    edges := [((5, 7), [("w", .sc (.s "a"))]), ((7, 18446744073709551615), [])] }

/-- the identity store satisfies the hypothesis (so the theorems are not vacuous in `store`) -/
example : StoreRoundTrip (fun m => .ok m) :=
  fun m _ => ⟨m, rfl, ⟨rfl, rfl, rfl, List.Perm.refl _, List.Perm.refl _⟩⟩

/-- the round trip of `exG` evaluated in the model: bool stays bool under missing elements (D2),
2^63+1 stays an exact integer next to 5 and a fill (D21), 2^64-1 stays a node id (D18) -/
def exRT : Option NxGraph := (nxWriteRead (fun m => .ok m) exG).toOption

example : exRT.map (fun g => g.nodeAttr 5 "f") = some (some (.sc (.b true))) := by decide
example : exRT.map (fun g => g.nodeAttr 18446744073709551615 "f") = some none := by decide
example : exRT.map (fun g => g.nodeAttr 5 "p") = some (some (.sc (.i 9223372036854775809))) := by decide
example : exRT.map (fun g => g.nodeAttr 7 "p") = some none := by decide
example : exRT.map (fun g => g.hasNode 18446744073709551615) = some true := by decide
example : exRT.map (fun g => g.edgeAttr (5, 7) "w") = some (some (.sc (.s "a"))) := by decide

/-- the hypotheses of the dict-layer theorem hold for the bool property of `exG` (class bool,
scalars), for its big-integer property (class uint64) and for its list property -/
example : RegularVals .bool none (present exG.nodes "f") := by
  refine ⟨by simp, ?_⟩
  intro x hx
  simp only [present, exG, List.filterMap_cons, lookup_cons_ite] at hx
  simp at hx
  rcases hx with rfl | rfl <;> simp [pyShape, pyLeaves, LeafClass.holds]

example : RegularVals .uint64 none (present exG.nodes "p") := by
  refine ⟨by simp, ?_⟩
  intro x hx
  simp only [present, exG, List.filterMap_cons, lookup_cons_ite] at hx
  simp at hx
  rcases hx with rfl | rfl <;> simp [pyShape, pyLeaves, LeafClass.holds, two64]

/-- `exG` lies in the documented domain: the round-trip theorems apply to it -/
example : NxDomain exG where
  nodup := by decide
  idRange := by decide
  endpoints := by decide
  simple := by decide
  nodeProps := by
    intro name
    by_cases h1 : name = "f"
    · subst h1
      refine Or.inl ⟨.bool, none, by simp, ?_⟩
      intro x hx
      simp only [present, exG, List.filterMap_cons, lookup_cons_ite] at hx
      simp at hx
      rcases hx with rfl | rfl <;> simp [pyShape, pyLeaves, LeafClass.holds]
    · by_cases h2 : name = "p"
      · subst h2
        refine Or.inl ⟨.uint64, none, by simp, ?_⟩
        intro x hx
        simp only [present, exG, List.filterMap_cons, lookup_cons_ite] at hx
        simp at hx
        rcases hx with rfl | rfl <;> simp [pyShape, pyLeaves, LeafClass.holds, two64]
      · by_cases h3 : name = "v"
        · subst h3
          refine Or.inl ⟨.float, some [2], by simp, ?_⟩
          intro x hx
          simp only [present, exG, List.filterMap_cons, lookup_cons_ite] at hx
          simp at hx
          subst hx
          simp [pyShape, pyLeaves, LeafClass.holds]
        · refine Or.inl ⟨.bool, none, ?_⟩
          have : present exG.nodes name = [] := by
            simp [present, exG, lookup_cons_ite, h1, h2, h3]
          rw [this]; exact regular_nil _
  edgeProps := by
    intro name
    by_cases h1 : name = "w"
    · subst h1
      refine Or.inl ⟨.str, none, by simp, ?_⟩
      intro x hx
      simp only [present, exG, List.filterMap_cons, lookup_cons_ite] at hx
      simp at hx
      subst hx
      simp [pyShape, pyLeaves, LeafClass.holds]
    · refine Or.inl ⟨.bool, none, ?_⟩
      have : present exG.edges name = [] := by
        simp [present, exG, lookup_cons_ite, h1]
      rw [this]; exact regular_nil _

/-- non-vacuity for rustworkx: a graph with a removed index (hole at 1), an explicit
`node_id_dict` with an id above 2^63, a bool payload on one node only; `rxDicts` evaluates to the
denoted attribute graph and the round trip shows it -/
def exRx : RxGraph :=
  { directed := false,
    slots := [some [("f", .sc (.b true))], none, some []],
    edges := [((2, 0), [("w", .sc (.i 3))])], idMap := none }

example : (rxDicts exRx (some [(0, 100), (2, 9223372036854775808)])).toOption.map (·.1) =
    some [(100, [("f", .sc (.b true))]), (9223372036854775808, [])] := by decide
example : (rxDicts exRx (some [(0, 100), (2, 9223372036854775808)])).toOption.map (·.2) =
    some [((9223372036854775808, 100), [("w", .sc (.i 3))])] := by decide
example : (rxWriteRead (fun m => .ok m) exRx (some [(0, 100), (2, 9223372036854775808)])).toOption.map
    (fun g => g.nodeAttr 100 "f") = some (some (.sc (.b true))) := by decide
example : (rxWriteRead (fun m => .ok m) exRx (some [(0, 100), (2, 9223372036854775808)])).toOption.map
    (fun g => (g.nodeAttr 9223372036854775808 "f", g.hasEdge (100, 9223372036854775808))) = some (none, true) := by
  decide
/-- an index that `node_id_dict` does not cover is `KeyError`, as in Python -/
example : (rxDicts exRx (some [(0, 100)])).map (fun _ => ()) = .error .keyError := by decide

/-- non-vacuity of the ragged dict-layer theorem: lists of different length on two of three elements -/
def exRag : List (Int × Attrs) :=
  [(0, [("r", .arr [2] [.i 1, .i 2])]), (1, []), (2, [("r", .arr [1] [.i 7])])]

example : RaggedVals .int64 1 1 (present exRag "r") := by
  refine ⟨by decide, by decide, ?_⟩
  intro x hx
  simp only [present, exRag, List.filterMap_cons, lookup_cons_ite] at hx
  simp at hx
  rcases hx with rfl | rfl
  · exact ⟨[2], [.i 1, .i 2], rfl, rfl, by decide, Or.inl (by simp), by decide⟩
  · exact ⟨[1], [.i 7], rfl, rfl, by decide, Or.inl (by simp), by decide⟩

example : (dictPropToArr exRag "r").toOption.map (fun c => (c.varlen, c.entry 0, c.entry 1, c.entry 2)) =
    some (true, some (.arr [2] [.i 1, .i 2]), none, some (.arr [1] [.i 7])) := by decide

/-- non-vacuity for spatial-graph: two nodes, axes `y`, `x` (float64) and an int16 attribute -/
def exSg : MemGeff :=
  { directed := true, nodeIds := [3, 9], edgeIds := [(9, 3)],
    nodeProps := [("y", ⟨.f64, false, [([], [.f "000000000000f03f"]), ([], [.f "0000000000000040"])], none⟩),
                  ("x", ⟨.f64, false, [([], [.f "0000000000000000"]), ([], [.f "0000000000000840"])], none⟩),
                  ("lab", ⟨.i16, false, [([], [.i 1]), ([], [.i 2])], none⟩)],
    edgeProps := [("w", ⟨.f32, false, [([], [.f "000000000000e03f"])], none⟩)] }

example : (sgConstruct exSg (some ["y", "x"])).toOption.map
    (fun g => (g.nodeAttr ["y", "x"] 9 "x", g.nodeAttr ["y", "x"] 9 "lab", g.edgeAttr (9, 3) "w", g.position)) =
    some (some (.sc (.f "0000000000000840")), some (.sc (.i 2)), some (.sc (.f "000000000000e03f")),
          [[.f "000000000000f03f", .f "0000000000000000"], [.f "0000000000000040", .f "0000000000000840"]]) := by
  decide

/-- non-vacuity of the spatial-graph round trip: an undirected graph, 2 axes, one int16 attribute -/
def exSgG : SgGraph :=
  { directed := false, ndims := 2, posDtype := .f64, nodes := [3, 9, 4],
    position := [[.f "000000000000f03f", .f "0000000000001040"], [.f "0000000000000040", .f "0000000000001440"],
                 [.f "0000000000000840", .f "0000000000001840"]],
    nodeAttrs := [("lab", ⟨.i16, false, [([], [.i 1]), ([], [.i 2]), ([], [.i 3])], none⟩)],
    edges := [(9, 3), (9, 4)],
    edgeAttrs := [("w", ⟨.f32, false, [([], [.f "000000000000e03f"]), ([], [.f "000000000000f03f"])], none⟩)] }

example : SgGraphDomain exSgG ["y", "x"] where
  nodup := by decide
  nonempty := by decide
  endpoints := by decide
  simple := by decide
  ndims := by decide
  axes := by decide
  axesNodup := by decide
  posLen := by decide
  posRows := by decide
  posDtype := by decide
  nodeNames := by decide
  disjoint := by decide
  nodeCols := by decide
  edgeNames := by decide
  edgeCols := by decide

example : (writeRead (sgWrite exSgG ["y", "x"]) (fun m => .ok m) (fun m => sgConstruct m (some ["y", "x"]))).toOption.map
    (fun g => (g.nodeAttr ["y", "x"] 9 "x", g.nodeAttr ["y", "x"] 4 "lab", g.edgeAttr (3, 9) "w", g.position == exSgG.position)) =
    some (some (.sc (.f "0000000000001440")), some (.sc (.i 3)), some (.sc (.f "000000000000e03f")), true) := by decide

/-- known finding `C03:sg-mixed-axis-dtypes`: with an integer time axis next to a float axis the
model leaves its domain (numpy promotes the stacked position) -/
example : (sgConstruct { exSg with nodeProps := ("t", ⟨.i64, false, [([], [.i 0]), ([], [.i 1])], none⟩) :: exSg.nodeProps }
    (some ["t", "x"])).map (fun _ => ()) = .error (.unmodelled "axes of different dtypes are promoted") := by
  decide

/-- non-vacuity of the `None` theorem, and the case a seeded change broke: one element lacks the
attribute, another holds `None`, a third a list — both are flagged missing, the list reads back -/
def exNone : List (Int × Attrs) :=
  [(7, []), (3, [("p", .none)]), (40, [("p", .arr [2] [.f "0000000000002540", .f "0000000000002740"])])]

example : RaggedVals .float 1 1 ((present exNone "p").filter (fun x => !x.isNone)) := by
  refine ⟨by decide, by decide, ?_⟩
  intro x hx
  simp only [present, exNone, List.filterMap_cons, lookup_cons_ite] at hx
  simp [PyVal.isNone] at hx
  subst hx
  exact ⟨[2], _, rfl, rfl, by decide, Or.inl (by simp), by decide⟩
example : ∃ x ∈ present exNone "p", x.isArr = true := ⟨.arr [2] [.f "0000000000002540", .f "0000000000002740"], by decide, rfl⟩
example : ∃ x ∈ filledValues exNone "p", x.isNone = true := ⟨.none, by decide, rfl⟩
example : (dictPropToArr exNone "p").toOption.map (fun c => (c.missing, c.entry 0, c.entry 1, c.entry 2)) =
    some (some [true, true, false], none, none,
          some (.arr [2] [.f "0000000000002540", .f "0000000000002740"])) := by decide

/-- D2 as it was before the repair: with the old fill (int `0` for a bool) numpy's inference on
`[True, 0]` is int64 and `True` is stored as the integer 1 — the kind changes.  This is the fact
`dtypeOf (fill :: present) ≠ dtypeOf present` that made the round-trip theorem false for bool. -/
theorem C03_counterexample_old_bool_fill :
    valuesToArr [.sc (.b true), .sc (.i 0)] = .ok (.i64, false, [([], [.i 1]), ([], [.i 0])]) := by
  decide

/-- with the repaired fill the same property is a bool array -/
example : valuesToArr [.sc (.b true), defaultFor (.sc (.b true))] = .ok (.bool, false, [([], [.b true]), ([], [.b false])]) := by
  decide

/-- known finding `C03:ragged-int-values-ge-2^63` (outside `RegularVals`): a ragged list property
with integers on both sides of 2^63 inside one element needs an int → float cast (values rounded,
leaf kind changes); the model marks it as outside its domain instead of returning the values -/
theorem C03_counterexample_ragged_big :
    dictPropToArr [((1 : Int), [("p", PyVal.arr [2] [.i 1, .i 2])]),
                   (2, [("p", PyVal.arr [3] [.i 9223372036854775809, .i 3, .i 4])])] "p"
      = .error (.unmodelled "cast between kinds") := by
  decide

end GeffProps.C03
