import GeffProofs.Backends
/-! # C03 — graph-library round trips are faithful and the backends agree

Property theorems only.  Models: `GeffModel/Dicts.lean` (`write_dicts`, `dict_props_to_arr`,
`_determine_default_value`, `_exact_int_array`, numpy's dtype inference for Python scalars) and
`GeffModel/Backends.lean` (`NxBackend`, `RxBackend`, `SgBackend` construct / write and the
observation each `GraphAdapter` offers), tied to the implementation by `harness/corr/C03.py`.

How the statement of the property is read here

* an *attribute graph* is observed through what the backends' graph adapters offer: directedness,
  "is `i` a node", "is `(u, v)` an edge" (either orientation when undirected), and for every node /
  edge and property name `none` (the element lacks the property — *no fill value is ever shown*) or
  `some v`, where `v : PyVal` carries its **kind** in its constructor
  (`sc (b _) | sc (i _) | sc (f _) | sc (s _) | arr _ _` = bool | int | float | str | array), so
  equality of observations is equality of the sets of present properties, of values and of kinds;
* the zarr store between `write` and `read` is property C01's subject: it enters as the explicit,
  named hypothesis `StoreRoundTrip` (what is read back is the in-memory geff that was written, up
  to the order of the property dicts) — exercised on every round-trip case of the correspondence.
-/
namespace GeffProps.C03
open Geff.Np Geff.Dicts Geff.Backends

/-- what a graph shows through its adapter -/
structure Obs where
  directed : Bool
  hasNode : Int → Bool
  hasEdge : Int × Int → Bool
  nodeAttr : Int → String → Option PyVal
  edgeAttr : Int × Int → String → Option PyVal

def nxObs (g : NxGraph) : Obs := ⟨g.directed, g.hasNode, g.hasEdge, g.nodeAttr, g.edgeAttr⟩
def rxObs (g : RxGraph) : Obs := ⟨g.directed, g.hasNode, g.hasEdge, g.nodeAttr, g.edgeAttr⟩

/-- SPECIFICATION of an in-memory geff (docs: `values` + optional `missing` per property): the
attribute graph it denotes.  Element `k` has property `name` iff the property exists and `k` is
not marked missing; its value is `values[k]`. -/
def memObs (m : MemGeff) : Obs :=
  ⟨m.directed, fun i => decide (i ∈ m.nodeIds), fun e => m.edgeIds.any (fun x => sameEdge m.directed x e),
   specNodeAttr m, specEdgeAttr m⟩

/-- what property C01 establishes about the store: reading back what was written returns the same
in-memory geff, up to the order in which the properties are listed -/
structure MemEquiv (m m' : MemGeff) : Prop where
  directed : m'.directed = m.directed
  nodeIds : m'.nodeIds = m.nodeIds
  edgeIds : m'.edgeIds = m.edgeIds
  nodeProps : m'.nodeProps.Perm m.nodeProps
  edgeProps : m'.edgeProps.Perm m.edgeProps

/-- **named hypothesis** (property C01, not re-proved here) -/
def StoreRoundTrip (store : MemGeff → Except Err MemGeff) : Prop :=
  ∀ m, MemValid m → ∃ m', store m = .ok m' ∧ MemEquiv m m'

/-! ## backends agree -/

theorem nx_hasNode_eq (g : NxGraph) (ids : List Int) (h : g.nodes.map (·.1) = ids) (i : Int) :
    g.hasNode i = decide (i ∈ ids) := by
  subst h
  simp only [NxGraph.hasNode]
  rw [Bool.eq_iff_iff]
  simp only [List.any_eq_true, decide_eq_true_eq, List.mem_map]
  constructor
  · rintro ⟨x, hx, rfl⟩; exact ⟨x, hx, rfl⟩
  · rintro ⟨x, hx, rfl⟩; exact ⟨x, hx, rfl⟩

theorem nx_hasEdge_eq (g : NxGraph) (es : List (Int × Int)) (h : g.edges.map (·.1) = es) (e : Int × Int) :
    g.hasEdge e = es.any (fun x => sameEdge g.directed x e) := by
  subst h
  simp [NxGraph.hasEdge, List.any_map, Function.comp_def]

/-- **C03 (networkx construct is the specified graph)**: for every valid in-memory geff — any
number of nodes / edges / properties, any dtypes, any missing masks, variable-length or not —
`NxBackend.construct` succeeds and the graph shows exactly what the geff denotes. -/
theorem C03_nx_construct (m : MemGeff) (h : MemValid m) :
    ∃ g, nxConstruct m = .ok g ∧ nxObs g = memObs m := by
  obtain ⟨g, hg, hd, hn, he, hna, hea⟩ := nxConstruct_spec m h
  refine ⟨g, hg, ?_⟩
  simp only [nxObs, memObs, Obs.mk.injEq]
  refine ⟨hd, ?_, ?_, ?_, ?_⟩
  · funext i; exact nx_hasNode_eq g _ hn i
  · funext e; rw [nx_hasEdge_eq g _ he e, hd]
  · funext i name; exact hna i name
  · funext e name; exact hea e name

/-- **C03 (rustworkx construct is the specified graph)**, observed through `to_rx_id_map` as the
(repaired) `RxGraphAdapter` does. -/
theorem C03_rx_construct (m : MemGeff) (h : MemValid m) :
    ∃ g, rxConstruct m = .ok g ∧ rxObs g = memObs m := by
  obtain ⟨g, hg, hd, hn, he, hna, hea⟩ := rxConstruct_spec m h
  refine ⟨g, hg, ?_⟩
  simp only [rxObs, memObs, Obs.mk.injEq]
  exact ⟨hd, funext hn, funext he, funext fun i => funext fun n => hna i n,
    funext fun e => funext fun n => hea e n⟩

/-- **C03 (backends agree)**: constructing from one in-memory geff through networkx and through
rustworkx yields graphs with the same nodes, edges, directedness and, per element, the same
present properties with equal values and kinds. -/
theorem C03_backends_agree (m : MemGeff) (h : MemValid m) :
    ∃ gn gr, nxConstruct m = .ok gn ∧ rxConstruct m = .ok gr ∧ nxObs gn = rxObs gr := by
  obtain ⟨gn, h1, h2⟩ := C03_nx_construct m h
  obtain ⟨gr, h3, h4⟩ := C03_rx_construct m h
  exact ⟨gn, gr, h1, h3, h2.trans h4.symm⟩

/-! ## the dict → array layer: absent stays absent, kind preserved -/

/-- **C03 (dict layer)**: for a property whose present values are all scalars or all lists of one
shape, with leaves of one class (`LeafClass`: bool | ints fitting int64 | ints fitting uint64 | float
| str) — on *any* subset of the elements — `dict_props_to_arr` builds one array of which element
`i` is marked missing iff it lacks the property, and every present entry reads back as exactly the
value given (same kind: the fill value never changes the inferred dtype). -/
theorem C03_dict_layer {ι : Type} (K : LeafClass) (sh : Option (List Nat)) (data : List (ι × Attrs))
    (name : String) (h : RegularVals K sh (present data name)) :
    ∃ c, dictPropToArr data name = .ok c ∧ c.WF data.length ∧
      ∀ i (hi : i < data.length), c.entry i = (data[i]).2.lookup name :=
  dictPropToArr_regular K sh data name h

/-! ## networkx round trip -/

theorem lookup_of_mem_nodup {β : Type} (l : List (String × β)) (k : String) (v : β)
    (hm : (k, v) ∈ l) (hnd : (l.map (·.1)).Nodup) : l.lookup k = some v := by
  induction l with
  | nil => simp at hm
  | cons p t ih =>
    obtain ⟨k', v'⟩ := p
    rw [lookup_cons_ite]
    have hnd' := List.nodup_cons.1 (by simpa using hnd)
    rcases List.mem_cons.1 hm with heq | hm'
    · cases heq; simp
    · have hne : k ≠ k' := by
        intro e; subst e
        exact hnd'.1 (List.mem_map.2 ⟨(k, v), hm', rfl⟩)
      simp only [hne, if_false]
      exact ih hm' hnd'.2

theorem perm_lookup {β : Type} (l l' : List (String × β)) (hp : l'.Perm l) (hnd : (l.map (·.1)).Nodup)
    (k : String) : l'.lookup k = l.lookup k := by
  have hnd' : (l'.map (·.1)).Nodup := (hp.map (·.1)).nodup_iff.2 hnd
  cases hl : l.lookup k with
  | some v => exact lookup_of_mem_nodup l' k v (hp.mem_iff.2 (lookup_mem l k v hl)) hnd'
  | none =>
    apply lookup_none_of_not_mem
    intro hk
    obtain ⟨v, hv⟩ := lookup_some_of_mem l k ((hp.map (·.1)).mem_iff.1 hk)
    rw [hv] at hl; cases hl

theorem memEquiv_valid (m m' : MemGeff) (he : MemEquiv m m') (h : MemValid m) : MemValid m' :=
  { nodup := by rw [he.nodeIds]; exact h.nodup
    endpoints := by rw [he.nodeIds, he.edgeIds]; exact h.endpoints
    simple := by rw [he.edgeIds, he.directed]; exact h.simple
    nodeNames := ((he.nodeProps.map (·.1)).nodup_iff).2 h.nodeNames
    edgeNames := ((he.edgeProps.map (·.1)).nodup_iff).2 h.edgeNames
    nodeCols := by
      intro p hp; rw [he.nodeIds]; exact h.nodeCols p (he.nodeProps.mem_iff.1 hp)
    edgeCols := by
      intro p hp; rw [he.edgeIds]; exact h.edgeCols p (he.edgeProps.mem_iff.1 hp) }

theorem memEquiv_obs (m m' : MemGeff) (he : MemEquiv m m') (h : MemValid m) : memObs m' = memObs m := by
  simp only [memObs, Obs.mk.injEq]
  refine ⟨he.directed, by rw [he.nodeIds], by rw [he.edgeIds, he.directed], ?_, ?_⟩
  · funext i name
    simp only [specNodeAttr, he.nodeIds, memAttr, perm_lookup _ _ he.nodeProps h.nodeNames]
  · funext e name
    simp only [specEdgeAttr, he.edgeIds, he.directed, memAttr, perm_lookup _ _ he.edgeProps h.edgeNames]

/-- `geff.write(G, store)` then `geff.read(store, backend="networkx")`, the store abstracted -/
def nxWriteRead (store : MemGeff → Except Err MemGeff) (G : NxGraph) : Except Err NxGraph :=
  match nxWrite G with
  | .error e => .error e
  | .ok m =>
    match store m with
    | .error e => .error e
    | .ok m' => nxConstruct m'

/-- `geff.write(G, store)` then `geff.read(store, backend="rustworkx")` -/
def nxWriteRxRead (store : MemGeff → Except Err MemGeff) (G : NxGraph) : Except Err RxGraph :=
  match nxWrite G with
  | .error e => .error e
  | .ok m =>
    match store m with
    | .error e => .error e
    | .ok m' => rxConstruct m'

theorem nxWrite_obs (G : NxGraph) (h : NxDomain G) :
    ∃ m, nxWrite G = .ok m ∧ MemValid m ∧ memObs m = nxObs G := by
  obtain ⟨m, hm, hv, hd, hna, hea, hni, hei⟩ := nxWrite_spec G h
  refine ⟨m, hm, hv, ?_⟩
  simp only [memObs, nxObs, Obs.mk.injEq]
  refine ⟨hd, ?_, ?_, ?_, ?_⟩
  · funext i; rw [hni]; exact (nx_hasNode_eq G _ rfl i).symm
  · funext e; rw [hei, hd]; exact (nx_hasEdge_eq G _ rfl e).symm
  · funext i name; exact hna i name
  · funext e name; exact hea e name

/-- **C03 (networkx round trip)**: for every attribute graph in the documented domain
(`NxDomain`: ids in `[0, 2^64)`, simple graph, every property *regular* on the subset of elements
that has it) and every store satisfying `StoreRoundTrip`, writing the graph and reading it back
with networkx succeeds and returns a graph with the same nodes, edges, directedness and per
element the same present properties with equal values and kinds.  In particular an element that
lacked a property still lacks it, and a bool / large-integer property that some elements lack
stays bool / integer. -/
theorem C03_nx_roundtrip (store : MemGeff → Except Err MemGeff) (hs : StoreRoundTrip store)
    (G : NxGraph) (h : NxDomain G) :
    ∃ G', nxWriteRead store G = .ok G' ∧ nxObs G' = nxObs G := by
  obtain ⟨m, hm, hv, hobs⟩ := nxWrite_obs G h
  obtain ⟨m', hst, heq⟩ := hs m hv
  obtain ⟨G', hG', hobs'⟩ := C03_nx_construct m' (memEquiv_valid m m' heq hv)
  refine ⟨G', by simp only [nxWriteRead, hm, hst, hG'], ?_⟩
  rw [hobs', memEquiv_obs m m' heq hv, hobs]

/-- **C03 (written by networkx, read by rustworkx)**: the other ordered backend pair of the
dict-based writers — the rustworkx graph read back shows the networkx graph that was written. -/
theorem C03_nx_to_rx (store : MemGeff → Except Err MemGeff) (hs : StoreRoundTrip store)
    (G : NxGraph) (h : NxDomain G) :
    ∃ G', nxWriteRxRead store G = .ok G' ∧ rxObs G' = nxObs G := by
  obtain ⟨m, hm, hv, hobs⟩ := nxWrite_obs G h
  obtain ⟨m', hst, heq⟩ := hs m hv
  obtain ⟨G', hG', hobs'⟩ := C03_rx_construct m' (memEquiv_valid m m' heq hv)
  refine ⟨G', by simp only [nxWriteRxRead, hm, hst, hG'], ?_⟩
  rw [hobs', memEquiv_obs m m' heq hv, hobs]

/-! ## non-vacuity and the defects the theorems exclude -/

/-- a directed graph with a bool property on a subset of the nodes, an integer property with a
value ≥ 2^63 next to a small one and a missing one, ids on both sides of 2^63 -/
def exG : NxGraph :=
  { directed := true,
    nodes := [(5, [("f", .sc (.b true)), ("p", .sc (.i 9223372036854775809))]),
              (18446744073709551615, [("p", .sc (.i 5)), ("v", .arr [2] [.f "000000000000f83f", .f "0000000000000000"])]),
              (7, [("f", .sc (.b false))])],
    edges := [((5, 7), [("w", .sc (.s "a"))]), ((7, 18446744073709551615), [])] }

/-- the identity store satisfies the hypothesis (so the theorems are not vacuous in `store`) -/
example : StoreRoundTrip (fun m => .ok m) :=
  fun m _ => ⟨m, rfl, ⟨rfl, rfl, rfl, List.Perm.refl _, List.Perm.refl _⟩⟩

/-- the round trip of `exG` evaluated in the model: bool stays bool under missing elements (D2),
2^63+1 stays an exact integer next to 5 and a fill (D21), 2^64-1 stays a node id (D18) -/
example : (nxWriteRead (fun m => .ok m) exG).toOption.map (fun g => (g.nodeAttr 5 "f", g.nodeAttr 18446744073709551615 "f",
    g.nodeAttr 5 "p", g.nodeAttr 7 "p", g.hasNode 18446744073709551615, g.edgeAttr (5, 7) "w")) =
    some (some (.sc (.b true)), none, some (.sc (.i 9223372036854775809)), none, true, some (.sc (.s "a"))) := by
  decide

/-- the hypotheses of the dict-layer theorem hold for the bool property of `exG` (class bool,
scalars), for its big-integer property (class uint64) and for its list property -/
example : RegularVals .bool none (present exG.nodes "f") := by
  refine ⟨by simp, ?_⟩
  intro x hx
  simp only [present, exG, List.filterMap_cons, lookup_cons_ite] at hx
  simp at hx
  rcases hx with rfl | rfl <;> simp [pyShape, pyLeaves, LeafClass.holds]

example : RegularVals .uint64 none (present exG.nodes "p") := by
  refine ⟨by simp, ?_⟩
  intro x hx
  simp only [present, exG, List.filterMap_cons, lookup_cons_ite] at hx
  simp at hx
  rcases hx with rfl | rfl <;> simp [pyShape, pyLeaves, LeafClass.holds, two64]

/-- D2 as it was before the repair: with the old fill (int `0` for a bool) numpy's inference on
`[True, 0]` is int64 and `True` is stored as the integer 1 — the kind changes.  This is the fact
`dtypeOf (fill :: present) ≠ dtypeOf present` that made the round-trip theorem false for bool. -/
theorem C03_counterexample_old_bool_fill :
    valuesToArr [.sc (.b true), .sc (.i 0)] = .ok (.i64, false, [([], [.i 1]), ([], [.i 0])]) := by
  decide

/-- with the repaired fill the same property is a bool array -/
example : valuesToArr [.sc (.b true), defaultFor (.sc (.b true))] = .ok (.bool, false, [([], [.b true]), ([], [.b false])]) := by
  decide

/-- known finding `C03:ragged-int-values-ge-2^63` (outside `RegularVals`): a ragged list property
with integers on both sides of 2^63 inside one element needs an int → float cast (values rounded,
leaf kind changes); the model marks it as outside its domain instead of returning the values -/
theorem C03_counterexample_ragged_big :
    ∀ c, dictPropToArr [((1 : Int), [("p", PyVal.arr [2] [.i 1, .i 2])]),
                        (2, [("p", PyVal.arr [3] [.i 9223372036854775809, .i 3, .i 4])])] "p" ≠ .ok c := by
  decide

end GeffProps.C03
