import GeffProofs.NpPrim
import GeffProps.C12
import Gen.ValidateGraph
/-! C12, tie between source and model by TRANSLATION: the definitions `Gen.ValidateGraph.*` are
regenerated on every run from the bodies of `geff/validate/graph.py` and of `validate_sphere`
(translator T11, `harness/translators/t11_validate_graph.py`) as a statement-by-statement
transliteration over the numpy primitives of `GeffModel/NpPrim.lean`.  Here each of them is proved
EQUAL, for all inputs, to the hand-written model `Geff.Validate.*` that the theorems of
`GeffProps.C12` are about — so those theorems hold of the code as regenerated from the current
source (modulo the numpy primitives, which have a correspondence stream of their own), and in
particular the translated code never raises one of numpy's own exceptions (wrong mask length,
broadcast, index out of range) on a 1-D id array and an `(E, 2)` edge array.

Every theorem also requires `Gen.ValidateGraph.translationOk = true`: a source outside the
translator's subset is reported, never skipped. -/
namespace GeffProps.C12Gen
open Geff Geff.Graph Geff.Validate Geff.NpPrim

/-! ## the five equalities -/

/-- `validate_unique_node_ids` as translated = the model, for every id array -/
theorem gen_validate_unique_node_ids_eq :
    Gen.ValidateGraph.translationOk = true ∧
    ∀ ids : List Int, Gen.ValidateGraph.validate_unique_node_ids ids = .ok (validateUniqueNodeIds ids) := by
  refine ⟨rfl, fun ids => ?_⟩
  unfold Gen.ValidateGraph.validate_unique_node_ids validateUniqueNodeIds
  simp only [asarray, uniqueCounts, cmpScalarNat, List.map_map, Function.comp_def, cmp_gt_one,
    maskIndex_self_map, any_map]
  by_cases h : (npUnique ids).any (fun x => decide (1 < ids.count x)) = true
  · simp [h, filter_isEmpty_any, ok_bind, pure_eq]
  · have h' : (npUnique ids).filter (fun x => decide (1 < ids.count x)) = [] := by
      rw [← List.isEmpty_iff, filter_isEmpty_any]; simpa using h
    simp [h, h', pure_eq, emptyArray]

/-- `validate_nodes_for_edges` as translated = the model, for every id array and `(E, 2)` edge array -/
theorem gen_validate_nodes_for_edges_eq :
    Gen.ValidateGraph.translationOk = true ∧
    ∀ (ids : List Int) (edges : List (Int × Int)),
      Gen.ValidateGraph.validate_nodes_for_edges ids edges = .ok (validateNodesForEdges ids edges) := by
  refine ⟨rfl, fun ids edges => ?_⟩
  unfold Gen.ValidateGraph.validate_nodes_for_edges validateNodesForEdges
  simp only [asarray, col, isin, List.map_map, Function.comp_def, andMask, broadcast2_map, notMask,
    maskIndex_self_map, cmp_eq_len_zero, ok_bind, pure_eq]
  rfl

/-- `validate_no_self_edges` as translated = the model -/
theorem gen_validate_no_self_edges_eq :
    Gen.ValidateGraph.translationOk = true ∧
    ∀ edges : List (Int × Int),
      Gen.ValidateGraph.validate_no_self_edges edges = .ok (validateNoSelfEdges edges) := by
  refine ⟨rfl, fun edges => ?_⟩
  unfold Gen.ValidateGraph.validate_no_self_edges validateNoSelfEdges
  simp only [asarray, col, cmpArr, broadcast2_map, maskCol, maskIndex_self_map, unique, cmp_eq_len_zero,
    Cmp.eval, ok_bind, pure_eq]

/-- `validate_no_repeated_edges` as translated = the model: `edge_ids[idx[counts > 1]]`, with `idx` the
first-occurrence indices of the sorted distinct rows, IS the list of the distinct rows counted twice
or more, in lexicographic order -/
theorem gen_validate_no_repeated_edges_eq :
    Gen.ValidateGraph.translationOk = true ∧
    ∀ edges : List (Int × Int),
      Gen.ValidateGraph.validate_no_repeated_edges edges = .ok (validateNoRepeatedEdges edges) := by
  refine ⟨rfl, fun edges => ?_⟩
  unfold Gen.ValidateGraph.validate_no_repeated_edges validateNoRepeatedEdges
  have hmem : ∀ r ∈ (npUniqueRows edges).filter (fun e => decide (1 < edges.count e)), r ∈ edges := by
    intro r hr
    exact (mem_npUniqueRows edges r).1 (List.mem_filter.1 hr).1
  simp only [asarray, rowView, ascontiguousarray, uniqueRowsIndexCounts, cmpScalarNat, List.map_map,
    Function.comp_def, cmp_gt_one, maskIndex_map, ok_bind, take_map_idxOf _ _ hmem, cmp_eq_len_zero, pure_eq]

/-- `validate_sphere` as translated = the model, for every rank, entries and mask (of ANY length, including
numpy's special case of an empty mask): the same outcome and message, except that the model abbreviates
the rank message, which the translation carries in full (`…, got {radius.ndim} dimensions`) -/
theorem gen_validate_sphere_eq :
    Gen.ValidateGraph.translationOk = true ∧
    ∀ (ndim : Nat) (flat : List Num) (missing : Option (List Bool)),
      outcome (Gen.ValidateGraph.validate_sphere ⟨ndim, flat⟩ missing) =
        if ndim ≠ 1 then
          .valueError ("Sphere radius values must be 1D, got " ++ toString ndim ++ " dimensions")
        else validateSphere ndim flat missing := by
  refine ⟨rfl, fun ndim flat missing => ?_⟩
  unfold Gen.ValidateGraph.validate_sphere validateSphere
  by_cases h : ndim = 1
  · subst h
    have h1 : cmp .ne (NpPrim.ndim ({ ndim := 1, flat := flat } : NdArr Num)) 1 = false := rfl
    simp only [h1, flat1, asarrayBool, Bool.false_eq_true, if_false, ne_eq, not_true_eq_false]
    cases missing with
    | none =>
      simp only [applyMask, pure_eq, ok_bind, cmpScalarNum_lt_zero]
      by_cases ha : flat.any Num.ltZero = true <;> simp [ha, outcome, throw_eq, Exc.toOutcome]
    | some m =>
      simp only [maskIndex_notMask]
      cases hm : applyMask flat (some m) with
      | none => simp [outcome, error_bind, Exc.toOutcome]
      | some r =>
        simp only [pure_eq, ok_bind, cmpScalarNum_lt_zero]
        by_cases ha : r.any Num.ltZero = true <;> simp [ha, outcome, throw_eq, Exc.toOutcome]
  · have h1 : cmp .ne (NpPrim.ndim ({ ndim := ndim, flat := flat } : NdArr Num)) 1 = true := by
      show decide (((ndim : Nat) : Int) ≠ 1) = true
      exact decide_eq_true (by omega)
    rw [if_pos h1, if_pos h]
    rfl

/-- the rank branch of the model is the abbreviated form of the message above -/
theorem model_sphere_rank_message (ndim : Nat) (flat : List Num) (missing : Option (List Bool))
    (h : ndim ≠ 1) : validateSphere ndim flat missing = .valueError "Sphere radius values must be 1D" := by
  unfold validateSphere; rw [if_pos h]

/-- the translated `validate_sphere` passes exactly when the model does -/
theorem gen_validate_sphere_ok_iff :
    Gen.ValidateGraph.translationOk = true ∧
    ∀ (ndim : Nat) (flat : List Num) (missing : Option (List Bool)),
      outcome (Gen.ValidateGraph.validate_sphere ⟨ndim, flat⟩ missing) = .ok ↔
        validateSphere ndim flat missing = .ok := by
  refine ⟨rfl, fun ndim flat missing => ?_⟩
  rw [gen_validate_sphere_eq.2]
  by_cases h : ndim = 1
  · simp [h]
  · rw [if_pos h, model_sphere_rank_message ndim flat missing h]
    simp

/-! ## the C12 theorems, transported to the regenerated code -/

/-- `validate_unique_node_ids` (regenerated): returns normally; valid iff no id is repeated; the
offenders are exactly the ids occurring more than once, ascending -/
theorem C12gen_unique (ids : List Int) :
    Gen.ValidateGraph.translationOk = true ∧
    ∃ r, Gen.ValidateGraph.validate_unique_node_ids ids = .ok r ∧
      (r.1 = true ↔ ids.Nodup) ∧ (∀ x, x ∈ r.2 ↔ 1 < ids.count x) ∧ r.2.Pairwise (· < ·) :=
  ⟨rfl, _, gen_validate_unique_node_ids_eq.2 ids, GeffProps.C12.C12_offenders_exact_unique ids⟩

/-- `validate_nodes_for_edges` (regenerated): returns normally; valid iff every endpoint is a node id;
the offenders are the rows with a dangling endpoint, in row order -/
theorem C12gen_nodes_for_edges (ids : List Int) (edges : List (Int × Int)) :
    Gen.ValidateGraph.translationOk = true ∧
    ∃ r, Gen.ValidateGraph.validate_nodes_for_edges ids edges = .ok r ∧
      (r.1 = true ↔ ∀ e ∈ edges, e.1 ∈ ids ∧ e.2 ∈ ids) ∧
      r.2 = edges.filter (fun e => decide ¬ (e.1 ∈ ids ∧ e.2 ∈ ids)) :=
  ⟨rfl, _, gen_validate_nodes_for_edges_eq.2 ids edges,
    GeffProps.C12.C12_offenders_exact_nodes_for_edges ids edges⟩

/-- `validate_no_self_edges` (regenerated): returns normally; valid iff no row joins a node to itself;
the offenders are exactly the nodes with a self edge, ascending -/
theorem C12gen_no_self_edges (edges : List (Int × Int)) :
    Gen.ValidateGraph.translationOk = true ∧
    ∃ r, Gen.ValidateGraph.validate_no_self_edges edges = .ok r ∧
      (r.1 = true ↔ ∀ e ∈ edges, e.1 ≠ e.2) ∧ (∀ x, x ∈ r.2 ↔ (x, x) ∈ edges) ∧ r.2.Pairwise (· < ·) :=
  ⟨rfl, _, gen_validate_no_self_edges_eq.2 edges, GeffProps.C12.C12_offenders_exact_self edges⟩

/-- `validate_no_repeated_edges` (regenerated): returns normally; valid iff no row occurs twice; the
offenders are exactly the rows occurring more than once, each once, in lexicographic order -/
theorem C12gen_no_repeated_edges (edges : List (Int × Int)) :
    Gen.ValidateGraph.translationOk = true ∧
    ∃ r, Gen.ValidateGraph.validate_no_repeated_edges edges = .ok r ∧
      (r.1 = true ↔ edges.Nodup) ∧ (∀ e, e ∈ r.2 ↔ 1 < edges.count e) ∧ r.2.Pairwise LexLt :=
  ⟨rfl, _, gen_validate_no_repeated_edges_eq.2 edges, GeffProps.C12.C12_offenders_exact_repeated edges⟩

/-- **C12 (sphere iff) on the regenerated code**: with one mask flag per entry, the translated
`validate_sphere` passes iff the radii are 1-D and no entry that is not flagged missing is negative -/
theorem C12gen_sphere_iff (ndim : Nat) (flat : List Num) (missing : Option (List Bool))
    (hlen : ∀ m, missing = some m → m.length = flat.length) :
    Gen.ValidateGraph.translationOk = true ∧
    (outcome (Gen.ValidateGraph.validate_sphere ⟨ndim, flat⟩ missing) = .ok ↔
      ndim = 1 ∧ ∀ x, Unmasked flat missing x → x.ltZero = false) :=
  ⟨rfl, (gen_validate_sphere_ok_iff.2 ndim flat missing).trans
    (GeffProps.C12.C12_sphere_iff ndim flat missing hlen)⟩

/-! ## non-vacuity: the generated definitions evaluate -/
example : Gen.ValidateGraph.validate_unique_node_ids [3, 1, 3, 2, 1] = .ok (false, [1, 3]) := by decide
example : Gen.ValidateGraph.validate_unique_node_ids [3, 1, 2] = .ok (true, []) := by decide
example : Gen.ValidateGraph.validate_nodes_for_edges [1, 2] [(1, 2), (2, 5), (7, 1), (2, 5)] =
    .ok (false, [(2, 5), (7, 1), (2, 5)]) := by decide
example : Gen.ValidateGraph.validate_no_self_edges
    [(18446744073709551615, 18446744073709551615), (1, 2), (0, 0), (0, 0)] =
    .ok (false, [0, 18446744073709551615]) := by decide
example : Gen.ValidateGraph.validate_no_repeated_edges [(2, 1), (1, 2), (2, 1), (1, 2), (0, 5)] =
    .ok (false, [(1, 2), (2, 1)]) := by decide
example : Gen.ValidateGraph.validate_no_repeated_edges [(2, 1), (1, 2)] = .ok (true, []) := by decide
example : outcome (Gen.ValidateGraph.validate_sphere ⟨1, [.int (-1), .int 2]⟩ (some [true, false])) = .ok := by
  decide
example : outcome (Gen.ValidateGraph.validate_sphere ⟨1, [.f64 0xBFF0000000000000]⟩ none) =
    .valueError "Sphere radius values must be non-negative." := by decide
/-- −0.0 and a NaN are not negative (evaluated through the equality: the exact comparison of a zero with an
integer scales by 2^1074, beyond what `decide` unfolds) -/
example : outcome (Gen.ValidateGraph.validate_sphere ⟨1, [.f64 0x8000000000000000, .f64 0xFFF8000000000000]⟩ none) =
    .ok := by rw [gen_validate_sphere_eq.2]; decide
example : outcome (Gen.ValidateGraph.validate_sphere ⟨1, [.int 1, .int 2]⟩ (some [true])) = .other "IndexError" := by
  decide
/-- numpy's special case: an empty mask selects nothing, whatever the length of the array -/
example : outcome (Gen.ValidateGraph.validate_sphere ⟨1, [.int 1, .int (-2), .int 3]⟩ (some [])) = .ok := by decide
example : outcome (Gen.ValidateGraph.validate_sphere ⟨2, []⟩ none) =
    .valueError "Sphere radius values must be 1D, got 2 dimensions" := by decide
/-- the hypotheses of `C12gen_sphere_iff` are met by a masked array with a negative fill value -/
example : ∀ m, (some [true, false] : Option (List Bool)) = some m → m.length = [Num.int (-1), Num.int 2].length := by
  intro m h; cases h; rfl
/-- the primitives do fail where numpy fails (the failure branches are not dead code of the library) -/
example : maskIndex [1, 2, 3] [true, false] = (.error .indexError : Py (List Int)) := by decide
example : andMask [true, false] [true, false, true] = .error (.valueError broadcastMsg) := by decide
example : NpPrim.take [(1 : Int), 2] [0, 2] = .error .indexError := by decide
example : col [(1, 2)] 2 = .error .indexError := by decide

end GeffProps.C12Gen
