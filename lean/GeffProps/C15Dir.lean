import GeffProofs.CtcDir
import Gen.CtcGlue
/-! # C15 (deepening 1) — the directory layer of `from_ctc_to_geff`

Which track file is read, which files become frames and **in which order**, and which frame index
`t` every file gets.  Model: `Geff.CtcDir.discover` (`GeffModel/CtcDir.lean`), a function of
"does the directory exist" and its listing (names of the regular files as code-point lists), tied to
the real `pathlib`/`sorted` by the correspondence stream `dir` of `harness/corr/C15.py` (real
directories with padded, unpadded, mixed-width, hidden, upper-case, `.tiff`, stray and non-ASCII names;
the frame index of every file is observed through a per-file label) and to the literals of `_ctc.py`
by translator T8c (`gen_ctc_dir_current`).

Everything is quantified over all listings. -/
namespace GeffProps.C15Dir
open Geff.CtcDir

/-- the literals the model hard-codes are those of the current `_ctc.py`: the candidate list
`["man_track.txt", "res_track.txt"]` tried in this order with `break` on the first that exists and
`raise` in the `else:`; `sorted(ctc_path.glob("*.tif"))` without `key=`; frame indices by
`enumerate(sorted_files)` from 0. -/
theorem gen_ctc_dir_current :
    Gen.CtcGlue.translationOk = true ∧
    Gen.CtcGlue.trackFileCodes = [manTrack, resTrack] ∧
    Gen.CtcGlue.trackLoopShape = true ∧
    Gen.CtcGlue.globPatternCodes = 42 :: tifSuffix ∧
    Gen.CtcGlue.frameLoop = "for (t, filepath) in enumerate(sorted_files)" ∧
    Gen.CtcGlue.raises.take 2 = ["FileNotFoundError", "FileNotFoundError"] := by
  decide

/-! ## Which listings are rejected, and which track file is chosen -/

/-- **C15_dir_outcome**: the directory layer raises `FileNotFoundError` exactly when the directory does
not exist or holds neither `man_track.txt` nor `res_track.txt`; otherwise `man_track.txt` is read when
present (also when both are), else `res_track.txt`.  No other outcome exists at this layer (a listing
without any `*.tif` passes it and is rejected later by "No nodes found": `GeffProps.C15.C15_outcome`). -/
theorem C15_dir_outcome (dirExists : Bool) (listing : List Name) :
    (discover dirExists listing = .fileNotFound ↔
      (dirExists = false ∨ (manTrack ∉ listing ∧ resTrack ∉ listing))) ∧
    (dirExists = true → manTrack ∈ listing →
      ∃ fr, discover dirExists listing = .ok ⟨manTrack, fr⟩) ∧
    (dirExists = true → manTrack ∉ listing → resTrack ∈ listing →
      ∃ fr, discover dirExists listing = .ok ⟨resTrack, fr⟩) := by
  cases dirExists <;> by_cases h1 : manTrack ∈ listing <;> by_cases h2 : resTrack ∈ listing <;>
    simp [discover, discoverWith, firstExisting, h1, h2]

/-- the frames do not depend on which track file was found -/
theorem C15_dir_frames (listing : List Name) (f : Found) (h : discover true listing = .ok f) :
    f.frames = enumFrom' 0 (sortedFiles listing) := by
  unfold discover discoverWith at h
  simp only [Bool.true_eq_false, if_false] at h
  split at h
  · cases h
  · cases h; rfl

/-! ## Which files are frames, and their order, for every listing -/

/-- **C15_dir_frames_exact**: for every listing the frame files are exactly the names ending in the four
characters `.tif` (nothing else: not `.TIF`, `.tiff`, `.tif.bak`; hidden names and the bare `.tif`
included), each once, in ascending code-point order, and the `k`-th of them gets frame index `k`. -/
theorem C15_dir_frames_exact (listing : List Name) :
    (sortedFiles listing).Perm (listing.filter (fun n => tifSuffix.isSuffixOf n)) ∧
    (sortedFiles listing).Pairwise (fun a b => lexLe a b = true) ∧
    (∀ k : Nat, (enumFrom' 0 (sortedFiles listing))[k]? = (sortedFiles listing)[k]?.map (fun n => (k, n))) := by
  refine ⟨sortBy_perm _ _, sortBy_pairwise lexLe lexLe_total lexLe_trans _, ?_⟩
  intro k
  rw [enumFrom'_getElem?]
  simp

/-- the order is a function of the *set* of names: two listings with the same frame names (in any
listing order — `glob` returns directory order) give the same frame sequence -/
theorem C15_dir_order_independent (l1 l2 : List Name)
    (h : (l1.filter (fun n => tifSuffix.isSuffixOf n)).Perm (l2.filter (fun n => tifSuffix.isSuffixOf n))) :
    sortedFiles l1 = sortedFiles l2 := by
  have p1 := (C15_dir_frames_exact l1)
  have p2 := (C15_dir_frames_exact l2)
  exact List.Perm.eq_of_pairwise (le := fun a b => lexLe a b = true)
    (fun a b _ _ h1 h2 => lexLe_antisymm a b h1 h2) p1.2.1 p2.2.1
    (p1.1.trans (h.trans p2.1.symm))

/-! ## CTC naming convention ⇒ time order -/

/-- **C15_dir_ctc_order**: when the frame files of the listing follow the CTC convention
`<prefix><T as w digits>.tif` (one prefix, one width `w`, frame numbers `idxs` in *any* listing order,
any stray files that do not end in `.tif`), the files are used in ascending *numeric* order of `T`:
the sequence of frame files is `ctcName pre w` of the sorted numbers. -/
theorem C15_dir_ctc_order (listing : List Name) (pre : Name) (w : Nat) (idxs : List Nat)
    (hframes : listing.filter (fun n => tifSuffix.isSuffixOf n) = idxs.map (ctcName pre w))
    (hw : ∀ i ∈ idxs, i < 10 ^ w) :
    sortedFiles listing = (sortBy natLe idxs).map (ctcName pre w) ∧
    (sortBy natLe idxs).Pairwise (· ≤ ·) ∧ (sortBy natLe idxs).Perm idxs := by
  refine ⟨?_, sortNat_pairwise idxs, sortBy_perm _ _⟩
  unfold sortedFiles sortedFilesOf globStar
  rw [hframes]
  exact sortBy_map natLe lexLe (ctcName pre w) idxs
    (fun a ha b hb => lexLe_ctcName pre w a b (hw a ha) (hw b hb))

/-- **C15_dir_ctc_index**: a complete CTC sequence `T = 0 … n-1` (files listed in any order): the frame
with number `i` gets frame index `i` — `frames = [(0, name 0), …, (n-1, name (n-1))]`. -/
theorem C15_dir_ctc_index (listing : List Name) (pre : Name) (w n : Nat) (idxs : List Nat)
    (hframes : listing.filter (fun n => tifSuffix.isSuffixOf n) = idxs.map (ctcName pre w))
    (hperm : idxs.Perm (List.range n)) (hw : n ≤ 10 ^ w) (i : Nat) (hi : i < n) :
    (enumFrom' 0 (sortedFiles listing))[i]? = some (i, ctcName pre w i) := by
  have hlt : ∀ j ∈ idxs, j < 10 ^ w := fun j hj =>
    Nat.lt_of_lt_of_le (List.mem_range.1 (hperm.subset hj)) hw
  rw [(C15_dir_ctc_order listing pre w idxs hframes hlt).1, sortNat_range idxs n hperm,
    enumFrom'_getElem?]
  simp [hi]

/-! ## The hypothesis "one width" is necessary (known finding `C15:frame-order-not-numeric`) -/

/-- `t9.tif`, `t10.tif` (no padding): frame 10 is used *before* frame 9 -/
theorem C15_dir_counterexample_unpadded :
    sortedFiles [[116] ++ fmtPad 1 9 ++ tifSuffix, [116] ++ fmtPad 1 10 ++ tifSuffix] =
      [[116] ++ fmtPad 1 10 ++ tifSuffix, [116] ++ fmtPad 1 9 ++ tifSuffix] := by decide

/-- `"%03d"` names with 1000 or more frames: `man_track1000.tif` sorts between `man_track100.tif` and
`man_track101.tif` -/
theorem C15_dir_counterexample_overflow :
    let pre : Name := [109, 97, 110, 95, 116, 114, 97, 99, 107]
    sortedFiles [pre ++ fmtPad 3 100 ++ tifSuffix, pre ++ fmtPad 3 101 ++ tifSuffix,
                 pre ++ fmtPad 3 999 ++ tifSuffix, pre ++ fmtPad 3 1000 ++ tifSuffix] =
      [pre ++ fmtPad 3 100 ++ tifSuffix, pre ++ fmtPad 3 1000 ++ tifSuffix,
       pre ++ fmtPad 3 101 ++ tifSuffix, pre ++ fmtPad 3 999 ++ tifSuffix] := by decide

/-- `fmtPad` is the padded form inside the width -/
example : fmtPad 3 7 = pad 3 7 ∧ fmtPad 3 999 = pad 3 999 ∧ fmtPad 1 10 = [49, 48] := by decide

/-! ## Non-vacuity -/

/-- `mask002.tif`, `mask000.tif`, `mask001.tif`, `res_track.txt`, `notes.txt`, `MASK003.TIF` -/
def demoListing : List Name :=
  [ctcName [109, 97, 115, 107] 3 2, ctcName [109, 97, 115, 107] 3 0, ctcName [109, 97, 115, 107] 3 1,
   resTrack, [110, 111, 116, 101, 115, 46, 116, 120, 116], [77, 65, 83, 75, 48, 48, 51, 46, 84, 73, 70]]

example : demoListing.filter (fun n => tifSuffix.isSuffixOf n) = [2, 0, 1].map (ctcName [109, 97, 115, 107] 3) := by
  decide

example : discover true demoListing = .ok ⟨resTrack,
    [(0, ctcName [109, 97, 115, 107] 3 0), (1, ctcName [109, 97, 115, 107] 3 1),
     (2, ctcName [109, 97, 115, 107] 3 2)]⟩ := by decide

example : discover true [ctcName [116] 3 0] = .fileNotFound ∧ discover false demoListing = .fileNotFound := by
  decide

end GeffProps.C15Dir
