import GeffProofs.TrackMateXml
/-! # C16 — the streaming XML layer of the TrackMate converter (property-level theorems)

Model: `GeffModel/TrackMateXml.lean` (element trees, `iterparse` event streams, the cursor functions of
`geff/convert/_trackmate_xml.py` as recursions over the remaining event list).  All theorems are for
**every** element tree, every lexer `lex` (Python's `int()`/`float()` classification of a text), every
continuation `rest` of the iterator and both discard flags; none has a well-formedness hypothesis. -/
namespace GeffProps.C16Xml
open Geff.TrackMate Geff.TrackMate.Xml

/-! ## the cursor functions: value, and exactly the section is consumed

`eventsKids p 0 t.kids ++ ⟨true, p, t⟩ :: rest` is the state of the iterator right after the start event of
the element `t` (identity `p`) has been read: the events strictly inside `t`, its end event, then whatever
follows (`rest`, arbitrary).  Each cursor function returns the tree-level value and **exactly `rest`**: it
never reads past the section it is in, never stops short of its end, and never runs into `StopIteration`
(the tree-level functions on the right have no iterator). -/

/-- `_get_attributes_metadata`: every `Feature` element below the ancestor in document order — except the
ancestor's first child itself, which the double `next(it)` skips — with later declarations winning. -/
theorem C16X_cursor_features (p : List Nat) (t : Tree) (rest : List Ev) :
    getAttributesMetadata p (eventsKids p 0 t.kids ++ ⟨true, p, t⟩ :: rest) =
      match featuresOfKids t.kids with
      | .exc x => .exc x
      | .ok fs => .ok (fs, rest) :=
  getAttributesMetadata_section p t rest

/-- `_add_all_nodes`: the `Spot` elements in the order of their end tags (a nested `Spot` before the one
that contains it), the `segmentation` flag threaded through them. -/
theorem C16X_cursor_spots (lex : String → Txt) (md : List Feat) (p : List Nat) (t : Tree) (g : Graph) (rest : List Ev) :
    addAllNodes lex md p g (eventsKids p 0 t.kids ++ ⟨true, p, t⟩ :: rest) =
      match spotsOfSection lex md g t with
      | .exc x => .exc x
      | .ok r => .ok (r, rest) :=
  addAllNodes_section lex md p t g rest

/-- `_build_tracks`: the `Track` and `Edge` elements in document order; an `Edge` gets the id of the last
`Track` element opened before it (also when that `Track` is already closed). -/
theorem C16X_cursor_tracks (lex : String → Txt) (md : List Feat) (p : List Nat) (t : Tree) (g : Graph) (rest : List Ev) :
    buildTracksEv lex md p g (eventsKids p 0 t.kids ++ ⟨true, p, t⟩ :: rest) =
      match tracksOfKids lex md g t.kids with
      | .exc x => .exc x
      | .ok g' => .ok (g', rest) :=
  buildTracksEv_section lex md p t g rest

/-- `_get_filtered_tracks_ID`: the `TRACK_ID` of the first element below the ancestor whatever its tag (of
the ancestor itself when it is empty), then of every further `TrackID` element in document order. -/
theorem C16X_cursor_filtered (lex : String → Txt) (p : List Nat) (t : Tree) (rest : List Ev) :
    getFilteredTracksID lex p (eventsKids p 0 t.kids ++ ⟨true, p, t⟩ :: rest) =
      match filteredOfSection lex t with
      | .exc x => .exc x
      | .ok l => .ok (l, rest) :=
  getFilteredTracksID_section lex p t rest

/-! ## `_build_data` -/

/-- The dispatching loop of `_build_data` over lxml's event stream of a document computes the walk over
the element tree (`buildDataTree`): sections in whatever order, number and nesting they occur; the guard
against a cursor that moves the iterator backwards never fires. -/
theorem C16X_build_data_tree (lex : String → Txt) (ds dt : Bool) (t : Tree) :
    buildDataEv lex ds dt (events t) = buildDataTree lex ds dt t :=
  buildDataEv_events lex ds dt t

/-- **Frame.**  A subtree without any of the five dispatch tags (`Settings`, `Log`, `GUIState`,
`DisplaySettings`, unknown elements, arbitrary nesting inside them) at any position that is not inside
one of the four sections read by a cursor function can be replaced by any other such subtree — in
particular removed contents, other attributes, other text — without changing graph, units, feature table
or segmentation flag.  The root element's own tag is never looked at. -/
theorem C16X_frame (lex : String → Txt) (ds dt : Bool) (tag : String) (a : List (String × String)) (tx : Option String)
    (before after : List Tree) (c : Ctx) (hc : c.plain = true) (u u' : Tree) (hu : ignoredB u = true) (hu' : ignoredB u' = true) :
    buildDataEv lex ds dt (events (.node tag a tx (before ++ c.fill u :: after))) =
    buildDataEv lex ds dt (events (.node tag a tx (before ++ c.fill u' :: after))) := by
  rw [C16X_build_data_tree, C16X_build_data_tree]
  simp only [buildDataTree, Tree.kids, walkKids_frame lex ds dt before after c hc u u' hu hu']

/-- an ignored subtree changes nothing at all: it can also be deleted -/
theorem C16X_frame_delete (lex : String → Txt) (ds dt : Bool) (tag : String) (a : List (String × String)) (tx : Option String)
    (before after : List Tree) (u : Tree) (hu : ignoredB u = true) :
    buildDataEv lex ds dt (events (.node tag a tx (before ++ u :: after))) =
    buildDataEv lex ds dt (events (.node tag a tx (before ++ after))) := by
  rw [C16X_build_data_tree, C16X_build_data_tree]
  simp only [buildDataTree, Tree.kids]
  rw [walkKids_append, walkKids_append]
  simp [walkKids, walk_ignored lex ds dt u hu]

/-- Whatever follows the first `Model` element at the level where the loop meets it cannot influence the
result (the loop `break`s at its end tag): no hypothesis on `after` / `after'` at all. -/
theorem C16X_after_model_irrelevant (lex : String → Txt) (ds dt : Bool) (tag : String) (a : List (String × String))
    (tx : Option String) (before : List Tree) (m : Tree) (hm : kindOf m.tag = .model) (after after' : List Tree) :
    buildDataEv lex ds dt (events (.node tag a tx (before ++ m :: after))) =
    buildDataEv lex ds dt (events (.node tag a tx (before ++ m :: after'))) := by
  rw [C16X_build_data_tree, C16X_build_data_tree]
  simp only [buildDataTree, Tree.kids, walkKids_after_model lex ds dt before m hm after after']

/-! ## `_get_trackmate_version`, `_get_specific_tags` -/

/-- the version is read off the first element *closed* with tag `TrackMate` (normally the root, closed last) -/
theorem C16X_version (t : Tree) : getTrackmateVersion (endEvents t) = versionOfTree t := getTrackmateVersion_tree t

/-- for each wanted name the first element in document order carrying it (as it stands in the tree: the
model copies the complete element; see the known finding on lxml's read chunks), and the names not found -/
theorem C16X_specific_tags (t : Tree) (names : List String) :
    getSpecificTags names [] (events t) = specificTagsOf names [] (pre t) := getSpecificTags_tree t names

/-! ## non-vacuity -/

def lexDemo (s : String) : Txt :=
  match s with
  | "0" => .int 0 "0" | "1" => .int 1 "1" | "2" => .int 2 "2" | "3" => .int 3 "3"
  | "1.5" => .flt "1.5" | "0.5" => .flt "0.5"
  | s => .str s

def leaf (tag : String) (a : List (String × String)) : Tree := .node tag a none []

def settingsDemo : Tree :=
  .node "Settings" [] none [leaf "ImageData" [("filename", "a.tif"), ("folder", "/x")], .node "Deep" [] (some "t") [leaf "Deeper" []]]

def modelDemo : Tree :=
  .node "Model" [("spatialunits", "um")] none [
    .node "FeatureDeclarations" [] none [
      .node "SpotFeatures" [] none [leaf "Feature" [("feature", "Q"), ("isint", "false"), ("dimension", "QUALITY")]],
      .node "EdgeFeatures" [] none [leaf "Feature" [("feature", "SPOT_SOURCE_ID"), ("isint", "true")],
                                    leaf "Feature" [("feature", "SPOT_TARGET_ID"), ("isint", "true")]],
      .node "TrackFeatures" [] none [leaf "Feature" [("feature", "TRACK_ID"), ("isint", "true")]]],
    .node "AllSpots" [] none [
      .node "SpotsInFrame" [("frame", "0")] none [leaf "Spot" [("ID", "1"), ("Q", "1.5")], leaf "Spot" [("ID", "3"), ("Q", "0.5")]],
      .node "SpotsInFrame" [("frame", "1")] none [leaf "Spot" [("ID", "2"), ("Q", "0.5")]]],
    .node "AllTracks" [] none [.node "Track" [("TRACK_ID", "0")] none [leaf "Edge" [("SPOT_SOURCE_ID", "1"), ("SPOT_TARGET_ID", "2")]]],
    .node "FilteredTracks" [] none [leaf "TrackID" [("TRACK_ID", "0")]]]

def demo : Tree := .node "TrackMate" [("version", "7.11.1")] none [.node "Log" [] (some "log") [], modelDemo, settingsDemo]

def nodesOf (r : Outcome BD) : List Nat := match r with
  | .ok st => st.g.nodes.map (·.1)
  | .exc _ => []
def edgesOf (r : Outcome BD) : List (Nat × Nat) := match r with
  | .ok st => st.g.edges.map (·.1)
  | .exc _ => []

example : (events demo).length = 52 := by decide +kernel
example : nodesOf (buildDataTree lexDemo false false demo) = [1, 3, 2] ∧ edgesOf (buildDataTree lexDemo false false demo) = [(1, 2)] := by
  decide +kernel
example : nodesOf (buildDataTree lexDemo true false demo) = [1, 2] := by decide +kernel          -- the lone spot 3 goes
example : nodesOf (buildDataTree lexDemo false true demo) = [1, 2] := by decide +kernel          -- only track 0 is listed
example : ignoredB settingsDemo = true ∧ ignoredB (leaf "Settings" []) = true ∧ ignoredB modelDemo = false := by decide +kernel
example : kindOf modelDemo.tag = .model := by decide +kernel
example : (Ctx.node "Model" [] none [] .hole []).plain = true ∧ (Ctx.node "AllSpots" [] none [] .hole []).plain = false := by
  decide +kernel
example : versionOfTree demo = "7.11.1" := by decide +kernel
example : (specificTagsOf ["Log", "Settings", "GUIState", "DisplaySettings"] [] (pre demo)).2 = ["GUIState", "DisplaySettings"] := by
  decide +kernel
/-- the frame hypothesis `plain` is needed: inside `FilteredTracks` an unknown first element is read -/
example : filteredOfSection lexDemo (.node "FilteredTracks" [] none [leaf "Foo" [("TRACK_ID", "3")]]) = .ok [3] := by decide +kernel

end GeffProps.C16Xml
