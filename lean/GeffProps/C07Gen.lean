import GeffProofs.ValidatorsGen
import GeffProps.C07
/-! # C07 on the validator bodies as they are written now (translator T17)

`Gen/Validators.lean` is regenerated on every run from `geff_spec/_valid_values.py`, `_axis.py`,
`_prop_metadata.py` and `_schema.py`: the body of every pydantic validator (`Axis._validate_model` with
`_check_units`, `PropMetadata._convert_dtype`, `RelatedObject._validate_model`,
`GeffMetadata._validate_model_after` with `_validate_key_identifier_equality`), the three `validate_*`
functions and `GeffMetadata.__setattr__`, statement by statement, as Lean `do`-blocks over the primitives
of `GeffModel/PyDoValidators.lean`.  This file proves that the generated functions ARE the hand-written
checks every theorem of `GeffProps/C07.lean` is about (`Axis.modelBad`, `convertDtype`,
`RelatedObject.validateModel`, `modelAfterOk`, `keysMatch`, `axisTypeOk`, `assign`), that together they
accept an object iff the enforced invariant `ValidCode` holds, and restates the invariant / no-op theorems
on the generated functions — so an edit of a validator body that changes what it accepts breaks a proof
obligation here (and the check then searches for a failing input), while the hand-written checks are no
longer only *compared* with the code but *derived* from it.

A validator's outcome is the accepted value or the exception class; `warnings.warn` does not raise and is
not part of the outcome.  Inputs of `_convert_dtype` are `str | None` (its annotation plus the `None` it
tests for); what pydantic does with other raw values stays with the correspondence.

Property theorems only; helper lemmas and the definitions `liftV`, `AcceptsGen`, `DeclaredOk` in
`GeffProofs/ValidatorsGen.lean`. -/
set_option autoImplicit false
namespace GeffProps.C07Gen
open Geff.Meta Geff.PyDoVal Gen.Validators Geff.ValidatorsGen

/-- the translator accepted every statement of the ten functions -/
theorem translated : Gen.Validators.translationOk = true := by decide

/-- the validators the three model files declare, in the order pydantic runs them for one
`GeffMetadata(…)` (field validators; then `mode="after"` model validators, nested models first): exactly
the four that are translated -/
theorem gen_validator_order :
    validatorOrder =
      [("PropMetadata", "_convert_dtype", "field_validator('dtype', mode='before')"),
       ("Axis", "_validate_model", "model_validator(mode='after')"),
       ("RelatedObject", "_validate_model", "model_validator(mode='after')"),
       ("GeffMetadata", "_validate_model_after", "model_validator(mode='after')")] := by decide

/-- … and they are the validators T3 extracts from the class bodies (two independent extractions agree) -/
theorem gen_validator_order_agrees_with_T3 :
    validatorOrder.map (fun x => x.2.1 ++ "@" ++ x.2.2) =
      Gen.Schema.propMetadataValidators ++ Gen.Schema.axisValidators ++ Gen.Schema.relatedObjectValidators ++
        Gen.Schema.displayHintValidators ++ Gen.Schema.geffMetadataValidators := by decide

/-! ## each generated validator is the hand-written check -/

/-- `validate_axis_type` is the `AxisType` membership test of the model (for a string) -/
theorem C07Gen_validate_axis_type (t : String) : validateAxisType (some t) = .ok (axisTypeOk (some t)) := by
  simp [validateAxisType_eq, optIn, axisTypeOk]

/-- `validate_space_unit` / `validate_time_unit` decide membership in the unit tables; `None` is no unit -/
theorem C07Gen_validate_units (u : String) :
    validateSpaceUnit (some u) = .ok (decide (u ∈ Gen.ValidValues.spaceUnits)) ∧
    validateTimeUnit (some u) = .ok (decide (u ∈ Gen.ValidValues.timeUnits)) ∧
    validateSpaceUnit none = .ok false ∧ validateTimeUnit none = .ok false ∧ validateAxisType none = .ok false := by
  simp [validateSpaceUnit_eq, validateTimeUnit_eq, validateAxisType_eq, optIn]

/-- **`Axis._validate_model` as written = `Axis.modelBad`**: the axis is returned unchanged or a `ValueError`
is raised (never the `TypeError` of `None > x`: the `is not None` guards short-circuit); the unit checks
only warn -/
theorem C07Gen_axis_validator (a : Axis) :
    axisValidateModel a = (if a.modelBad then .error .valueError else .ok a) ∧
    a.validateModel = liftV (axisValidateModel a) := by
  refine ⟨axisValidateModel_eq a, ?_⟩
  rw [axisValidateModel_eq, Axis.validateModel]; cases a.modelBad <;> rfl

/-- **`PropMetadata._convert_dtype` as written = `convertDtype`** on its declared inputs, for every numpy
environment the hand-written `Env` abstracts (`hnp`) -/
theorem C07Gen_convert_dtype (env : Env) (np : NpEnv) (hnp : env.npName = np.npName) :
    (∀ s, convertDtype env (.str s) = liftV (propMetadataConvertDtype np (some s))) ∧
    convertDtype env .null = liftV (propMetadataConvertDtype np none) := by
  refine ⟨fun s => ?_, ?_⟩
  · rw [propMetadataConvertDtype_eq]
    simp only [convertDtype, hnp]
    cases np.npName s with
    | none => rfl
    | some n =>
      by_cases hn : n ∈ Gen.ValidValues.dtypes
      · have := GeffProps.C07.gen_valid_values.1 n hn
        simp [hn, this, liftV]
      · simp [hn, liftV]
  · rw [propMetadataConvertDtype_eq]; rfl

/-- the range of `_convert_dtype`: whatever it returns is one of `VALID_DTYPES` (and non-empty) -/
theorem C07Gen_convert_dtype_sound (np : NpEnv) (v : Option String) (n : String)
    (h : propMetadataConvertDtype np v = .ok n) : n ∈ Gen.ValidValues.dtypes ∧ 1 ≤ n.length := by
  rw [propMetadataConvertDtype_eq] at h
  cases v with
  | none => simp at h
  | some s =>
    simp only at h
    cases hs : np.npName s with
    | none => simp [hs] at h
    | some k =>
      simp only [hs] at h
      by_cases hk : k ∈ Gen.ValidValues.dtypes
      · simp [hk] at h; subst h; exact ⟨hk, GeffProps.C07.gen_valid_values.1 k hk⟩
      · simp [hk] at h

/-- **`RelatedObject._validate_model` as written = the model's check** (the unknown-type warning aside) -/
theorem C07Gen_related_validator (r : RelatedObject) :
    relatedObjectValidateModel r = (if r.type ≠ "labels" && r.label_prop.isSome then .error .valueError else .ok r) ∧
    r.validateModel = liftV (relatedObjectValidateModel r) := by
  refine ⟨relatedObjectValidateModel_eq r, ?_⟩
  rw [relatedObjectValidateModel_eq, RelatedObject.validateModel]
  cases (r.type ≠ "labels" && r.label_prop.isSome) <;> rfl

/-- **`_validate_key_identifier_equality` as written = `keysMatch`** for the component types its
`Literal` admits (the loop is characterised for every dict, by induction) -/
theorem C07Gen_key_identifier (d : List (String × PropMeta)) (c : String)
    (hc : c ∈ ["node", "edge", "tracklet", "lineage"]) :
    validateKeyIdentifierEquality d c = if keysMatch d then .ok () else .error .valueError :=
  validateKeyIdentifierEquality_eq d c hc

/-- **`GeffMetadata._validate_model_after` as written = `modelAfterOk`**: unique axis names
(`len(names) != len(set(names))`), hints checked only when axes AND hints are given (`is not None`, so also
against an empty axes list), key = identifier for node and edge properties; the object is returned
unchanged or a `ValueError` is raised (never the `AttributeError` / `TypeError` of a `None` operand) -/
theorem C07Gen_model_validator (m : Meta) :
    geffMetadataValidateModelAfter m = (if modelAfterOk m then .ok m else .error .valueError) ∧
    validateModelAfter m = liftV (geffMetadataValidateModelAfter m) := by
  refine ⟨geffMetadataValidateModelAfter_eq m, ?_⟩
  rw [geffMetadataValidateModelAfter_eq, validateModelAfter]; cases modelAfterOk m <;> rfl

/-- the validators as written raise `ValueError` and nothing else -/
theorem C07Gen_only_value_errors (np : NpEnv) (e : PyExc) :
    (∀ a, axisValidateModel a = .error e → e = .valueError) ∧
    (∀ v, propMetadataConvertDtype np v = .error e → e = .valueError) ∧
    (∀ r, relatedObjectValidateModel r = .error e → e = .valueError) ∧
    (∀ m, geffMetadataValidateModelAfter m = .error e → e = .valueError) := by
  refine ⟨fun a h => ?_, fun v h => ?_, fun r h => ?_, fun m h => ?_⟩
  · rw [axisValidateModel_eq] at h; split at h <;> simp_all
  · rw [propMetadataConvertDtype_eq] at h
    repeat' split at h
    all_goals simp_all
  · rw [relatedObjectValidateModel_eq] at h; split at h <;> simp_all
  · rw [geffMetadataValidateModelAfter_eq] at h; split at h <;> simp_all

/-! ## the conjunction of the generated validators = the enforced invariant -/

/-- **an object satisfies the enforced invariant iff every generated validator accepts it** (together with
the constraints pydantic takes from the field annotations: version pattern, `AxisType`, `MinLen(1)`, the
dtype range of `_convert_dtype`, the `track_node_props` keys) -/
theorem C07Gen_accepts_iff (env : Env) (m : Meta) : ValidCode env m ↔ DeclaredOk env m ∧ AcceptsGen m :=
  validCode_iff_acceptsGen env m

/-- … and the specification itself, away from NaN bounds (the known finding) -/
theorem C07Gen_valid_iff_partial (env : Env) (m : Meta) :
    Valid env m ↔ (DeclaredOk env m ∧ AcceptsGen m) ∧ NoNaNBounds m := by
  rw [← C07Gen_accepts_iff]; exact GeffProps.C07.C07_gap env m

/-! ## `__setattr__` as written, and the C07 theorems transported to the generated code -/

/-- **`GeffMetadata.__setattr__` as written = `assign`**: on every object, field name and value the
translated method (pydantic's validated assignment inside `try`, both restores in the handler, re-raise)
has the outcome and leaves the object that the hand-written `assign` — the `.assign` step of the C07
histories — says -/
theorem C07Gen_setattr_is_assign (env : Env) (o : MetaObj) (f : String) (v : J) :
    geffMetadataSetattr env f v o =
      ((match (step env o (.assign f v)).1 with
        | none => .ok ()
        | some _ => .error .validationError), (step env o (.assign f v)).2) :=
  geffMetadataSetattr_eq env f v o

/-- **a rejected assignment is a no-op, on the generated code**: whenever `__setattr__` as written raises,
it raises `ValidationError` and field values and fields-set of the object are what they were -/
theorem C07Gen_failed_setattr_is_noop (env : Env) (o : MetaObj) (f : String) (v : J) (e : PyExc)
    (h : (geffMetadataSetattr env f v o).1 = .error e) :
    e = .validationError ∧ (geffMetadataSetattr env f v o).2 = o := by
  rw [C07Gen_setattr_is_assign] at h ⊢
  cases hs : (step env o (.assign f v)).1 with
  | none => simp [hs] at h
  | some e' =>
    simp only [hs] at h
    refine ⟨by injection h with h; exact h.symm, ?_⟩
    exact GeffProps.C07.C07_failed_op_is_noop env o (.assign f v) (by simp [hs])

/-- **assignment through the generated `__setattr__` preserves the invariant**, whatever is assigned -/
theorem C07Gen_setattr_preserves (env : Env) (hdef : env.versionOk env.defaultVersion = true)
    (o : MetaObj) (ho : ValidCode env o.val) (f : String) (v : J) :
    ValidCode env (geffMetadataSetattr env f v o).2.val ∧ AcceptsGen (geffMetadataSetattr env f v o).2.val := by
  rw [C07Gen_setattr_is_assign]
  have h := step_valid hdef ho (.assign f v) trivial
  exact ⟨h, ((C07Gen_accepts_iff env _).1 h).2⟩

/-- **C07 invariant, transported**: every object obtained by construction / parsing / reading attributes
and then changed by any history of assignments, copies and helper calls is accepted by every generated
validator (and meets the declarative constraints) -/
theorem C07Gen_invariant (env : Env) (hdef : env.versionOk env.defaultVersion = true)
    (init : Init) (o : MetaObj) (h : start env init = .ok o) (ops : List Op) (hwf : ∀ op ∈ ops, op.WF) :
    DeclaredOk env (run env o ops).val ∧ AcceptsGen (run env o ops).val :=
  (C07Gen_accepts_iff env _).1 (GeffProps.C07.C07_invariant_code env hdef init o h ops hwf)

/-- the model validator the construction model runs last IS the generated one: a parse succeeds only with
an object the generated `_validate_model_after` accepts, and what `mkAxis` / `parseRelated` run last are
the generated `Axis` / `RelatedObject` validators -/
theorem C07Gen_construction_wiring (env : Env) (kvs : List (String × J)) (a : Axis) :
    parse env (.obj kvs) =
      (do let m ← validateFieldsAux env kvs fieldNames (blank env)
          let m ← liftV (geffMetadataValidateModelAfter m)
          return { val := m, fieldsSet := providedFields kvs }) ∧
    mkAxis a = (do guardE (axisTypeOk a.type); liftV (axisValidateModel a)) := by
  refine ⟨?_, ?_⟩
  · simp only [parse, (C07Gen_model_validator _).2]
  · simp only [mkAxis, (C07Gen_axis_validator _).2]

/-! ## non-vacuity -/

/-- a numpy environment: `"<U5"` is a unicode dtype, `"int64"` / `"float16"` name themselves, `"S3"` is
`bytes24`, anything else does not parse -/
def exNp : NpEnv :=
  { dtype := fun s =>
      if s == "<U5" then some { name := "str160", isStr := true, isBytes := false }
      else if s == "int64" then some { name := "int64", isStr := false, isBytes := false }
      else if s == "float16" then some { name := "float16", isStr := false, isBytes := false }
      else if s == "S3" then some { name := "bytes24", isStr := false, isBytes := true }
      else none }

example :
    propMetadataConvertDtype exNp (some "<U5") = .ok "str" ∧
    propMetadataConvertDtype exNp (some "int64") = .ok "int64" ∧
    propMetadataConvertDtype exNp (some "float16") = .error .valueError ∧
    propMetadataConvertDtype exNp (some "S3") = .error .valueError ∧
    propMetadataConvertDtype exNp (some "no such dtype") = .error .valueError ∧
    propMetadataConvertDtype exNp none = .error .valueError := by decide

/-- the hypothesis `hnp` of `C07Gen_convert_dtype` is satisfiable -/
example : (⟨GeffProps.C07.exEnv.pat, exNp.npName, "1.3", false⟩ : Env).npName = exNp.npName := rfl

example :
    axisValidateModel { name := "x", min := some (.fin 0 0), max := some (.fin 1 0) } =
      .ok { name := "x", min := some (.fin 0 0), max := some (.fin 1 0) } ∧
    axisValidateModel { name := "x", min := some (.fin 2 0), max := some (.fin 1 0) } = .error .valueError ∧
    axisValidateModel { name := "x", min := some (.fin 1 0), max := some (.fin 1 0) } =
      .ok { name := "x", min := some (.fin 1 0), max := some (.fin 1 0) } ∧
    axisValidateModel { name := "x", min := some (.fin 2 0) } = .error .valueError ∧
    axisValidateModel { name := "x", scaled_unit := some "um" } = .error .valueError ∧
    axisValidateModel { name := "x", scaled_unit := some "" } = .ok { name := "x", scaled_unit := some "" } ∧
    axisValidateModel { name := "x", type := some "space", unit := some "parsec-ish" } =
      .ok { name := "x", type := some "space", unit := some "parsec-ish" } := by decide

/-- the history of `GeffProps.C07`: the generated validators accept the object; a duplicate-name
assignment through the generated `__setattr__` raises `ValidationError` and leaves the object as it was,
whereas pydantic's own `__setattr__` (`superSetattr`, no roll-back) leaves the rejected value behind (D3);
hints against an EMPTY axes list are rejected (`is not None`, not truthiness) -/
example :
    AcceptsGen GeffProps.C07.exObj.val ∧
    geffMetadataSetattr GeffProps.C07.exEnv "axes" (.arr [.obj [("name", .str "x")], .obj [("name", .str "x")]])
      GeffProps.C07.exObj = (.error .validationError, GeffProps.C07.exObj) ∧
    (superSetattr geffMetadataValidateModelAfter GeffProps.C07.exEnv "axes"
      (.arr [.obj [("name", .str "x")], .obj [("name", .str "x")]]) GeffProps.C07.exObj).2 ≠ GeffProps.C07.exObj ∧
    (geffMetadataSetattr GeffProps.C07.exEnv "sphere" (.str "r") GeffProps.C07.exObj).1 = .ok () ∧
    geffMetadataValidateModelAfter
      { geff_version := "1.3", directed := true, node_props_metadata := [], edge_props_metadata := [],
        axes := some [], display_hints := some { display_horizontal := "x", display_vertical := "y" } } =
        .error .valueError := by
  decide

end GeffProps.C07Gen
