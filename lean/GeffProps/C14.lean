import GeffProofs.Lineage
import GeffProofs.LineageRename
/-! # C14 — lineage validation decides the documented lineage definition

Property theorems only.  Model: `Geff.Lineage.validateLineages` / `lineageErrors`
(`GeffModel/Lineage.lean`), tied to `geff.validate.tracks.validate_lineages` by the correspondence
`harness/corr/C14.py`. -/
namespace GeffProps.C14
open Geff.Graph Geff.Lineage Relation
variable {α L : Type} [DecidableEq α] [DecidableEq L]

/-- Specification (docs/tracking.md, property C14): nodes share a lineage id exactly when they lie
in the same weakly connected component, and no lineage is attached to a vertex outside the node
list (edges may mention ids absent from the node list). -/
def Spec (nl : List (α × L)) (es : List (α × α)) : Prop :=
  (∀ u l v l', (u, l) ∈ nl → (v, l') ∈ nl → (l = l' ↔ Conn es u v)) ∧
  (∀ u l x, (u, l) ∈ nl → Conn es u x → x ∈ nl.map (·.1))

/-- A lineage id is *bad* when its class is not exactly one component. -/
def BadLabel (nl : List (α × L)) (es : List (α × α)) (l : L) : Prop :=
  (∃ u, (u, l) ∈ nl) ∧ ¬ LabelGood nl es l

/-- **C14 (offenders exact)**: the reported lineage ids are exactly the bad ones — for every
directed graph (cycles allowed, phantom endpoints allowed) and every labelling. -/
theorem C14_errors_exact (nl : List (α × L)) (es : List (α × α)) (l : L) :
    l ∈ lineageErrors nl es ↔ BadLabel nl es l := by
  unfold lineageErrors BadLabel
  simp only [List.mem_filter, mem_dedup, List.mem_map, Bool.not_eq_eq_eq_not, Bool.not_true]
  constructor
  · rintro ⟨⟨⟨u, l'⟩, hm, rfl⟩, hbad⟩
    refine ⟨⟨u, hm⟩, fun hg => ?_⟩
    have := (labelOk_iff nl es l' ⟨u, hm⟩).2 hg
    simp [this] at hbad
  · rintro ⟨⟨u, hu⟩, hbad⟩
    refine ⟨⟨(u, l), hu, rfl⟩, ?_⟩
    cases h : labelOk nl es l with
    | false => rfl
    | true => exact absurd ((labelOk_iff nl es l ⟨u, hu⟩).1 h) hbad

/-- **C14 (iff)**: with unique node ids, validation accepts iff the labelling is the partition
into weakly connected components.  No acyclicity, no bound on the graph. -/
theorem C14_iff (nl : List (α × L)) (es : List (α × α))
    (huniq : ∀ u l l', (u, l) ∈ nl → (u, l') ∈ nl → l = l') :
    validateLineages nl es = true ↔ Spec nl es := by
  unfold validateLineages
  rw [List.isEmpty_iff]
  constructor
  · intro hnil
    have hgood : ∀ u l, (u, l) ∈ nl → LabelGood nl es l := by
      intro u l hu
      refine Classical.byContradiction fun hng => ?_
      have : l ∈ lineageErrors nl es := (C14_errors_exact nl es l).2 ⟨⟨u, hu⟩, hng⟩
      simp [hnil] at this
    refine ⟨?_, ?_⟩
    · intro u l v l' hu hv
      obtain ⟨r, hr⟩ := hgood u l hu
      have h1 : Conn es r u := (hr u).1 hu
      constructor
      · rintro rfl
        exact (conn_symm es h1).trans ((hr v).1 hv)
      · intro huv
        exact huniq v l l' ((hr v).2 (h1.trans huv)) hv
    · intro u l x hu hux
      obtain ⟨r, hr⟩ := hgood u l hu
      exact List.mem_map.2 ⟨(x, l), (hr x).2 (((hr u).1 hu).trans hux), rfl⟩
  · rintro ⟨hs, hout⟩
    apply List.eq_nil_iff_forall_not_mem.2
    intro l hl
    obtain ⟨⟨u, hu⟩, hbad⟩ := (C14_errors_exact nl es l).1 hl
    apply hbad
    refine ⟨u, fun x => ⟨fun hx => (hs u l x l hu hx).1 rfl, fun hux => ?_⟩⟩
    obtain ⟨⟨x', l'⟩, hx', rfl⟩ := List.mem_map.1 (hout u l x hu hux)
    have : l = l' := (hs u l x' l' hu hx').2 hux
    subst this; exact hx'

/-- unique node ids (`Nodup`) give the "one label per node" hypothesis for a zipped list -/
theorem uniq_of_nodup (nl : List (α × L)) (h : (nl.map (·.1)).Nodup) :
    ∀ u l l', (u, l) ∈ nl → (u, l') ∈ nl → l = l' := by
  induction nl with
  | nil => intro u l l' h1; simp at h1
  | cons p t ih =>
    simp only [List.map_cons, List.nodup_cons, List.mem_map, not_exists, not_and] at h
    intro u l l' h1 h2
    rcases List.mem_cons.1 h1 with e1 | m1 <;> rcases List.mem_cons.1 h2 with e2 | m2
    · rw [← e1] at e2; cases e2; rfl
    · subst e1; exact absurd rfl (h.1 (u, l') m2)
    · subst e2; exact absurd rfl (h.1 (u, l) m1)
    · exact ih h.2 u l l' m1 m2

/-- the labelled node list under a renaming `f` of the node ids and `g` of the lineage ids -/
def rename {β M : Type} (f : α → β) (g : L → M) (nl : List (α × L)) : List (β × M) :=
  nl.map (Prod.map f g)

theorem mem_rename {β M : Type} (f : α → β) (g : L → M) (nl : List (α × L)) (x : β) (m : M) :
    (x, m) ∈ rename f g nl ↔ ∃ u l, (u, l) ∈ nl ∧ x = f u ∧ m = g l := by
  unfold rename
  constructor
  · intro h
    obtain ⟨⟨u, l⟩, hm, he⟩ := List.mem_map.1 h
    simp only [Prod.map, Prod.mk.injEq] at he
    exact ⟨u, l, hm, he.1.symm, he.2.symm⟩
  · rintro ⟨u, l, hm, rfl, rfl⟩
    exact List.mem_map.2 ⟨(u, l), hm, rfl⟩

/-- **C14 (up to renaming)**: the specification is invariant under injective renamings of node ids
and of lineage ids — "labellings up to renaming" in the property's quantifier, and the reason why
the verdict may depend only on the integer values, not on their dtype or magnitude. -/
theorem C14_spec_renaming {β M : Type} [DecidableEq β] [DecidableEq M]
    (f : α → β) (g : L → M) (hf : Function.Injective f) (hg : Function.Injective g)
    (nl : List (α × L)) (es : List (α × α)) :
    Spec (rename f g nl) (mapEdges f es) ↔ Spec nl es := by
  constructor
  · rintro ⟨h1, h2⟩
    refine ⟨?_, ?_⟩
    · intro u l v l' hu hv
      have := h1 (f u) (g l) (f v) (g l') ((mem_rename f g nl _ _).2 ⟨u, l, hu, rfl, rfl⟩)
        ((mem_rename f g nl _ _).2 ⟨v, l', hv, rfl, rfl⟩)
      rw [conn_map_iff f hf es u v] at this
      exact ⟨fun h => this.1 (by rw [h]), fun h => hg (this.2 h)⟩
    · intro u l x hu hux
      have := h2 (f u) (g l) (f x) ((mem_rename f g nl _ _).2 ⟨u, l, hu, rfl, rfl⟩) (conn_map f es hux)
      obtain ⟨⟨y, m⟩, hy, he⟩ := List.mem_map.1 this
      obtain ⟨y', l', hy', hfy, _⟩ := (mem_rename f g nl y m).1 hy
      simp only at he
      have : x = y' := hf (by rw [← hfy, he])
      subst this
      exact List.mem_map.2 ⟨(x, l'), hy', rfl⟩
  · rintro ⟨h1, h2⟩
    refine ⟨?_, ?_⟩
    · intro x m y m' hx hy
      obtain ⟨u, l, hu, rfl, rfl⟩ := (mem_rename f g nl x m).1 hx
      obtain ⟨v, l', hv, rfl, rfl⟩ := (mem_rename f g nl y m').1 hy
      rw [conn_map_iff f hf es u v]
      have := h1 u l v l' hu hv
      exact ⟨fun h => this.1 (hg h), fun h => by rw [this.2 h]⟩
    · intro x m y hx hxy
      obtain ⟨u, l, hu, rfl, rfl⟩ := (mem_rename f g nl x m).1 hx
      obtain ⟨v, rfl, huv⟩ := conn_of_map f hf es hxy
      obtain ⟨⟨v', l'⟩, hv', he⟩ := List.mem_map.1 (h2 u l v hu huv)
      simp only at he
      subst he
      exact List.mem_map.2 ⟨(f v', g l'), (mem_rename f g nl _ _).2 ⟨v', l', hv', rfl, rfl⟩, rfl⟩

/-- … and so is the validator model's verdict (unique node ids): renaming ids and labels
injectively — e.g. shifting all ids by 2^60, or reading them in another integer dtype — cannot
change the answer. -/
theorem C14_verdict_renaming {β M : Type} [DecidableEq β] [DecidableEq M]
    (f : α → β) (g : L → M) (hf : Function.Injective f) (hg : Function.Injective g)
    (nl : List (α × L)) (es : List (α × α))
    (huniq : ∀ u l l', (u, l) ∈ nl → (u, l') ∈ nl → l = l') :
    validateLineages (rename f g nl) (mapEdges f es) = validateLineages nl es := by
  have huniq' : ∀ x m m', (x, m) ∈ rename f g nl → (x, m') ∈ rename f g nl → m = m' := by
    intro x m m' h1 h2
    obtain ⟨u, l, hu, rfl, rfl⟩ := (mem_rename f g nl x m).1 h1
    obtain ⟨v, l', hv, hxv, rfl⟩ := (mem_rename f g nl (f u) m').1 h2
    have : u = v := hf hxv
    subst this
    rw [huniq u l l' hu hv]
  have a := C14_iff (rename f g nl) (mapEdges f es) huniq'
  have b := C14_iff nl es huniq
  have c := C14_spec_renaming f g hf hg nl es
  cases h1 : validateLineages (rename f g nl) (mapEdges f es) <;>
    cases h2 : validateLineages nl es <;> simp_all

example : validateLineages (rename (· + 1152921504606846976) (· * 3) [((1:Nat),(10:Nat)),(2,10),(3,20)])
    (mapEdges (· + 1152921504606846976) [(1,2)]) = true := by decide

/-- Non-vacuity: a concrete two-component graph with a phantom-free labelling satisfies the
hypothesis and is accepted; splitting a component, joining two, and a phantom endpoint are
rejected (these are evaluations of the model, i.e. tests, not the unbounded claim). -/
example : validateLineages [((1:Nat),(10:Nat)),(2,10),(3,20)] [(1,2)] = true := by decide
example : validateLineages [((1:Nat),(10:Nat)),(2,11),(3,20)] [(1,2)] = false := by decide
example : validateLineages [((1:Nat),(10:Nat)),(2,10),(3,10)] [(1,2)] = false := by decide
example : validateLineages [((1:Nat),(10:Nat)),(2,10)] [(1,2),(2,9)] = false := by decide
example : ([((1:Nat),(10:Nat)),(2,10),(3,20)].map (·.1)).Nodup := by decide

end GeffProps.C14
