import GeffProofs.BackendForwarding
/-! # C03 (deepening) — the dispatch / forwarding layer

`geff.read(store, …, backend=…)`, `geff.construct(…, backend=…)` and `geff.write(graph, store, …)` only choose a
backend and hand their arguments on; `Backend.read` hands them to `read_to_memory`; the three `write` front
ends hand them to `write_dicts` / `write_arrays` and to the metadata helpers.  The table of these calls is
**regenerated from the current source on every run** by translator T11
(`Gen.BackendForwarding`, normalised against the callees' signatures) and everything below is decided on the
regenerated table: a swapped positional argument, a dropped or renamed keyword, a changed default, a backend
missing from `get_backend`, a reordered `write` signature in one backend breaks an obligation here.

Only theorems here; definitions in `GeffProofs/BackendForwarding.lean`. -/
namespace GeffProps.C03Dispatch
open Gen.BackendForwarding Geff.Dispatch

/-- the translator understood every construct it met -/
theorem translation_ok : translationOk = true := by decide

set_option maxRecDepth 100000 in
/-- the regenerated table of forwarding calls is the expected one (keyword order aside) -/
theorem table_current : sameCalls calls expectedCalls = true := by decide

/-- **dispatch is total and injective**: `get_backend` has exactly one case per member of the
`SupportedBackend` literal, each instantiating a different backend class, and anything else is
`ValueError`; `get_backend_from_graph_type` returns the available backend whose `GRAPH_TYPES` the graph is
an instance of and raises `TypeError` otherwise; the `GRAPH_TYPES` of the three backends are pairwise
disjoint (so the choice does not depend on the order of `AVAILABLE_BACKENDS`) and each backend's
`graph_adapter` wraps the graph in its own adapter class. -/
theorem dispatch_table :
    backendCases = [("networkx", "NxBackend"), ("rustworkx", "RxBackend"), ("spatial-graph", "SgBackend")] ∧
    backendCases.map (·.1) = supportedBackends ∧ (backendCases.map (·.2)).Nodup ∧
    backendDefault = "ValueError" ∧ fromGraphTypeRaises = "TypeError" ∧
    backendClasses.map (·.cls) = backendCases.map (·.2) ∧
    (backendClasses.flatMap (·.graphTypes)).Nodup ∧
    backendClasses.map (·.adapter) = ["NxGraphAdapter", "RxGraphAdapter", "SgGraphAdapter"] := by decide

/-- **no argument of `geff.read` is dropped, renamed or swapped**: every parameter except `backend` reaches
`Backend.read` under its own name, extra keywords travel as `**backend_kwargs`, and `Backend.read` hands the
five on to `read_to_memory` (`store` as its `source`) and the rest (`**kwargs`) with the whole in-memory
geff to `construct`. -/
theorem read_forwards_all :
    checkSig "geff.read" (fun s => s.params == readParams && s.kwonly == ["backend"] && s.kwarg == some "backend_kwargs") = true ∧
    check "geff.read" "Backend.read" (fun c => identityOn c readParams && c.star == ["**backend_kwargs"]) = true ∧
    check "Backend.read" "read_to_memory" (fun c => coreReadParams.all fun q => gets c q (renRead q)) = true ∧
    check "Backend.read" "Backend.construct" (fun c => c.star == ["**in_memory_geff", "**kwargs"] && c.pairs.isEmpty) = true := by
  decide

/-- **a call through the wrapper equals the direct call (read)**: whatever values `geff.read` holds for its
parameters (`env`), `read_to_memory` receives, for each of its parameters `q`, exactly the wrapper's value of
the argument `q` stands for — i.e. `geff.read(store, sv, np, ep, dv, backend=b)` runs
`read_to_memory(store, sv, np, ep, dv)`. -/
theorem read_wrapper_eq_direct :
    ∃ c1 c2, call? "geff.read" "Backend.read" = some c1 ∧ call? "Backend.read" "read_to_memory" = some c2 ∧
      ∀ (α : Type) (env : Env α), ∀ q ∈ coreReadParams, passed c2 (passed c1 env) q = env (renRead q) := by
  obtain ⟨c1, h1, f1⟩ := check_elim read_forwards_all.2.1
  obtain ⟨c2, h2, f2⟩ := check_elim read_forwards_all.2.2.1
  refine ⟨c1, c2, h1, h2, ?_⟩
  intro α env q hq
  have g2 := List.all_eq_true.1 f2 q hq
  rw [passed_of_gets c2 _ q (renRead q) g2]
  have hall : ∀ q ∈ coreReadParams, renRead q ∈ readParams := by decide
  have hin : renRead q ∈ readParams := hall q hq
  simp only [Bool.and_eq_true] at f1
  exact passed_of_gets c1 env _ _ (List.all_eq_true.1 f1.1 _ hin)

/-- **construct**: the five positional arguments reach the backend's `construct` under their own names, extra
keywords as `**backend_kwargs`; every backend's `construct` takes them in the protocol's order -/
theorem construct_forwards_all :
    check "geff.construct" "Backend.construct" (fun c => identityOn c constructParams && c.star == ["**backend_kwargs"]) = true ∧
    backendConstructs.all (fun b => sigPair "Backend.construct" b positionalPrefix) = true := by decide

/-- **no argument of `geff.write` is dropped, renamed or swapped**: every parameter except `overwrite` (which
the existence guard consumes) reaches the backend's `write` under its own name, further arguments travel as
`*args, **kwargs`.  The call is positional, written against the protocol `Backend.write`: every concrete
backend's `write` has the same eleven parameters **in the same order** (rustworkx adds `node_id_dict` after
them), so positional binding gives the same names in each backend. -/
theorem write_forwards_all :
    checkSig "geff.write" (fun s => s.params == writeParams ++ ["overwrite"] && s.vararg == some "args" && s.kwarg == some "kwargs") = true ∧
    check "geff.write" "Backend.write" (fun c => identityOn c writeParams && c.star == ["*args", "**kwargs"]) = true ∧
    checkSig "Backend.write" (fun s => s.params == writeParams) = true ∧
    backendWrites.all (fun b => sigPair "Backend.write" b positionalPrefix) = true ∧
    checkSig "RxBackend.write" (fun s => s.params == writeParams ++ ["node_id_dict"]) = true := by decide

/-- **a call through the wrapper equals the direct call (write)**: the backend's `write` receives each of
its eleven parameters with the value `geff.write` holds under the same name. -/
theorem write_wrapper_eq_direct :
    ∃ c, call? "geff.write" "Backend.write" = some c ∧
      ∀ (α : Type) (env : Env α), ∀ p ∈ writeParams, passed c env p = env p := by
  obtain ⟨c, h, f⟩ := check_elim write_forwards_all.2.1
  refine ⟨c, h, ?_⟩
  intro α env p hp
  simp only [Bool.and_eq_true] at f
  exact passed_of_gets c env p p (List.all_eq_true.1 f.1 p hp)

/-- **the write front ends hand the storage arguments on**: networkx and rustworkx pass `store`, `metadata`
(after `create_or_update_metadata(metadata, is_directed=<graph class>)` and, when `axis_names` is given,
`update_metadata_axes` with the six `axis_*` lists each under its own name), `zarr_format` and
`structure_validation` to `write_dicts`; spatial-graph passes the same four to `write_arrays`, the position
attribute as `node_props_unsquish={position_attr: axis_names}`, `graph.directed` and the axes built by
`axes_from_lists` (six lists under their own names, `roi_min` / `roi_max`) to `create_or_update_metadata`. -/
theorem backend_writes_forward :
    ["NxBackend.write", "RxBackend.write"].all (fun b =>
      check b "write_dicts" (fun c => gets c "geff_store" "store" && gets c "metadata" "metadata" &&
        gets c "zarr_format" "zarr_format" && gets c "structure_validation" "structure_validation" &&
        gets c "node_prop_names" "node_props" && gets c "edge_prop_names" "edge_props") &&
      check b "create_or_update_metadata" (fun c => gets c "metadata" "metadata" && gets c "is_directed" "directed") &&
      check b "update_metadata_axes" (fun c => identityOn c ("metadata" :: axisLists))) = true ∧
    check "SgBackend.write" "write_arrays" (fun c => gets c "geff_store" "store" && gets c "metadata" "metadata" &&
        gets c "zarr_format" "zarr_format" && gets c "structure_validation" "structure_validation" &&
        gets c "node_ids" "graph.nodes" && gets c "edge_ids" "graph.edges" &&
        gets c "node_props_unsquish" "{graph.position_attr: axis_names}" && !(c.pairs.map (·.1)).contains "overwrite") = true ∧
    check "SgBackend.write" "create_or_update_metadata" (fun c => gets c "metadata" "metadata" &&
        gets c "is_directed" "graph.directed" && gets c "axes" "axes") = true ∧
    check "SgBackend.write" "axes_from_lists" (fun c => identityOn c (axisLists ++ ["roi_min", "roi_max"])) = true := by decide

/-- **defaults are not changed on the way**: `structure_validation=True`, `node_props=None`, `edge_props=None`,
`data_validation=None` in `geff.read`, `Backend.read` and `read_to_memory`; `zarr_format=2`,
`structure_validation=True` and `None` for the metadata / axis lists in `geff.write`, the protocol and every
backend's `write`; `zarr_format=2`, `structure_validation=True` in `write_dicts` and `write_arrays`; the
default backend of `geff.read` / `geff.construct` is networkx. -/
theorem defaults_agree :
    sigPair "geff.read" "Backend.read" (fun a b => defaultsAgree a b (readParams.drop 1)) = true ∧
    sigPair "geff.read" "read_to_memory" (fun a b => defaultsAgree a b (readParams.drop 1)) = true ∧
    (("Backend.write" :: backendWrites).all fun n => sigPair "geff.write" n (fun a b => defaultsAgree a b (writeParams.drop 2))) = true ∧
    (["write_dicts", "write_arrays"].all fun n =>
      sigPair "geff.write" n (fun a b => defaultsAgree a b ["zarr_format", "structure_validation"])) = true ∧
    checkSig "geff.write" (fun s => s.defaults.lookup "zarr_format" == some "2" &&
      s.defaults.lookup "structure_validation" == some "True" && s.defaults.lookup "overwrite" == some "False") = true ∧
    checkSig "geff.read" (fun s => s.defaults.lookup "backend" == some "'networkx'") = true ∧
    checkSig "geff.construct" (fun s => s.defaults.lookup "backend" == some "'networkx'") = true := by decide

end GeffProps.C03Dispatch
