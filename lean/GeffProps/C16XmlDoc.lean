import GeffProofs.TrackMateXmlDoc
import GeffProps.C16
import GeffProps.C16Xml
/-! # C16 — from lxml's event stream to the abstract document: end-to-end statements that start at the XML tree

`docOfTree lex t = some d` (`GeffModel/TrackMateXmlDoc.lean`) is the explicit, executable hypothesis:
`t` is a TrackMate file in standard layout (ignored elements — `Log`, `Settings`, unknown tags with anything
inside — anywhere outside the four sections) and every `Spot` / `Edge` / `Track` element is exactly
represented by its abstract counterpart (`spotExactB`, `edgeExactB`, `trackExactB`: per-element checks that
depend on the element and the feature table only).  Everything else — any number of frames, spots, tracks and
links, their order, the threading of graph / `segmentation` / `current_track_id` through the cursor loops, the
dispatch and `break` of `_build_data` — is proved. -/
namespace GeffProps.C16XmlDoc
open Geff.TrackMate Geff.TrackMate.Xml GeffProps.C16 GeffProps.C16Xml

/-- **`_build_data` on lxml's event stream = the abstract `buildData` on `docOfTree`** (every outcome: the
graph with all attribute dicts and `TRACK_ID` stamps, the `segmentation` flag, or the same exception). -/
theorem C16X_build_data_doc (lex : String → Txt) (ds dt : Bool) (t : Tree) (d : Doc) (h : docOfTree lex t = some d) :
    (match buildDataEv lex ds dt (events t) with
      | .exc x => .exc x
      | .ok st => .ok (st.g, st.seg)) = buildData d ds dt := by
  rw [C16X_build_data_tree]
  exact buildDataTree_doc lex ds dt t d h

/-- **End to end from the XML tree** (composition with `buildData_final`, `finalGraph_nodes`,
`mem_final_edges`, `wfB_sound` of the existing C16 development): for a file in standard layout whose abstract
document is well-formed (`wfB`: TrackMate's own invariants), the cursor code run on lxml's event stream
never raises, and returns — for both discard flags —
* one node per kept spot, id = spot `ID`, in document order (`keepSpot` = the two discard rules);
* exactly the links whose two endpoints are kept, source → target, with their converted attributes;
* the `segmentation` flag = "some spot has `ROI_N_POINTS`";
* the units of the `Model` element, `pixel` / `frame` when absent. -/
theorem C16X_end_to_end (lex : String → Txt) (ds dt : Bool) (t : Tree) (d : Doc) (h : docOfTree lex t = some d)
    (hwf : wfB d = true) :
    ∃ st, buildDataEv lex ds dt (events t) = .ok st ∧
      st.g = finalGraph d ds dt ∧
      st.g.nodes.map (·.1) = (spotIds d).filter (keepSpot d ds dt) ∧
      (∀ e, e ∈ st.g.edges ↔ ∃ x ∈ links d, e = edgeEntry (attrsMd d) x ∧
        keepSpot d ds dt x.1.s = true ∧ keepSpot d ds dt x.1.t = true) ∧
      st.seg = d.spots.any (fun s => s.roi.isSome) ∧
      st.units.lookup "spatialunits" = some (d.space.getD "pixel") ∧
      st.units.lookup "timeunits" = some (d.time.getD "frame") := by
  have hWF := wfB_sound d hwf
  have hb := C16X_build_data_doc lex ds dt t d h
  rw [buildData_final d hWF ds dt] at hb
  cases hst : buildDataEv lex ds dt (events t) with
  | exc x => rw [hst] at hb; cases hb
  | ok st =>
    rw [hst] at hb
    simp only [Outcome.ok.injEq, Prod.mk.injEq] at hb
    obtain ⟨hg, hseg⟩ := hb
    have hu := buildDataTree_units lex ds dt t d h st (by rw [← C16X_build_data_tree]; exact hst)
    refine ⟨st, rfl, hg, ?_, ?_, hseg, hu.1, hu.2⟩
    · rw [hg]; exact finalGraph_nodes d ds dt
    · intro e; rw [hg]; exact mem_final_edges d hWF ds dt e

/-- the frame theorem composed with the reading: replacing / removing ignored subtrees does not change
whether and to which abstract document a file is read — stated for the case that matters in practice:
anything behind the `Model` element -/
theorem C16X_after_model_doc (lex : String → Txt) (ds dt : Bool) (tag : String) (a : List (String × String))
    (tx : Option String) (before : List Tree) (m : Tree) (hm : kindOf m.tag = .model) (after after' : List Tree) (d : Doc)
    (h : docOfTree lex (.node tag a tx (before ++ m :: after)) = some d) :
    (match buildDataEv lex ds dt (events (.node tag a tx (before ++ m :: after'))) with
      | .exc x => .exc x
      | .ok st => .ok (st.g, st.seg)) = buildData d ds dt := by
  rw [C16X_after_model_irrelevant lex ds dt tag a tx before m hm after' after]
  exact C16X_build_data_doc lex ds dt _ d h

/-! ## non-vacuity: the demo file of `GeffProps.C16Xml` is in standard layout, exactly represented, well-formed -/

def demoDoc : Option Doc := docOfTree lexDemo demo

example : demoDoc.isSome = true := by decide +kernel
example : (demoDoc.map (fun d => wfB d)) = some true := by decide +kernel
example : (demoDoc.map (fun d => (d.spots.map spotId, d.tracks.length, d.filtered, d.space))) =
    some ([1, 3, 2], 1, some [0], some "um") := by decide +kernel
/-- a spot whose `ID` is declared as a non-integer feature is *not* exactly represented -/
example : spotExactB lexDemo [{ name := "ID", isint := some false, dim := none }] (leaf "Spot" [("ID", "1")]) = false := by
  decide +kernel
/-- attribute order matters for exactness (`ID` first, then `name`, features, `ROI_N_POINTS`) -/
example : spotExactB lexDemo [] (leaf "Spot" [("ID", "1"), ("Q", "1.5")]) = true ∧
    spotExactB lexDemo [] (leaf "Spot" [("Q", "1.5"), ("ID", "1")]) = false := by decide +kernel
/-- a `Track` element with `name` in front of `TRACK_ID` (what TrackMate writes) is exactly represented -/
example : trackExactB lexDemo [] (.node "Track" [("name", "T"), ("TRACK_ID", "0")] none []) = true := by decide +kernel

end GeffProps.C16XmlDoc
