import GeffProps.C02Links
import Gen.ReadSideState
/-! # C02 over HISTORIES: every read returns the graph the store denotes *at the moment of the read*

`GeffProps/C02.lean` states the second direction for one store.  The property is about a library used by a
process that lives on: it reads a location, something outside the library replaces or edits what is there
(a re-export by the upstream tool, `rm -r` + rewrite, an in-place edit of the attributes), it reads again.
"Is read into exactly the graph it denotes" then means: the graph the store denotes **when the read
happens** — not the one it denoted when the process first looked.

Model.  The world outside the process maps locations to store contents (`World`).  A history is a list
of operations: `put l s` — *anything* makes `s` the content of location `l` (the independent writer, an
in-place edit, a removal, and also the library's own writers: from the reader's side every one of them is
just a new content, and `s` is universally quantified) — and three read entry points at a location:
`readMeta` (`GeffMetadata.read`), `read` (`read_to_memory(structure_validation=False)` =
`GeffReader(…, False)…build()`), `readValidated` (`read_to_memory`, validation on: what `geff.read`
calls).  The process itself carries **no state** from one operation to the next: the model of every read
entry point (`GeffModel/WriteRead.lean`) is a function of the store content alone.  That this is true of
the code is

* the **Gen obligation** `read_side_keeps_no_process_state` below — translator
  `harness/translators/t15_readside_process_state.py` lists, from the AST of the working tree, every place
  where a module on the read path keeps state across calls (a module-level or class-level container / name
  that a function mutates or rebinds, `global` / `nonlocal`, a memoising decorator, a mutated mutable default
  argument); the list must be empty —, and
* the correspondence stream "rw-history" of `harness/corr/C02.py` (`harness/corr/_c02_rw.py`): real
  locations (Path, str, LocalStore, MemoryStore) read, rewritten by the zarr-only writer / an in-place edit /
  the library's writer, read again through every read entry point, each result compared with `denote` of
  the store as dumped at that moment (and, on a failure, with the same read on a copy at a fresh location).

Theorems: `C02_history_reads_denote_current_store` (every read in every history returns the graph denoted
by the content the location has at that moment), `current_store_is_last_put` (that content is the last
`put` at the location, or the initial content — nothing else of the history matters), and the corollary
`C02_read_after_rewrite` in the shape of the scenario (read, rewrite, read). -/
namespace GeffProps.C02History
open Geff.Np Geff.Store Geff.WR Geff.Spec Geff.LinkStruct

/-- **Gen obligation** (translator T15): no module on the read path keeps state across calls.  This is what
licenses modelling every read entry point as a function of the store content alone. -/
theorem read_side_keeps_no_process_state :
    Gen.ReadSideState.translationOk = true ∧ Gen.ReadSideState.sites = [] := by decide

/-- the scan really covered the modules of the read entry points (non-vacuity of the obligation) -/
theorem read_side_scan_covers_entry_points :
    "packages/geff-spec/src/geff_spec/_schema.py" ∈ Gen.ReadSideState.scannedModules ∧
    "packages/geff/src/geff/core_io/_base_read.py" ∈ Gen.ReadSideState.scannedModules ∧
    "packages/geff/src/geff/core_io/_utils.py" ∈ Gen.ReadSideState.scannedModules ∧
    "packages/geff/src/geff/validate/structure.py" ∈ Gen.ReadSideState.scannedModules ∧
    "packages/geff/src/geff/_graph_libs/_api_wrapper.py" ∈ Gen.ReadSideState.scannedModules := by decide

abbrev Loc := String

/-- what is at each location -/
abbrev World := Loc → St

def World.put (w : World) (l : Loc) (s : St) : World := fun l' => if l' = l then s else w l'

inductive Op where
  /-- anything makes `s` the content of location `l` -/
  | put (l : Loc) (s : St)
  /-- `GeffMetadata.read(l)` -/
  | readMeta (l : Loc)
  /-- `read_to_memory(l, structure_validation=False)` -/
  | read (l : Loc)
  /-- `read_to_memory(l)` (structural validation on) -/
  | readValidated (l : Loc)

/-- what one operation lets the process observe -/
inductive Obs where
  | none
  | metadata (r : Outcome GeffAttr)
  | graph (r : Outcome ReadResult)

/-- one step of the world; the process has no state of its own -/
def step (w : World) : Op → World × Obs
  | .put l s => (w.put l s, .none)
  | .readMeta l => (w, .metadata (readMeta (w l)))
  | .read l => (w, .graph (readCore vlenCodec (w l)))
  | .readValidated l => (w, .graph (readToMemory vlenCodec Geff.Bridge.validate (w l)))

/-- the world after a history -/
def after (w : World) : List Op → World
  | [] => w
  | op :: t => after (step w op).1 t

/-- what the `i`-th operation of a history observes -/
def observe (w : World) : List Op → Nat → Option Obs
  | [], _ => none
  | op :: _, 0 => some (step w op).2
  | op :: t, i + 1 => observe (step w op).1 t i

/-- the content the last `put` at `l` left there, `none` when the history never puts anything at `l` -/
def lastPut (l : Loc) : List Op → Option St
  | [] => none
  | .put l' s :: t => match lastPut l t with
    | some s' => some s'
    | none => if l' = l then some s else none
  | _ :: t => lastPut l t

theorem observe_eq (w : World) : ∀ (h : List Op) (i : Nat) (op : Op), h[i]? = some op →
    observe w h i = some (step (after w (h.take i)) op).2 := by
  intro h
  induction h generalizing w with
  | nil => intro i op hi; simp at hi
  | cons a t ih =>
    intro i op hi
    cases i with
    | zero =>
      simp only [List.getElem?_cons_zero, Option.some.injEq] at hi
      subst hi
      simp [observe, after]
    | succ j =>
      simp only [List.getElem?_cons_succ] at hi
      simp only [observe, List.take_succ_cons, after]
      exact ih (step w a).1 j op hi

/-- **what is at a location is the last thing put there** (or the initial content): reads, earlier
contents of the location, and everything that happened at other locations leave no trace -/
theorem current_store_is_last_put (w : World) (l : Loc) : ∀ (h : List Op),
    after w h l = (lastPut l h).getD (w l) := by
  intro h
  induction h generalizing w with
  | nil => rfl
  | cons a t ih =>
    cases a with
    | put l' s =>
      simp only [after, step, lastPut]
      rw [ih]
      cases hlp : lastPut l t with
      | some s' => simp
      | none =>
        by_cases hl : l' = l
        · subst hl; simp [World.put]
        · have : ¬ l = l' := fun e => hl e.symm
          simp [World.put, hl, this]
    | readMeta l' => simp only [after, step, lastPut]; exact ih w
    | read l' => simp only [after, step, lastPut]; exact ih w
    | readValidated l' => simp only [after, step, lastPut]; exact ih w

theorem readMeta_of_denote (s : St) (G : Graph) (h : denote s = some G) :
    ∃ m, geffMeta s = some m ∧ readMeta s = .ok m ∧ m.directed = G.directed := by
  unfold denote at h
  cases hm : geffMeta s with
  | none => simp [hm] at h
  | some m =>
    refine ⟨m, rfl, ?_, ?_⟩
    · unfold geffMeta at hm
      unfold readMeta
      cases hg : get s [] with
      | none => simp [hg] at hm
      | some e =>
        cases e with
        | array a => simp [hg] at hm
        | group attrs =>
          simp only [hg] at hm ⊢
          rw [← Geff.Spec.find_eq_lookupKey]
          cases hf : find "geff" attrs with
          | none => simp [hf] at hm
          | some v =>
            cases v with
            | geff m' => simp only [hf, Option.some.injEq] at hm; subst hm; rfl
            | other => simp [hf] at hm
    · simp only [hm] at h
      split at h
      · split at h
        · split at h
          · simp only [Option.some.injEq] at h; subst h; simp_all
          · simp at h
        · simp at h
      · simp at h

/-- **C02, second direction, over histories.**  For every initial world and every history of `put`s (by
anything whatsoever) and reads, at any locations: whenever the `i`-th operation is a read entry point at
location `l`, and the content `l` has *at that moment* (`after w (h.take i) l`) is a store the
specification assigns a graph `G` to, then
* `GeffMetadata.read` returns the metadata that is in the store now (in particular its directedness is `G`'s),
* `read_to_memory(structure_validation=False)` returns exactly `G`,
* `read_to_memory` with validation returns exactly `G` under the side conditions of
  `GeffProps.C02Links.C02_reader_accepts_all_conformant_validated` (uint64 offset tables — the recorded known
  finding —, metadata keys = property groups, axes name 1-D unmasked node properties).
Whatever the process read before, and whatever was at `l` before, does not enter. -/
theorem C02_history_reads_denote_current_store (w : World) (h : List Op) (i : Nat) (l : Loc) (G : Graph)
    (hden : denote (after w (h.take i) l) = some G) (hfit : IntsFit (after w (h.take i) l)) :
    (h[i]? = some (.readMeta l) → ∃ m, observe w h i = some (.metadata (.ok m)) ∧
        geffMeta (after w (h.take i) l) = some m ∧ m.directed = G.directed) ∧
    (h[i]? = some (.read l) → ∃ r, observe w h i = some (.graph (.ok r)) ∧ graphOf r = G) ∧
    (h[i]? = some (.readValidated l) →
        OffsetTablesU64 (after w (h.take i) l) = true → MetaKeysArePropGroups (after w (h.take i) l) = true →
        AxesAreNodeProps (after w (h.take i) l) = true →
        ∃ r, observe w h i = some (.graph (.ok r)) ∧ graphOf r = G) := by
  refine ⟨?_, ?_, ?_⟩
  · intro hi
    obtain ⟨m, hm, hr, hd⟩ := readMeta_of_denote _ G hden
    exact ⟨m, by rw [observe_eq w h i _ hi]; simp [step, hr], hm, hd⟩
  · intro hi
    obtain ⟨r, hr, hg⟩ := GeffProps.C02.C02_reader_accepts_all_conformant _ hfit G hden
    exact ⟨r, by rw [observe_eq w h i _ hi]; simp [step, hr], hg⟩
  · intro hi hu hk ha
    obtain ⟨r, hr, hg⟩ := GeffProps.C02Links.C02_reader_accepts_all_conformant_validated _ hfit G hden hu hk ha
    exact ⟨r, by rw [observe_eq w h i _ hi]; simp [step, hr], hg⟩

/-- **the scenario**: the process reads `l`; then anything — any number of operations, among them any writer
putting the conformant store `s₂` at `l` last — happens; the next read of `l` returns the graph `s₂` denotes,
whatever `l` held and whatever was read before. -/
theorem C02_read_after_rewrite (w : World) (pre mid : List Op) (l : Loc) (s₂ : St) (G₂ : Graph)
    (hlast : lastPut l mid = some s₂) (hden : denote s₂ = some G₂) (hfit : IntsFit s₂) :
    ∃ r, observe w (pre ++ mid ++ [.read l]) (pre.length + mid.length) = some (.graph (.ok r)) ∧ graphOf r = G₂ := by
  have htake : (pre ++ mid ++ [Op.read l]).take (pre.length + mid.length) = pre ++ mid := by
    rw [← List.length_append]; exact List.take_left' rfl
  have hget : (pre ++ mid ++ [Op.read l])[pre.length + mid.length]? = some (.read l) := by
    rw [← List.length_append]; simp
  have hafter : ∀ (w : World) (a b : List Op), after w (a ++ b) = after (after w a) b := by
    intro w a
    induction a generalizing w with
    | nil => intro b; rfl
    | cons x t ih => intro b; simp only [List.cons_append, after]; exact ih _ b
  have hcur : after w ((pre ++ mid ++ [Op.read l]).take (pre.length + mid.length)) l = s₂ := by
    rw [htake, hafter, current_store_is_last_put, hlast]; rfl
  have := (C02_history_reads_denote_current_store w (pre ++ mid ++ [.read l]) (pre.length + mid.length) l G₂
    (by rw [hcur]; exact hden) (by rw [hcur]; exact hfit)).2.1 hget
  exact this

/-! ## non-vacuity (evaluations) -/
section Examples

/-- the conformant example stores of `GeffProps.C02` / `GeffProps.C02Links`, with the other directedness -/
def storeA : St := GeffProps.C02Links.good
def storeB : St := GeffProps.C02.exStore

/-- read `l`, an independent writer replaces the content, read `l` again (other entry points, and a read of another
location in between) -/
def scenario : List Op :=
  [.put "tracks.geff" storeA, .readMeta "tracks.geff", .read "tracks.geff", .put "other.geff" storeB,
   .put "tracks.geff" storeB, .read "other.geff", .read "tracks.geff", .readMeta "tracks.geff"]

example : lastPut "tracks.geff" scenario = some storeB := by decide
example : (denote storeA).isSome = true ∧ (denote storeB).isSome = true ∧ denote storeA ≠ denote storeB := by decide
/-- the two reads of the same location return the two different graphs the location denoted at those moments -/
example : (match observe (fun _ => []) scenario 2, observe (fun _ => []) scenario 6 with
    | some (.graph (.ok r₁)), some (.graph (.ok r₂)) =>
      decide (some (graphOf r₁) = denote storeA ∧ some (graphOf r₂) = denote storeB)
    | _, _ => false) = true := by decide

end Examples

end GeffProps.C02History
