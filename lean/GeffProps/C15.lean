import GeffModel.Ctc
/-! # C15 — CTC conversion produces exactly the tracked graph of the dataset
(property theorems are being added; this file always compiles) -/
namespace GeffProps.C15
open Geff.Ctc

/-- the axes are `t,(z),y,x` according to whether a `z` list exists -/
theorem axesOf_cases (coords : List (String × List String)) :
    axesOf coords = [("t", "time"), ("z", "space"), ("y", "space"), ("x", "space")] ∨
    axesOf coords = [("t", "time"), ("y", "space"), ("x", "space")] := by
  unfold axesOf; split <;> simp

end GeffProps.C15
