import GeffProofs.CtcBridge
/-! # C15 — CTC conversion produces exactly the tracked graph of the dataset

Property theorems only.  Model: `Geff.Ctc.fromCtc` (`GeffModel/Ctc.lean`: the frame loop with the
running node id, the `tracks` dict, the consecutive-occurrence edges, the table loop, the axes), tied
to `geff.convert.from_ctc_to_geff` / `geff convert-ctc` by `harness/corr/C15.py` (same synthetic
datasets through both; node arrays, the edge list *in stored order*, axes and exception class compared).

Vocabulary (defined with doc-strings in `GeffProofs/CtcSpec.lean`, `GeffProofs/Ctc.lean`):
* `Dataset` = `ndim`, `frames : List (List Region)` (what `regionprops` yields per tiff, a region =
  label + centroid tokens), `table : List Row` (rows `L B E P`); `ds.WF` : `ndim ∈ {2,3}` and every
  centroid has `ndim` coordinates; `ds.Sorted` : labels strictly ascending inside each frame;
* `objs 0 ds.frames` : the regions frame by frame, each tagged with its frame index — the loop order;
* `prows ds` : the table rows with `P > 0`;
* `NodeAt out a t l` : some index `i` has `nodeIds[i] = a`, `t[i] = t`, `tracklet_id[i] = l`;
* `Consec N a b`, `IsFirst N l a`, `IsLast N l a` : consecutive appearances / earliest / latest node
  of a label, by *time*; `EdgeSpec N rows es` : `es` = every consecutive pair once ++ one
  parent-last → child-first edge per row;
* `Occurs ds l t`, `Consistent ds` : rows with a parent name occurring labels, every appearance of
  the parent precedes every appearance of the child, no label has two parent rows
  (`consistentB_iff` : the executable decider the harness cross-checks equals this `Prop`);
* `TrackletValid es V lab` : the tracklet definition of docs/tracking.md (copied from the C13 spike).

Everything is quantified over all datasets (any number of frames, labels, gaps, children, rows in
any order).  Not covered by a theorem (differential tests in the harness, "partial"): tiff decoding,
`regionprops`, centroid arithmetic, `np.loadtxt`, the exported segmentation array and the
related-object path, zarr I/O. -/
namespace GeffProps.C15
open Geff.Ctc

/-- `dict[name][i]` of the coordinate lists -/
def coordAt (out : Out) (name : String) (i : Nat) : Option String :=
  (dictGet? out.coords name).bind (·[i]?)

/-! ## Outcome: which datasets convert -/

/-- **C15_outcome**: the converter raises `ValueError` ("No nodes found") exactly when no frame has a
region; otherwise `KeyError` exactly when some row with a parent names a label that never occurs;
otherwise it returns a graph.  No other exception constructor is reachable. -/
theorem C15_outcome (ds : Dataset) (hwf : ds.WF) :
    ((∀ fr ∈ ds.frames, fr = []) → fromCtc ds = .valueError) ∧
    (¬ (∀ fr ∈ ds.frames, fr = []) →
      (∃ r ∈ prows ds, ¬ ((∃ t, Occurs ds r.L t) ∧ (∃ t, Occurs ds r.P t))) → fromCtc ds = .keyError) ∧
    (¬ (∀ fr ∈ ds.frames, fr = []) →
      (∀ r ∈ prows ds, (∃ t, Occurs ds r.L t) ∧ (∃ t, Occurs ds r.P t)) → ∃ out, fromCtc ds = .ok out) := by
  obtain ⟨h1, h2, h3⟩ := fromCtc_spec ds hwf
  refine ⟨fun h => h1 ((objs_eq_nil_iff _ _).2 h), ?_, ?_⟩
  · rintro hne ⟨r, hr, hbad⟩
    refine h2 (fun h => hne ((objs_eq_nil_iff _ _).1 h)) ⟨r, hr, ?_⟩
    rwa [mem_labelsOf_iff, mem_labelsOf_iff]
  · intro hne hall
    obtain ⟨tracks, coords, _, _, h⟩ := h3 (fun h => hne ((objs_eq_nil_iff _ _).1 h))
      (fun r hr => by rw [mem_labelsOf_iff, mem_labelsOf_iff]; exact hall r hr)
    exact ⟨_, h⟩

/-- a consistent dataset with at least one region converts -/
theorem C15_consistent_converts (ds : Dataset) (hwf : ds.WF) (hc : Consistent ds)
    (hne : ¬ (∀ fr ∈ ds.frames, fr = [])) : ∃ out, fromCtc ds = .ok out :=
  (C15_outcome ds hwf).2.2 hne hc.occur

/-! ## Nodes -/

/-- **C15_nodes**: the nodes are the (frame, label) regions, bijectively: node ids are `0 … n-1`
where `n` is the number of regions, position `i` of the node arrays describes the `i`-th region of
the loop order — its frame index as `t`, its label as `tracklet_id`, its centroid as `(z,) y, x` —
every region of every frame is such a position and vice versa, and the axes are `t,(z),y,x`. -/
theorem C15_nodes (ds : Dataset) (hwf : ds.WF) (out : Out) (h : fromCtc ds = .ok out) :
    out.nodeIds = List.range (objs 0 ds.frames).length ∧
    out.ts = (objs 0 ds.frames).map (·.1) ∧
    out.tracklet = (objs 0 ds.frames).map (·.2.label) ∧
    (∀ (t : Nat) (r : Region),
      (∃ fr, ds.frames[t]? = some fr ∧ r ∈ fr) ↔ ∃ i : Nat, (objs 0 ds.frames)[i]? = some (t, r)) ∧
    (∀ (i t : Nat) (r : Region), (objs 0 ds.frames)[i]? = some (t, r) →
      (ds.ndim = 2 → ∃ y x, r.centroid = [y, x] ∧ coordAt out "y" i = some y ∧ coordAt out "x" i = some x ∧
        out.coords.map (·.1) = ["x", "y"]) ∧
      (ds.ndim = 3 → ∃ z y x, r.centroid = [z, y, x] ∧ coordAt out "z" i = some z ∧ coordAt out "y" i = some y ∧
        coordAt out "x" i = some x ∧ out.coords.map (·.1) = ["x", "y", "z"])) ∧
    (∀ c ∈ out.coords, c.2.length = out.nodeIds.length) ∧
    out.axes = (if ds.ndim = 3 then [("t", "time"), ("z", "space"), ("y", "space"), ("x", "space")]
                else [("t", "time"), ("y", "space"), ("x", "space")]) := by
  obtain ⟨_, _, tracks, coords, _, hco, rfl⟩ := fromCtc_ok_inv ds hwf out h
  refine ⟨rfl, rfl, rfl, ?_, ?_, ?_, ?_⟩
  · intro t r
    rw [← List.mem_iff_getElem?, mem_objs]
    simp
  · intro i t r hi
    have hmem : (t, r) ∈ objs 0 ds.frames := List.mem_of_getElem? hi
    obtain ⟨_, fr, hfr, hr⟩ := (mem_objs ds.frames 0 t r).1 hmem
    have hlen := hwf.cen fr (List.mem_of_getElem? hfr) r hr
    have hget : ∀ (xs : List String) (k : Nat), xs.map some = (objs 0 ds.frames).map (comp k) →
        xs[i]? = r.centroid.reverse[k]? := by
      intro xs k hx
      have := congrArg (fun l => l[i]?) hx
      simp only [List.getElem?_map, hi, Option.map_some, comp] at this
      cases hxi : xs[i]? with
      | none => rw [hxi] at this; cases this
      | some v => rw [hxi] at this; simpa using this
    cases hco with
    | two xs ys h3 hx hy =>
      refine ⟨fun h2 => ?_, fun h => absurd h h3⟩
      obtain ⟨a, b, hab⟩ := list_len2 r.centroid (by omega)
      refine ⟨a, b, hab, ?_, ?_, rfl⟩
      · simp [coordAt, dictGet?, hget ys 1 hy, hab]
      · simp [coordAt, dictGet?, hget xs 0 hx, hab]
    | three xs ys zs h3 hx hy hz =>
      refine ⟨fun h2 => by omega, fun _ => ?_⟩
      obtain ⟨a, b, d, hab⟩ := list_len3 r.centroid (by omega)
      refine ⟨a, b, d, hab, ?_, ?_, ?_, rfl⟩
      · simp [coordAt, dictGet?, hget zs 2 hz, hab]
      · simp [coordAt, dictGet?, hget ys 1 hy, hab]
      · simp [coordAt, dictGet?, hget xs 0 hx, hab]
  · intro c hc
    simpa using hco.lengths c hc
  · cases hco with
    | two xs ys h3 hx hy => simp [axesOf, hasKey, h3]
    | three xs ys zs h3 hx hy hz => simp [axesOf, hasKey, h3]

/-- the node predicate of the output is the position predicate of the loop order -/
theorem nodeAt_iff (ds : Dataset) (hwf : ds.WF) (out : Out) (h : fromCtc ds = .ok out) (a t : Nat) (l : Int) :
    NodeAt out a t l ↔ At (objs 0 ds.frames) a t l := by
  obtain ⟨_, _, tracks, coords, _, _, rfl⟩ := fromCtc_ok_inv ds hwf out h
  exact nodeAt_closed _ _ _ _ a t l

/-- **C15_nodes (one node per (frame,label))**: with ascending labels inside each frame, a node is
determined by its frame and label, and a node id carries one time and one label. -/
theorem C15_nodes_unique (ds : Dataset) (hwf : ds.WF) (hs : ds.Sorted) (out : Out) (h : fromCtc ds = .ok out) :
    out.nodeIds.Nodup ∧
    (∀ a b t l, NodeAt out a t l → NodeAt out b t l → a = b) ∧
    (∀ a t t' l l', NodeAt out a t l → NodeAt out a t' l' → t = t' ∧ l = l') ∧
    (∀ t l, Occurs ds l t ↔ ∃ a, NodeAt out a t l) := by
  have hO := objs_pairwise ds.frames 0 hs
  refine ⟨?_, ?_, ?_, ?_⟩
  · rw [(C15_nodes ds hwf out h).1]; exact List.nodup_range
  · intro a b t l ha hb
    rw [nodeAt_iff ds hwf out h] at ha hb
    exact at_inj hO a b t l ha hb
  · intro a t t' l l' ha hb
    rw [nodeAt_iff ds hwf out h] at ha hb
    exact ha.unique hb
  · intro t l
    rw [occurs_iff_at]
    simp only [nodeAt_iff ds hwf out h]

/-! ## Edges -/

theorem nodeAt_eq (ds : Dataset) (hwf : ds.WF) (out : Out) (h : fromCtc ds = .ok out) :
    NodeAt out = At (objs 0 ds.frames) := by
  funext a t l; exact propext (nodeAt_iff ds hwf out h a t l)

/-- **C15_edges**: the edge list is, as a multiset, exactly: one edge between every two consecutive
appearances of a label (each once), plus, for each table row with a parent, one edge from the last
node of the parent label to the first node of the child label. -/
theorem C15_edges (ds : Dataset) (hwf : ds.WF) (hs : ds.Sorted) (out : Out) (h : fromCtc ds = .ok out) :
    EdgeSpec (NodeAt out) (prows ds) out.edges := by
  rw [nodeAt_eq ds hwf out h]
  obtain ⟨_, hall, tracks, coords, ht, _, rfl⟩ := fromCtc_ok_inv ds hwf out h
  exact edgeSpec_closed (objs_pairwise ds.frames 0 hs) ht (prows ds) hall

/-! ## Graph validity and the tracklet annotation of consistent datasets -/

theorem consistent_order (ds : Dataset) (hc : Consistent ds) :
    ∀ r ∈ prows ds, ∀ a b tp tc, At (objs 0 ds.frames) a tp r.P → At (objs 0 ds.frames) b tc r.L → tp < tc :=
  fun r hr a b tp tc ha hb =>
    hc.order r hr tp tc ((occurs_iff_at ds _ _).2 ⟨a, ha⟩) ((occurs_iff_at ds _ _).2 ⟨b, hb⟩)

/-- **C15_graph_valid**: for a consistent dataset the output satisfies the right-hand side of graph
validity (C12): node ids are unique, every edge endpoint is a node, there is no self edge and no
repeated edge. -/
theorem C15_graph_valid (ds : Dataset) (hwf : ds.WF) (hs : ds.Sorted) (hc : Consistent ds)
    (out : Out) (h : fromCtc ds = .ok out) :
    out.nodeIds.Nodup ∧
    (∀ a b, (a, b) ∈ out.edges → a ∈ out.nodeIds ∧ b ∈ out.nodeIds) ∧
    (∀ a b, (a, b) ∈ out.edges → a ≠ b) ∧
    out.edges.Nodup := by
  have hO := objs_pairwise ds.frames 0 hs
  have hspec := C15_edges ds hwf hs out h
  rw [nodeAt_eq ds hwf out h] at hspec
  obtain ⟨h1, h2, h3⟩ := edges_valid (N := At (objs 0 ds.frames)) (fun a t t' l l' ha hb => ha.unique hb)
    (consistent_order ds hc) hc.oneParent hspec
  have hids := (C15_nodes ds hwf out h).1
  refine ⟨by rw [hids]; exact List.nodup_range, ?_, h2, h3⟩
  intro a b hab
  obtain ⟨⟨ta, la, ha⟩, ⟨tb, lb, hb⟩⟩ := h1 a b hab
  rw [hids]
  exact ⟨List.mem_range.2 ha.lt, List.mem_range.2 hb.lt⟩

/-- **C15_tracklets**: for a consistent dataset the declared tracklet annotation (`tracklet_id` =
CTC label) satisfies the tracklet definition **iff no parent has exactly one child** (every row with
a parent has a sibling row).  The `→` direction is the known finding
`C15:single-child-continuation`: CTC labels a continuation `1 → 2` with two ids although the path is
unbranched. -/
theorem C15_tracklets (ds : Dataset) (hwf : ds.WF) (hs : ds.Sorted) (hc : Consistent ds)
    (out : Out) (h : fromCtc ds = .ok out) :
    TrackletValid out.edges (fun a => a ∈ out.nodeIds) (fun a => out.tracklet[a]?) ↔
      ∀ r ∈ prows ds, ∃ r' ∈ prows ds, r'.P = r.P ∧ r'.L ≠ r.L := by
  have hO := objs_pairwise ds.frames 0 hs
  have hspec := C15_edges ds hwf hs out h
  rw [nodeAt_eq ds hwf out h] at hspec
  obtain ⟨hids, _, htr, _⟩ := C15_nodes ds hwf out h
  have hV : (fun a => a ∈ out.nodeIds) = (fun a => ∃ t l, At (objs 0 ds.frames) a t l) := by
    funext a
    apply propext
    rw [hids, List.mem_range]
    constructor
    · intro ha
      obtain ⟨t, r⟩ := (objs 0 ds.frames)[a]
      exact ⟨((objs 0 ds.frames)[a]).1, _, ((objs 0 ds.frames)[a]).2, List.getElem?_eq_getElem ha, rfl⟩
    · rintro ⟨t, l, hat⟩; exact hat.lt
  rw [hV]
  refine tracklet_iff (N := At (objs 0 ds.frames)) (fun a t t' l l' ha hb => ha.unique hb)
    (at_inj hO) (consistent_order ds hc) hc.oneParent hspec _ ?_ (at_chain hO)
  intro a t l hat
  rw [htr]; exact hat.label

/-- full property for the datasets CTC calls "with divisions only": consistent and every parent has
at least two children ⇒ valid graph with a valid tracklet annotation -/
theorem C15_tracklets_of_no_single_child (ds : Dataset) (hwf : ds.WF) (hs : ds.Sorted) (hc : Consistent ds)
    (hsib : ∀ r ∈ prows ds, ∃ r' ∈ prows ds, r'.P = r.P ∧ r'.L ≠ r.L)
    (out : Out) (h : fromCtc ds = .ok out) :
    TrackletValid out.edges (fun a => a ∈ out.nodeIds) (fun a => out.tracklet[a]?) :=
  (C15_tracklets ds hwf hs hc out h).2 hsib

/-! ## The hypothesis is necessary: known finding `C15:single-child-continuation`

Two frames, label 1 in frame 0, label 2 in frame 1, table `1 0 0 0` / `2 1 1 1` (corpus case
`D12c-single-child`). -/
def singleChild : Dataset :=
  ⟨2, [[⟨1, ["y0", "x0"]⟩], [⟨2, ["y1", "x1"]⟩]], [⟨1, 0, 0, 0⟩, ⟨2, 1, 1, 1⟩]⟩

theorem C15_counterexample_single_child :
    ∃ out, fromCtc singleChild = .ok out ∧ out.edges = [(0, 1)] ∧ out.tracklet = [1, 2] ∧
      ¬ TrackletValid out.edges (fun a => a ∈ out.nodeIds) (fun a => out.tracklet[a]?) := by
  refine ⟨_, rfl, by decide, by decide, ?_⟩
  intro hv
  have hte : TE [((0 : Nat), (1 : Nat))] 0 1 := by
    refine ⟨by simp, ?_, ?_⟩ <;> intro w hw <;> simp at hw <;> omega
  have := (hv.edge_iff 0 1 (by decide) (by decide) (by decide)).2 hte
  revert this; decide

/-! ## Non-vacuity -/

/-- a division with a gap: label 1 in frames 0 and 2, children 2 and 3 from frame 3 -/
def division : Dataset :=
  ⟨2, [[⟨1, ["a", "b"]⟩, ⟨5, ["c", "d"]⟩], [⟨5, ["e", "f"]⟩], [⟨1, ["g", "h"]⟩],
       [⟨2, ["i", "j"]⟩, ⟨3, ["k", "l"]⟩]],
   [⟨1, 0, 2, 0⟩, ⟨5, 0, 1, 0⟩, ⟨2, 3, 3, 1⟩, ⟨3, 3, 3, 1⟩]⟩

example : fromCtc division = .ok
    ⟨[0, 1, 2, 3, 4, 5], [1, 5, 5, 1, 2, 3], [0, 0, 1, 2, 3, 3],
     [("x", ["b", "d", "f", "h", "j", "l"]), ("y", ["a", "c", "e", "g", "i", "k"])],
     [(0, 3), (1, 2), (3, 4), (3, 5)], [("t", "time"), ("y", "space"), ("x", "space")]⟩ := by decide

example : division.WF ∧ division.Sorted := by
  refine ⟨⟨Or.inl rfl, ?_⟩, ?_⟩
  · intro fr hfr r hr
    simp [division] at hfr
    rcases hfr with rfl | rfl | rfl | rfl <;> simp at hr <;> (try rcases hr with rfl | rfl) <;> rfl
  · intro fr hfr
    simp [division] at hfr
    rcases hfr with rfl | rfl | rfl | rfl <;> simp

example : Consistent division := (consistentB_iff division).1 (by decide)

example : ∀ r ∈ prows division, ∃ r' ∈ prows division, r'.P = r.P ∧ r'.L ≠ r.L := by decide

example : Consistent singleChild := (consistentB_iff singleChild).1 (by decide)

end GeffProps.C15
