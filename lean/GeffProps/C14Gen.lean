import GeffProofs.TracksGen
import GeffProps.C14Data
/-! # C14 on the code as it is written now (translator T21)

`Gen/Tracks.lean` is regenerated on every run from `geff/validate/tracks.py`: `validate_lineages`,
statement by statement, as a Lean `do`-block over the primitives of `GeffModel/PyDoTracks.lean`
(the int64 cast, `zip(strict=False)`, the insertion-ordered `dict.setdefault(k, []).append(v)`,
`nx.DiGraph` + `add_nodes_from`, `nx.weakly_connected_components`, frozenset membership, the
f-string), which are defined from the graph library of the hand-written model.  This file proves
that the generated function IS the hand-written model (`Geff.Lineage.validateLineagesArrays`) that
the theorems of `GeffProps/C14.lean`, `C14Inv.lean`, `C14Data.lean` are about — for ALL node, edge
and label lists, verdict and messages in order — and transports the iff and the offenders-exact
statement to the generated function.  An edit of the Python source that changes what is computed
breaks a proof obligation here; the hand-written model is no longer only *compared* with the code
but *derived* from it.

Property theorems only; helper lemmas in `GeffProofs/TracksGen.lean`. -/
namespace GeffProps.C14Gen
open Geff.Graph Geff.Lineage Geff.Int64Cast Geff.PyDoTracks GeffProofs.TracksGen GeffProps.C14
open Geff.Tracklet (toInt64)

/-- the translator accepted every statement of `validate_lineages` -/
theorem translated : Gen.Tracks.lineagesOk = true := by decide

/-- **`validate_lineages` as written = the model**, for every node list, edge list and lineage-id
list (lengths may differ: `zip` truncates, the surplus nodes still enter the graph; duplicate node
ids, phantom end points, values outside int64 included): the same verdict and the same messages in
the same order, and no exception. -/
theorem C14Gen_validate_lineages_is_model (nodeIds : List Int) (edgeIds : List (Int × Int))
    (lineageIds : List Int) :
    Gen.Tracks.validateLineages nodeIds edgeIds lineageIds
      = .ok (validateLineagesArrays nodeIds lineageIds edgeIds) :=
  validateLineages_eq nodeIds edgeIds lineageIds

/-- the key lemma: after the grouping loop over `zip(nodes, lineages)` the dict holds, in
first-occurrence order of the lineage ids, each id with its nodes in order. -/
theorem C14Gen_grouping_loop (nl : List (Int × Int)) :
    nl.foldl (fun d x => dictSetdefaultAppend d x.2 x.1) [] =
      (dedup (nl.map (·.2))).map (fun l => (l, nodesWith nl l)) := by
  have := foldl_groups nl []
  rw [groups_nil, List.nil_append] at this
  exact this

/-- … and none of its classes is empty: the guard `if not l_nodes: continue` never fires. -/
theorem C14Gen_guard_never_fires (nl : List (Int × Int)) (x : Int × List Int)
    (hx : x ∈ nl.foldl (fun d x => dictSetdefaultAppend d x.2 x.1) []) : x.2 ≠ [] := by
  rw [C14Gen_grouping_loop] at hx
  obtain ⟨_, hv, u, hu⟩ := groups_nonempty nl x hx
  intro h
  have : u ∈ nodesWith nl x.1 := (mem_nodesWith _ _ _).2 hu
  rw [← hv, h] at this
  cases this

/-- `validate_lineages` as written never raises, and its verdict is `not errors`. -/
theorem C14Gen_total (nodeIds : List Int) (edgeIds : List (Int × Int)) (lineageIds : List Int) :
    ∃ errors, Gen.Tracks.validateLineages nodeIds edgeIds lineageIds = .ok (errors.isEmpty, errors) := by
  rw [C14Gen_validate_lineages_is_model]
  exact ⟨(lineageErrorsInt64 nodeIds lineageIds edgeIds).map message, by simp [validateLineagesArrays]⟩

/-- **C14 (offenders exact) on the code as written**, for ALL inputs: the messages are exactly the
rendered bad lineage ids of the cast instance (first-occurrence order, one message per id). -/
theorem C14Gen_errors_exact (nodeIds : List Int) (edgeIds : List (Int × Int)) (lineageIds : List Int)
    (valid : Bool) (errors : List String)
    (h : Gen.Tracks.validateLineages nodeIds edgeIds lineageIds = .ok (valid, errors)) :
    errors = (lineageErrorsInt64 nodeIds lineageIds edgeIds).map message ∧
    valid = errors.isEmpty ∧
    ∀ m, m ∈ errors ↔ ∃ l,
      BadLabel ((nodeIds.map toInt64).zip (lineageIds.map toInt64)) (castEdges edgeIds) l ∧ m = message l := by
  rw [C14Gen_validate_lineages_is_model] at h
  simp only [validateLineagesArrays, Except.ok.injEq, Prod.mk.injEq] at h
  obtain ⟨rfl, rfl⟩ := h
  refine ⟨rfl, by simp, fun m => ?_⟩
  unfold lineageErrorsInt64
  simp only [List.mem_map, C14_errors_exact]
  constructor
  · rintro ⟨l, hb, rfl⟩; exact ⟨l, hb, rfl⟩
  · rintro ⟨l, hb, rfl⟩; exact ⟨l, hb, rfl⟩

/-- **C14 (iff) on the code as written**: for int64 arrays with unique node ids, `validate_lineages`
returns `(True, [])` exactly when the labelling is the partition into weakly connected components;
otherwise `False` with exactly the rendered offending ids. -/
theorem C14Gen_iff (nodes labels : List Int) (edges : List (Int × Int))
    (hn : ∀ x ∈ nodes, InInt64 x) (hl : ∀ x ∈ labels, InInt64 x)
    (he : ∀ e ∈ edges, InInt64 e.1 ∧ InInt64 e.2) (hnd : nodes.Nodup) :
    ∃ valid errors, Gen.Tracks.validateLineages nodes edges labels = .ok (valid, errors) ∧
      (valid = true ↔ Spec (nodes.zip labels) edges) ∧
      (Spec (nodes.zip labels) edges ↔ errors = []) ∧
      errors = (lineageErrors (nodes.zip labels) edges).map message ∧
      (∀ m, m ∈ errors ↔ ∃ l, BadLabel (nodes.zip labels) edges l ∧ m = message l) := by
  obtain ⟨h1, h2, h3⟩ := C14_arrays_iff nodes labels edges hn hl he hnd
  refine ⟨_, _, C14Gen_validate_lineages_is_model nodes edges labels, h1, ?_, h2, h3⟩
  rw [← h1]
  simp [validateLineagesArrays]

/-- **C14 (uint64 ids) on the code as written**: for ids taken from uint64 arrays the verdict is the
verdict on the true ids; the ids named are the wrapped ones (known finding
`C14:uint64-id-wrapped-in-message`). -/
theorem C14Gen_uint64_wrap (nodes labels : List Int) (edges : List (Int × Int))
    (hn : ∀ x ∈ nodes, InUInt64 x) (hl : ∀ x ∈ labels, InUInt64 x)
    (he : ∀ e ∈ edges, InUInt64 e.1 ∧ InUInt64 e.2) :
    Gen.Tracks.validateLineages nodes edges labels =
      .ok (validateLineages (nodes.zip labels) edges,
           ((lineageErrors (nodes.zip labels) edges).map toInt64).map message) := by
  obtain ⟨h1, h2⟩ := C14_uint64_wrap nodes labels edges hn hl he
  rw [C14Gen_validate_lineages_is_model, ← h1, ← h2]
  rfl

/-! Non-vacuity / evaluation of the generated function on concrete inputs (tests, not the claim). -/
example : Gen.Tracks.validateLineages [1, 2, 3] [(1, 2)] [10, 10, 20] = .ok (true, []) := by decide
example : Gen.Tracks.validateLineages [1, 2, 3] [(1, 2)] [10, 11, 20] =
    .ok (false, ["Lineage 10: Does not form a valid, isolated connected component.",
                 "Lineage 11: Does not form a valid, isolated connected component."]) := by decide
/-- a node array longer than the label array: the surplus node 3 is in the graph, unlabelled -/
example : Gen.Tracks.validateLineages [1, 2, 3] [(2, 3)] [10, 20] =
    .ok (false, ["Lineage 20: Does not form a valid, isolated connected component."]) := by decide
example : ([1, 2, 3] : List Int).Nodup ∧ (∀ x ∈ ([1, 2, 3] : List Int), InInt64 x) := by decide

end GeffProps.C14Gen
