import GeffProofs.Adapters
import GeffProps.C03
/-! # C03 (deepening) — the backends agree *through the one interface the library offers*

`geff/_graph_libs/_graph_adapter.py` defines the backend-agnostic access protocol `GraphAdapter`
(`get_node_ids`, `get_edge_ids`, `has_node_prop`, `get_node_prop`, `has_edge_prop`, `get_edge_prop`,
each with the `metadata` argument); `NxGraphAdapter`, `RxGraphAdapter`, `SgGraphAdapter` implement it.
Model: `GeffModel/Adapters.lean` (on top of the backend graph models of `GeffModel/Backends.lean`),
tied to the real adapters by the stream `adapter` of `harness/corr/C03.py` (every function, every
(name, element) pair incl. names / nodes / edges that do not exist, exceptions as outcomes, id lists
in the reported order).

SPECIFICATION (`NodeAnswers` / `EdgeAnswers`): for an in-memory geff `m`, the interface must answer
for node `i` and property `name`

* `has_node_prop = True` exactly when `m` has a node property `name` whose missing flag at `i`'s
  position is false (`(specNodeAttr m i name).isSome`, characterised by `has_iff_flag`),
* `get_node_prop` = the stored value `values[k]` with its kind (`PyVal` constructor) where that is so,
  and `KeyError` where the element lacks the property,
* a fixed exception for an `i` that is no node; likewise for edges (either orientation when
  undirected).

Only theorems and non-vacuity examples here. -/
namespace GeffProps.C03Adapters
open Geff.Np Geff.Dicts Geff.Backends Geff.Adapters GeffProps.C03

/-- `(u, v)` is an edge of the geff (either orientation when undirected) -/
def isEdge (m : MemGeff) (e : Int × Int) : Bool := m.edgeIds.any (fun x => sameEdge m.directed x e)

/-- SPECIFICATION of the node half of the interface; `notNode` = what is raised for a non-node -/
structure NodeAnswers (m : MemGeff) (notNode : AErr) (has : String → Int → Out Bool)
    (get : String → Int → Out PyVal) : Prop where
  has_in : ∀ name i, i ∈ m.nodeIds → has name i = .ok (specNodeAttr m i name).isSome
  get_in : ∀ name i, i ∈ m.nodeIds → get name i = getIn (specNodeAttr m i name)
  has_out : ∀ name i, i ∉ m.nodeIds → has name i = .error notNode
  get_out : ∀ name i, i ∉ m.nodeIds → get name i = .error notNode

/-- SPECIFICATION of the edge half; `notEdge e` = what is raised for a pair that is no edge -/
structure EdgeAnswers (m : MemGeff) (notEdge : Int × Int → AErr) (has : String → Int × Int → Out Bool)
    (get : String → Int × Int → Out PyVal) : Prop where
  has_in : ∀ name e, isEdge m e = true → has name e = .ok (specEdgeAttr m e name).isSome
  get_in : ∀ name e, isEdge m e = true → get name e = getIn (specEdgeAttr m e name)
  has_out : ∀ name e, isEdge m e = false → has name e = .error (notEdge e)
  get_out : ∀ name e, isEdge m e = false → get name e = .error (notEdge e)

/-- **"true exactly where the missing flag is false"**: in a valid geff the specified answer of
`has_node_prop` for the node at position `k` is `True` iff the geff has a node property of that
name and the property has no missing mask or its mask is `False` at `k`. -/
theorem has_iff_flag (m : MemGeff) (h : MemValid m) (name : String) (k : Nat) (hk : k < m.nodeIds.length) :
    (specNodeAttr m m.nodeIds[k] name).isSome = true ↔
      ∃ c, m.nodeProps.lookup name = some c ∧ (c.missing = none ∨ ∃ ms, c.missing = some ms ∧ ms[k]? = some false) := by
  have hidx : m.nodeIds.findIdx? (fun x => x = m.nodeIds[k]) = some k := by
    obtain ⟨j, hj⟩ := findIdx?_of_mem m.nodeIds m.nodeIds[k] (List.getElem_mem hk)
    obtain ⟨hlt, hp⟩ := findIdx?_getElem _ _ j hj
    have hjk : m.nodeIds[j] = m.nodeIds[k] := by simpa using hp
    have hpw := List.pairwise_iff_getElem.1 h.nodup
    have : j = k := by
      rcases Nat.lt_trichotomy j k with hlt' | heq | hgt
      · exact absurd hjk (hpw j k hlt hk hlt')
      · exact heq
      · exact absurd hjk.symm (hpw k j hk hlt hgt)
    rw [hj, this]
  simp only [specNodeAttr, hidx, memAttr]
  cases hl : m.nodeProps.lookup name with
  | none => simp
  | some c =>
    have hwf := h.nodeCols (name, c) (lookup_mem _ _ _ hl)
    have hr : k < c.rows.length := by rw [hwf.1]; exact hk
    simp only [Col.entry, List.getElem?_eq_getElem hr, Option.some.injEq, exists_eq_left']
    cases hm : c.missing with
    | none => simp
    | some ms =>
      by_cases hf : ms[k]? = some false
      · simp [hf]
      · simp [hf]

/-! ## networkx -/

/-- **C03 (NxGraphAdapter on a constructed graph)** — for every valid in-memory geff and every
`metadata` argument: `get_node_ids()` is the geff's node list *in order*; `get_edge_ids()` is the
adjacency order `nxEdgeOrder` of the geff's nodes and edges, every reported pair is an edge of the
geff, every edge of the geff is reported (as stored when directed; in one of the two orientations
when undirected); `has_*` / `get_*` answer as specified, `KeyError` for a non-node / non-edge. -/
theorem C03_nx_adapter (m : MemGeff) (h : MemValid m) (md : AMeta) :
    ∃ g, nxConstruct m = .ok g ∧
      nxGetNodeIds g = m.nodeIds ∧
      nxGetEdgeIds g = nxEdgeOrder m.directed m.nodeIds m.edgeIds ∧
      (∀ e ∈ nxGetEdgeIds g, isEdge m e = true) ∧
      (∀ e ∈ m.edgeIds, e ∈ nxGetEdgeIds g ∨ (m.directed = false ∧ (e.2, e.1) ∈ nxGetEdgeIds g)) ∧
      (m.directed = true → ∀ e ∈ m.edgeIds, e ∈ nxGetEdgeIds g) ∧
      NodeAnswers m .keyError (nxHasNodeProp g md) (nxGetNodeProp g md) ∧
      EdgeAnswers m (fun _ => .keyError) (nxHasEdgeProp g md) (nxGetEdgeProp g md) := by
  obtain ⟨g, hg, hd, hn, he, hna, hea⟩ := nxConstruct_spec m h
  have hord : nxGetEdgeIds g = nxEdgeOrder m.directed m.nodeIds m.edgeIds := by
    simp only [nxGetEdgeIds, hd, hn, he]
  have hhn : ∀ i, g.hasNode i = decide (i ∈ m.nodeIds) := nx_hasNode_eq g _ hn
  have hhe : ∀ e, g.hasEdge e = isEdge m e := fun e => by rw [nx_hasEdge_eq g _ he e, hd]; rfl
  refine ⟨g, hg, hn, hord, ?_, ?_, ?_, ?_, ?_⟩
  · intro e hmem
    rw [hord] at hmem
    exact nxEdgeOrder_sound _ _ _ e hmem
  · intro e hmem
    rw [hord]
    exact (nxEdgeOrder_complete m.directed m.nodeIds m.edgeIds e hmem (h.endpoints e hmem).1 (h.endpoints e hmem).2).2
  · intro hdir e hmem
    rw [hord]
    exact (nxEdgeOrder_complete m.directed m.nodeIds m.edgeIds e hmem (h.endpoints e hmem).1 (h.endpoints e hmem).2).1 hdir
  · refine ⟨?_, ?_, ?_, ?_⟩ <;> intro name i hi
    · simp [nxHasNodeProp, hhn, hi, hna, hasIn]
    · simp [nxGetNodeProp, hhn, hi, hna]
    · simp [nxHasNodeProp, hhn, hi]
    · simp [nxGetNodeProp, hhn, hi]
  · refine ⟨?_, ?_, ?_, ?_⟩ <;> intro name e hi
    · simp [nxHasEdgeProp, hhe, hi, hea, hasIn]
    · simp [nxGetEdgeProp, hhe, hi, hea]
    · simp [nxHasEdgeProp, hhe, hi]
    · simp [nxGetEdgeProp, hhe, hi]

/-! ## rustworkx -/

/-- what `RxGraphAdapter` raises for a pair that is no edge: `KeyError` (from `to_rx_id_map`) when an
end point is no node, `NoEdgeBetweenNodes` otherwise -/
def rxNotEdge (m : MemGeff) (e : Int × Int) : AErr :=
  if e.1 ∈ m.nodeIds ∧ e.2 ∈ m.nodeIds then .noEdge else .keyError

/-- **C03 (RxGraphAdapter on a constructed graph)** — rustworkx numbers the nodes `0 … n-1`
(`to_rx_id_map` = id ↦ position); through the inverse map the adapter reports **exactly the geff's
node list and edge list, in order and orientation**, and answers `has_*` / `get_*` as specified. -/
theorem C03_rx_adapter (m : MemGeff) (h : MemValid m) (md : AMeta) :
    ∃ g, rxConstruct m = .ok g ∧
      rxGetNodeIds g = .ok m.nodeIds ∧
      rxGetEdgeIds g = .ok m.edgeIds ∧
      NodeAnswers m .keyError (rxHasNodeProp g md) (rxGetNodeProp g md) ∧
      EdgeAnswers m (rxNotEdge m) (rxHasEdgeProp g md) (rxGetEdgeProp g md) := by
  obtain ⟨g, hg, hd, hhn, hhe, hna, hea⟩ := rxConstruct_spec m h
  obtain ⟨ds, es, hdl, hel, hshape⟩ := rxConstruct_shape m h
  have hgeq : g = ⟨m.directed, ds.map some,
      (m.edgeIds.map (fun e => (posOf m.nodeIds e.1, posOf m.nodeIds e.2))).zip es,
      some (dictOfZip m.nodeIds (List.range m.nodeIds.length))⟩ := by
    rw [hg] at hshape; exact Except.ok.inj hshape
  have hmap : g.idMap = some (dictOfZip m.nodeIds (List.range m.nodeIds.length)) := by rw [hgeq]
  have hlk : ∀ i, (dictOfZip m.nodeIds (List.range m.nodeIds.length)).lookup i = m.nodeIds.findIdx? (fun x => x = i) :=
    toRx_lookup m.nodeIds h.nodup
  have hgid : ∀ k, k < m.nodeIds.length → rxGeffId g k = .ok (m.nodeIds.getD k 0) := by
    intro k hk
    simp only [rxGeffId, hmap, invLookup_toRx m.nodeIds h.nodup k hk]
    simp [hk]
  have hnotin : ∀ i, i ∉ m.nodeIds → m.nodeIds.findIdx? (fun x => decide (x = i)) = none := by
    intro i hi
    rw [findIdx?_none_iff]
    intro x hx
    simp only [decide_eq_false_iff_not]
    intro e; exact hi (e ▸ hx)
  have hin : ∀ i, i ∈ m.nodeIds → ∃ k, m.nodeIds.findIdx? (fun x => decide (x = i)) = some k := findIdx?_of_mem m.nodeIds
  -- the node half, through the observation functions of `Backends.lean`
  have hnodeIn : ∀ name i, i ∈ m.nodeIds →
      rxHasNodeProp g md name i = hasIn (g.nodeAttr i name) ∧ rxGetNodeProp g md name i = getIn (g.nodeAttr i name) := by
    intro name i hi
    obtain ⟨k, hk⟩ := hin i hi
    have hn := hhn i
    simp only [RxGraph.hasNode, RxGraph.rxId, hmap, hlk, hk, hi, decide_true] at hn
    cases hs : g.slots[k]? with
    | none => simp [hs] at hn
    | some s =>
      cases s with
      | none => simp [hs] at hn
      | some a =>
        simp [rxHasNodeProp, rxGetNodeProp, rxRxId, rxPayload, RxGraph.nodeAttr, RxGraph.rxId, hmap, hlk, hk, hs]
  have hnodeOut : ∀ name i, i ∉ m.nodeIds →
      rxHasNodeProp g md name i = .error .keyError ∧ rxGetNodeProp g md name i = .error .keyError := by
    intro name i hi
    simp [rxHasNodeProp, rxGetNodeProp, rxRxId, hmap, hlk, hnotin i hi]
  have hedge : ∀ name e,
      (isEdge m e = true → rxHasEdgeProp g md name e = hasIn (g.edgeAttr e name) ∧
        rxGetEdgeProp g md name e = getIn (g.edgeAttr e name)) ∧
      (isEdge m e = false → rxHasEdgeProp g md name e = .error (rxNotEdge m e) ∧
        rxGetEdgeProp g md name e = .error (rxNotEdge m e)) := by
    intro name e
    have hedg := hhe e
    by_cases h1 : e.1 ∈ m.nodeIds
    · by_cases h2 : e.2 ∈ m.nodeIds
      · obtain ⟨a, ha⟩ := hin _ h1
        obtain ⟨b, hb⟩ := hin _ h2
        simp only [RxGraph.hasEdge, RxGraph.rxId, hmap, hlk, ha, hb] at hedg
        simp only [rxHasEdgeProp, rxGetEdgeProp, rxEdgeData, rxRxId, RxGraph.edgeAttr, RxGraph.rxId, hmap, hlk, ha, hb,
          rxNotEdge, h1, h2, and_self, if_true, isEdge]
        cases hf : g.edges.find? (fun x => decide (x.1 = (a, b)) || (!g.directed && decide (x.1 = (b, a)))) with
        | some x =>
          refine ⟨fun _ => ⟨rfl, rfl⟩, ?_⟩
          intro hne
          rw [← hedg] at hne
          have := List.find?_some hf
          have hmem := List.mem_of_find?_eq_some hf
          have : g.edges.any (fun x => decide (x.1 = (a, b)) || (!g.directed && decide (x.1 = (b, a)))) = true :=
            List.any_eq_true.2 ⟨x, hmem, this⟩
          rw [this] at hne; cases hne
        | none =>
          refine ⟨?_, fun _ => ⟨rfl, rfl⟩⟩
          intro hyes
          rw [← hedg] at hyes
          obtain ⟨x, hx, hp⟩ := List.any_eq_true.1 hyes
          have := List.find?_eq_none.1 hf x hx
          simp [hp] at this
      · have hno : isEdge m e = false := by
          have := no_edge_outside m h e (Or.inr h2)
          rw [isEdge, any_eq_isSome_findIdx?, this]; rfl
        obtain ⟨a, ha⟩ := hin _ h1
        simp only [hno, Bool.false_eq_true, false_imp_iff, true_and, forall_const]
        simp [rxHasEdgeProp, rxGetEdgeProp, rxEdgeData, rxRxId, hmap, hlk, ha, hnotin _ h2, rxNotEdge, h2]
    · have hno : isEdge m e = false := by
        have := no_edge_outside m h e (Or.inl h1)
        rw [isEdge, any_eq_isSome_findIdx?, this]; rfl
      simp only [hno, Bool.false_eq_true, false_imp_iff, true_and, forall_const]
      simp [rxHasEdgeProp, rxGetEdgeProp, rxEdgeData, rxRxId, hmap, hlk, hnotin _ h1, rxNotEdge, h1]
  refine ⟨g, hg, ?_, ?_, ?_, ?_⟩
  · -- node ids
    have hnl : g.nodeList.map (·.1) = List.range m.nodeIds.length := by
      rw [hgeq, nodeList_all_some, hdl]
    rw [rxGetNodeIds, hnl,
      mapA_ok_map (rxGeffId g) (fun k => m.nodeIds.getD k 0) _ (fun k hk => hgid k (List.mem_range.1 hk)),
      getD_map_range]
  · -- edge ids
    have hedges : g.edges = (m.edgeIds.map (fun e => (posOf m.nodeIds e.1, posOf m.nodeIds e.2))).zip es := by rw [hgeq]
    rw [rxGetEdgeIds, hedges]
    rw [mapA_ok_map _ (fun (x : (Nat × Nat) × Attrs) => (m.nodeIds.getD x.1.1 0, m.nodeIds.getD x.1.2 0))]
    · congr 1
      have h1 : ∀ (l : List (Nat × Nat)) (es : List Attrs), es.length = l.length →
          (l.zip es).map (fun (x : (Nat × Nat) × Attrs) => (m.nodeIds.getD x.1.1 0, m.nodeIds.getD x.1.2 0)) =
            l.map (fun p => (m.nodeIds.getD p.1 0, m.nodeIds.getD p.2 0)) := by
        intro l
        induction l with
        | nil => intro es _; simp
        | cons a t ih =>
          intro es hl
          cases es with
          | nil => simp at hl
          | cons b bt =>
            simp only [List.zip_cons_cons, List.map_cons, ih bt (by simpa using hl)]
      rw [h1 _ es (by simp [hel]), List.map_map]
      conv => rhs; rw [← List.map_id m.edgeIds]
      apply List.map_congr_left
      intro e he
      obtain ⟨_, hk1, hv1⟩ := posOf_spec m.nodeIds e.1 (h.endpoints e he).1
      obtain ⟨_, hk2, hv2⟩ := posOf_spec m.nodeIds e.2 (h.endpoints e he).2
      simp [hk1, hk2, hv1, hv2]
    · intro x hx
      have hx1 := (List.of_mem_zip hx).1
      obtain ⟨e, he, hxe⟩ := List.mem_map.1 hx1
      obtain ⟨_, hk1, _⟩ := posOf_spec m.nodeIds e.1 (h.endpoints e he).1
      obtain ⟨_, hk2, _⟩ := posOf_spec m.nodeIds e.2 (h.endpoints e he).2
      rw [← hxe]
      simp only [hgid _ hk1, hgid _ hk2]
  · exact ⟨fun name i hi => by rw [(hnodeIn name i hi).1, hna]; rfl,
           fun name i hi => by rw [(hnodeIn name i hi).2, hna],
           fun name i hi => (hnodeOut name i hi).1, fun name i hi => (hnodeOut name i hi).2⟩
  · exact ⟨fun name e hi => by rw [((hedge name e).1 hi).1, hea]; rfl,
           fun name e hi => by rw [((hedge name e).1 hi).2, hea],
           fun name e hi => ((hedge name e).2 hi).1, fun name e hi => ((hedge name e).2 hi).2⟩

/-! ## the adapters agree -/

/-- **C03 (`adapter_agree`, networkx ↔ rustworkx — both ordered pairs, the statement is symmetric)**:
on the graphs the two backends construct from one valid in-memory geff, with any `metadata`
arguments, the two adapters report the same node id list (same order), edge id lists that denote the
same edge set (rustworkx: the geff's list itself; networkx: adjacency order, each edge once from
the end point that comes first), and `has_node_prop` / `get_node_prop` agree on **every** integer
(both `KeyError` outside the graph), `has_edge_prop` / `get_edge_prop` on every edge of the graph in
either orientation when undirected. -/
theorem C03_adapter_agree_nx_rx (m : MemGeff) (h : MemValid m) (md md' : AMeta) :
    ∃ gn gr, nxConstruct m = .ok gn ∧ rxConstruct m = .ok gr ∧
      (nxAdapter gn).getNodeIds = (rxAdapter gr).getNodeIds ∧
      (rxAdapter gr).getEdgeIds = .ok m.edgeIds ∧
      (∀ e ∈ nxGetEdgeIds gn, isEdge m e = true) ∧
      (∀ e ∈ m.edgeIds, e ∈ nxGetEdgeIds gn ∨ (m.directed = false ∧ (e.2, e.1) ∈ nxGetEdgeIds gn)) ∧
      (∀ name i, (nxAdapter gn).hasNodeProp md name i = (rxAdapter gr).hasNodeProp md' name i ∧
                 (nxAdapter gn).getNodeProp md name i = (rxAdapter gr).getNodeProp md' name i) ∧
      (∀ name e, isEdge m e = true →
                 (nxAdapter gn).hasEdgeProp md name e = (rxAdapter gr).hasEdgeProp md' name e ∧
                 (nxAdapter gn).getEdgeProp md name e = (rxAdapter gr).getEdgeProp md' name e) := by
  obtain ⟨gn, h1, n1, _, n3, n4, _, nn, ne⟩ := C03_nx_adapter m h md
  obtain ⟨gr, h2, r1, r2, rn, re⟩ := C03_rx_adapter m h md'
  refine ⟨gn, gr, h1, h2, by simp only [nxAdapter, rxAdapter, n1, r1], r2, n3, n4, ?_, ?_⟩
  · intro name i
    simp only [nxAdapter, rxAdapter]
    by_cases hi : i ∈ m.nodeIds
    · exact ⟨by rw [nn.has_in name i hi, rn.has_in name i hi], by rw [nn.get_in name i hi, rn.get_in name i hi]⟩
    · exact ⟨by rw [nn.has_out name i hi, rn.has_out name i hi], by rw [nn.get_out name i hi, rn.get_out name i hi]⟩
  · intro name e he
    simp only [nxAdapter, rxAdapter]
    exact ⟨by rw [ne.has_in name e he, re.has_in name e he], by rw [ne.get_in name e he, re.get_in name e he]⟩

/-! ## spatial-graph -/

/-- **C03 (SgGraphAdapter on a constructed graph, on the backend's documented domain)** — `names` are
the axis names of the geff's metadata, passed to `construct` and to the adapter.  The adapter lists
the geff's nodes and edges; for every node / edge of the geff and every property the element has in
the geff, `get_*_prop` returns the stored value with its kind — an axis read back out of the
squished `position` column at the axis' index — and `has_*_prop` is `True` (no element of the domain
lacks a property: `sg_present`).  A non-axis node property called `position` (the squished attribute's
own name) is excluded: the backend stores the stacked position under that name. -/
theorem C03_sg_adapter (m : MemGeff) (names : List String) (h : SgDomain m names) :
    ∃ g, sgConstruct m (some names) = .ok g ∧
      sgGetNodeIds g = m.nodeIds ∧ sgGetEdgeIds g = m.edgeIds ∧
      (∀ name i v, specNodeAttr m i name = some v → (name ∈ names ∨ name ≠ positionAttr) →
        sgHasNodeProp g ⟨some names⟩ name i = .ok true ∧ sgGetNodeProp g ⟨some names⟩ name i = .ok v) ∧
      (∀ name e v, specEdgeAttr m e name = some v →
        sgHasEdgeProp g ⟨some names⟩ name e = .ok true ∧ sgGetEdgeProp g ⟨some names⟩ name e = .ok v) ∧
      (∀ name i, sgGetNodeProp g ⟨none⟩ name i = .error .valueError) := by
  obtain ⟨g, hg, hobs⟩ := sgConstruct_spec m names h
  have hdir : g.directed = m.directed := congrArg Obs.directed hobs
  have hna : ∀ i name, g.nodeAttr names i name = specNodeAttr m i name := fun i name =>
    congrFun (congrFun (congrArg Obs.nodeAttr hobs) i) name
  have hea : ∀ e name, g.edgeAttr e name = specEdgeAttr m e name := fun e name =>
    congrFun (congrFun (congrArg Obs.edgeAttr hobs) e) name
  have hhn : ∀ i, g.hasNode i = decide (i ∈ m.nodeIds) := fun i => congrFun (congrArg Obs.hasNode hobs) i
  -- the shape of `g`: nodes and edges are the geff's
  have hnodes : g.nodes = m.nodeIds ∧ g.edges = m.edgeIds := by
    have hne : m.nodeIds.isEmpty = false := by
      cases hm : m.nodeIds with
      | nil => exact absurd hm h.nonempty
      | cons a t => rfl
    have hite : ∀ (c : Prop) [Decidable c] (a b : Err),
        (if c then (Except.error a : Except Err SgGraph) else .error b) ≠ .ok g := by
      intro c _ a b; split <;> simp
    have hite2 : ∀ (c : Prop) [Decidable c] (a : Err) (x : SgGraph),
        (if c then (Except.error a : Except Err SgGraph) else .ok x) = .ok g → x = g := by
      intro c _ a x hh
      split at hh
      · cases hh
      · exact Except.ok.inj hh
    unfold sgConstruct at hg
    repeat' split at hg
    all_goals first
      | (cases hg; first | exact ⟨rfl, rfl⟩ | simp_all)
      | exact absurd hg (hite _ _ _)
      | (have hx := hite2 _ _ _ hg; subst hx; first | exact ⟨rfl, rfl⟩ | simp_all)
      | simp_all
  refine ⟨g, hg, hnodes.1, hnodes.2, ?_, ?_, fun _ _ => rfl⟩
  · intro name i v hv hname
    refine ⟨rfl, ?_⟩
    have hgv : g.nodeAttr names i name = some v := by rw [hna, hv]
    simp only [SgGraph.nodeAttr] at hgv
    simp only [sgGetNodeProp, sgNodeRow]
    cases hk : g.nodes.findIdx? (fun x => decide (x = i)) with
    | none => simp [hk] at hgv
    | some k =>
      simp only [hk] at hgv
      cases ha : names.findIdx? (fun x => decide (x = name)) with
      | some a =>
        simp only [ha] at hgv ⊢
        cases hr : g.position[k]? with
        | none => simp [hr] at hgv
        | some r =>
          simp only [hr] at hgv ⊢
          cases hc : r[a]? with
          | none => simp [hc] at hgv
          | some c => simp only [hc, Option.map_some, Option.some.injEq] at hgv; simp [hgv]
      | none =>
        simp only [ha] at hgv ⊢
        have hnot : name ∉ names := by
          intro hin
          have := (findIdx?_none_iff _ _).1 ha name hin
          simp at this
        have hne : name ≠ positionAttr := hname.resolve_left hnot
        simp only [hne, if_false]
        cases hl : g.nodeAttrs.lookup name with
        | none => simp [hl] at hgv
        | some c =>
          simp only [hl] at hgv ⊢
          cases hr : c.rows[k]? with
          | none => simp [hr] at hgv
          | some r => simp only [hr, Option.map_some, Option.some.injEq] at hgv; simp [hgv]
  · intro name e v hv
    refine ⟨rfl, ?_⟩
    have hgv : g.edgeAttr e name = some v := by rw [hea, hv]
    simp only [SgGraph.edgeAttr] at hgv
    simp only [sgGetEdgeProp]
    cases hk : g.edges.findIdx? (fun x => sameEdge g.directed x e) with
    | none => simp [hk] at hgv
    | some k =>
      simp only [hk] at hgv
      cases hl : g.edgeAttrs.lookup name with
      | none => simp [hl] at hgv
      | some c =>
        simp only [hl] at hgv ⊢
        -- both end points are nodes: the matching edge is an edge of the geff
        obtain ⟨hklt, hp⟩ := findIdx?_getElem _ _ k hk
        have hmem : g.edges[k] ∈ m.edgeIds := by rw [← hnodes.2]; exact List.getElem_mem hklt
        have hend := h.valid.endpoints _ hmem
        have hboth : (g.hasNode e.1 && g.hasNode e.2) = true := by
          simp only [hhn, Bool.and_eq_true, decide_eq_true_eq]
          simp only [sameEdge, Bool.or_eq_true, decide_eq_true_eq, Bool.and_eq_true, Bool.not_eq_true'] at hp
          rcases hp with hp | ⟨_, hp⟩
          · rw [← hp]; exact hend
          · rw [hp] at hend; exact ⟨hend.2, hend.1⟩
        simp only [hboth, Bool.not_true, Bool.false_eq_true, if_false]
        cases hr : c.rows[k]? with
        | none => simp [hr] at hgv
        | some r => simp only [hr, Option.map_some, Option.some.injEq] at hgv; simp [hgv]

/-- in the spatial-graph domain no element lacks a property: every node shows every node property
of the geff — so the adapter's constant `has_node_prop = True` is the specified answer there -/
theorem sg_present (m : MemGeff) (names : List String) (h : SgDomain m names) (name : String) (i : Int)
    (hi : i ∈ m.nodeIds) (hn : name ∈ m.nodeProps.map (·.1)) : (specNodeAttr m i name).isSome = true := by
  obtain ⟨k, hk⟩ := findIdx?_of_mem m.nodeIds i hi
  have hklt := findIdx?_lt _ _ k hk
  obtain ⟨c, hc⟩ := lookup_some_of_mem m.nodeProps name hn
  have hwf := h.valid.nodeCols (name, c) (lookup_mem _ _ _ hc)
  have hfacts : c.missing = none ∧ c.varlen = false := by
    by_cases hax : name ∈ names
    · obtain ⟨pd, _, hall⟩ := h.axisCols
      obtain ⟨c', hc', _, h2, h3, _⟩ := hall name hax
      rw [hc] at hc'; cases hc'; exact ⟨h2, h3⟩
    · have := h.otherNode (name, c) (lookup_mem _ _ _ hc) hax
      refine ⟨this.2, ?_⟩
      have h1 := this.1
      simp only [sgColOk, Bool.and_eq_true, Bool.not_eq_true'] at h1
      exact h1.1.2
  simp only [specNodeAttr, hk, memAttr, hc]
  rw [entry_nomissing c k hfacts.1 hfacts.2, List.getElem?_eq_getElem (by rw [hwf.1]; exact hklt)]
  rfl

/-- **C03 (`adapter_agree`, spatial-graph ↔ networkx and ↔ rustworkx, all four ordered pairs)**: on
the spatial-graph domain the three adapters list the same nodes, and for every node / edge of the
geff and every property of the geff (a property called `position` aside) `has_*` and `get_*` of the
spatial-graph adapter — called with the geff's metadata — equal those of the networkx and of the
rustworkx adapter, whatever metadata these are called with. -/
theorem C03_adapter_agree_sg (m : MemGeff) (names : List String) (h : SgDomain m names) (md : AMeta) :
    ∃ gs gn gr, sgConstruct m (some names) = .ok gs ∧ nxConstruct m = .ok gn ∧ rxConstruct m = .ok gr ∧
      (sgAdapter gs).getNodeIds = (nxAdapter gn).getNodeIds ∧
      (sgAdapter gs).getNodeIds = (rxAdapter gr).getNodeIds ∧
      (sgAdapter gs).getEdgeIds = (rxAdapter gr).getEdgeIds ∧
      (∀ name i, i ∈ m.nodeIds → name ∈ m.nodeProps.map (·.1) → (name ∈ names ∨ name ≠ positionAttr) →
        (sgAdapter gs).hasNodeProp ⟨some names⟩ name i = (nxAdapter gn).hasNodeProp md name i ∧
        (sgAdapter gs).getNodeProp ⟨some names⟩ name i = (nxAdapter gn).getNodeProp md name i ∧
        (sgAdapter gs).hasNodeProp ⟨some names⟩ name i = (rxAdapter gr).hasNodeProp md name i ∧
        (sgAdapter gs).getNodeProp ⟨some names⟩ name i = (rxAdapter gr).getNodeProp md name i) ∧
      (∀ name e v, specEdgeAttr m e name = some v →
        (sgAdapter gs).getEdgeProp ⟨some names⟩ name e = (nxAdapter gn).getEdgeProp md name e ∧
        (sgAdapter gs).getEdgeProp ⟨some names⟩ name e = (rxAdapter gr).getEdgeProp md name e ∧
        (sgAdapter gs).hasEdgeProp ⟨some names⟩ name e = (nxAdapter gn).hasEdgeProp md name e ∧
        (sgAdapter gs).hasEdgeProp ⟨some names⟩ name e = (rxAdapter gr).hasEdgeProp md name e) := by
  obtain ⟨gs, h0, s1, s2, sn, se, _⟩ := C03_sg_adapter m names h
  obtain ⟨gn, h1, n1, _, _, _, _, nn, ne⟩ := C03_nx_adapter m h.valid md
  obtain ⟨gr, h2, r1, r2, rn, re⟩ := C03_rx_adapter m h.valid md
  refine ⟨gs, gn, gr, h0, h1, h2, by simp only [sgAdapter, nxAdapter, s1, n1],
    by simp only [sgAdapter, rxAdapter, s1, r1], by simp only [sgAdapter, rxAdapter, s2, r2], ?_, ?_⟩
  · intro name i hi hn hname
    have hp := sg_present m names h name i hi hn
    obtain ⟨v, hv⟩ := Option.isSome_iff_exists.1 hp
    obtain ⟨a, b⟩ := sn name i v hv hname
    simp only [sgAdapter, nxAdapter, rxAdapter]
    rw [a, b, nn.has_in name i hi, nn.get_in name i hi, rn.has_in name i hi, rn.get_in name i hi, hv]
    exact ⟨rfl, rfl, rfl, rfl⟩
  · intro name e v hv
    obtain ⟨a, b⟩ := se name e v hv
    have hedge : isEdge m e = true := by
      simp only [specEdgeAttr] at hv
      rw [isEdge, any_eq_isSome_findIdx?]
      cases hk : m.edgeIds.findIdx? (fun x => sameEdge m.directed x e) with
      | none => simp [hk] at hv
      | some k => rfl
    simp only [sgAdapter, nxAdapter, rxAdapter]
    rw [a, b, ne.has_in name e hedge, ne.get_in name e hedge, re.has_in name e hedge, re.get_in name e hedge, hv]
    exact ⟨rfl, rfl, rfl, rfl⟩

/-! ## a rustworkx graph that was not built by `construct` (index holes, no `to_rx_id_map`) -/

/-- without `to_rx_id_map` the adapter reports the indices in use — exactly the node ids
`RxBackend.write` writes for the same graph with `node_id_dict=None` (`rxDicts`) -/
theorem C03_rx_adapter_matches_write (g : RxGraph) (hm : g.idMap = none) (hne : g.nodeList ≠ [])
    (nd : List (Int × Attrs)) (ed : List ((Int × Int) × Attrs)) (hd : rxDicts g none = .ok (nd, ed)) :
    rxGetNodeIds g = .ok (nd.map (·.1)) ∧ rxGetEdgeIds g = .ok (ed.map (·.1)) := by
  have hnode : rxGetNodeIds g = .ok (g.nodeList.map (fun p => Int.ofNat p.1)) := by
    rw [rxGetNodeIds, mapA_ok_map (rxGeffId g) (fun k => Int.ofNat k) _ (fun k _ => by simp [rxGeffId, hm]),
      List.map_map]
    rfl
  have hedge : rxGetEdgeIds g = .ok (g.edges.map (fun e => (Int.ofNat e.1.1, Int.ofNat e.1.2))) := by
    rw [rxGetEdgeIds]
    exact mapA_ok_map _ _ _ (fun e _ => by simp [rxGeffId, hm])
  have hemp : g.nodeList.isEmpty = false := by
    cases hl : g.nodeList with
    | nil => exact absurd hl hne
    | cons a t => rfl
  simp only [rxDicts, hemp, Bool.false_eq_true, if_false] at hd
  rw [mapE_ok_map _ (fun (p : Nat × Attrs) => ((Int.ofNat p.1, p.2) : Int × Attrs)) _ (fun _ _ => rfl)] at hd
  simp only at hd
  rw [mapE_ok_map _ (fun (e : (Nat × Nat) × Attrs) => (((Int.ofNat e.1.1, Int.ofNat e.1.2), e.2) : (Int × Int) × Attrs))
    _ (fun _ _ => rfl)] at hd
  simp only [Except.ok.injEq, Prod.mk.injEq] at hd
  obtain ⟨rfl, rfl⟩ := hd
  rw [hnode, hedge]
  simp [List.map_map, Function.comp_def]

/-! ## non-vacuity -/

/-- an undirected geff: ids with a gap and out of order, a bool property missing on one node, an
edge stored against node order -/
def exM : MemGeff :=
  { directed := false, nodeIds := [9, 3, 7], edgeIds := [(7, 3), (9, 7)],
    nodeProps := [("f", ⟨.bool, false, [([], [.b true]), ([], [.b false]), ([], [.b true])], some [false, true, false]⟩)],
    edgeProps := [("w", ⟨.i64, false, [([], [.i 4]), ([], [.i 5])], none⟩)] }

example : MemValid exM where
  nodup := by decide
  endpoints := by decide
  simple := by decide
  nodeNames := by decide
  edgeNames := by decide
  nodeCols := by decide
  edgeCols := by decide

/-- networkx reports the edges in adjacency order, `(7, 3)` turned round because 3 precedes 7 -/
example : (nxConstruct exM).toOption.map (fun g => (nxGetNodeIds g, nxGetEdgeIds g)) =
    some ([9, 3, 7], [(9, 7), (3, 7)]) := by decide
/-- rustworkx reports the geff's own lists -/
example : (rxConstruct exM).toOption.map (fun g => (rxGetNodeIds g, rxGetEdgeIds g)) =
    some (.ok [9, 3, 7], .ok [(7, 3), (9, 7)]) := by decide
/-- the missing flag: node 3 has no `f`, node 9 has -/
example : (rxConstruct exM).toOption.map (fun g =>
      (rxHasNodeProp g ⟨none⟩ "f" 3, rxGetNodeProp g ⟨none⟩ "f" 3, rxGetNodeProp g ⟨none⟩ "f" 9,
       rxHasNodeProp g ⟨none⟩ "f" 4)) =
    some (.ok false, .error .keyError, .ok (.sc (.b true)), .error .keyError) := by decide
example : (rxConstruct exM).toOption.map (fun g =>
      (rxGetEdgeProp g ⟨none⟩ "w" (3, 7), rxGetEdgeProp g ⟨none⟩ "w" (3, 9), rxGetEdgeProp g ⟨none⟩ "w" (3, 4))) =
    some (.ok (.sc (.i 4)), .error .noEdge, .error .keyError) := by decide
example : (nxConstruct exM).toOption.map (fun g =>
      (nxHasNodeProp g ⟨none⟩ "f" 3, nxGetNodeProp g ⟨none⟩ "f" 9, nxGetEdgeProp g ⟨none⟩ "w" (3, 7),
       nxGetEdgeProp g ⟨none⟩ "w" (3, 9))) =
    some (.ok false, .ok (.sc (.b true)), .ok (.sc (.i 4)), .error .keyError) := by decide

/-- spatial-graph: the example of `GeffProps/C03.lean` (`exSg`, axes `y`, `x`): the axis `x` of node 9
is read out of `position`, `has` is constantly true, no axes in the metadata is `ValueError` -/
example : (sgConstruct GeffProps.C03.exSg (some ["y", "x"])).toOption.map (fun g =>
      (sgGetNodeIds g, sgGetNodeProp g ⟨some ["y", "x"]⟩ "x" 9, sgGetNodeProp g ⟨some ["y", "x"]⟩ "lab" 9,
       sgGetNodeProp g ⟨some ["y", "x"]⟩ "position" 3)) =
    some ([3, 9], .ok (.sc (.f "0000000000000840")), .ok (.sc (.i 2)),
          .ok (.arr [2] [.f "000000000000f03f", .f "0000000000000000"])) := by decide
example : (sgConstruct GeffProps.C03.exSg (some ["y", "x"])).toOption.map (fun g =>
      (sgGetNodeProp g ⟨some ["y", "x"]⟩ "zz" 3,
       sgGetNodeProp g ⟨none⟩ "x" 9, sgGetEdgeProp g ⟨none⟩ "w" (9, 3), sgGetEdgeProp g ⟨none⟩ "w" (3, 9))) =
    some (.error .attributeError, .error .valueError, .ok (.sc (.f "000000000000e03f")), .error .indexError) := by decide

/-- a rustworkx graph with a hole (index 1 removed), no id map: the adapter lists the indices in use -/
example : (rxGetNodeIds GeffProps.C03.exRx, rxGetEdgeIds GeffProps.C03.exRx,
      rxHasNodeProp GeffProps.C03.exRx ⟨none⟩ "f" 1, rxHasNodeProp GeffProps.C03.exRx ⟨none⟩ "f" 0,
      rxHasNodeProp GeffProps.C03.exRx ⟨none⟩ "f" (-1)) =
    (.ok [0, 2], .ok [(2, 0)], .error .indexError, .ok true, .error .overflowError) := by decide

end GeffProps.C03Adapters
