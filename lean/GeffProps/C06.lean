import GeffProofs.KVHistory
import GeffProofs.WriteOrderSpec
/-! # C06 — existing geffs are never clobbered implicitly; overwrite replaces completely

Model: `GeffModel/KV.lean` (see `GeffProps/C05.lean`).  `checkForGeff` is `check_for_geff` after the
repairs D13 / path-with-siblings: read-only, zarr format detected, a path holding only foreign
members is not a geff.  Every entry point runs `guard` first: `write_arrays` directly, `write_dicts`
through `write_arrays` (never with overwrite), `geff.write` and both converters their own guard
followed by the nested one of `write_arrays` (`apiWrite`).

`geffView f kv = (geff attribute, geff-controlled keys with their documents)` is everything a geff
reader looks at; `foreignPart kv` are the foreign members, byte for byte and in store order. -/
namespace GeffProps.C06
open Geff.KV Geff.KV.Prog Gen.Paths

/-- **C06, refusal** — where `check_for_geff` finds a geff and overwrite is not requested, every
entry point raises `FileExistsError` and performs **no store mutation at all**: the store afterwards
is the store before, byte for byte. -/
theorem C06_refuse_write_arrays (d : Docs) (kind : Kind) (f : Fmt) (g : G) (validate : Bool) (kv : KV)
    (h : checkForGeff kind kv = true) :
    (writeArrays d kind f g false validate kv).val = .error .fileExists ∧
    (writeArrays d kind f g false validate kv).ops = [] ∧
    Prog.final (writeArrays d kind f g false validate) kv = kv := by
  have hg := guard_eq d kind f false kv
  simp only [h, if_true, Bool.false_eq_true, if_false] at hg
  have hv : (guard d kind f false kv).val = .error .fileExists := by rw [hg]
  have ho : (guard d kind f false kv).ops = [] := by rw [hg]
  have h1 : (writeArrays d kind f g false validate kv).ops = [] := by
    unfold writeArrays; simp only [bind_def]; rw [ops_bind_err hv, ho]
  refine ⟨?_, h1, ?_⟩
  · unfold writeArrays; simp only [bind_def]; rw [val_bind_err hv]
  · simp [Prog.final, h1, run_nil]

theorem C06_refuse_write_dicts (d : Docs) (kind : Kind) (f : Fmt) (g : G) (validate : Bool) (kv : KV)
    (h : checkForGeff kind kv = true) :
    (writeDicts d kind f g validate kv).val = .error .fileExists ∧
    (writeDicts d kind f g validate kv).ops = [] ∧
    Prog.final (writeDicts d kind f g validate) kv = kv :=
  C06_refuse_write_arrays d kind f g validate kv h

/-- `geff.write` (every backend), `from_ctc_to_geff`, `from_trackmate_xml_to_geff` -/
theorem C06_refuse_api (d : Docs) (kind : Kind) (f : Fmt) (g : G) (validate : Bool) (kv : KV)
    (h : checkForGeff kind kv = true) :
    (apiWrite d kind f g false validate kv).val = .error .fileExists ∧
    (apiWrite d kind f g false validate kv).ops = [] ∧
    Prog.final (apiWrite d kind f g false validate) kv = kv := by
  have hg := guard_eq d kind f false kv
  simp only [h, if_true, Bool.false_eq_true, if_false] at hg
  have hv : (guard d kind f false kv).val = .error .fileExists := by rw [hg]
  have ho : (guard d kind f false kv).ops = [] := by rw [hg]
  have h1 : (apiWrite d kind f g false validate kv).ops = [] := by
    unfold apiWrite; simp only [bind_def]; rw [ops_bind_err hv, ho]
  refine ⟨?_, h1, ?_⟩
  · unfold apiWrite; simp only [bind_def]; rw [val_bind_err hv]
  · simp [Prog.final, h1, run_nil]

/-- a store that holds a geff (root group of format `f` with a `geff` attribute) is seen by the guard
of every entry point, on every kind of store -/
theorem C06_guard_sees_geff (kind : Kind) (f : Fmt) (kv : KV) (h : HoldsGeff f kv) :
    checkForGeff kind kv = true := check_of_holds kind f kv h

/-- **C06, overwrite = fresh write** — for every store holding a geff written in format `f` (any
old graph, any foreign members and root attributes, any kind of store), every new graph `g`: with
overwrite requested the committed store has the same outcome as, and shows to a reader exactly
what, a write of `g` into an **empty** location shows — same geff attribute, same geff-controlled
keys and documents, so no property, array or metadata field of the previous graph survives — and
every foreign member is kept byte for byte. -/
theorem C06_overwrite_eq_fresh (d : Docs) (kind : Kind) (f : Fmt) (g : G) (kv₀ : KV) (h : HoldsGeff f kv₀)
    (hvis : kind = .path → ForeignVisible f kv₀) :
    let ow := writeCommitted d kind f g true kv₀
    let fr := writeCommitted d kind f g false []
    ow.val = fr.val ∧
    (ow.val = .ok () → geffView f (run kv₀ ow.ops) = geffView f (run [] fr.ops) ∧
                        geffAttrIn f (run kv₀ ow.ops) = some g.geff) ∧
    ownedPart (run kv₀ ow.ops) = ownedPart (run [] fr.ops) ∧
    foreignPart (run kv₀ ow.ops) = foreignPart kv₀ := by
  intro ow fr
  obtain ⟨hv, ho, ha, hf⟩ := overwrite_eq_fresh d kind f g kv₀ h hvis
  refine ⟨hv, ?_, ho, hf⟩
  intro hok
  obtain ⟨a1, a2⟩ := ha hok
  exact ⟨by simp only [geffView]; rw [a1, a2, ho], a1⟩

/-- `geff.write` and the converters perform exactly the mutations of `write_arrays(overwrite=True)`
(after their own deletion the nested guard of `write_arrays` finds nothing), and exactly those of a
plain `write_arrays` on an empty location — so `C06_overwrite_eq_fresh` holds for them verbatim. -/
theorem C06_overwrite_api_same_mutations (d : Docs) (kind : Kind) (f : Fmt) (g : G) (kv₀ : KV)
    (h : HoldsGeff f kv₀) (hvis : kind = .path → ForeignVisible f kv₀) :
    (apiCommitted d kind f g true kv₀).ops = (writeCommitted d kind f g true kv₀).ops ∧
    (apiCommitted d kind f g true kv₀).val = (writeCommitted d kind f g true kv₀).val ∧
    (apiCommitted d kind f g false []).ops = (writeCommitted d kind f g false []).ops ∧
    (apiCommitted d kind f g false []).val = (writeCommitted d kind f g false []).val :=
  ⟨(apiCommitted_eq d kind f g kv₀ h hvis).1, (apiCommitted_eq d kind f g kv₀ h hvis).2,
   (apiCommitted_fresh d kind f g).1, (apiCommitted_fresh d kind f g).2⟩

/-- **C06 over arbitrary histories** — `write(g₁,o₁); write(g₂,o₂); …` of any length through
`write_arrays`, on a store `base` without geff (any foreign content on store objects), with graphs
that can be written and validate (`Good`): afterwards the store holds exactly the last graph whose
write was not refused (`lastWritten`), with the geff-controlled keys, documents and attribute a
fresh write of that graph into an empty location produces, and the foreign members of `base`
unchanged.  (Refused writes change nothing: `C06_refuse_write_arrays`.) -/
theorem C06_histories (d : Docs) (kind : Kind) (f : Fmt) (validate : Bool) (base : KV) (hist : List Step)
    (hbase : CleanS f base) (hgood : ∀ st ∈ hist, Good d kind f st.1)
    (hpath : kind = .path → foreignPart base = []) :
    let fin := execHist d kind f validate base hist
    foreignPart fin = foreignPart base ∧
    match lastWritten none hist with
    | none => fin = base
    | some c => HoldsGeff f fin ∧ geffAttrIn f fin = some c.geff ∧
                ownedPart fin = ownedPart (fresh d kind f c) := by
  intro fin
  obtain ⟨h1, h2⟩ := histories_aux d kind f validate hist base none (fun _ => hbase)
    (fun c hc => by cases hc) hgood hpath
  refine ⟨h1, ?_⟩
  cases hl : lastWritten none hist with
  | none => rw [hl] at h2; exact h2
  | some c => rw [hl] at h2; exact ⟨h2.holds, h2.attr, h2.owned⟩

/-! ### every entry point guards before its first mutation (translator T6, regenerated on every run) -/
section order
open Geff.WriteOrderSpec Gen.WriteOrder

/-- `check_for_geff` only opens the store read-only (the D13 repair): the guard itself mutates nothing -/
theorem guard_is_read_only :
    Gen.WriteOrder.translationOk = true ∧ Gen.WriteOrder.checkForGeff ≠ [] ∧
    Gen.WriteOrder.checkForGeff.all (fun e => e.1 == "call:open_group" && e.2.2 == ["mode='r'"]) = true := by
  decide +kernel

/-- `write_arrays` and `geff.write`: the guard is the first store-relevant statement; `geff.write`
then hands over to the backend writer without an `overwrite` argument (so the nested guard of
`write_arrays` runs with overwrite off — the model's `apiWrite`) -/
theorem guard_first_write_arrays_and_api :
    guardShape (core writeArrays) 0 "geff_store" = true ∧
    names (core apiWrite) = ["call:check_for_geff", "call:delete_geff", "raise:FileExistsError", "call:write"] ∧
    guardShape (core apiWrite) 0 "store" = true ∧ unconditional (core apiWrite) 3 = true ∧
    detailHas (core apiWrite) 3 "overwrite=absent" = true ∧ detailHas (core apiWrite) 3 "on=backend_io" = true ∧
    names (only ["call:write_arrays"] writeDicts) = ["call:write_arrays"] ∧
    detailHas (only ["call:write_arrays"] writeDicts) 0 "overwrite=absent" = true := by
  decide +kernel

/-- **the guard looks at the location the writes use**: in every entry point a home-relative
location is expanded (`v = remove_tilde(v)`, unconditionally) *before* the guard, and the guard,
`delete_geff`, every array writer, the metadata write, validation and the clean-up are all handed
that same variable — so `check_for_geff` cannot look at `~/x.geff` while the data goes to
`/home/…/x.geff` -/
theorem guard_sees_the_location_the_writes_use :
    tildeBeforeGuard writeArrays "geff_store" "call:check_for_geff" = true ∧
    storeArgsAre writeArrays "geff_store" = true ∧
    tildeBeforeGuard apiWrite "store" "call:check_for_geff" = true ∧ storeArgsAre apiWrite "store" = true ∧
    tildeBeforeGuard writeDicts "geff_store" "call:write_arrays" = true ∧ storeArgsAre writeDicts "geff_store" = true ∧
    tildeBeforeGuard fromCtc "geff_path" "call:check_for_geff" = true ∧ storeArgsAre fromCtc "geff_path" = true ∧
    tildeBeforeGuard fromTrackmate "geff_path" "call:_preliminary_checks" = true ∧
    storeArgsAre fromTrackmate "geff_path" = true ∧ storeArgsAre preliminaryChecks "geff_path" = true ∧
    -- the converters normalise the output name to `<name>.geff` before the guard, once
    suffixBeforeGuard fromCtc "geff_path" "call:check_for_geff" = true ∧
    suffixBeforeGuard fromTrackmate "geff_path" "call:_preliminary_checks" = true := by
  decide +kernel

/-- the converters: guard before the segmentation array and before `write_arrays` / `NxBackend.write`,
which are called without `overwrite` -/
theorem guard_first_converters :
    names (only ["call:check_for_geff", "call:delete_geff", "raise:FileExistsError", "call:open_array",
                 "call:write_arrays"] (core fromCtc)) =
      ["call:check_for_geff", "call:delete_geff", "raise:FileExistsError", "call:open_array", "call:write_arrays"] ∧
    guardShape (core fromCtc) 2 "geff_path" = true ∧ detailHas (core fromCtc) 8 "overwrite=absent" = true ∧
    names (core preliminaryChecks) = ["raise:FileNotFoundError", "call:check_for_geff", "call:delete_geff",
      "raise:FileExistsError"] ∧
    guardShape (core preliminaryChecks) 1 "geff_path" = true ∧
    names (core fromTrackmate) = ["call:_preliminary_checks", "call:write"] ∧
    unconditional (core fromTrackmate) 0 = true ∧ detailHas (core fromTrackmate) 1 "overwrite=absent" = true := by
  decide +kernel
end order

/-! ### non-vacuity and the recorded exception -/

def exDocs : Docs := { zgroup := "zg", zattrs := "za", gjson := "gj", emptyOther := "{}" }
def exArr (m : String) (c : List (String × Option String)) : Arr := { mdoc := m, chunks := c }
def exG (tag : String) (props : Bool) : G :=
  { nodeIds := exArr (tag ++ "n") [("0", some (tag ++ "n0"))],
    edgeIds := exArr (tag ++ "e") [("0.0", some (tag ++ "e0"))],
    nodeProps := some (if props then [{ name := "t", values := exArr (tag ++ "t") [("0", some (tag ++ "t0"))],
                                        missing := none, data := none }] else []),
    edgeProps := some [], geff := tag ++ "meta", valid := true }
def exBase : KV := [(⟨["raw"], .zarray⟩, .raw "r"), (⟨["raw"], .chunk "0"⟩, .raw "r0")]
/-- MemoryStore with a foreign array and the geff "A" (which has a property the next graph lacks) -/
def exOld : KV := run exBase (writeArrays exDocs .mem .v2 (exG "A" true) false true exBase).ops

example : checkForGeff .mem exOld = true := by decide +kernel
example : errOf (writeArrays exDocs .mem .v2 (exG "B" false) false true exOld).val = some .fileExists := by
  decide +kernel
/-- overwriting A (with property `t`) by B (without): nothing of `t` survives, the foreign array does -/
example : ownedPart (run exOld (writeCommitted exDocs .mem .v2 (exG "B" false) true exOld).ops) =
    ownedPart (run [] (writeCommitted exDocs .mem .v2 (exG "B" false) false []).ops) := by decide +kernel
example : foreignPart (run exOld (writeCommitted exDocs .mem .v2 (exG "B" false) true exOld).ops) = exBase := by
  decide +kernel
example : lastWritten none [(exG "A" true, false), (exG "B" false, false), (exG "C" true, true)] =
    some (exG "C" true) := rfl
theorem errOf_none {v : Except Outcome Unit} (h : errOf v = none) : v = .ok () := by
  cases v with
  | ok u => rfl
  | error e => simp [errOf] at h
example : Good exDocs .mem .v2 (exG "A" true) := ⟨errOf_none (by decide +kernel), rfl⟩

/-- **recorded exception (known finding `C06:overwrite-across-zarr-formats`, D16)**: the theorems
assume the stored geff has the zarr format being written (`HoldsGeff f`).  Across formats the
property fails — overwriting the format-2 geff above with a format-3 write on a store object
deletes `nodes`/`edges` and then dies with `KeyError: 'geff'`, while the same write into an empty
location succeeds. -/
theorem C06_counterexample_across_formats :
    ¬ ((writeCommitted exDocs .mem .v3 (exG "B" false) true exOld).val =
        (writeCommitted exDocs .mem .v3 (exG "B" false) false []).val) := by
  intro h
  have h' := congrArg errOf h
  revert h'
  decide +kernel

end GeffProps.C06
