import GeffProofs.KVConcurrent
/-! # C06 — existing geffs are never clobbered implicitly; overwrite replaces completely

Model: `GeffModel/KV.lean` (see `GeffProps/C05.lean`).  `checkForGeff` is `check_for_geff` after the
repairs D13 / path-with-siblings: read-only, zarr format detected, a path holding only foreign
members is not a geff.  Every entry point runs `guard` first: `write_arrays` directly, `write_dicts`
through `write_arrays` (never with overwrite), `geff.write` and both converters their own guard
followed by the nested one of `write_arrays` (`apiWrite`). -/
namespace GeffProps.C06
open Geff.KV Geff.KV.Prog Gen.Paths

/-- **C06, refusal** — where `check_for_geff` finds a geff and overwrite is not requested, every
entry point raises `FileExistsError` and performs **no store mutation at all**: the store afterwards
is the store before, byte for byte. -/
theorem C06_refuse_write_arrays (d : Docs) (kind : Kind) (f : Fmt) (g : G) (validate : Bool) (kv : KV)
    (h : checkForGeff kind kv = true) :
    (writeArrays d kind f g false validate kv).val = .error .fileExists ∧
    (writeArrays d kind f g false validate kv).ops = [] ∧
    Prog.final (writeArrays d kind f g false validate) kv = kv := by
  have hg := guard_eq d kind f false kv
  simp only [h, if_true, Bool.false_eq_true, if_false] at hg
  have hv : (guard d kind f false kv).val = .error .fileExists := by rw [hg]
  have ho : (guard d kind f false kv).ops = [] := by rw [hg]
  have h1 : (writeArrays d kind f g false validate kv).ops = [] := by
    unfold writeArrays; simp only [bind_def]; rw [ops_bind_err hv, ho]
  refine ⟨?_, h1, ?_⟩
  · unfold writeArrays; simp only [bind_def]; rw [val_bind_err hv]
  · simp [Prog.final, h1, run_nil]

theorem C06_refuse_write_dicts (d : Docs) (kind : Kind) (f : Fmt) (g : G) (validate : Bool) (kv : KV)
    (h : checkForGeff kind kv = true) :
    (writeDicts d kind f g validate kv).val = .error .fileExists ∧
    (writeDicts d kind f g validate kv).ops = [] ∧
    Prog.final (writeDicts d kind f g validate) kv = kv :=
  C06_refuse_write_arrays d kind f g validate kv h

/-- `geff.write` (every backend), `from_ctc_to_geff`, `from_trackmate_xml_to_geff` -/
theorem C06_refuse_api (d : Docs) (kind : Kind) (f : Fmt) (g : G) (validate : Bool) (kv : KV)
    (h : checkForGeff kind kv = true) :
    (apiWrite d kind f g false validate kv).val = .error .fileExists ∧
    (apiWrite d kind f g false validate kv).ops = [] ∧
    Prog.final (apiWrite d kind f g false validate) kv = kv := by
  have hg := guard_eq d kind f false kv
  simp only [h, if_true, Bool.false_eq_true, if_false] at hg
  have hv : (guard d kind f false kv).val = .error .fileExists := by rw [hg]
  have ho : (guard d kind f false kv).ops = [] := by rw [hg]
  have h1 : (apiWrite d kind f g false validate kv).ops = [] := by
    unfold apiWrite; simp only [bind_def]; rw [ops_bind_err hv, ho]
  refine ⟨?_, h1, ?_⟩
  · unfold apiWrite; simp only [bind_def]; rw [val_bind_err hv]
  · simp [Prog.final, h1, run_nil]

/-- non-vacuity: a store that `check_for_geff` recognises -/
def exStore : KV := [(⟨[], .zgroup⟩, .raw "zg"), (⟨[], .zattrs⟩, .root (some "meta") "{}")]
example : checkForGeff .mem exStore = true := by decide +kernel

end GeffProps.C06
