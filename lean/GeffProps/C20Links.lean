import GeffProofs.LinkStoreMock
/-! # C20 ← C01 / C04 / C12 — the promise of `C20_store_eq_memory`, discharged

`GeffProps.C20.C20_store_eq_memory` proves that `create_mock_geff` hands to `write_arrays` exactly the
in-memory geff it returns and that this geff satisfies `WritePre` — *named* there as "the preconditions
under which writing and reading back is the identity (C01) and graph validation succeeds (C12)".  Here
that sentence becomes theorems about the other properties' models:

* **C01**: for every numpy realisation (`Geff.Link.Realises`, `GeffProofs/LinkStoreMock.lean`) of the
  generated geff, C01's model of `write_arrays` — with C04's validator model in the loop — succeeds on
  every fresh target, and C01's model of `read_to_memory` on the result validates and returns the same
  graph (`GeffProps.C01.Spec`);
* **C04**: the written store, seen as a tree, is `GeffProps.C04.Conformant` (through
  `Geff.Bridge.validate` and `C04_sound_complete`);
* **C12**: the id and edge arrays read back pass C12's model of `validate_data(graph=True)`
  (`C12_graph_iff`).

Hypotheses beyond `createMockGeff … = .ok`: the requested property names are pairwise distinct (as in
`C20_params`; otherwise an extra property may replace an axis column) and the axis dtypes are not `str`
(outside C20's model: `values.min()` rejects them). -/
namespace GeffProps.C20Links
open Geff.Np Geff.MockData Geff.Link GeffProps.C20

/-- **C20 → C01 + C04**: the store `create_mock_geff` writes reads back as the generated geff and is
structurally conformant — for every parameter record the generator accepts, every realisation of the
generated geff as arrays, every fresh target. -/
theorem C20_store_roundtrip (ok : Bool) (p : Params) (w : Written) (g : Geff)
    (h : createMockGeff ok p = .ok (w, g))
    (hn : (nodeNames p).Nodup) (he : (edgeNames p).Nodup)
    (hdt : npName p.timeDtype ≠ "str" ∧ npName p.posDtype ≠ "str")
    (s0 : Geff.Store.St) (hfresh : Geff.WR.Fresh s0)
    (im : Geff.WR.InMem) (md : Geff.WR.CallerMeta) (hr : Realises w.geff im md) :
    ∃ s' r nps eps, im.nodeProps = some nps ∧ im.edgeProps = some eps ∧
      Geff.WR.writeArrays Geff.WR.vlenCodec Geff.Bridge.validate s0 im md = .ok s' ∧
      Geff.WR.readToMemory Geff.WR.vlenCodec Geff.Bridge.validate s' = .ok r ∧
      GeffProps.C01.Spec im.nodeIds im.edgeIds nps eps r ∧
      GeffProps.C04.Conformant (Geff.Bridge.toTarget s') := by
  obtain ⟨hwg, hd, hpre⟩ := C20_store_eq_memory ok p w g h
  rw [hwg] at hr
  obtain ⟨nps, eps, hnps, heps, hwf, hax, hexp, hmdN, hmdE⟩ := mock_meets_C01 ok p g hd hn he hdt hpre im md hr
  obtain ⟨s', hw, r, hrd, hspec⟩ := GeffProps.C01.C01_roundtrip_validated s0 im md g.numNodes g.edges.length nps eps
    hfresh hwf hax (by rw [hexp]; exact hmdN) hmdE
  rw [hexp] at hspec
  exact ⟨s', r, nps, eps, hnps, heps, hw, hrd, hspec,
    conformant_of_validate s' (validate_of_writeArrays _ _ s0 s' im md hw)⟩

/-- **C20 → C12**: the node ids `0 … n-1` and the generated edge list pass C12's model of
`validate_data` with graph validation enabled, for every declaration in the metadata and whatever the
other (disabled) validators would do — no hypothesis on names or dtypes. -/
theorem C20_graph_validation (ok : Bool) (p : Params) (w : Written) (g : Geff)
    (h : createMockGeff ok p = .ok (w, g)) (d : Geff.Validate.Decl) (other : Geff.Validate.Call → Geff.Validate.Outcome) :
    Geff.Validate.validateData { graph := true } d
      (GeffProps.C12.graphResult p.directed (intIds (List.range w.geff.numNodes)) w.geff.edges other) = .ok := by
  obtain ⟨hwg, _, _, _, _, _, es, hes, hv, hnd⟩ := C20_store_eq_memory ok p w g h
  rw [hwg, GeffProps.C12.C12_graph_iff, hes]
  exact mock_graph_valid p.directed g.numNodes es hv hnd

/-- **C20 → C01 + C12, composed**: the id arrays that C01's reader returns from the store
`create_mock_geff` wrote, read as integer lists (`intsOf`, `pairsOf`), are the generated ids and edges and
pass C12's graph validation with the directedness stored in the metadata. -/
theorem C20_read_back_graph_valid (ok : Bool) (p : Params) (w : Written) (g : Geff)
    (h : createMockGeff ok p = .ok (w, g))
    (hn : (nodeNames p).Nodup) (he : (edgeNames p).Nodup)
    (hdt : npName p.timeDtype ≠ "str" ∧ npName p.posDtype ≠ "str")
    (s0 : Geff.Store.St) (hfresh : Geff.WR.Fresh s0)
    (im : Geff.WR.InMem) (md : Geff.WR.CallerMeta) (hr : Realises w.geff im md) :
    ∃ s' r ids edges, Geff.WR.writeArrays Geff.WR.vlenCodec Geff.Bridge.validate s0 im md = .ok s' ∧
      Geff.WR.readToMemory Geff.WR.vlenCodec Geff.Bridge.validate s' = .ok r ∧
      intsOf r.nodeIds.flat = some ids ∧ (intsOf r.edgeIds.flat).bind pairsOf = some edges ∧
      edges = g.edges ∧ md.directed = p.directed ∧
      ∀ d other, Geff.Validate.validateData { graph := true } d
        (GeffProps.C12.graphResult md.directed ids edges other) = .ok := by
  obtain ⟨s', r, nps, eps, _, _, hw, hrd, hspec, _⟩ := C20_store_roundtrip ok p w g h hn he hdt s0 hfresh im md hr
  obtain ⟨hwg, hd, _⟩ := C20_store_eq_memory ok p w g h
  obtain ⟨_, _, hdir, _⟩ := C20_params ok p g hd hn he
  obtain ⟨dt, _, _, hnid, heid⟩ := hr.ids
  refine ⟨s', r, intIds (List.range w.geff.numNodes), w.geff.edges, hw, hrd, ?_, ?_, by rw [hwg], ?_, ?_⟩
  · rw [hspec.nodeIds, hnid]; exact intsOf_map _
  · rw [hspec.edgeIds, heid]; exact intsOf_edges _
  · rw [hr.directed, hwg, hdir]
  · intro d other
    rw [hr.directed, hwg, hdir, ← hwg]
    exact C20_graph_validation ok p w g h d other

/-! ## non-vacuity: a generated geff, a realisation of it, and the composite evaluated -/

/-- two nodes, one edge, the time axis only, a sparse property on both sides -/
def p0 : Params :=
  { idDtype := "uint8", timeDtype := "float64", posDtype := "float64", directed := false, numNodes := 2,
    numEdges := 1, z := false, y := false, x := false, ms := true }

def g0 : Geff :=
  { numNodes := 2, idDtype := "uint8", edges := [(0, 1)], directed := false,
    axes := [{ name := "t", type := "time", unit := "second", hasMinMax := true }],
    nodeProps := [("t", { dtype := "float64", len := 2, varlength := false, missing := none, values := .ints [1, 3] }),
                  ("sparse_prop", sparseProp 2)],
    edgeProps := [("sparse_prop", sparseProp 1)],
    nodeMeta := [("t", { dtype := "float64", varlength := false, unit := some "second" }), ("sparse_prop", sparseMeta)],
    edgeMeta := [("sparse_prop", sparseMeta)] }

/-- the generator accepts `p0` and returns `g0` (kernel evaluation of the translated generator) -/
theorem p0_generates : createMockGeff false p0 = .ok (⟨g0⟩, g0) := by decide

/-- the arrays: `t = [1.0, 3.0]`, `sparse_prop = [0.0, 1.0]` masked `[True, False]`; edge `sparse_prop = [0.0]` masked -/
def im0 : Geff.WR.InMem :=
  ⟨⟨.u8, [2], [.i 0, .i 1]⟩, ⟨.u8, [1, 2], [.i 0, .i 1]⟩,
   some [("t", ⟨.dense ⟨.f64, [2], [.f "3ff0000000000000", .f "4008000000000000"]⟩, none⟩),
         ("sparse_prop", ⟨.dense ⟨.f64, [2], [.f "0000000000000000", .f "3ff0000000000000"]⟩,
            some ⟨.bool, [2], [.b true, .b false]⟩⟩)],
   some [("sparse_prop", ⟨.dense ⟨.f64, [1], [.f "0000000000000000"]⟩, some ⟨.bool, [1], [.b true]⟩⟩)]⟩

def md0 : Geff.WR.CallerMeta :=
  ⟨false, some ["t"], [("t", ⟨"t", "float64", some false⟩), ("sparse_prop", ⟨"sparse_prop", "float64", some false⟩)],
   [("sparse_prop", ⟨"sparse_prop", "float64", some false⟩)]⟩

theorem realProp_dense (name : String) (po : PropOut) (a : NdArr) (m : Option NdArr)
    (h1 : Geff.WR.validName name = true) (h2 : m = po.missing.map maskArr) (h3 : po.varlength = false)
    (h4 : a.shape = [po.len]) (h5 : a.WF) (h6 : a.dtype.name = po.dtype) (h7 : a.dtype ∈ Geff.WR.denseDtypes) :
    RealProp (name, po) (name, ⟨.dense a, m⟩) where
  name := rfl
  writable := ⟨h1, (by
    intro mm hm
    simp only at hm
    rw [h2] at hm
    simp only [Option.map_eq_some_iff] at hm
    obtain ⟨ms, _, rfl⟩ := hm
    rfl), h7⟩
  mask := h2
  varlen := by rw [h3]; rfl
  len := by simp [Geff.WR.pvLen, NdArr.len?, h4]
  dense := by
    intro b hb
    cases hb
    exact ⟨h5, h6, fun _ => h4⟩

theorem im0_realises : Realises g0 im0 md0 where
  ids := ⟨.u8, rfl, rfl, by decide, by decide⟩
  nodes := ⟨_, rfl, List.Forall₂.cons
      (realProp_dense "t" _ _ none (by decide) rfl rfl rfl (by decide) rfl (by decide))
      (List.Forall₂.cons
        (realProp_dense "sparse_prop" (sparseProp 2) _ _ (by decide) (by decide) rfl rfl (by decide) rfl (by decide))
        List.Forall₂.nil)⟩
  edges := ⟨_, rfl, List.Forall₂.cons
      (realProp_dense "sparse_prop" (sparseProp 1) _ _ (by decide) (by decide) rfl rfl (by decide) rfl (by decide))
      List.Forall₂.nil⟩
  directed := rfl
  axes := Or.inl rfl
  nodeMeta := rfl
  edgeMeta := rfl

example : (nodeNames p0).Nodup ∧ (edgeNames p0).Nodup ∧ npName p0.timeDtype ≠ "str" ∧ npName p0.posDtype ≠ "str" := by
  decide

/-- the theorems apply to the example: all hypotheses of `C20_store_roundtrip` are met -/
example : ∃ s' r nps eps, im0.nodeProps = some nps ∧ im0.edgeProps = some eps ∧
    Geff.WR.writeArrays Geff.WR.vlenCodec Geff.Bridge.validate [] im0 md0 = .ok s' ∧
    Geff.WR.readToMemory Geff.WR.vlenCodec Geff.Bridge.validate s' = .ok r ∧
    GeffProps.C01.Spec im0.nodeIds im0.edgeIds nps eps r ∧ GeffProps.C04.Conformant (Geff.Bridge.toTarget s') :=
  C20_store_roundtrip false p0 ⟨g0⟩ g0 p0_generates (by decide) (by decide) (by decide) []
    ⟨Or.inl rfl, fun _ => rfl, fun _ => rfl⟩ im0 md0 im0_realises

/-- … and the model composite evaluates accordingly: written, validated, read back, ids as generated -/
example : GeffProps.C01.isOkWith (do
      let s ← Geff.WR.writeArrays Geff.WR.vlenCodec Geff.Bridge.validate [] im0 md0
      let r ← Geff.WR.readToMemory Geff.WR.vlenCodec Geff.Bridge.validate s
      pure (intsOf r.nodeIds.flat, (intsOf r.edgeIds.flat).bind pairsOf, r.md.directed, r.md.axes))
    (fun x => x = (some [0, 1], some [(0, 1)], false, some ["t"])) = true := by decide +kernel

end GeffProps.C20Links
