import GeffProofs.StoreTree
/-! # C01 — write-then-read returns the same graph

Property theorems only.  Model: `Geff.WR.writeArrays` / `readToMemory` (`GeffModel/WriteRead.lean`) on
the tree view of the store (`GeffModel/Store.lean`, the same for zarr formats 2 and 3), path constants
from the regenerated `Gen.Paths`; tied to `geff.core_io.write_arrays` / `read_to_memory` by the
correspondence `harness/corr/C01.py` (store dump == model store, model read == real read, outcomes).

Beneath the model (exercised by the correspondence on every run, not proved): that zarr returns
every array bit-identically for each dtype / codec / format / store kind; numpy's unicode width. -/
namespace GeffProps.C01
open Geff.Np Geff.Store Geff.WR

/-! ## the specification (property text) -/

/-- row `i` of an array along its first axis (C order) -/
def row (a : NdArr) (i : Nat) : List Val :=
  (a.flat.drop (i * prod a.shape.tail)).take (prod a.shape.tail)

/-- element `i` is marked missing -/
def isMissing (m : Option NdArr) (i : Nat) : Bool :=
  match m with
  | some m => m.flat[i]? == some (.b true)
  | none => false

/-- one property read back: the same missing mask, the same dtype and shape, and the same value at
every non-missing position (for a variable-length property: the same array — dtype, shape,
contents — at every non-missing position) -/
def SameProp (want got : PropArr) : Prop :=
  got.missing = want.missing ∧
  match want.values, got.values with
  | .dense a, .dense b =>
    b.dtype = a.dtype ∧ b.shape = a.shape ∧ ∀ i, isMissing want.missing i = false → row b i = row a i
  | .obj es, .obj fs =>
    fs.length = es.length ∧ ∀ i, isMissing want.missing i = false → fs[i]? = es[i]?
  | _, _ => False

/-- the properties read back are the ones written: the same names, each the same property
(float16 values upcast to float32) -/
def SameProps (want got : Props) : Prop :=
  (∀ k, (lookupKey k got).isSome = (lookupKey k want).isSome) ∧
  ∀ k p, lookupKey k want = some p → ∃ q, lookupKey k got = some q ∧ SameProp (upcast p) q

/-- **Specification of C01**: what `read_to_memory` returns is the graph that was written — node ids
and edge ids identical (values, order, dtype, shape) and the same properties. -/
structure Spec (nodeIds edgeIds : NdArr) (nodeProps edgeProps : Props) (r : ReadResult) : Prop where
  nodeIds : r.nodeIds = nodeIds
  edgeIds : r.edgeIds = edgeIds
  nodeProps : SameProps nodeProps r.nodeProps
  edgeProps : SameProps edgeProps r.edgeProps

theorem SameProp.refl (p : PropArr) : SameProp p p := by
  refine ⟨rfl, ?_⟩
  cases p.values with
  | dense a => exact ⟨rfl, rfl, fun _ _ => rfl⟩
  | obj es => exact ⟨rfl, fun _ _ => rfl⟩

theorem sameProps_of_lookup (want got : Props) (h : ∀ k, lookupKey k got = (lookupKey k want).map upcast) :
    SameProps want got := by
  refine ⟨fun k => by rw [h k, Option.isSome_map], fun k p hp => ⟨upcast p, by rw [h k, hp]; rfl, SameProp.refl _⟩⟩

/-! ## the theorems -/

/-- **C01 (round trip; `structure_validation=False` on both sides — the calls to `validate_structure` are the
only thing left out, see `C01_roundtrip_validated_partial`)**: for every target store holding nothing of a geff
yet (`Fresh`: foreign attributes and siblings allowed), every well-formed graph — any number of
nodes and edges including none, any integer id dtype and id values, node/edge properties with
pairwise distinct valid names, of any supported dtype, any rank, with or without a boolean missing
mask, including variable-length properties with elements of one dtype and rank (rank 0 and
zero-sized ones included) — and every caller metadata whose axes are consistent with the graph:
`write_arrays` succeeds and `read_to_memory` on the result succeeds and returns the same graph.
`c` is any lawful var-length codec (C11); no bound on anything. -/
theorem C01_roundtrip (c : VlenCodec) (hc : c.Lawful) (s0 : St) (g : InMem) (md : CallerMeta)
    (n e : Nat) (nps eps : Props)
    (hfresh : Fresh s0) (hwf : WFGeff g n e nps eps) (hax : AxesOK md n nps) :
    ∃ s', writeCore c s0 g md = .ok s' ∧
      Written c s0 s' g.nodeIds g.edgeIds (expectedNodeProps md n nps) eps (attrOf md (expectedNodeProps md n nps) eps) ∧
      ∃ r, readCore c s' = .ok r ∧ Spec g.nodeIds g.edgeIds (expectedNodeProps md n nps) eps r := by
  obtain ⟨hnd, hw, hchk⟩ := expected_spec md n nps hwf.nodeNames hwf.nodeOK hax
  have hlen : g.nodeIds.len?.isSome = true := by unfold NdArr.len?; rw [hwf.nodeShape]; rfl
  obtain ⟨s', hwrite, hW⟩ := writeCore_spec c hc s0 g md (expectedNodeProps md n nps) eps hfresh
    hwf.idSame.symm hwf.idInt hlen (nodePropsToWrite_eq g md n nps hwf.nodeShape hwf.nodeProps) hwf.edgeProps
    hnd hw hwf.edgeNames (fun kp hm => (hwf.edgeOK kp hm).1) hchk
  obtain ⟨r, hread, h1, h2, _, h4, h5⟩ := readCore_written c hc s0 s' g.nodeIds g.edgeIds
    (expectedNodeProps md n nps) eps md hW hnd hw hwf.edgeNames (fun kp hm => (hwf.edgeOK kp hm).1)
  exact ⟨s', hwrite, hW, r, hread, ⟨h1, h2, sameProps_of_lookup _ _ h4, sameProps_of_lookup _ _ h5⟩⟩

/-- the same with any function in the place of the structural validator, provided it accepts the store
the writer produces (`hval`) — the lemma the validated theorem below instantiates -/
theorem C01_roundtrip_with_validator (c : VlenCodec) (hc : c.Lawful) (validate : St → Outcome Unit)
    (s0 : St) (g : InMem) (md : CallerMeta) (n e : Nat) (nps eps : Props)
    (hfresh : Fresh s0) (hwf : WFGeff g n e nps eps) (hax : AxesOK md n nps)
    (hval : ∀ s', writeCore c s0 g md = .ok s' → validate s' = .ok ()) :
    ∃ s', writeArrays c validate s0 g md = .ok s' ∧
      ∃ r, readToMemory c validate s' = .ok r ∧ Spec g.nodeIds g.edgeIds (expectedNodeProps md n nps) eps r := by
  obtain ⟨s', hwrite, _, r, hread, hspec⟩ := C01_roundtrip c hc s0 g md n e nps eps hfresh hwf hax
  refine ⟨s', ?_, r, ?_, hspec⟩
  · unfold writeArrays
    simp only [hwrite, hval s' hwrite, bind, Except.bind, pure, Except.pure]
  · unfold readToMemory
    simp only [hval s' hwrite, hread, bind, Except.bind]

/-- **C01 (round trip) in the default configuration: `structure_validation=True` on both sides.**
`Geff.Bridge.validate` is C04's model of `validate_structure` (`Geff.Structure.validateStructure`, proved
sound and complete in `GeffProps.C04.C04_sound_complete`) run on the tree view of the flat store
(`GeffModel/StoreTree.lean`).  For every fresh target, every well-formed graph, every caller metadata
that names only properties that get written and whose axes are as the specification wants them
(`AxesStrict`: 1-D node properties without missing mask; absent only on an empty graph):
`write_arrays` succeeds — its final validation accepts — and `read_to_memory` validates, succeeds and
returns the same graph. -/
theorem C01_roundtrip_validated (s0 : St) (g : InMem) (md : CallerMeta) (n e : Nat) (nps eps : Props)
    (hfresh : Fresh s0) (hwf : WFGeff g n e nps eps) (hax : Geff.Bridge.AxesStrict md n nps)
    (hmdN : ∀ kv ∈ md.nodeProps, kv.1 ∈ (expectedNodeProps md n nps).map (·.1))
    (hmdE : ∀ kv ∈ md.edgeProps, kv.1 ∈ eps.map (·.1)) :
    ∃ s', writeArrays vlenCodec Geff.Bridge.validate s0 g md = .ok s' ∧
      ∃ r, readToMemory vlenCodec Geff.Bridge.validate s' = .ok r ∧
        Spec g.nodeIds g.edgeIds (expectedNodeProps md n nps) eps r := by
  apply C01_roundtrip_with_validator vlenCodec vlenCodec_lawful Geff.Bridge.validate s0 g md n e nps eps hfresh hwf hax.ok
  intro s' hs'
  obtain ⟨s'', hwrite, hW, _⟩ := C01_roundtrip vlenCodec vlenCodec_lawful s0 g md n e nps eps hfresh hwf hax.ok
  rw [hs'] at hwrite
  cases hwrite
  exact Geff.Bridge.validate_written s0 s' g md n e nps eps hwf hax hmdN hmdE hW

/-- empty graphs are covered: with no axes in the metadata exactly the given properties come back -/
theorem C01_expected_no_axes (md : CallerMeta) (n : Nat) (nps : Props) (h : md.axes = none) :
    expectedNodeProps md n nps = nps := by
  unfold expectedNodeProps; rw [h]; simp [addEmptyAxes]

/-- … and on a non-empty graph the axes never add anything -/
theorem C01_expected_nonempty (md : CallerMeta) (n : Nat) (nps : Props) (h : n ≠ 0) :
    expectedNodeProps md n nps = nps := by
  unfold expectedNodeProps; rw [if_neg h]

/-- what is written leaves every foreign sibling of `nodes`/`edges` as it was -/
theorem C01_foreign_untouched (c : VlenCodec) (hc : c.Lawful) (s0 : St) (g : InMem) (md : CallerMeta)
    (n e : Nat) (nps eps : Props) (hfresh : Fresh s0) (hwf : WFGeff g n e nps eps) (hax : AxesOK md n nps) :
    ∃ s', writeCore c s0 g md = .ok s' ∧
      ∀ k suf, k ≠ Gen.Paths.NODES → k ≠ Gen.Paths.EDGES → get s' (k :: suf) = get s0 (k :: suf) := by
  obtain ⟨s', hwrite, hW, _⟩ := C01_roundtrip c hc s0 g md n e nps eps hfresh hwf hax
  exact ⟨s', hwrite, hW.foreign⟩

/-! ## the error branch -/

/-- ids of different dtypes are refused with `TypeError` before anything is written -/
theorem C01_error_id_dtype (c : VlenCodec) (validate : St → Outcome Unit) (s0 : St) (g : InMem) (md : CallerMeta)
    (hfresh : Fresh s0) (h : g.nodeIds.dtype ≠ g.edgeIds.dtype) :
    writeArrays c validate s0 g md = .error .typeError := by
  have hgeff : hasGeff (ensureGroup s0 []) = false := by
    unfold hasGeff
    rcases hfresh.root with h0 | ⟨a, h0, ha⟩
    · rw [get_ensureGroup_same, h0]; rfl
    · rw [get_ensureGroup_same, h0]
      simp only [Option.getD_some, List.any_eq_false, decide_eq_true_eq]
      exact ha
  unfold writeArrays writeCore writeIdArrays
  simp only [hgeff, h, bind, Except.bind, Bool.false_eq_true, if_false, ne_eq, not_false_eq_true, if_true]
  rfl

/-- ids that are not integers are refused with `TypeError` -/
theorem C01_error_non_integer_ids (c : VlenCodec) (validate : St → Outcome Unit) (s0 : St) (g : InMem)
    (md : CallerMeta) (hfresh : Fresh s0) (h : g.nodeIds.dtype.isInteger = false) :
    writeArrays c validate s0 g md = .error .typeError := by
  have hgeff : hasGeff (ensureGroup s0 []) = false := by
    unfold hasGeff
    rcases hfresh.root with h0 | ⟨a, h0, ha⟩
    · rw [get_ensureGroup_same, h0]; rfl
    · rw [get_ensureGroup_same, h0]
      simp only [Option.getD_some, List.any_eq_false, decide_eq_true_eq]
      exact ha
  unfold writeArrays writeCore writeIdArrays
  by_cases hd : g.nodeIds.dtype ≠ g.edgeIds.dtype
  · simp only [hgeff, hd, bind, Except.bind, Bool.false_eq_true, if_false, ne_eq, not_false_eq_true, if_true]
    rfl
  · simp only [hgeff, hd, h, bind, Except.bind, Bool.false_eq_true, if_false, Bool.not_false, if_true]
    rfl

/-- a target that already holds a geff is refused with `FileExistsError` (overwrite is C06's subject) -/
theorem C01_error_existing_geff (c : VlenCodec) (validate : St → Outcome Unit) (s0 : St) (g : InMem)
    (md : CallerMeta) (h : hasGeff (ensureGroup s0 []) = true) :
    writeArrays c validate s0 g md = .error .fileExists := by
  unfold writeArrays writeCore
  simp only [h, bind, Except.bind, if_true]
  rfl

/-- a variable-length property whose elements do not all have one dtype is refused with `ValueError`
(`create_props_metadata`), whatever else the graph holds: it is the error of `writeProp` itself -/
theorem C01_error_vlen_mixed_dtype (c : VlenCodec) (pre : Path) (s : St) (name : String) (es : List NdArr)
    (m : Option NdArr) (h : ¬ ∀ x ∈ es, x.dtype = Geff.Vlen.dataDtype es) :
    writeProp c pre s name ⟨.obj es, m⟩ = .error .valueError := by
  unfold writeProp createPropsMetadata
  have hu : upcast ⟨.obj es, m⟩ = ⟨.obj es, m⟩ := rfl
  have : (es.all fun e => decide (e.dtype = Geff.Vlen.dataDtype es)) = false := by
    cases hall : es.all fun e => decide (e.dtype = Geff.Vlen.dataDtype es) with
    | false => rfl
    | true => exact absurd (by simpa using hall) h
  simp only [hu, metaDtype, this, bind, Except.bind, Bool.false_eq_true, if_false]
  rfl

/-- **C01 (error branch)**: a graph that is well-formed except that one variable-length node property has
elements of different dtype or rank is refused by `write_arrays` with `ValueError` — whatever the
properties listed after it are, and for every target, caller metadata and validator.  (`pre`: the
properties before the offending one.) -/
theorem C01_error_inhomogeneous_vlen (c : VlenCodec) (hc : c.Lawful) (hr : c.Rejects) (validate : St → Outcome Unit)
    (s0 : St) (g : InMem) (md : CallerMeta) (pre post : Props) (name : String) (es : List NdArr) (m : Option NdArr)
    (hfresh : Fresh s0) (hdt : g.nodeIds.dtype = g.edgeIds.dtype) (hint : g.nodeIds.dtype.isInteger = true)
    (hlen : g.nodeIds.len?.isSome = true)
    (hnps : nodePropsToWrite g md = some (pre ++ (name, ⟨.obj es, m⟩) :: post))
    (hnd : (pre.map (·.1)).Nodup) (hw : ∀ kp ∈ pre, Writable kp.1 kp.2)
    (hbad : ¬ Geff.Vlen.Homogeneous es) :
    writeArrays c validate s0 g md = .error .valueError := by
  open Gen.Paths in
  -- the root group and the id arrays are written as in the good case
  obtain ⟨a0, hroot1, hnogeff⟩ : ∃ a0, get (ensureGroup s0 []) [] = some (.group a0) ∧ ∀ kv ∈ a0, kv.1 ≠ "geff" := by
    rcases hfresh.root with h | ⟨a, h, ha⟩
    · exact ⟨[], by rw [get_ensureGroup_same, h]; rfl, fun _ h => by cases h⟩
    · exact ⟨a, by rw [get_ensureGroup_same, h]; rfl, ha⟩
  have hs1 : ∀ q, q ≠ [] → get (ensureGroup s0 []) q = get s0 q := fun q hq => get_ensureGroup_other _ _ _ hq
  have hgeff : hasGeff (ensureGroup s0 []) = false := by
    unfold hasGeff
    rw [hroot1]
    simp only [List.any_eq_false, decide_eq_true_eq]
    exact hnogeff
  let s1 := ensureGroup s0 []
  let s2 := set (set (set (set s1 [NODES] (.group [])) [NODES, IDS] (.array g.nodeIds)) [EDGES] (.group []))
    [EDGES, IDS] (.array g.edgeIds)
  have hids : writeIdArrays (ensureGroup s0 []) g.nodeIds g.edgeIds = .ok s2 := by
    unfold writeIdArrays
    rw [if_neg (by simpa using hdt), hint]
    simp only [Bool.not_true, Bool.false_eq_true, if_false, pure, Except.pure]
    rw [ensureGroup_of_some _ [] _ hroot1]
    unfold setArray
    have h1 : get (ensureGroup s0 []) [NODES] = none := by rw [hs1 _ (by simp)]; exact hfresh.nodes []
    rw [ensureGroup_of_none _ _ h1]
    have h2 : get (set (set (ensureGroup s0 []) [NODES] (.group [])) ([NODES] ++ [IDS]) (.array g.nodeIds)) [EDGES] = none := by
      rw [get_set_other _ _ _ _ (by decide), get_set_other _ _ _ _ (by decide), hs1 _ (by simp)]
      exact hfresh.edges []
    rw [ensureGroup_of_none _ _ h2]
    rfl
  have hget2 : ∀ q, get s2 q = if q = [EDGES, IDS] then some (.array g.edgeIds) else if q = [EDGES] then some (.group [])
      else if q = [NODES, IDS] then some (.array g.nodeIds) else if q = [NODES] then some (.group []) else get s1 q := by
    intro q
    show get (set (set (set (set s1 [NODES] (.group [])) [NODES, IDS] (.array g.nodeIds)) [EDGES] (.group []))
      [EDGES, IDS] (.array g.edgeIds)) q = _
    simp only [get_set]
  have hR2 : get s2 [] = some (.group a0) := by
    rw [hget2]
    simp only [(by decide : ([] : Path) ≠ [EDGES, IDS]), (by decide : ([] : Path) ≠ [EDGES]),
      (by decide : ([] : Path) ≠ [NODES, IDS]), (by decide : ([] : Path) ≠ [NODES]), if_false]
    exact hroot1
  have hN2 : get s2 [NODES] = some (.group []) := by
    rw [hget2]
    simp only [(by decide : [NODES] ≠ [EDGES, IDS]), (by decide : [NODES] ≠ [EDGES]),
      (by decide : [NODES] ≠ [NODES, IDS]), if_false, if_true]
  have herr := writePropsArrays_error c hc hr NODES s2 pre post name es m hbad ⟨_, hR2⟩ ⟨_, hN2⟩
    (by
      intro suf
      rw [hget2]
      rw [if_neg (by simp [NODES_ne_EDGES]), if_neg (by simp [NODES_ne_EDGES]), if_neg (by simp [IDS_ne_PROPS.symm]),
        if_neg (by simp)]
      show get (ensureGroup s0 []) _ = none
      rw [hs1 _ (by simp)]
      exact hfresh.nodes _)
    hnd hw
  have hnone : g.nodeIds.len?.isNone = false := by
    cases h : g.nodeIds.len? with
    | none => rw [h] at hlen; cases hlen
    | some n => rfl
  unfold writeArrays writeCore
  simp only [bind, Except.bind, hgeff, Bool.false_eq_true, if_false, hids, hnone]
  unfold writeTail
  simp only [hnps, writePropsOpt, herr, bind, Except.bind]

/-- **unsquish** (`node_props_unsquish`, metadata without axes): when the pre-pass succeeds and turns the
node properties `nps` into `nps'` (a 2-D property replaced by one 1-D property per column), writing `g`
with the unsquish argument is exactly writing the graph with node properties `nps'` without it — so
`C01_roundtrip` applies to it and the columns come back as separate properties. -/
theorem C01_unsquish_reduces (c : VlenCodec) (s0 : St) (g : InMem) (md : CallerMeta) (nps nps' : Props)
    (un : List (String × List String)) (hax : md.axes = none) (hnp : g.nodeProps = some nps)
    (hun : unsquish nps un = .ok nps') :
    writeCore c s0 g md ⟨some un, none⟩ = writeCore c s0 { g with nodeProps := some nps' } md {} := by
  have h1 : nodePropsToWrite g md = some nps := by
    unfold nodePropsToWrite
    rw [hax, hnp]
    have : addEmptyAxes none = fun (ps : Props) => ps := rfl
    cases g.nodeIds.len? with
    | none => rfl
    | some k => cases k <;> simp [this]
  have h2 : nodePropsToWrite { g with nodeProps := some nps' } md = some nps' := by
    unfold nodePropsToWrite
    rw [hax]
    have : addEmptyAxes none = fun (ps : Props) => ps := rfl
    simp only []
    cases g.nodeIds.len? with
    | none => rfl
    | some k => cases k <;> simp [this]
  unfold writeCore writeTail
  simp only [h1, h2, writePropsOpt, writePropsArrays, propsAfterUnsquish, hun, bind, Except.bind, pure, Except.pure]

/-- evaluation: `pos` (3×2) unsquished into `py`, `px` -/
example : unsquish [("pos", ⟨.dense ⟨.i8, [3, 2], [.i 1, .i 2, .i 3, .i 4, .i 5, .i 6]⟩, none⟩)] [("pos", ["py", "px"])]
    = .ok [("py", ⟨.dense ⟨.i8, [3], [.i 1, .i 3, .i 5]⟩, none⟩), ("px", ⟨.dense ⟨.i8, [3], [.i 2, .i 4, .i 6]⟩, none⟩)] := by
  rfl

/-- the codec the check runs satisfies both codec laws -/
theorem C01_codec_laws : vlenCodec.Lawful ∧ vlenCodec.Rejects := ⟨vlenCodec_lawful, vlenCodec_rejects⟩

/-! ## non-vacuity: concrete inputs meeting the hypotheses (evaluations, not the unbounded claim) -/

section Examples

def exNodeIds : NdArr := ⟨.u64, [2], [.i 18446744073709551615, .i 0]⟩
def exEdgeIds : NdArr := ⟨.u64, [1, 2], [.i 0, .i 18446744073709551615]⟩
def exDense : PropArr := ⟨.dense ⟨.f32, [2, 2], [.f "7f802000", .f "80000000", .f "3f800000", .f "33800000"]⟩,
  some ⟨.bool, [2], [.b true, .b false]⟩⟩
def exVlen : PropArr := ⟨.obj [⟨.i8, [0, 2], []⟩, ⟨.i8, [1, 2], [.i (-128), .i 127]⟩], none⟩
def exT : PropArr := ⟨.dense ⟨.f64, [2], [.f "7ff8000000000000", .f "8000000000000000"]⟩, none⟩
def exG : InMem := ⟨exNodeIds, exEdgeIds, some [("values", exDense), ("poly", exVlen), ("t", exT)], some []⟩
/-- caller metadata with an axis and a stale entry for `t` (dtype and varlength get overwritten) -/
def exMd : CallerMeta := ⟨true, some ["t"], [("t", ⟨"t", "int8", some true⟩)], []⟩
/-- a target with a foreign attribute and a foreign sibling array -/
def exS0 : St := [([], .group [("foreign", .other)]), (["raw"], .array ⟨.u8, [1], [.i 7]⟩)]

def isOkWith {α} (r : Outcome α) (p : α → Bool) : Bool :=
  match r with
  | .ok v => p v
  | .error _ => false

/-- the model's round trip on the example evaluates to the written graph; the foreign array survives -/
example : isOkWith (do
      let s ← writeArrays vlenCodec (fun _ => pure ()) exS0 exG exMd
      let r ← readToMemory vlenCodec (fun _ => pure ()) s
      pure (r.nodeIds, r.edgeIds, lookupKey "values" r.nodeProps, lookupKey "poly" r.nodeProps,
            lookupKey "t" r.nodeProps, get s ["raw"]))
    (fun x => x = (exNodeIds, exEdgeIds, some exDense, some exVlen, some exT, some (.array ⟨.u8, [1], [.i 7]⟩)))
    = true := by decide

/-- float16 → float32 on bit patterns: signalling NaN payload shifted, subnormal normalised -/
example : f16to32bits 0x7c01 = 0x7f802000 ∧ f16to32bits 0x0001 = 0x33800000 ∧ f16to32bits 0x8000 = 0x80000000 ∧
    f16to32bits 0x3c00 = 0x3f800000 := by decide

example : Fresh exS0 := by
  refine ⟨Or.inr ⟨_, rfl, by decide⟩, ?_, ?_⟩ <;> intro suf <;>
    simp [Geff.Store.get, exS0, Gen.Paths.NODES, Gen.Paths.EDGES]

example : validName "values" = true ∧ validName "a b" = true ∧ validName "日本" = true ∧ validName "a/b" = false := by
  decide

theorem exHomog : Geff.Vlen.Homogeneous [⟨.i8, [0, 2], []⟩, ⟨.i8, [1, 2], [.i (-128), .i 127]⟩] := by
  intro a ha b hb
  simp only [List.mem_cons, List.not_mem_nil, or_false] at ha hb
  rcases ha with rfl | rfl <;> rcases hb with rfl | rfl <;> exact ⟨rfl, rfl⟩

/-- the example graph is well-formed and its metadata consistent: the hypotheses of `C01_roundtrip` are met -/
example : WFGeff exG 2 1 [("values", exDense), ("poly", exVlen), ("t", exT)] [] where
  nodeShape := rfl
  edgeShape := rfl
  idInt := rfl
  idSame := rfl
  nodeIdsWF := by decide
  edgeIdsWF := by decide
  nodeProps := rfl
  edgeProps := rfl
  nodeNames := by decide
  edgeNames := by decide
  edgeOK := fun _ h => by cases h
  nodeOK := by
    intro kp hm
    simp only [List.mem_cons, List.not_mem_nil, or_false] at hm
    rcases hm with rfl | rfl | rfl
    · exact ⟨⟨by decide, (fun m hm => by cases hm; rfl), (by show Dtype.f32 ∈ denseDtypes; decide)⟩,
        ⟨(fun m hm => by cases hm; exact ⟨rfl, by decide, by decide⟩), ⟨rfl, by decide⟩⟩⟩
    · refine ⟨⟨by decide, (fun m hm => by cases hm), ?_, exHomog, (by decide)⟩, ⟨(fun m hm => by cases hm), rfl⟩⟩
      intro x hx
      simp only [List.mem_cons, List.not_mem_nil, or_false] at hx
      rcases hx with rfl | rfl <;> decide
    · exact ⟨⟨by decide, (fun m hm => by cases hm), (by show Dtype.f64 ∈ denseDtypes; decide)⟩,
        ⟨(fun m hm => by cases hm), ⟨rfl, by decide⟩⟩⟩

example : Geff.Bridge.AxesStrict exMd 2 [("values", exDense), ("poly", exVlen), ("t", exT)] := by
  intro axes h ax hax
  cases h
  simp only [List.mem_cons, List.not_mem_nil, or_false] at hax
  subst hax
  exact ⟨by decide, Or.inr ⟨_, rfl, rfl, by decide, by decide⟩⟩

/-- the caller metadata of the example names only written properties (hypotheses `hmdN`, `hmdE`) -/
example : ∀ kv ∈ exMd.nodeProps, kv.1 ∈ (expectedNodeProps exMd 2 [("values", exDense), ("poly", exVlen), ("t", exT)]).map (·.1) := by
  decide

/-- … and the validated model round trip evaluates accordingly -/
example : isOkWith (do
      let s ← writeArrays vlenCodec Geff.Bridge.validate exS0 exG exMd
      let r ← readToMemory vlenCodec Geff.Bridge.validate s
      pure (r.nodeIds, lookupKey "poly" r.nodeProps))
    (fun x => x = (exNodeIds, some exVlen)) = true := by decide

/-- sensitivity of the validator in the loop: metadata naming a property that is not written makes the write fail -/
example : writeArrays vlenCodec Geff.Bridge.validate [] ⟨exNodeIds, exEdgeIds, some [], some []⟩
    ⟨true, none, [("ghost", ⟨"ghost", "int8", some false⟩)], []⟩ = .error .valueError := by rfl

/-- the empty graph with a var-length property (D15) is in the domain -/
example : Writable "v" ⟨.obj [], none⟩ :=
  ⟨by decide, (fun m hm => by cases hm), (fun _ h => by cases h), (fun _ h => by cases h), (by decide)⟩

example : isOkWith (do
      let s ← writeArrays vlenCodec (fun _ => pure ()) [] ⟨⟨.i8, [0], []⟩, ⟨.i8, [0, 2], []⟩, some [("v", ⟨.obj [], none⟩)], some []⟩
        ⟨true, some ["t"], [], []⟩
      let r ← readToMemory vlenCodec (fun _ => pure ()) s
      pure (lookupKey "v" r.nodeProps, lookupKey "t" r.nodeProps))
    (fun x => x = (some ⟨.obj [], none⟩, some emptyF64)) = true := by decide

/-- error branch evaluations -/
example : writeArrays vlenCodec (fun _ => pure ()) [] ⟨exNodeIds, ⟨.i64, [0, 2], []⟩, some [], some []⟩ exMd
    = .error .typeError := by rfl
example : writeArrays vlenCodec (fun _ => pure ()) [] ⟨exNodeIds, exEdgeIds,
    some [("v", ⟨.obj [⟨.i8, [1], [.i 1]⟩, ⟨.i8, [1, 1], [.i 1]⟩], none⟩)], some []⟩ ⟨true, none, [], []⟩
    = .error .valueError := by rfl

end Examples

end GeffProps.C01
