import GeffProofs.SerializationGen
import GeffProps.C11
/-! # C11 on the code as it is written now (translator T12)

`Gen/Serialization.lean` is regenerated on every run from `geff/core_io/_serialization.py`: the
three functions of the variable-length codec, statement by statement, as Lean `do`-blocks over the
primitives of `GeffModel/PyDo.lean`.  This file proves that the generated functions ARE the
hand-written model (`Geff.Vlen.serializeVlenPy`, `deserializeVlen`) that every theorem of
`GeffProps/C11.lean` is about, and restates the round trip on the generated functions directly —
so an edit of the Python source that changes what the codec computes breaks a proof obligation
here (and the check then searches for a failing input), while the hand-written model is no longer
only *compared* with the code but *derived* from it.

Property theorems only; helper lemmas in `GeffProofs/SerializationGen.lean`. -/
namespace GeffProps.C11Gen
open Geff.Np Geff.Vlen Geff.PyDo Gen.Serialization GeffProofs.SerializationGen

/-- the translator accepted every statement of the three functions -/
theorem translated : Gen.Serialization.translationOk = true := by decide

/-- **`serialize_vlen_property_data` as written = the model**, for every `prop_dict` (entries that
are not ndarrays, mixed ranks or dtypes, empty arrays included); the `missing` entry is returned
untouched. -/
theorem C11Gen_serialize_is_model {μ : Type} (pd : PropDict μ) :
    serializeVlenPropertyData pd = withMissing pd.missing (serializeVlenPy pd.values) :=
  serialize_eq pd

/-- **`deserialize_vlen_property_data` as written = the model** wherever the model speaks (`data`
1-D, a `values` table of rank 1 or 2 holding non-negative integers — every uint64 table — and, for
a rank-1 table, as many scalars as its shape says): the same arrays in the same slots, every slot
of the object array filled, the first failing row's `ValueError`, `IndexError` for a non-empty
table without offset column; `missing` is returned untouched. -/
theorem C11Gen_deserialize_is_model {μ : Type} (values data : NdArr) (m : μ)
    (h1d : ∀ n, values.shape = [n] → values.flat.length = n)
    (hmod : ∀ w, deserializeVlen values data ≠ .unmodelled w) :
    deserializeVlenPropertyData values m data = liftList m (deserializeVlen values data) :=
  deserialize_eq values data m h1d hmod

/-- **C11 round trip on the generated code.**  Whenever the encoder *as written* accepts an object
array of well-formed arrays (any number, any rank and extents, zero-sized and rank-0 included) with
any `missing` entry, the decoder *as written*, applied to what the encoder returned, fills every
slot with exactly the array that was encoded — shape, dtype and contents — and both hand the
`missing` entry through unchanged. -/
theorem C11Gen_roundtrip {μ : Type} (es : List NdArr) (hwf : ∀ e ∈ es, e.WF) (m m' : μ)
    (values data : NdArr)
    (h : serializeVlenPropertyData ⟨es.map .arr, m⟩ = .ok (values, m', data)) :
    m' = m ∧ deserializeVlenPropertyData values m' data = .ok (es.map some, m) := by
  rw [C11Gen_serialize_is_model] at h
  have hs : serializeVlen es = .ok (values, data) ∧ m' = m := by
    unfold serializeVlen
    cases hpy : serializeVlenPy (es.map .arr) with
    | ok r =>
      obtain ⟨v, d⟩ := r
      simp only [hpy, withMissing, Outcome.ok.injEq, Prod.mk.injEq] at h
      obtain ⟨rfl, rfl, rfl⟩ := h
      exact ⟨rfl, rfl⟩
    | _ => simp [hpy, withMissing] at h
  obtain ⟨hs, rfl⟩ := hs
  refine ⟨rfl, ?_⟩
  have hdec := GeffProps.C11.C11_decode_encode es hwf values data hs
  rw [C11Gen_deserialize_is_model values data m' ?_ (by intro w; rw [hdec]; exact fun h => nomatch h), hdec]
  · rfl
  · -- the table the encoder writes is never 1-D
    intro n hn
    unfold serializeVlen serializeVlenPy at hs
    cases hc : checkElems none (es.map .arr) with
    | ok l =>
      simp only [hc, Outcome.ok.injEq, Prod.mk.injEq] at hs
      obtain ⟨rfl, _⟩ := hs
      unfold Encoded.valuesArr at hn
      split at hn <;> simp at hn
    | _ => simp [hc] at hs

/-- **the encoder as written raises only `ValueError`** (never an `AttributeError` from touching
`.ndim` of something that is not an array, nor anything else) and accepts exactly the homogeneous
object arrays — `C11_encode_domain` transported to the generated code. -/
theorem C11Gen_encode_domain {μ : Type} (pd : PropDict μ) :
    (∃ l : List NdArr, pd.values = l.map .arr ∧ Homogeneous l ∧
        serializeVlenPropertyData pd = .ok ((encode l).valuesArr, pd.missing, (encode l).dataArr)) ∨
    ((¬ ∃ l : List NdArr, pd.values = l.map .arr ∧ Homogeneous l) ∧
        serializeVlenPropertyData pd = .valueError) := by
  rw [C11Gen_serialize_is_model]
  rcases GeffProps.C11.C11_encode_domain pd.values with ⟨l, h1, h2, h3⟩ | ⟨h1, h2⟩
  · exact Or.inl ⟨l, h1, h2, by rw [h3]; rfl⟩
  · exact Or.inr ⟨h1, by rw [h2]; rfl⟩

/-! ## non-vacuity: the generated functions run -/

def ex1 : List NdArr :=
  [⟨.u8, [1, 2], [.i 7, .i 8]⟩, ⟨.u8, [0, 3], []⟩, ⟨.u8, [2, 1], [.i 9, .i 10]⟩]

example : serializeVlenPropertyData (μ := Option (List Bool)) ⟨ex1.map .arr, some [false, true, false]⟩ =
    .ok (⟨.u64, [3, 3], [.i 0, .i 1, .i 2, .i 2, .i 0, .i 3, .i 2, .i 2, .i 1]⟩, some [false, true, false],
         ⟨.u8, [4], [.i 7, .i 8, .i 9, .i 10]⟩) := by decide
example : deserializeVlenPropertyData ⟨.u64, [3, 3], [.i 0, .i 1, .i 2, .i 2, .i 0, .i 3, .i 2, .i 2, .i 1]⟩ ()
    ⟨.u8, [4], [.i 7, .i 8, .i 9, .i 10]⟩ = .ok (ex1.map some, ()) := by decide
example : ∀ e ∈ ex1, e.WF := by decide
-- error branches of the generated code
example : serializeVlenPropertyData ⟨[.arr ⟨.i64, [1], [.i 1]⟩, .notArray], ()⟩ = .valueError := by decide
example : serializeVlenPropertyData ⟨[.arr ⟨.i64, [1], [.i 1]⟩, .arr ⟨.i64, [1, 1], [.i 1]⟩], ()⟩ = .valueError := by decide
example : serializeVlenPropertyData ⟨[], ()⟩ = .ok (⟨.u64, [0, 2], []⟩, (), ⟨.i64, [0], []⟩) := by decide
example : deserializeVlenPropertyData ⟨.u64, [1, 2], [.i 2, .i 2]⟩ () ⟨.u8, [3], [.i 1, .i 2, .i 3]⟩ = .valueError := by decide
example : deserializeVlenPropertyData ⟨.u64, [2], [.i 0, .i 1]⟩ () ⟨.u8, [1], [.i 1]⟩ = .other "IndexError" := by decide
example : deserializeVlenValue ⟨.u64, [1, 2], [.i 0, .i 1]⟩ ⟨.u8, [1], [.i 5]⟩ 1 = .other "IndexError" := by decide

end GeffProps.C11Gen
