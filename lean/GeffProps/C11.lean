import GeffProofs.VlenNorm
/-! # C11 — variable-length values are encoded and decoded without loss

Property theorems only.  Model: `GeffModel/Vlen.lean` (+ `GeffModel/NpCast.lean` for numpy's
promotion), tied to `geff.core_io._serialization` and `geff.core_io._utils` by the correspondence
`harness/corr/C11.py` (function by function and through a zarr store) and, for the numpy tables, by
re-deriving every entry from the installed numpy on each run.

An array is an `Np.NdArr` (dtype, shape, C-order contents) and is *well formed* when it holds
`prod shape` scalars; zero-sized and rank-0 arrays are included.  All statements are for lists of
any length, shapes of any rank and extent. -/
namespace GeffProps.C11
open Geff.Np Geff.Vlen

/-! ## vocabulary (defined in `GeffModel/Np.lean`, `GeffProofs/Vlen.lean`; restated definitionally) -/

example (a : NdArr) : a.WF ↔ a.flat.length = prod a.shape := Iff.rfl
example (es : List NdArr) :
    Homogeneous es ↔ ∀ a ∈ es, ∀ b ∈ es, a.dtype = b.dtype ∧ a.ndim = b.ndim := Iff.rfl

/-! ## encode / decode -/

/-- **C11 (round trip).**  Whenever `serialize_vlen_property_data` accepts an object array of
well-formed arrays, `deserialize_vlen_property_data` applied to its output returns exactly the
same arrays — shape, dtype and contents of every element, in order. -/
theorem C11_decode_encode (es : List NdArr) (hwf : ∀ e ∈ es, e.WF) (values data : NdArr)
    (h : serializeVlen es = .ok (values, data)) :
    deserializeVlen values data = .ok es :=
  deserialize_serialize es hwf h

/-- **C11 (encoder total on its documented domain, error class exact).**  The encoder accepts
exactly the object arrays whose entries are all ndarrays of one dtype and one rank, and fails with
`ValueError` — never another exception — on everything else. -/
theorem C11_encode_domain (es : List PyElem) :
    (∃ l : List NdArr, es = l.map .arr ∧ Homogeneous l ∧
        serializeVlenPy es = .ok ((encode l).valuesArr, (encode l).dataArr)) ∨
    ((¬ ∃ l : List NdArr, es = l.map .arr ∧ Homogeneous l) ∧ serializeVlenPy es = .valueError) :=
  serializeVlenPy_cases es

/-- the `values` table written by the encoder *is* the row list `(encode es).rows` the layout
theorems below talk about: parsing the uint64 table of width `ndim + 1` gives the rows back -/
theorem C11_table_is_rows (e : NdArr) (es : List NdArr) (hh : Homogeneous (e :: es)) :
    (encode (e :: es)).valuesArr.shape = [(e :: es).length, e.ndim + 1] ∧
    parseRows (e.ndim + 1) (e :: es).length (encode (e :: es)).valuesArr.flat = some (encode (e :: es)).rows := by
  have hrows : (encode (e :: es)).rows = (0, e.shape) :: (encodeAux (0 + prod e.shape) es).1 := by
    simp [encode, encodeAux]
  have hlen : (encode (e :: es)).rows.length = (e :: es).length := encodeAux_rows_length 0 _
  have hk : ∀ r ∈ (encode (e :: es)).rows, r.2.length = e.ndim := by
    intro r hr
    have hm : r.2 ∈ (encode (e :: es)).rows.map (·.2) := List.mem_map.2 ⟨r, hr, rfl⟩
    rw [show (encode (e :: es)).rows = (encodeAux 0 (e :: es)).1 from rfl, encodeAux_shapes] at hm
    obtain ⟨a, ha, has⟩ := List.mem_map.1 hm
    rw [← has]
    exact (hh a ha e (by simp)).2
  have hp := parseRows_flat e.ndim (encode (e :: es)).rows hk
  rw [hlen] at hp
  constructor
  · simp only [Encoded.valuesArr, hrows]
    rw [← hrows, hlen]; rfl
  · simpa [Encoded.valuesArr, hrows] using hp

/-- **C11 (offsets contiguous, in element order).**  Row `i` of the table carries the shape of
element `i`; the first offset is 0 and each next offset is the previous one plus the number of
scalars of the previous element. -/
theorem C11_offsets_contiguous (es : List NdArr) :
    (encode es).rows.length = es.length ∧
    (∀ (h : 0 < (encode es).rows.length), ((encode es).rows[0]).1 = 0) ∧
    (∀ i (h : i < es.length) (h' : i < (encode es).rows.length), ((encode es).rows[i]).2 = es[i].shape) ∧
    (∀ i (h : i + 1 < (encode es).rows.length),
      ((encode es).rows[i + 1]).1 = ((encode es).rows[i]).1 + prod ((encode es).rows[i]).2) := by
  have hlen : (encode es).rows.length = es.length := encodeAux_rows_length 0 es
  refine ⟨hlen, ?_, ?_, ?_⟩
  · intro h
    have := encodeAux_row 0 es 0 (by rw [← hlen]; exact h)
    simp only [encode] at this ⊢
    rw [this]; simp [sizes]
  · intro i h h'
    have := encodeAux_row 0 es i h
    simp only [encode] at this ⊢
    rw [this]
  · intro i h
    have h1 : i + 1 < es.length := by rw [← hlen]; exact h
    have e1 := encodeAux_row 0 es (i + 1) h1
    have e0 := encodeAux_row 0 es i (by omega)
    simp only [encode] at e1 e0 ⊢
    rw [e1, e0, sizes_take_succ es i (by omega)]
    simp only [Nat.zero_add]

/-- **C11 (slices in bounds).**  The data array holds exactly the scalars of all elements, and
every row addresses a slice that lies inside it. -/
theorem C11_in_bounds (es : List NdArr) (hwf : ∀ e ∈ es, e.WF) :
    (encode es).data.length = (es.map (fun e => prod e.shape)).sum ∧
    ∀ r ∈ (encode es).rows, r.1 + prod r.2 ≤ (encode es).data.length := by
  have hd : (encode es).data.length = (sizes es).sum := encodeAux_data_length 0 es hwf
  refine ⟨hd, ?_⟩
  intro r hr
  obtain ⟨i, hi, rfl⟩ := List.getElem_of_mem hr
  have hlen : (encode es).rows.length = es.length := encodeAux_rows_length 0 es
  have := encodeAux_row 0 es i (by rw [← hlen]; exact hi)
  simp only [encode] at this hd ⊢
  rw [this, hd]
  simpa using sizes_take_le es i (by rw [← hlen]; exact hi)

/-- **C11 (decoder on arbitrary tables).**  `_deserialize_vlen_value` succeeds exactly when the
addressed slice lies inside the data (a zero-sized slice always does) and then returns that slice
with the requested shape; otherwise `reshape` raises `ValueError`. -/
theorem C11_decodeRow_iff (dt : Dtype) (data : List Val) (off : Nat) (sh : List Nat) :
    (decodeRow dt data (off, sh) = .ok { dtype := dt, shape := sh, flat := (data.drop off).take (prod sh) } ∧
      (prod sh = 0 ∨ off + prod sh ≤ data.length)) ∨
    (decodeRow dt data (off, sh) = .valueError ∧ ¬ (prod sh = 0 ∨ off + prod sh ≤ data.length)) := by
  unfold decodeRow
  simp only [List.length_take, List.length_drop]
  by_cases h : min (prod sh) (data.length - off) = prod sh
  · left; simp only [h, ↓reduceIte, true_and]; omega
  · right; simp only [h, ↓reduceIte, true_and]; omega

/-- … and on a whole table: the decoder returns one array per row when every row is in bounds, and
raises `ValueError` otherwise (no other exception). -/
theorem C11_decodeRows_iff (dt : Dtype) (data : List Val) (rows : List (Nat × List Nat)) :
    (decodeRows dt data rows = .ok (rows.map fun r =>
        { dtype := dt, shape := r.2, flat := (data.drop r.1).take (prod r.2) }) ∧
      ∀ r ∈ rows, prod r.2 = 0 ∨ r.1 + prod r.2 ≤ data.length) ∨
    (decodeRows dt data rows = .valueError ∧ ∃ r ∈ rows, ¬ (prod r.2 = 0 ∨ r.1 + prod r.2 ≤ data.length)) := by
  induction rows with
  | nil => left; simp [decodeRows]
  | cons r rest ih =>
    obtain ⟨off, sh⟩ := r
    rcases C11_decodeRow_iff dt data off sh with ⟨h1, h2⟩ | ⟨h1, h2⟩
    · rcases ih with ⟨i1, i2⟩ | ⟨i1, r', hr', i2⟩
      · left
        refine ⟨by simp only [decodeRows, h1, i1, List.map_cons], ?_⟩
        intro r hr
        rcases List.mem_cons.1 hr with rfl | hr
        · exact h2
        · exact i2 r hr
      · right
        exact ⟨by simp only [decodeRows, h1, i1], r', List.mem_cons_of_mem _ hr', i2⟩
    · right
      exact ⟨by simp only [decodeRows, h1], (off, sh), by simp, h2⟩

/-! ## normalisation of ragged input -/

/-- What the documentation promises for one entry `x` of the input, given the common dtype `dt`
and rank `nd`: the result entry `v` has that dtype and rank; a `None` becomes an empty array
(every extent 0) flagged missing; anything else is not flagged, keeps its shape behind
`nd - rank` leading axes of extent 1, and its contents are the input's contents cast to `dt`. -/
def NormEntry (dt : Dtype) (nd : Nat) (x : Item) (v : NdArr) (m : Bool) : Prop :=
  v.dtype = dt ∧ v.ndim = nd ∧
  match x with
  | .none => m = true ∧ v.shape = List.replicate nd 0
  | .arr a => m = false ∧ v.shape = List.replicate (nd - a.ndim) 1 ++ a.shape ∧
              a.flat.mapM (castVal a.dtype dt) = some v.flat
  | .inhomogeneous => False

/-- The common dtype and rank of a sequence: `np.result_type` of the dtypes and the largest rank of
the non-None entries (`int64`, rank 1 when there is none). -/
def CommonOf (xs : List Item) (dt : Dtype) (nd : Nat) : Prop :=
  (Item.dtypes xs = [] ∧ dt = .i64 ∧ nd = 1) ∨
  (Item.dtypes xs ≠ [] ∧ Dtype.resultType (Item.dtypes xs) = some dt ∧ nd = maxRank (Item.ranks xs) ∧
    nd ∈ Item.ranks xs)

/-- `_get_common_type_dims` returns the common dtype and rank (and only when no entry is ragged) -/
theorem C11_common (xs : List Item) (dt : Dtype) (nd : Nat)
    (h : getCommonTypeDims xs = .ok (dt, nd)) : CommonOf xs dt nd ∧ Item.inhomogeneous ∉ xs :=
  ⟨(getCommonTypeDims_ok h).2, (getCommonTypeDims_ok h).1⟩

/-- **C11 (normalisation).**  When `construct_var_len_props` succeeds, there is one dtype and one
rank — `np.result_type` of the entries' dtypes and the largest of their ranks — such that

* every entry's own dtype casts *safely* to the common dtype and no entry has a larger rank;
* the result has one entry and one flag per input entry, in order;
* every result entry satisfies `NormEntry`: common dtype and rank, contents equal to the input
  after the cast and the leading-axis padding, flag set exactly for `None`. -/
theorem C11_normalise (xs : List Item) (vals : List NdArr) (miss : List Bool)
    (h : constructVarLenProps xs = .ok (vals, miss)) :
    ∃ dt nd, CommonOf xs dt nd ∧
      (∀ d ∈ Item.dtypes xs, Dtype.canCastSafe d dt = true) ∧ (∀ r ∈ Item.ranks xs, r ≤ nd) ∧
      vals.length = xs.length ∧ miss.length = xs.length ∧
      ∀ i (h1 : i < xs.length) (h2 : i < vals.length) (h3 : i < miss.length),
        NormEntry dt nd xs[i] vals[i] miss[i] := by
  obtain ⟨dt, nd, l, hc, hn, rfl, rfl⟩ := construct_ok_inv h
  obtain ⟨hni, hco⟩ := getCommonTypeDims_ok hc
  have hranks : ∀ r ∈ Item.ranks xs, r ≤ nd := by
    intro r hr
    rcases hco with ⟨hd, -, -⟩ | ⟨-, -, rfl, -⟩
    · have := ranks_length xs
      rw [hd] at this
      rw [List.length_eq_zero_iff.1 this] at hr; simp at hr
    · exact le_maxRank hr
  refine ⟨dt, nd, hco, ?_, hranks, by simp [normAll_length hn], by simp [normAll_length hn], ?_⟩
  · intro d hd
    rcases hco with ⟨hnil, -, -⟩ | ⟨-, hr, -, -⟩
    · rw [hnil] at hd; simp at hd
    · exact Dtype.resultType_safe _ _ hr d hd
  · intro i h1 h2 h3
    have hl : i < l.length := by simpa using h2
    have hget := normAll_get hn i h1 hl
    simp only [List.getElem_map]
    have hmem : xs[i] ∈ xs := List.getElem_mem h1
    cases hx : xs[i] with
    | none =>
      rw [hx] at hget
      simp only [normItem, Option.some.injEq] at hget
      rw [← hget]
      simp [NormEntry, NdArr.ndim]
    | inhomogeneous => rw [hx] at hmem; exact absurd hmem hni
    | arr a =>
      rw [hx] at hget hmem
      simp only [normItem] at hget
      cases hm : a.flat.mapM (castVal a.dtype dt) with
      | none => rw [hm] at hget; cases hget
      | some fl =>
        rw [hm] at hget
        simp only [Option.some.injEq] at hget
        rw [← hget]
        have := hranks a.ndim (mem_ranks hmem)
        simp only [NormEntry, NdArr.ndim, List.length_append, List.length_replicate, true_and]
        unfold NdArr.ndim at this
        exact ⟨by omega, hm⟩

/-- **C11 (the normal form is what the encoder asks for).**  The result of a successful
normalisation is homogeneous — so `serialize_vlen_property_data` accepts it — and well formed
whenever the inputs are. -/
theorem C11_normalise_serializable (xs : List Item) (vals : List NdArr) (miss : List Bool)
    (h : constructVarLenProps xs = .ok (vals, miss)) (hwf : ∀ a, Item.arr a ∈ xs → a.WF) :
    Homogeneous vals ∧ (∀ v ∈ vals, v.WF) ∧
    serializeVlen vals = .ok ((encode vals).valuesArr, (encode vals).dataArr) := by
  obtain ⟨dt, nd, -, -, -, hlv, hlm, hent⟩ := C11_normalise xs vals miss h
  have hall : ∀ v ∈ vals, v.dtype = dt ∧ v.ndim = nd := by
    intro v hv
    obtain ⟨i, hi, rfl⟩ := List.getElem_of_mem hv
    have := hent i (by omega) hi (by omega)
    exact ⟨this.1, this.2.1⟩
  have hh : Homogeneous vals := fun a ha b hb =>
    ⟨(hall a ha).1.trans (hall b hb).1.symm, (hall a ha).2.trans (hall b hb).2.symm⟩
  refine ⟨hh, ?_, serializeVlen_eq vals hh⟩
  intro v hv
  obtain ⟨i, hi, rfl⟩ := List.getElem_of_mem hv
  have hi' : i < xs.length := by omega
  -- re-open the model for the contents of the entry
  obtain ⟨dt', nd', l, hc, hn, rfl, rfl⟩ := construct_ok_inv h
  have hl : i < l.length := by simpa using hi
  have hget := normAll_get hn i hi' hl
  simp only [List.getElem_map]
  cases hx : xs[i] with
  | none =>
    rw [hx] at hget
    simp only [normItem, Option.some.injEq] at hget
    rw [← hget]; simp [NdArr.WF]
  | inhomogeneous => rw [hx] at hget; simp [normItem] at hget
  | arr a =>
    rw [hx] at hget
    simp only [normItem] at hget
    cases hm : a.flat.mapM (castVal a.dtype dt') with
    | none => rw [hm] at hget; cases hget
    | some fl =>
      rw [hm] at hget
      simp only [Option.some.injEq] at hget
      rw [← hget]
      have ha : a.WF := hwf a (hx ▸ List.getElem_mem hi')
      unfold NdArr.WF at ha ⊢
      simp only [prod_ones_append, mapM_length _ hm, ha]

/-- **C11 (order independence).**  For any reordering `ys` of `xs`:
the common dtype and rank — or the failure — are the same; and if `xs` normalises then so does
`ys`, each input entry being paired with the same result entry and flag as before (the result of
`ys` is the same permutation of the result of `xs`). -/
theorem C11_order_independent (xs ys : List Item) (p : xs.Perm ys) :
    getCommonTypeDims xs = getCommonTypeDims ys ∧
    (∀ vx mx, constructVarLenProps xs = .ok (vx, mx) →
      ∃ vy my, constructVarLenProps ys = .ok (vy, my) ∧
        (xs.zip (vx.zip mx)).Perm (ys.zip (vy.zip my)) ∧
        (missingOut mx).isSome = (missingOut my).isSome) ∧
    (∀ o, (∀ v, o ≠ .ok v) → constructVarLenProps xs = o → constructVarLenProps ys = o) := by
  have hc := getCommonTypeDims_perm p
  refine ⟨hc, ?_, ?_⟩
  · intro vx mx h
    obtain ⟨dt, nd, l, hg, hn, rfl, rfl⟩ := construct_ok_inv h
    obtain ⟨l', hl', hp⟩ := normAll_perm dt nd p l hn
    refine ⟨l'.map (·.1), l'.map (·.2), construct_of (hc ▸ hg) hl', by simpa [zip_map_fst_snd] using hp, ?_⟩
    have hflags : (l.map (·.2)).Perm (l'.map (·.2)) := by
      have h1 := (hp.map (fun q => q.2.2))
      rwa [zip_map_snd_snd xs l (normAll_length hn), zip_map_snd_snd ys l' (normAll_length hl')] at h1
    unfold missingOut
    have : (l.map (·.2)).any id = (l'.map (·.2)).any id := by
      rw [Bool.eq_iff_iff]; simp only [List.any_eq_true, hflags.mem_iff]
    rw [this]
    cases (l'.map (·.2)).any id <;> rfl
  · intro o ho h
    unfold constructVarLenProps at h ⊢
    rw [← hc]
    cases hg : getCommonTypeDims xs with
    | ok q =>
      obtain ⟨dt, nd⟩ := q
      rw [hg] at h
      simp only at h ⊢
      cases hn : normAll dt nd xs with
      | none =>
        rw [hn] at h
        rw [normAll_none_perm dt nd p hn]
        exact h
      | some l => rw [hn] at h; exact absurd h.symm (ho _)
    | valueError => rw [hg] at h; exact h
    | typeError => rw [hg] at h; exact h
    | other n => rw [hg] at h; exact h
    | unmodelled w => rw [hg] at h; exact h

/-! ## non-vacuity (evaluations of the model on concrete inputs — tests, not the unbounded claim) -/

/-- three int64 arrays of rank 2, one of them zero-sized: accepted by the encoder, well formed -/
def ex1 : List NdArr :=
  [⟨.i64, [1, 2], [.i 1, .i 2]⟩, ⟨.i64, [0, 3], []⟩, ⟨.i64, [2, 1], [.i (-7), .i 9]⟩]
example : (serializeVlen ex1).isOk = true := by decide
example : ∀ e ∈ ex1, e.WF := by decide
example : Homogeneous ex1 := by unfold Homogeneous; decide
example : (encode ex1).rows = [(0, [1, 2]), (2, [0, 3]), (2, [2, 1])] ∧ (encode ex1).data.length = 4 := by decide
/-- rank-0 elements: table of width 1 -/
example : (serializeVlen [⟨.f64, [], [.f "3ff0000000000000"]⟩, ⟨.f64, [], [.f "4004000000000000"]⟩]).isOk = true := by
  decide
/-- mixed rank, mixed dtype and a non-array are rejected with ValueError -/
example : serializeVlen [⟨.i64, [1], [.i 1]⟩, ⟨.i64, [1, 1], [.i 1]⟩] = .valueError := by decide
example : serializeVlen [⟨.i64, [1], [.i 1]⟩, ⟨.u8, [1], [.i 1]⟩] = .valueError := by decide
example : serializeVlenPy [.arr ⟨.i64, [1], [.i 1]⟩, .notArray] = .valueError := by decide
/-- an out-of-bounds row is refused by the decoder, an in-bounds one is decoded -/
example : decodeRow .i64 [.i 1, .i 2, .i 3] (2, [2]) = .valueError := by decide
example : decodeRow .i64 [.i 1, .i 2, .i 3] (1, [2, 1]) = .ok ⟨.i64, [2, 1], [.i 2, .i 3]⟩ := by decide

/-- ragged input: a bool vector, an int8 matrix, a None and a uint8 scalar normalise to int16,
rank 2, in either order -/
def ex2 : List Item :=
  [.arr ⟨.bool, [2], [.b true, .b false]⟩, .arr ⟨.i8, [1, 2], [.i (-3), .i 4]⟩, .none, .arr ⟨.u8, [], [.i 200]⟩]
example : constructVarLenProps ex2 = .ok
    ([⟨.i16, [1, 2], [.i 1, .i 0]⟩, ⟨.i16, [1, 2], [.i (-3), .i 4]⟩, ⟨.i16, [0, 0], []⟩, ⟨.i16, [1, 1], [.i 200]⟩],
     [false, false, true, false]) := by decide
example : ex2.Perm ex2.reverse := (List.reverse_perm ex2).symm
example : ∀ a, Item.arr a ∈ ex2 → a.WF := by
  intro a h
  simp only [ex2, List.mem_cons, Item.arr.injEq, List.not_mem_nil, or_false, reduceCtorEq, false_or] at h
  rcases h with rfl | rfl | rfl <;> decide
example : getCommonTypeDims ex2.reverse = .ok (.i16, 2) := by decide
/-- the pre-repair failure D8: [float, int] — both orders give float64 -/
example : getCommonTypeDims [.arr ⟨.f64, [1], [.f "4004000000000000"]⟩, .arr ⟨.i64, [1], [.i 1]⟩] = .ok (.f64, 1) ∧
    getCommonTypeDims [.arr ⟨.i64, [1], [.i 1]⟩, .arr ⟨.f64, [1], [.f "4004000000000000"]⟩] = .ok (.f64, 1) := by
  decide
/-- all-None input: int64, rank 1 -/
example : constructVarLenProps [.none, .none] = .ok ([⟨.i64, [0], []⟩, ⟨.i64, [0], []⟩], [true, true]) := by decide
example : getCommonTypeDims [.arr ⟨.i64, [1], [.i 1]⟩, .inhomogeneous] = .valueError := by decide

end GeffProps.C11
