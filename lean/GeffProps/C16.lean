import GeffProofs.TrackMate8
import GeffProps.C14
import Gen.TrackMateTables
/-! # C16 — TrackMate conversion preserves spots, links, features and tracks

Property theorems only.  Model: `Geff.TrackMate.convert` (`GeffModel/TrackMate.lean`) — the converter
on abstract documents up to the property columns handed to `write_arrays`; tied to
`geff.convert.from_trackmate_xml_to_geff` by the correspondence `harness/corr/C16.py` (rendered XML,
real conversion, read-back).  lxml's streaming cursor logic is exercised there, **not** modelled:
the property is decided for the graph / feature / filter logic (partial for XML parsing).

`WF d` (GeffModel/TrackMateSpec.lean; executable check `wfB`, `wfB_sound`) = TrackMate's own invariants: every spot converts and has a unique ID,
ROI on all spots or none, every track has a TRACK_ID, edges convert, join existing spots, are
pairwise distinct, never join a spot to itself, and a spot is touched by edges of one track id only. -/
namespace GeffProps.C16
open Geff.TrackMate Geff.Graph

/-- all links of the document, each with the id of its track, in document order -/
abbrev links (d : Doc) : List (Edge × Val) := tagged (attrsMd d) d.tracks

/-- the spot ids in document order -/
abbrev spotIds (d : Doc) : List Nat := d.spots.map spotId

/-- the declarations are usable: `isint` and a known `dimension` on every feature, no identifier
declared twice in a category, and `POSITION_X` declared when spots carry ROIs -/
def MetaOk (d : Doc) : Prop :=
  ∃ nmd emd tmd,
    processFeatures (d.space.getD "pixel") (d.time.getD "frame") d.sf [] = .ok nmd ∧
    processFeatures (d.space.getD "pixel") (d.time.getD "frame") d.ef [] = .ok emd ∧
    processFeatures (d.space.getD "pixel") (d.time.getD "frame") d.tf [] = .ok tmd ∧
    (d.spots.any (fun s => s.roi.isSome) = true → nmd.any (fun kv => kv.1 == "POSITION_X") = true)

/-- **C16 (no exception)**: every well-formed document with usable declarations converts, for all
four flag combinations. -/
theorem C16_total (d : Doc) (h : WF d) (hm : MetaOk d) (ds dt : Bool) : ∃ out, convert d ds dt = .ok out := by
  obtain ⟨nmd, emd, tmd, h1, h2, h3, h4⟩ := hm
  unfold convert
  rw [buildData_final d h]
  simp only [h1, h2, h3]
  split
  · rename_i hc
    simp only [Bool.and_eq_true, Bool.not_eq_eq_eq_not, Bool.not_true] at hc
    rw [h4 hc.1] at hc
    exact absurd hc.2 (by simp)
  · exact ⟨_, rfl⟩

/-- **C16 (graph)**: one node per kept spot, id = spot ID, in document order; one edge per link whose
two endpoints are kept, source → target, no edge twice.  `keepSpot` is the filter of the two discard
options (`keepSpot d false false n = true`). -/
theorem C16_graph (d : Doc) (h : WF d) (ds dt : Bool) (out : Out) (hc : convert d ds dt = .ok out) :
    out.nodes = (spotIds d).filter (keepSpot d ds dt) ∧
    out.edges.Nodup ∧
    ∀ u v, (u, v) ∈ out.edges ↔
      (∃ x ∈ links d, x.1.s = u ∧ x.1.t = v) ∧ keepSpot d ds dt u = true ∧ keepSpot d ds dt v = true := by
  obtain ⟨hn, he, _⟩ := convert_out d h ds dt out hc
  obtain ⟨hkn, hcl⟩ := final_closed d h ds dt
  refine ⟨by rw [hn, finalGraph_nodes], ?_, ?_⟩
  · rw [he]; exact nxEdges_nodup _ hkn (final_edges_nodup d h ds dt)
  · intro u v
    rw [he]
    simp only [List.mem_map, mem_nxEdges]
    constructor
    · rintro ⟨e, ⟨hee, _⟩, hk⟩
      obtain ⟨x, hx, rfl, h1, h2⟩ := (mem_final_edges d h ds dt e).1 hee
      simp only [edgeEntry, Prod.mk.injEq] at hk
      exact ⟨⟨x, hx, hk.1, hk.2⟩, hk.1 ▸ h1, hk.2 ▸ h2⟩
    · rintro ⟨⟨x, hx, rfl, rfl⟩, h1, h2⟩
      have hmem := (mem_final_edges d h ds dt (edgeEntry (attrsMd d) x)).2 ⟨x, hx, rfl, h1, h2⟩
      exact ⟨edgeEntry (attrsMd d) x, ⟨hmem, (hcl _ hmem).1⟩, rfl⟩

/-- without discard options every spot and every link is there -/
theorem C16_graph_all (d : Doc) (h : WF d) (out : Out) (hc : convert d false false = .ok out) :
    out.nodes = spotIds d ∧ ∀ u v, (u, v) ∈ out.edges ↔ ∃ x ∈ links d, x.1.s = u ∧ x.1.t = v := by
  obtain ⟨hn, _, he⟩ := C16_graph d h false false out hc
  refine ⟨?_, fun u v => ?_⟩
  · rw [hn]; apply List.filter_eq_self.2; intro n _; simp [keepSpot]
  · rw [he]; simp [keepSpot]

theorem lone_iff (d : Doc) (n : Nat) : lone d n = true ↔ ∀ x ∈ links d, x.1.s ≠ n ∧ x.1.t ≠ n := by
  simp [lone, touches]

/-- **C16 (discard_filtered_spots)** removes exactly the spots that belong to no track (no link of
the document has them as an endpoint) — and no edge. -/
theorem C16_discard_spots (d : Doc) (h : WF d) (out : Out) (hc : convert d true false = .ok out) :
    out.nodes = (spotIds d).filter (fun n => !lone d n) ∧
    ∀ u v, (u, v) ∈ out.edges ↔ ∃ x ∈ links d, x.1.s = u ∧ x.1.t = v := by
  obtain ⟨hn, _, he⟩ := C16_graph d h true false out hc
  refine ⟨?_, fun u v => ?_⟩
  · rw [hn]; apply List.filter_congr; intro n _; simp [keepSpot]
  rw [he]
  constructor
  · exact fun hh => hh.1
  · rintro ⟨x, hx, rfl, rfl⟩
    refine ⟨⟨x, hx, rfl, rfl⟩, ?_, ?_⟩ <;>
    · simp only [keepSpot, Bool.true_and, Bool.false_and, Bool.not_false, Bool.and_true, Bool.not_eq_eq_eq_not,
        Bool.not_true]
      cases hl : lone d _
      · rfl
      · have := (lone_iff d _).1 hl x hx
        simp at this

/-- **C16 (discard_filtered_tracks)**: with a `FilteredTracks` section listing `keep`, exactly the
nodes whose track id is listed survive (spots of no track go too); without the section nothing is
removed (the reading fixed in DESIGN.md). -/
theorem C16_discard_tracks (d : Doc) (h : WF d) (out : Out) (hc : convert d false true = .ok out) :
    (d.filtered = none → out.nodes = spotIds d) ∧
    (∀ keep, d.filtered = some keep → out.nodes = (spotIds d).filter (fun n => listed keep (trackIdOf d n))) := by
  obtain ⟨hn, _, _⟩ := C16_graph d h false true out hc
  constructor
  · intro hf; rw [hn]; apply List.filter_eq_self.2; intro n _; simp [keepSpot, hf]
  · intro keep hf; rw [hn]; apply List.filter_congr; intro n _; simp [keepSpot, hf]

/-- the TRACK_ID of a node is the id of the track containing it: `trackIdOf d n = some t` iff some
link of track `t` has `n` as an endpoint (tracks are vertex-disjoint in a well-formed document) -/
theorem trackIdOf_iff (d : Doc) (h : WF d) (n : Nat) (tid : Val) :
    trackIdOf d n = some tid ↔ ∃ x ∈ links d, touches x.1 n = true ∧ x.2 = tid := by
  unfold trackIdOf
  constructor
  · intro hh
    cases hf : (tagged (attrsMd d) d.tracks).find? (fun x => touches x.1 n) with
    | none => rw [hf] at hh; cases hh
    | some x =>
      rw [hf] at hh
      simp only [Option.map_some, Option.some.injEq] at hh
      exact ⟨x, List.mem_of_find?_eq_some hf, by simpa using List.find?_some hf, hh⟩
  · rintro ⟨x, hx, ht, rfl⟩
    cases hf : (tagged (attrsMd d) d.tracks).find? (fun x => touches x.1 n) with
    | none => have := List.find?_eq_none.1 hf x hx; simp [ht] at this
    | some y =>
      simp only [Option.map_some, Option.some.injEq]
      exact h.edgesOk.consistent y (List.mem_of_find?_eq_some hf) x hx n (by simpa using List.find?_some hf) ht

/-- the cell of node `n` under node property `k` (`none`: flagged missing / no such property) -/
abbrev nodeCell (out : Out) (k : String) (n : Nat) : Option Val := cellOf out.nodes out.nodeProps k n

/-- every kept spot's stored attributes are its own attribute dict + the TRACK_ID stamp -/
theorem nodeCell_eq (d : Doc) (h : WF d) (ds dt : Bool) (out : Out) (hc : convert d ds dt = .ok out)
    (s : Spot) (hs : s ∈ d.spots) (hk : keepSpot d ds dt (spotId s) = true) (k : String) :
    nodeCell out k (spotId s) = aget? (spotAttrs (attrsMd d) s ++ stampOf (links d) (spotId s)) k := by
  obtain ⟨hn, _, hp, _⟩ := convert_out d h ds dt out hc
  have hmem : (spotId s, spotAttrs (attrsMd d) s ++ stampOf (links d) (spotId s)) ∈ (finalGraph d ds dt).nodes := by
    simp only [finalGraph, restrictTo, List.mem_filter, fullGraph, stamped, baseNodes, List.map_map, List.mem_map,
      Function.comp]
    exact ⟨⟨s, hs, rfl⟩, hk⟩
  have := cellOf_columns (finalGraph d ds dt).nodes out.nodeProps hp (final_closed d h ds dt).1 k _ hmem
  simpa [nodeCell, hn] using this

/-- **C16 (track id)**: the stored TRACK_ID of a kept spot is the id of the track containing it, and
is flagged missing exactly for the spots of no track. -/
theorem C16_track_id (d : Doc) (h : WF d) (ds dt : Bool) (out : Out) (hc : convert d ds dt = .ok out)
    (s : Spot) (hs : s ∈ d.spots) (hk : keepSpot d ds dt (spotId s) = true) :
    nodeCell out "TRACK_ID" (spotId s) = trackIdOf d (spotId s) ∧
    (nodeCell out "TRACK_ID" (spotId s) = none ↔ lone d (spotId s) = true) := by
  have h1 : nodeCell out "TRACK_ID" (spotId s) = trackIdOf d (spotId s) := by
    rw [nodeCell_eq d h ds dt out hc s hs hk, aget_stamp _ _ _ (h.noTrackIdAttr s hs)]
    rfl
  refine ⟨h1, ?_⟩
  rw [h1]
  unfold trackIdOf lone
  simp only [Option.map_eq_none_iff, List.find?_eq_none, List.all_eq_true, Bool.not_eq_eq_eq_not, Bool.not_true,
    Bool.not_eq_true]

/-- how a declared feature text is typed: `isint` ⇒ an integer, otherwise a float (of an integer or
float text); a non-numeric text of a float feature stays a string -/
def Typed (f : Feat) (t : Txt) (v : Val) : Prop :=
  (f.isint = some true ∧ ∃ n txt, t = .int n txt ∧ v = .i n) ∨
  (f.isint = some false ∧
    ((∃ n txt, t = .int n txt ∧ v = .f (.ofInt n)) ∨ (∃ s, t = .flt s ∧ v = .f (.ofText s)) ∨
     (∃ s, t = .str s ∧ v = .s s)))

theorem aget_spotAttrs (md : List Feat) (s : Spot) (k : String) (hk : k ≠ "ROI_coords") :
    aget? (spotAttrs md s) k = aget? (match convertAttributes md (spotTexts s) with
      | .ok a => a
      | .exc _ => []) k := by
  unfold spotAttrs
  simp only
  cases s.roi with
  | none => rfl
  | some r =>
    simp only
    cases r.pts with
    | none => rfl
    | some p => exact aget_aset_ne _ _ _ _ hk

/-- **C16 (spot features)**: for a kept spot and a declared feature `k` (any category — the
converter types attributes by the merged declarations), the value stored under the name `k` is the
attribute's text typed by `isint` when the spot has the attribute, and is flagged missing when it
has not.  (`hkeys`: XML attribute names are unique within an element.) -/
theorem C16_features (d : Doc) (h : WF d) (ds dt : Bool) (out : Out) (hc : convert d ds dt = .ok out)
    (s : Spot) (hs : s ∈ d.spots) (hkeep : keepSpot d ds dt (spotId s) = true)
    (hkeys : ((spotTexts s).map (·.1)).Nodup)
    (k : String) (f : Feat) (hf : mdLookup (attrsMd d) k = some f) (hk1 : k ≠ "TRACK_ID") (hk2 : k ≠ "ROI_coords") :
    (∀ t, (k, t) ∈ spotTexts s → ∃ v, nodeCell out k (spotId s) = some v ∧ Typed f t v) ∧
    (k ∉ (spotTexts s).map (·.1) → nodeCell out k (spotId s) = none) := by
  obtain ⟨a, ha⟩ := (h.spotOk s hs).conv
  have hcell : nodeCell out k (spotId s) = aget? a k := by
    rw [nodeCell_eq d h ds dt out hc s hs hkeep]
    have hst : k ∉ (stampOf (links d) (spotId s)).map (·.1) := by
      unfold stampOf
      cases (links d).find? (fun x => touches x.1 (spotId s)) with
      | none => simp
      | some x => simpa using hk1
    have : aget? (spotAttrs (attrsMd d) s ++ stampOf (links d) (spotId s)) k = aget? (spotAttrs (attrsMd d) s) k := by
      by_cases hm : k ∈ (spotAttrs (attrsMd d) s).map (·.1)
      · exact aget_append_left _ _ _ hm
      · rw [aget_append_right _ _ _ hm, aget_none _ _ hst, aget_none _ _ hm]
    rw [this, aget_spotAttrs _ _ _ hk2, ha]
  have hak := convertAttributes_keys ha
  constructor
  · intro t ht
    obtain ⟨v, hv, hmem⟩ := convertAttributes_mem ha ht
    exact ⟨v, by rw [hcell, aget_of_mem a k v (by rw [hak]; exact hkeys) hmem], convertOne_declared hf hv⟩
  · intro hnot
    rw [hcell, aget_none a k (by rw [hak]; exact hnot)]

/-- **C16 (ROI)**: the polygon of a kept spot is stored point for point under `ROI_coords` -/
theorem C16_roi (d : Doc) (h : WF d) (ds dt : Bool) (out : Out) (hc : convert d ds dt = .ok out)
    (s : Spot) (hs : s ∈ d.spots) (hkeep : keepSpot d ds dt (spotId s) = true)
    (r : Roi) (pts : List (List String)) (hr : s.roi = some r) (hp : r.pts = some pts) :
    nodeCell out "ROI_coords" (spotId s) = some (.roi pts) := by
  rw [nodeCell_eq d h ds dt out hc s hs hkeep]
  have hsa : spotAttrs (attrsMd d) s = aset (match convertAttributes (attrsMd d) (spotTexts s) with
      | .ok a => a
      | .exc _ => []) "ROI_coords" (.roi pts) := by
    unfold spotAttrs
    simp only [hr, hp]
    rfl
  have hmem : "ROI_coords" ∈ (spotAttrs (attrsMd d) s).map (·.1) := by
    rw [hsa, aset_keys]; exact Or.inl rfl
  rw [aget_append_left _ _ _ hmem, hsa, aget_aset_self]

/-- **C16 (units)**: the space / time units of the four axes are the model's (`pixel` / `frame` when
the attribute is absent) -/
theorem C16_units (d : Doc) (h : WF d) (ds dt : Bool) (out : Out) (hc : convert d ds dt = .ok out) :
    out.spaceUnit = d.space.getD "pixel" ∧ out.timeUnit = d.time.getD "frame" := by
  obtain ⟨_, _, _, _, h5, h6, _⟩ := convert_out d h ds dt out hc
  exact ⟨h5, h6⟩


/-- every value stored under a declared feature name `k` (other than the two names the converter adds)
is the `isint`-typed text of some spot -/
theorem column_values_typed (d : Doc) (h : WF d) (ds dt : Bool) (k : String) (f : Feat)
    (hf : mdLookup (attrsMd d) k = some f) (hk1 : k ≠ "TRACK_ID") (hk2 : k ≠ "ROI_coords") (v : Val)
    (hv : v ∈ (((finalGraph d ds dt).nodes.map (·.2)).map (fun a => aget? a k)).filterMap id) :
    ∃ t, Typed f t v := by
  simp only [List.mem_filterMap, List.mem_map, id] at hv
  obtain ⟨c, ⟨a, ⟨p, hp, rfl⟩, rfl⟩, hc⟩ := hv
  simp only [finalGraph, restrictTo, List.mem_filter, fullGraph, stamped, baseNodes, List.map_map, List.mem_map,
    Function.comp] at hp
  obtain ⟨⟨s, hs, rfl⟩, _⟩ := hp
  obtain ⟨a, ha⟩ := (h.spotOk s hs).conv
  have hst : k ∉ (stampOf (links d) (spotId s)).map (·.1) := by
    unfold stampOf
    cases (links d).find? (fun x => touches x.1 (spotId s)) with
    | none => simp
    | some x => simpa using hk1
  have : aget? (spotAttrs (attrsMd d) s ++ stampOf (links d) (spotId s)) k = aget? a k := by
    have h1 : aget? (spotAttrs (attrsMd d) s ++ stampOf (links d) (spotId s)) k = aget? (spotAttrs (attrsMd d) s) k := by
      by_cases hm : k ∈ (spotAttrs (attrsMd d) s).map (·.1)
      · exact aget_append_left _ _ _ hm
      · rw [aget_append_right _ _ _ hm, aget_none _ _ hst, aget_none _ _ hm]
    rw [h1, aget_spotAttrs _ _ _ hk2, ha]
  simp only at hc
  rw [this] at hc
  obtain ⟨t, _, hconv⟩ := convertAttributes_mem' ha (aget_some_mem a k v hc)
  exact ⟨t, convertOne_declared hf hconv⟩

/-- **C16 (feature dtype)**: a stored spot feature declared `isint="true"` is an integer column (`int64`,
or `uint64` when a value is ≥ 2^63 — numpy's inference); one
declared `isint="false"` is a `float64` column unless some text is not a number (then TrackMate's
string fallback applies). -/
theorem C16_feature_dtype (d : Doc) (h : WF d) (ds dt : Bool) (out : Out) (hc : convert d ds dt = .ok out)
    (p : PropOut) (hp : p ∈ out.nodeProps) (f : Feat) (hf : mdLookup (attrsMd d) p.name = some f)
    (hk1 : p.name ≠ "TRACK_ID") (hk2 : p.name ≠ "ROI_coords") :
    (f.isint = some true → p.col.kind = .int64 ∨ p.col.kind = .uint64) ∧
    (f.isint = some false → (∀ v ∈ p.col.cells.filterMap id, ∀ s, v ≠ .s s) → p.col.kind = .float64) := by
  obtain ⟨_, _, hcols, _⟩ := convert_out d h ds dt out hc
  have hmem : (p.name, p.col) ∈ columns ((finalGraph d ds dt).nodes.map (·.2)) := by
    rw [← hcols]; exact List.mem_map.2 ⟨p, hp, rfl⟩
  simp only [columns, List.mem_map, Prod.mk.injEq] at hmem
  obtain ⟨k, hk, hkn, hcol⟩ := hmem
  rw [← hkn] at hf hk1 hk2
  have hcells : p.col.cells = ((finalGraph d ds dt).nodes.map (·.2)).map (fun a => aget? a k) := by rw [← hcol]
  have hkind : p.col.kind = columnKind (((finalGraph d ds dt).nodes.map (·.2)).map (fun a => aget? a k)) := by rw [← hcol]
  -- the column is not empty: some node has the attribute
  obtain ⟨a, ha, hka⟩ := (propNames_mem _ _).1 hk
  have hne : ((((finalGraph d ds dt).nodes.map (·.2)).map (fun a => aget? a k)).filterMap id).isEmpty = false := by
    cases hv : aget? a k with
    | none => exact absurd hka ((aget_none_iff a k).1 hv)
    | some v =>
      have : v ∈ (((finalGraph d ds dt).nodes.map (·.2)).map (fun a => aget? a k)).filterMap id := by
        simp only [List.mem_filterMap, List.mem_map, id]
        exact ⟨some v, ⟨a, List.mem_map.1 ha, hv⟩, rfl⟩
      cases hl : (((finalGraph d ds dt).nodes.map (·.2)).map (fun a => aget? a k)).filterMap id with
      | nil => rw [hl] at this; cases this
      | cons _ _ => rfl
  have htyped := column_values_typed d h ds dt k f hf hk1 hk2
  constructor
  · intro hint
    rw [hkind]
    apply columnKind_int _ hne
    rw [List.all_eq_true]
    intro v hv
    obtain ⟨t, ht⟩ := htyped v hv
    rcases ht with ⟨_, n, txt, _, rfl⟩ | ⟨hfalse, _⟩
    · rfl
    · rw [hint] at hfalse; cases hfalse
  · intro hflt hnostr
    rw [hkind]
    have hshape : ∀ v ∈ (((finalGraph d ds dt).nodes.map (·.2)).map (fun a => aget? a k)).filterMap id,
        ∃ t, v = .f t := by
      intro v hv
      obtain ⟨t, ht⟩ := htyped v hv
      rcases ht with ⟨htrue, _⟩ | ⟨_, ⟨n, txt, _, rfl⟩ | ⟨s', _, rfl⟩ | ⟨s', _, rfl⟩⟩
      · rw [hflt] at htrue; cases htrue
      · exact ⟨_, rfl⟩
      · exact ⟨_, rfl⟩
      · exact absurd rfl (hnostr _ (by rw [hcells]; exact hv) s')
    have hnotI : ((((finalGraph d ds dt).nodes.map (·.2)).map (fun a => aget? a k)).filterMap id).all isI = false := by
      cases hl : (((finalGraph d ds dt).nodes.map (·.2)).map (fun a => aget? a k)).filterMap id with
      | nil => rw [hl] at hne; cases hne
      | cons v rest =>
        obtain ⟨t, rfl⟩ := hshape v (by rw [hl]; simp)
        simp [isI]
    have hnum : ((((finalGraph d ds dt).nodes.map (·.2)).map (fun a => aget? a k)).filterMap id).all isNum = true := by
      rw [List.all_eq_true]
      intro v hv
      obtain ⟨t, rfl⟩ := hshape v hv
      rfl
    exact columnKind_float _ hne hnotI hnum

/-- the cell of edge `e` under edge property `k` -/
abbrev edgeCell (out : Out) (k : String) (e : Nat × Nat) : Option Val := cellOf out.edges out.edgeProps k e

/-- **C16 (edge features)**: for a kept link and a declared feature `k`, the value stored under `k` on
the edge source → target is the link's attribute text typed by `isint`, and is flagged missing when
the link has no such attribute (`SPOT_SOURCE_ID` / `SPOT_TARGET_ID` are attributes of every link). -/
theorem C16_edge_features (d : Doc) (h : WF d) (ds dt : Bool) (out : Out) (hc : convert d ds dt = .ok out)
    (x : Edge × Val) (hx : x ∈ links d)
    (h1 : keepSpot d ds dt x.1.s = true) (h2 : keepSpot d ds dt x.1.t = true)
    (hkeys : ((edgeTexts x.1).map (·.1)).Nodup)
    (k : String) (f : Feat) (hf : mdLookup (attrsMd d) k = some f) :
    (∀ t, (k, t) ∈ edgeTexts x.1 → ∃ v, edgeCell out k (x.1.s, x.1.t) = some v ∧ Typed f t v) ∧
    (k ∉ (edgeTexts x.1).map (·.1) → edgeCell out k (x.1.s, x.1.t) = none) := by
  obtain ⟨_, he, _, hp, _⟩ := convert_out d h ds dt out hc
  obtain ⟨hkn, hcl⟩ := final_closed d h ds dt
  have hmemE := (mem_final_edges d h ds dt (edgeEntry (attrsMd d) x)).2 ⟨x, hx, rfl, h1, h2⟩
  have hmem : edgeEntry (attrsMd d) x ∈ nxEdges (finalGraph d ds dt) :=
    (mem_nxEdges _ _).2 ⟨hmemE, (hcl _ hmemE).1⟩
  obtain ⟨a, ha⟩ := h.edgesOk.conv x hx
  have hcell : edgeCell out k (x.1.s, x.1.t) = aget? a k := by
    have := cellOf_columns (nxEdges (finalGraph d ds dt)) out.edgeProps hp
      (nxEdges_nodup _ hkn (final_edges_nodup d h ds dt)) k _ hmem
    simp only [edgeCell, he]
    rw [show (x.1.s, x.1.t) = (edgeEntry (attrsMd d) x).1 from rfl, this]
    simp [edgeEntry, edgeAttrs, ha]
  have hak := convertAttributes_keys ha
  constructor
  · intro t ht
    obtain ⟨v, hv, hm⟩ := convertAttributes_mem ha ht
    exact ⟨v, by rw [hcell, aget_of_mem a k v (by rw [hak]; exact hkeys) hm], convertOne_declared hf hv⟩
  · intro hnot
    rw [hcell, aget_none a k (by rw [hak]; exact hnot)]

/-- **C16 (lineage declaration)**: `track_node_props = {"lineage": "TRACK_ID"}` is declared exactly
when some node of the output carries a TRACK_ID (the repaired behaviour: the metadata never names a
property that is not written). -/
theorem C16_lineage_declared (d : Doc) (h : WF d) (ds dt : Bool) (out : Out) (hc : convert d ds dt = .ok out) :
    out.lineageDeclared = true ↔ ∃ s ∈ d.spots, keepSpot d ds dt (spotId s) = true ∧ lone d (spotId s) = false := by
  obtain ⟨_, _, _, _, _, _, hl⟩ := convert_out d h ds dt out hc
  rw [hl]
  simp only [List.any_eq_true, List.mem_map]
  have hkey : ∀ s ∈ d.spots, (ahas (spotAttrs (attrsMd d) s ++ stampOf (links d) (spotId s)) "TRACK_ID" = true ↔
      lone d (spotId s) = false) := by
    intro s hs
    rw [ahas_iff]
    have hno := h.noTrackIdAttr s hs
    simp only [List.map_append, List.mem_append, hno, false_or]
    unfold stampOf lone
    cases hf : (links d).find? (fun x => touches x.1 (spotId s)) with
    | none =>
      simp only [List.map_nil, List.not_mem_nil, false_iff, Bool.not_eq_false]
      rw [List.all_eq_true]
      intro x hx
      have := List.find?_eq_none.1 hf x hx
      simpa using this
    | some x =>
      simp only [List.map_cons, List.map_nil, List.mem_cons, List.not_mem_nil, or_false, true_iff]
      have hx := List.mem_of_find?_eq_some hf
      have ht : touches x.1 (spotId s) = true := by simpa using List.find?_some hf
      cases hall : (tagged (attrsMd d) d.tracks).all (fun x => !touches x.1 (spotId s))
      · rfl
      · rw [List.all_eq_true] at hall
        have := hall x hx
        rw [ht] at this; cases this
  constructor
  · rintro ⟨a, ⟨p, hp, rfl⟩, ha⟩
    simp only [finalGraph, restrictTo, List.mem_filter, fullGraph, stamped, baseNodes, List.map_map, List.mem_map,
      Function.comp] at hp
    obtain ⟨⟨s, hs, rfl⟩, hk⟩ := hp
    exact ⟨s, hs, hk, (hkey s hs).1 ha⟩
  · rintro ⟨s, hs, hk, hl⟩
    refine ⟨_, ⟨(spotId s, spotAttrs (attrsMd d) s ++ stampOf (links d) (spotId s)), ?_, rfl⟩, (hkey s hs).2 hl⟩
    simp only [finalGraph, restrictTo, List.mem_filter, fullGraph, stamped, baseNodes, List.map_map, List.mem_map,
      Function.comp]
    exact ⟨⟨s, hs, rfl⟩, hk⟩

/-! ## Lineage validity of the output -/

/-- the nodes of the output that carry a TRACK_ID, each with it (the nodes whose TRACK_ID is flagged
missing — spots of no track that were kept — belong to no lineage) -/
def labelled (d : Doc) (ds dt : Bool) : List (Nat × Val) :=
  ((spotIds d).filter (keepSpot d ds dt)).filterMap (fun n => (trackIdOf d n).map (fun t => (n, t)))

/-- TrackMate's invariant: a track is connected — any two links with the same track id are joined by
a path of links of that id -/
def TracksConnected (d : Doc) : Prop :=
  ∀ x ∈ links d, ∀ y ∈ links d, x.2 = y.2 →
    Conn (((links d).filter (fun z => z.2 = x.2)).map (fun z => (z.1.s, z.1.t))) x.1.s y.1.s

theorem mem_labelled (d : Doc) (ds dt : Bool) (u : Nat) (l : Val) :
    (u, l) ∈ labelled d ds dt ↔ u ∈ spotIds d ∧ keepSpot d ds dt u = true ∧ trackIdOf d u = some l := by
  unfold labelled
  simp only [List.mem_filterMap, List.mem_filter, Option.map_eq_some_iff, Prod.mk.injEq]
  constructor
  · rintro ⟨n, ⟨hn, hk⟩, t, ht, rfl, rfl⟩; exact ⟨hn, hk, ht⟩
  · rintro ⟨hn, hk, ht⟩; exact ⟨u, ⟨hn, hk⟩, l, ht, rfl, rfl⟩

/-- a kept node of track `l` ⇒ every endpoint of every link of track `l` is kept -/
theorem keep_whole_track (d : Doc) (h : WF d) (ds dt : Bool) (u : Nat) (l : Val)
    (hk : keepSpot d ds dt u = true) (hl : trackIdOf d u = some l)
    (x : Edge × Val) (hx : x ∈ links d) (hxl : x.2 = l) (n : Nat) (hn : touches x.1 n = true) :
    keepSpot d ds dt n = true := by
  have htn : trackIdOf d n = some l := (trackIdOf_iff d h n l).2 ⟨x, hx, hn, hxl⟩
  have hlone : lone d n = false := by
    cases hh : lone d n
    · rfl
    · simp only [lone, List.all_eq_true, Bool.not_eq_eq_eq_not, Bool.not_true] at hh
      rw [hh x hx] at hn; cases hn
  simp only [keepSpot, hlone, Bool.and_false, Bool.not_false, Bool.true_and, htn]
  simp only [keepSpot, hl] at hk
  revert hk
  cases ds && lone d u <;> simp

theorem C16_lineage_valid (d : Doc) (h : WF d) (hconn : TracksConnected d) (ds dt : Bool) (out : Out)
    (hc : convert d ds dt = .ok out) :
    GeffProps.C14.Spec (labelled d ds dt) out.edges := by
  obtain ⟨_, _, hedges⟩ := C16_graph d h ds dt out hc
  -- adjacent nodes of the output are endpoints of one link
  have hadj : ∀ a b, Adj out.edges a b → ∃ x ∈ links d, touches x.1 a = true ∧ touches x.1 b = true ∧
      keepSpot d ds dt a = true ∧ keepSpot d ds dt b = true := by
    intro a b hab
    rcases hab with hab | hab
    · obtain ⟨⟨x, hx, rfl, rfl⟩, h1, h2⟩ := (hedges a b).1 hab
      exact ⟨x, hx, by simp [touches], by simp [touches], h1, h2⟩
    · obtain ⟨⟨x, hx, rfl, rfl⟩, h1, h2⟩ := (hedges b a).1 hab
      exact ⟨x, hx, by simp [touches], by simp [touches], h2, h1⟩
  have hstep : ∀ a b, Adj out.edges a b → trackIdOf d a = trackIdOf d b := by
    intro a b hab
    obtain ⟨x, hx, ha, hb, _, _⟩ := hadj a b hab
    rw [(trackIdOf_iff d h a x.2).2 ⟨x, hx, ha, rfl⟩, (trackIdOf_iff d h b x.2).2 ⟨x, hx, hb, rfl⟩]
  have hpath : ∀ a b, Conn out.edges a b → trackIdOf d a = trackIdOf d b := by
    intro a b hab
    induction hab with
    | refl => rfl
    | tail _ hbc ih => rw [ih]; exact hstep _ _ hbc
  have hends : ∀ x ∈ links d, x.1.s ∈ spotIds d ∧ x.1.t ∈ spotIds d := by
    intro x hx
    have := h.edgesOk.ends x hx
    simpa [baseNodes, List.map_map, Function.comp_def] using this
  constructor
  · intro u l v l' hu hv
    obtain ⟨hus, huk, hul⟩ := (mem_labelled d ds dt u l).1 hu
    obtain ⟨hvs, hvk, hvl⟩ := (mem_labelled d ds dt v l').1 hv
    constructor
    · rintro rfl
      obtain ⟨x, hx, hxu, hxl⟩ := (trackIdOf_iff d h u l).1 hul
      obtain ⟨y, hy, hyv, hyl⟩ := (trackIdOf_iff d h v l).1 hvl
      -- every link of track l is an edge of the output
      have hin : ∀ z ∈ links d, z.2 = l → (z.1.s, z.1.t) ∈ out.edges := by
        intro z hz hzl
        exact (hedges _ _).2 ⟨⟨z, hz, rfl, rfl⟩,
          keep_whole_track d h ds dt u l huk hul z hz hzl _ (by simp [touches]),
          keep_whole_track d h ds dt u l huk hul z hz hzl _ (by simp [touches])⟩
      have hmono : ∀ a b, Conn (((links d).filter (fun z => z.2 = x.2)).map (fun z => (z.1.s, z.1.t))) a b →
          Conn out.edges a b := by
        intro a b hab
        induction hab with
        | refl => exact Relation.ReflTransGen.refl
        | tail _ hpq ih =>
          refine ih.tail ?_
          rcases hpq with hpq | hpq
          · obtain ⟨z, hz, hzk⟩ := List.mem_map.1 hpq
            simp only [List.mem_filter, decide_eq_true_eq] at hz
            cases hzk
            exact Or.inl (hin z hz.1 (hz.2.trans hxl))
          · obtain ⟨z, hz, hzk⟩ := List.mem_map.1 hpq
            simp only [List.mem_filter, decide_eq_true_eq] at hz
            cases hzk
            exact Or.inr (hin z hz.1 (hz.2.trans hxl))
      have hmid : Conn out.edges x.1.s y.1.s := hmono _ _ (hconn x hx y hy (hxl.trans hyl.symm))
      have hux : Conn out.edges u x.1.s := by
        rcases (touches_iff _ _).1 hxu with hh | hh
        · rw [hh]
        · rw [← hh]; exact Relation.ReflTransGen.single (Or.inr (hin x hx hxl))
      have hyv' : Conn out.edges y.1.s v := by
        rcases (touches_iff _ _).1 hyv with hh | hh
        · rw [hh]
        · rw [← hh]; exact Relation.ReflTransGen.single (Or.inl (hin y hy hyl))
      exact (hux.trans hmid).trans hyv'
    · intro huv
      have := hpath u v huv
      rw [hul, hvl] at this
      exact Option.some.inj this
  · intro u l x hu hux
    obtain ⟨hus, huk, hul⟩ := (mem_labelled d ds dt u l).1 hu
    have : x ∈ spotIds d ∧ keepSpot d ds dt x = true ∧ trackIdOf d x = some l := by
      induction hux with
      | refl => exact ⟨hus, huk, hul⟩
      | tail _ hbc ih =>
        obtain ⟨y, hy, ha, hb, _, hkb⟩ := hadj _ _ hbc
        refine ⟨?_, hkb, ?_⟩
        · rcases (touches_iff _ _).1 hb with hh | hh
          · rw [← hh]; exact (hends y hy).1
          · rw [← hh]; exact (hends y hy).2
        · rw [← hstep _ _ hbc]; exact ih.2.2
    exact List.mem_map.2 ⟨(x, l), (mem_labelled d ds dt x l).2 this, rfl⟩

/-- the labelled node list has one entry per node (hypothesis of `C14_iff`), so by `C14_iff` the
model of `validate_lineages` accepts the converter's output on the nodes whose TRACK_ID is present -/
theorem labelled_unique (d : Doc) (ds dt : Bool) :
    ∀ u l l', (u, l) ∈ labelled d ds dt → (u, l') ∈ labelled d ds dt → l = l' := by
  intro u l l' h1 h2
  have a := ((mem_labelled d ds dt u l).1 h1).2.2
  have b := ((mem_labelled d ds dt u l').1 h2).2.2
  rw [a] at b; exact Option.some.inj b

/-- **C16 (lineage validation passes)**: `validate_lineages` (model of C14, proved there to decide the
lineage definition) accepts the output restricted to the nodes whose TRACK_ID is present. -/
theorem C16_lineage_validates (d : Doc) (h : WF d) (hconn : TracksConnected d) (ds dt : Bool) (out : Out)
    (hc : convert d ds dt = .ok out) :
    Geff.Lineage.validateLineages (labelled d ds dt) out.edges = true :=
  (GeffProps.C14.C14_iff _ _ (labelled_unique d ds dt)).2 (C16_lineage_valid d h hconn ds dt out hc)


/-! ## Literal tables of the converter, read off the source (translator T8b → `Gen.TrackMateTables`) -/
open Gen.TrackMateTables in
def renderUnit (space time : String) : List Piece → String
  | [] => ""
  | .lit s :: rest => s ++ renderUnit space time rest
  | .space :: rest => space ++ renderUnit space time rest
  | .time :: rest => time ++ renderUnit space time rest

/-- the model's `unitOf` is the `_DIMENSION_UNIT_TEMPLATES` dict of the working tree: every listed
dimension renders as its lambda does, every other dimension is unknown (`ValueError`) -/
theorem C16_unit_templates_source :
    Gen.TrackMateTables.translationOk = true ∧
    (∀ kv ∈ Gen.TrackMateTables.unitTemplates, ∀ space time : String,
      unitOf kv.1 space time = some (renderUnit space time kv.2)) ∧
    (∀ dim space time : String, dim ∉ Gen.TrackMateTables.unitTemplates.map (·.1) → unitOf dim space time = none) := by
  refine ⟨rfl, ?_, ?_⟩
  · intro kv hkv space time
    simp only [Gen.TrackMateTables.unitTemplates, List.mem_cons, List.not_mem_nil, or_false] at hkv
    rcases hkv with rfl | rfl | rfl | rfl | rfl | rfl | rfl | rfl | rfl | rfl | rfl | rfl | rfl | rfl <;>
      simp [unitOf, renderUnit, String.append_assoc]
  · intro dim space time h
    simp only [Gen.TrackMateTables.unitTemplates, List.map_cons, List.map_nil, List.mem_cons, List.not_mem_nil,
      or_false, not_or] at h
    unfold unitOf
    split <;> simp_all

/-- the four axes, their unit keys and defaults, and the (conditional) lineage declaration are the
ones the model uses (`C16_units`: `pixel` / `frame` defaults; `lineageDeclared` only when a node
carries a TRACK_ID) -/
theorem C16_axes_source :
    Gen.TrackMateTables.axes =
      [("POSITION_X", "space", "spatialunits", "pixel"), ("POSITION_Y", "space", "spatialunits", "pixel"),
       ("POSITION_Z", "space", "spatialunits", "pixel"), ("POSITION_T", "time", "timeunits", "frame")] ∧
    Gen.TrackMateTables.unitDefaults = [("spatialunits", "pixel"), ("timeunits", "frame")] ∧
    Gen.TrackMateTables.lineageKey = "lineage" ∧ Gen.TrackMateTables.lineageProp = "TRACK_ID" ∧
    Gen.TrackMateTables.lineageConditional = true := by decide

/-! ## The executable checks used by the harness imply the hypotheses above -/

theorem metaOkB_sound (d : Doc) (h : metaOkB d = true) : MetaOk d := by
  unfold metaOkB at h
  simp only at h
  cases h1 : processFeatures (d.space.getD "pixel") (d.time.getD "frame") d.sf [] with
  | exc e => rw [h1] at h; cases h
  | ok nmd =>
    cases h2 : processFeatures (d.space.getD "pixel") (d.time.getD "frame") d.ef [] with
    | exc e => rw [h1, h2] at h; cases h
    | ok emd =>
      cases h3 : processFeatures (d.space.getD "pixel") (d.time.getD "frame") d.tf [] with
      | exc e => rw [h1, h2, h3] at h; cases h
      | ok tmd =>
        rw [h1, h2, h3] at h
        simp only [Bool.or_eq_true, Bool.not_eq_eq_eq_not, Bool.not_true] at h
        refine ⟨nmd, emd, tmd, h1, h2, h3, ?_⟩
        intro hs
        rcases h with h | h
        · rw [hs] at h; cases h
        · exact h

theorem tracksConnectedB_sound' (d : Doc) (h : tracksConnectedB d = true) : TracksConnected d :=
  tracksConnectedB_sound d h

/-- **C16, executable form** (what the harness relies on): a document that passes the three executable
checks converts, and its output has every property stated above. -/
theorem C16_checked (d : Doc) (h1 : wfB d = true) (h2 : metaOkB d = true) (h3 : tracksConnectedB d = true)
    (ds dt : Bool) :
    ∃ out, convert d ds dt = .ok out ∧
      out.nodes = (spotIds d).filter (keepSpot d ds dt) ∧
      Geff.Lineage.validateLineages (labelled d ds dt) out.edges = true := by
  obtain ⟨out, hc⟩ := C16_total d (wfB_sound d h1) (metaOkB_sound d h2) ds dt
  exact ⟨out, hc, (C16_graph d (wfB_sound d h1) ds dt out hc).1,
    C16_lineage_validates d (wfB_sound d h1) (tracksConnectedB_sound d h3) ds dt out hc⟩

/-! ## Non-vacuity: a concrete document with a split, a merge-free second track, a lone spot, an
int and a float feature on subsets, ROIs, and a FilteredTracks list -/

def F (n : String) (b : Bool) (dim : String) : Feat := { name := n, isint := some b, dim := some dim }

def demoSpot (i : Nat) (frame : Int) (extra : List (String × Txt)) : Spot :=
  { id := some i, name := some ("ID" ++ toString i),
    feats := [("POSITION_X", .flt "1.5"), ("FRAME", .int frame (toString frame))] ++ extra,
    roi := some { nPoints := 2, pts := some [["0.5", "1.5"], ["2.5", "-3.5"]] } }

def demo : Doc :=
  { space := some "micrometer", time := none,
    sf := [F "POSITION_X" false "POSITION", F "FRAME" true "NONE", F "AREA" false "AREA", F "COUNT" true "NONE"],
    ef := [F "SPOT_SOURCE_ID" true "NONE", F "SPOT_TARGET_ID" true "NONE", F "LINK_COST" false "COST"],
    tf := [F "TRACK_ID" true "NONE"],
    spots := [demoSpot 1 0 [("AREA", .flt "NaN")], demoSpot 2 1 [("COUNT", .int 7 "7")], demoSpot 3 1 [],
              demoSpot 4 0 [], demoSpot 5 1 [], demoSpot 6 1 []],
    tracks := [{ id := some (.int 0 "0"), feats := [],
                 edges := [{ s := 1, t := 2, feats := [("LINK_COST", .flt "0.5")] }, { s := 1, t := 3, feats := [] }] },
               { id := some (.int 4 "4"), feats := [], edges := [{ s := 4, t := 5, feats := [] }] }],
    filtered := some [4] }

example : wfB demo = true ∧ metaOkB demo = true ∧ tracksConnectedB demo = true := by decide
example : (spotIds demo).filter (keepSpot demo false false) = [1, 2, 3, 4, 5, 6] := by decide
example : (spotIds demo).filter (keepSpot demo true false) = [1, 2, 3, 4, 5] := by decide      -- lone spot 6 goes
example : (spotIds demo).filter (keepSpot demo false true) = [4, 5] := by decide               -- only track 4 is listed
example : trackIdOf demo 3 = some (.i 0) ∧ trackIdOf demo 6 = none := by decide
example : isOk (convert demo false true) = true := by decide

end GeffProps.C16
