import GeffModel.TrackMate
/-! # C16 — TrackMate conversion preserves spots, links, features and tracks (theorems: in progress) -/
namespace GeffProps.C16
open Geff.TrackMate

/-- placeholder non-vacuity: the empty document converts to the empty graph -/
theorem C16_empty_doc :
    convert { space := none, time := none, sf := [], ef := [], tf := [], spots := [], tracks := [], filtered := none }
      false false
    = .ok { nodes := [], edges := [], nodeProps := [], edgeProps := [], spaceUnit := "pixel", timeUnit := "frame",
            lineageDeclared := false, segmentation := false } := by decide

end GeffProps.C16
