import GeffProofs.DictLayerGen
import GeffProps.C03
/-! # C03 on the dict layer as it is written now (translator T23)

`Gen/DictLayer.lean` is regenerated on every run from `geff/core_io/_base_write.py`:
`_determine_default_value`, `dict_props_to_arr` and `write_dicts` (up to its call of `write_arrays`,
a parameter), statement by statement, as Lean `do`-blocks in
`Except Geff.Dicts.Err` over the primitives of `GeffModel/PyDoDicts.lean` (loops over the
`(id, attr-dict)` pairs, `in` / `[k]` with `KeyError`, the `isinstance` dispatch with `bool` a
subclass of `int`, `type(v)(0)`, `np.asarray` with numpy's "inhomogeneous" `ValueError`,
`_exact_int_array`, the `try / except ValueError` fallback to `construct_var_len_props`, the OR of the
two missing masks).  This file proves that the generated functions ARE the hand-written model
(`Geff.Dicts.determineDefaultValue`, `dictPropsToArr`, `writeDicts`) every theorem of `GeffProps/C03.lean` is
about, and restates the dict-layer theorems on the generated functions directly — so an edit of the
Python source that changes what the dict layer computes breaks a proof obligation here (and the
check then searches for a failing input), while the hand-written model is no longer only *compared*
with the code but *derived* from it.

Property theorems only; helper lemmas in `GeffProofs/DictLayerGen.lean`. -/
namespace GeffProps.C03Gen
open Geff.Np Geff.Dicts Geff.PyDoDicts GeffProofs.DictLayerGen

/-- the translator accepted every statement of the translated functions -/
theorem translated : Gen.DictLayer.translationOk = true := by decide

/-- **`_determine_default_value` as written = the model**, for every element list and property
name: it never raises, and returns the model's fill value. -/
theorem C03Gen_default_is_model {ι : Type} (data : List (ι × Attrs)) (name : String) :
    Gen.DictLayer.determineDefaultValue data name = .ok (determineDefaultValue data name) :=
  ddv_eq data name

/-- **the fill value as written keeps the kind of the first present value** (repair of D2: a bool
property is filled with `False`, not with the integer `0`): when `v` is the first present value the
generated function returns a value of `v`'s kind — the zero of `v`'s own type for the four scalar
kinds, `v` itself for a list / array / `None`. -/
theorem C03Gen_default_fill_kind {ι : Type} (data : List (ι × Attrs)) (name : String) (v : PyVal)
    (h : data.findSome? (fun d => d.2.lookup name) = some v) :
    ∃ z, Gen.DictLayer.determineDefaultValue data name = .ok z ∧ z.kind = v.kind ∧
      (∀ b, v = .sc (.b b) → z = .sc (.b false)) ∧ (∀ i, v = .sc (.i i) → z = .sc (.i 0)) ∧
      (∀ f, v = .sc (.f f) → z = .sc (.f zeroBits)) ∧ (∀ s, v = .sc (.s s) → z = .sc (.s "")) ∧
      (v.kind = some .array ∨ v.kind = none → z = v) := by
  refine ⟨defaultFor v, ?_, ?_⟩
  · rw [C03Gen_default_is_model]; simp only [determineDefaultValue, h]
  · cases v with
    | sc x => cases x <;> simp [defaultFor, PyVal.kind, valKind]
    | arr sh fl => simp [defaultFor, PyVal.kind]
    | none => simp [defaultFor, PyVal.kind]

/-- **`dict_props_to_arr` as written = the model**, for every element list and every list of
property names, up to the packaging of the result: the Python function stores the columns in a dict
(`props_dict[name] = …`), the model returns them as a list in the order of the names; the generated
function returns the model's list folded into a dict, and fails exactly where the model fails, with
the model's first error. -/
theorem C03Gen_dict_props_is_model {ι : Type} (data : List (ι × Attrs)) (names : List String) :
    Gen.DictLayer.dictPropsToArr data names =
      (match dictPropsToArr data names with
        | .ok l => .ok (l.foldl (fun d kv => dictSetItem d kv.1 kv.2) [])
        | .error e => .error e) :=
  dpa_eq data names

/-- … and for distinct property names (what every writer passes: the keys of a set / dict) the two
are EQUAL. -/
theorem C03Gen_dict_props_is_model_nodup {ι : Type} (data : List (ι × Attrs)) (names : List String)
    (hn : names.Nodup) :
    Gen.DictLayer.dictPropsToArr data names = dictPropsToArr data names :=
  dpa_eq_nodup data names hn

/-- the one-property call of the generated function -/
theorem gen_single {ι : Type} (data : List (ι × Attrs)) (name : String) (c : Col)
    (h : dictPropToArr data name = .ok c) :
    Gen.DictLayer.dictPropsToArr data [name] = .ok [(name, c)] := by
  rw [C03Gen_dict_props_is_model_nodup data [name] (by simp)]
  simp [dictPropsToArr, mapE, namedCol, h]

/-- **C03 (dict layer) on the generated code** — `C03_dict_layer` transported: for a property whose
present values are all scalars or all lists of one shape with leaves of one class, on any subset of
the elements, `dict_props_to_arr` *as written* builds one column in which element `i` is marked
missing iff it lacks the property and every present entry reads back as exactly the value given
(same kind). -/
theorem C03Gen_dict_layer {ι : Type} (K : LeafClass) (sh : Option (List Nat)) (data : List (ι × Attrs))
    (name : String) (h : RegularVals K sh (present data name)) :
    ∃ c, Gen.DictLayer.dictPropsToArr data [name] = .ok [(name, c)] ∧ c.WF data.length ∧
      ∀ i (hi : i < data.length), c.entry i = (data[i]).2.lookup name := by
  obtain ⟨c, hc, hwf, hent⟩ := GeffProps.C03.C03_dict_layer K sh data name h
  exact ⟨c, gen_single data name c hc, hwf, hent⟩

/-- **C03 (dict layer, ragged lists) on the generated code** — `C03_dict_layer_ragged` transported. -/
theorem C03Gen_dict_layer_ragged {ι : Type} (K : LeafClass) (r w : Nat) (data : List (ι × Attrs))
    (name : String) (h : RaggedVals K r w (present data name)) :
    ∃ c, Gen.DictLayer.dictPropsToArr data [name] = .ok [(name, c)] ∧ c.WF data.length ∧
      ∀ i (hi : i < data.length), c.entry i = (data[i]).2.lookup name := by
  obtain ⟨c, hc, hwf, hent⟩ := GeffProps.C03.C03_dict_layer_ragged K r w data name h
  exact ⟨c, gen_single data name c hc, hwf, hent⟩

/-- **C03 (dict layer, `None` entries — repair C03-06) on the generated code** —
`C03_dict_layer_none` transported: an element is flagged missing iff it lacks the attribute or
holds `None`, every list reads back exactly. -/
theorem C03Gen_dict_layer_none {ι : Type} (K : LeafClass) (r w : Nat) (data : List (ι × Attrs)) (name : String)
    (h : RaggedVals K r w ((present data name).filter (fun x => !x.isNone)))
    (harr : ∃ x ∈ present data name, x.isArr = true)
    (hnone : ∃ x ∈ filledValues data name, x.isNone = true) :
    ∃ c, Gen.DictLayer.dictPropsToArr data [name] = .ok [(name, c)] ∧ c.WF data.length ∧
      ∀ i (hi : i < data.length), c.entry i = shown ((data[i]).2.lookup name) := by
  obtain ⟨c, hc, hwf, hent⟩ := GeffProps.C03.C03_dict_layer_none K r w data name h harr hnone
  exact ⟨c, gen_single data name c hc, hwf, hent⟩

/-- **C03 (round trip of the attribute dicts through the array layer) on the generated code**: for
distinct property names that are in the documented domain on `data` (`PropDomain`: regular or
ragged) and cover every key that occurs, `dict_props_to_arr` *as written* succeeds, returns one
well-formed column per name in the order of the names, and the columns denote exactly the given
dicts: element `k` shows attribute `name` iff its dict has it, with the same value and kind
(`memAttr` is the reading side's view of the columns — absent stays absent, no fill value shows). -/
theorem C03Gen_dict_roundtrip {ι : Type} (data : List (ι × Attrs)) (names : List String)
    (hn : names.Nodup)
    (hreg : ∀ n ∈ names, PropDomain (present data n))
    (hcover : ∀ d ∈ data, ∀ n v, d.2.lookup n = some v → n ∈ names) :
    ∃ props, Gen.DictLayer.dictPropsToArr data names = .ok props ∧ props.map (·.1) = names ∧
      (∀ p ∈ props, p.2.WF data.length) ∧
      ∀ k (hk : k < data.length) name, memAttr props k name = (data[k]).2.lookup name := by
  rw [C03Gen_dict_props_is_model_nodup data names hn]
  exact dictPropsToArr_spec data names hreg hcover

/-! ## non-vacuity: the generated functions run -/

open GeffProps.C03 in
example : Gen.DictLayer.determineDefaultValue exG.nodes "f" = .ok (.sc (.b false)) := by decide
open GeffProps.C03 in
example : Gen.DictLayer.determineDefaultValue exG.nodes "p" = .ok (.sc (.i 0)) := by decide
open GeffProps.C03 in
example : Gen.DictLayer.determineDefaultValue exG.nodes "nobody" = .ok (.sc (.i 0)) := by decide
open GeffProps.C03 in
example : exG.nodes.findSome? (fun d => d.2.lookup "f") = some (.sc (.b true)) := by decide

/-- bool stays bool under a missing element (D2), 2^63+1 stays exact next to 5 and a fill (D21) -/
example : Gen.DictLayer.dictPropsToArr GeffProps.C03.exG.nodes ["f", "p"] =
    .ok [("f", ⟨.bool, false, [([], [.b true]), ([], [.b false]), ([], [.b false])], some [false, true, false]⟩),
         ("p", ⟨.u64, false, [([], [.i 9223372036854775809]), ([], [.i 5]), ([], [.i 0])], some [false, false, true]⟩)] := by
  decide

/-- the ragged fallback (`except ValueError`) and the `None` mask of the generated code -/
example : (Gen.DictLayer.dictPropsToArr GeffProps.C03.exNone ["p"]).toOption.map
    (fun cols => cols.map (fun c => (c.2.varlen, c.2.missing))) = some [(true, some [true, true, false])] := by
  decide
example : (Gen.DictLayer.dictPropsToArr GeffProps.C03.exNone ["p"]).toOption.map
    (fun cols => cols.map (fun c => c.2.entry 2)) =
    some [some (.arr [2] [.f "0000000000002540", .f "0000000000002740"])] := by
  decide

example : (Gen.DictLayer.dictPropsToArr GeffProps.C03.exRag ["r"]).toOption.map
    (fun cols => cols.map (fun c => (c.2.varlen, c.2.entry 0, c.2.entry 1, c.2.entry 2))) =
    some [(true, some (.arr [2] [.i 1, .i 2]), none, some (.arr [1] [.i 7]))] := by decide

/-- error branches of the generated code: `OverflowError` of `_exact_int_array` (not caught by
`except ValueError`), the unmodelled object array -/
example : (Gen.DictLayer.dictPropsToArr [((0 : Int), [("p", PyVal.sc (.i (-1)))]), (1, [("p", .sc (.i 9223372036854775808))])] ["p"]).map
    (fun _ => ()) = .error .overflowError := by decide
example : (Gen.DictLayer.dictPropsToArr [((0 : Int), [("p", PyVal.none)]), (1, [("p", .sc (.i 1))])] ["p"]).map
    (fun _ => ()) = .error (.unmodelled "object array holding None") := by decide

/-- a duplicated property name: the Python dict keeps one entry (packaging difference made explicit
in `C03Gen_dict_props_is_model`) -/
example : (Gen.DictLayer.dictPropsToArr GeffProps.C03.exRag ["r", "r"]).toOption.map (·.length) = some 1 := by decide
example : (dictPropsToArr GeffProps.C03.exRag ["r", "r"]).toOption.map (·.length) = some 2 := by decide

/-- the hypotheses of `C03Gen_dict_roundtrip` are satisfiable -/
example : (["f", "p", "v"] : List String).Nodup := by decide

/-! ## `write_dicts` -/

/-- **`write_dicts` as written = the model** (translated up to its call of `write_arrays`, which is
the parameter `writeArrays`; `remove_tilde` is the parameter `removeTilde`): for every store, element
lists, metadata and options, and distinct property names, the generated function fails exactly
where the model `Dicts.writeDicts` fails (negative node id: `ValueError`; an id outside uint64:
`OverflowError`; the first failing property), and otherwise calls `write_arrays` ONCE with the
tilde-expanded store, the model's node ids and edge ids as uint64 arrays — exact for ids on both
sides of 2^63 (repair C03-02 / D18) —, the model's property columns, and the caller's own
`metadata`, `zarr_format`, `structure_validation`, each under the parameter of that name
(`node_props_unsquish`, `edge_props_unsquish`, `overwrite` left at their defaults `None`, `None`,
`False`, re-read from the signature).  `directed` is not used by `write_dicts` (it travels in the
metadata), hence arbitrary. -/
theorem C03Gen_write_dicts_is_model {σ μ φ ρ : Type} (removeTilde : σ → σ)
    (writeArrays : WriteArraysArgs σ μ φ → Except Err ρ)
    (geffStore : σ) (nodeData : List (Int × Attrs)) (edgeData : List ((Int × Int) × Attrs))
    (nodePropNames edgePropNames : List String) (metadata : μ) (zarrFormat : φ) (structureValidation : Bool)
    (directed : Bool) (hn : nodePropNames.Nodup) (he : edgePropNames.Nodup) :
    Gen.DictLayer.writeDicts removeTilde writeArrays geffStore nodeData edgeData nodePropNames edgePropNames
        metadata zarrFormat structureValidation =
      (match writeDicts directed nodeData edgeData nodePropNames edgePropNames with
        | .error e => .error e
        | .ok m => writeArrays { geffStore := removeTilde geffStore, nodeIds := ⟨.u64, m.nodeIds⟩, nodeProps := m.nodeProps,
                                 edgeIds := ⟨.u64, m.edgeIds⟩, edgeProps := m.edgeProps, metadata := metadata,
                                 zarrFormat := zarrFormat, structureValidation := structureValidation }) :=
  wd_eq_model removeTilde writeArrays geffStore nodeData edgeData nodePropNames edgePropNames metadata zarrFormat
    structureValidation directed hn he

/-- … and without any hypothesis on the names, with the generated `dict_props_to_arr` in place of
the model's (`writeDictsSpec`: the model's id arrays `nodeIdArr` / `edgeIdArr`, then the two
property dicts, then the call). -/
theorem C03Gen_write_dicts_spec {σ μ φ ρ : Type} (removeTilde : σ → σ)
    (writeArrays : WriteArraysArgs σ μ φ → Except Err ρ)
    (geffStore : σ) (nodeData : List (Int × Attrs)) (edgeData : List ((Int × Int) × Attrs))
    (nodePropNames edgePropNames : List String) (metadata : μ) (zarrFormat : φ) (structureValidation : Bool) :
    Gen.DictLayer.writeDicts removeTilde writeArrays geffStore nodeData edgeData nodePropNames edgePropNames
        metadata zarrFormat structureValidation =
      writeDictsSpec removeTilde writeArrays geffStore nodeData edgeData nodePropNames edgePropNames
        metadata zarrFormat structureValidation :=
  wd_eq removeTilde writeArrays geffStore nodeData edgeData nodePropNames edgePropNames metadata zarrFormat
    structureValidation

/-- **the ids `write_dicts` as written stores are the graph's ids**: whenever the generated function
reaches `write_arrays`, the node-id array is exactly the list of node ids (all in `[0, 2^64)`) and the
edge-id array exactly the list of edge ids, both uint64 — in particular for ids on both sides of
2^63, which numpy's inference alone would have rounded through float64 (D18). -/
theorem C03Gen_write_dicts_ids_exact {σ μ φ : Type} (removeTilde : σ → σ)
    (geffStore : σ) (nodeData : List (Int × Attrs)) (edgeData : List ((Int × Int) × Attrs))
    (nodePropNames edgePropNames : List String) (metadata : μ) (zarrFormat : φ) (structureValidation : Bool)
    (args : WriteArraysArgs σ μ φ)
    (h : Gen.DictLayer.writeDicts removeTilde (fun a => .ok a) geffStore nodeData edgeData nodePropNames edgePropNames
        metadata zarrFormat structureValidation = .ok args) :
    args.nodeIds = ⟨.u64, nodeData.map (·.1)⟩ ∧ args.edgeIds = ⟨.u64, edgeData.map (·.1)⟩ ∧
      (∀ v ∈ nodeData.map (·.1), 0 ≤ v ∧ v < two64) := by
  rw [C03Gen_write_dicts_spec] at h
  unfold writeDictsSpec at h
  simp only [idsOf] at h
  cases hn : nodeIdArr (nodeData.map (·.1)) with
  | error e => simp [hn] at h
  | ok nodes =>
    cases he : edgeIdArr (edgeData.map (·.1)) with
    | error e => simp [hn, he] at h
    | ok edges =>
      simp only [hn, he] at h
      cases hp : Gen.DictLayer.dictPropsToArr nodeData nodePropNames with
      | error e => simp [hp] at h
      | ok np =>
        cases hq : Gen.DictLayer.dictPropsToArr edgeData edgePropNames with
        | error e => simp [hp, hq] at h
        | ok ep =>
          simp only [hp, hq, Except.ok.injEq] at h
          subst h
          unfold nodeIdArr at hn
          unfold edgeIdArr at he
          split at hn
          · cases hn
          · split at hn
            · cases hn
              split at he
              · cases he
                refine ⟨rfl, rfl, ?_⟩
                intro v hv
                rename_i h1 h2 _
                have h1' : ¬ (v < 0) := fun hlt => h1 (List.any_eq_true.2 ⟨v, hv, by simpa using hlt⟩)
                have h2' := List.all_eq_true.1 h2 v hv
                exact ⟨by omega, by simpa using h2'⟩
              · cases he
            · cases hn

/-- the generated `write_dicts` runs: ids 5, 2^64-1, 7 (numpy alone: float64 → 2^64-1 becomes 0) are
handed to `write_arrays` exactly (D18); a negative id is `ValueError`, an id ≥ 2^64 `OverflowError` -/
example : (Gen.DictLayer.writeDicts (σ := String) (μ := Unit) (φ := Nat) id (fun a => .ok a) "s"
      [(5, []), (18446744073709551615, []), (7, [])] [((5, 18446744073709551615), [])] [] [] () 2 true).toOption.map
      (fun a => (a.nodeIds, a.edgeIds, a.zarrFormat, a.structureValidation, a.geffStore)) =
    some (⟨.u64, [5, 18446744073709551615, 7]⟩, ⟨.u64, [(5, 18446744073709551615)]⟩, 2, true, "s") := by decide
example : (Gen.DictLayer.writeDicts (σ := String) (μ := Unit) (φ := Nat) id (fun a => .ok a) "s"
      [(5, []), (-1, [])] [] [] [] () 2 true).map (fun _ => ()) = .error .valueError := by decide
example : (Gen.DictLayer.writeDicts (σ := String) (μ := Unit) (φ := Nat) id (fun a => .ok a) "s"
      [(5, []), (18446744073709551616, [])] [] [] [] () 2 true).map (fun _ => ()) = .error .overflowError := by decide
example : (Gen.DictLayer.writeDicts (σ := String) (μ := Unit) (φ := Nat) id (fun a => .ok a) "s"
      [] [] [] [] () 3 false).toOption.map (fun a => (a.nodeIds, a.edgeIds)) = some (⟨.u64, []⟩, ⟨.u64, []⟩) := by decide

end GeffProps.C03Gen
