import GeffProofs.KVTorn
/-! # C05, history dimension — writes that start on what an interrupted write left behind

Model: `GeffModel/KVTorn.lean` (`writeArraysT`, `writeDictsT`, `apiWriteT`): the write path of
`GeffModel/KV.lean` with the verdict of the final `validate_structure` **taken on the store as it was
committed** (`verdict f g s = g.valid ∧ no member of nodes/props or edges/props that the call did not
write`).  A store object's guard (`check_for_geff`) looks at the `geff` attribute only, so a store torn by
an earlier interrupted write is not deleted — not even with `overwrite=True` — and the write goes on top of
it; left-over property groups of the same name make zarr raise (`ContainsGroupError`, before the commit),
left-over members of other names make the final validation reject: `ValueError` after the clean-up.
The driver of C05 runs this model; the recorded real traces (single writes and histories of interrupted
writes) are compared with it mutation by mutation (`harness/corr/C05.py`, `harness/corr/_c05_hist.py`).

**Full statement of the history dimension** (not proved as one theorem, see `…_partial` below): for every
sequence of writes on one target, each interrupted at an arbitrary mutation or not at all, every
intermediate and final store is rejected, or reads as the graph of the last completed-or-interrupted write,
or as what it read as before that write when that was a recognised graph; foreign members unchanged.

What is proved here, for every store, graph, flag and crash point (no bound):
* `C05_model_with_store_verdict`: the corrected model performs exactly the mutations of the original model
  run with the store verdict as its input, so the single-write theorems of `GeffProps/C05.lean` (stated for
  all graphs and all verdicts) hold of it: `C05T_every_crash_point`, `C05T_every_crash_point_api`,
  `C05T_cleanup`;
* `C05_verdict_on_clean_store`, `C05_corrected_model_is_original_on_clean_stores`: where no left-over is
  around (no geff-owned key at the start of the body: no geff, or a geff that is overwritten) the verdict is
  the input verdict and the corrected model is the original one;
* `C05_torn_closed_under_interrupted_writes`: the stores interrupted writes leave behind (`Torn`) are
  closed under further interrupted writes, up to the commit;
* `C05_torn_every_crash_point_partial`: every crash point of a write started on a torn store;
* `C05_torn_rejected_write_cleans_up`: a write on a torn store that validation rejects (left-overs!) ends
  with `ValueError`, removes everything geff-owned (the left-overs included) and keeps the foreign members.

Missing for the full statement: (1) `DeleteSafe` of the store committed on top of a torn store is a
hypothesis of `C05_torn_every_crash_point_partial` (needed on MemoryStore-like kinds for the crash points
inside the clean-up; evaluated as `deleteSafeB` on every real torn history by the harness, not derived from
an invariant of the torn pre-state — a concurrent sibling of a failed mutation can put `nodes/.zattrs`
before `nodes/.zgroup`); (2) the induction over the sequence that glues the single-write theorems (`PreOK`
pre-states) and the torn-store theorems together, with the stores of an interrupted *deletion* (geff
attribute still there, `nodes` unreadable) as the third kind of intermediate store; (3) "reads as the new
graph" is equality with the model's committed store, which on a torn pre-state still contains the invisible
left-overs (keys without node document). -/
namespace GeffProps.C05Hist
open Geff.KV Geff.KV.Prog Gen.Paths

/-- the corrected model = the original model run with the verdict taken on the committed store -/
theorem C05_model_with_store_verdict (d : Docs) (kind : Kind) (f : Fmt) (g : G) (overwrite validate : Bool)
    (kv₀ : KV) :
    writeArraysT d kind f g overwrite validate kv₀ =
      writeArrays d kind f (withValid g (verdict f g (committedStore d kind f g overwrite kv₀)))
        overwrite validate kv₀ ∧
    apiWriteT d kind f g overwrite validate kv₀ =
      apiWrite d kind f (withValid g (verdict f g (apiCommittedStore d kind f g overwrite kv₀)))
        overwrite validate kv₀ :=
  ⟨writeArraysT_eq d kind f g overwrite validate kv₀, apiWriteT_eq d kind f g overwrite validate kv₀⟩

/-- `C05_every_crash_point` for the corrected model (admissible pre-states: empty, foreign members only,
or a geff of the same zarr format) -/
theorem C05T_every_crash_point (d : Docs) (kind : Kind) (f : Fmt) (g : G) (overwrite validate : Bool)
    (kv₀ : KV) (hpre : PreOK kind f overwrite kv₀) (k : Nat) :
    let kv := run kv₀ ((writeArraysT d kind f g overwrite validate kv₀).ops.take k)
    let w := writeCommitted d kind f g overwrite kv₀
    recognised f kv = false ∨ (w.val = .ok () ∧ kv = run kv₀ w.ops) ∨ kv = kv₀ :=
  writeArraysT_crash d kind f g overwrite validate kv₀ hpre k

/-- the same for `geff.write` (every backend) and the converters -/
theorem C05T_every_crash_point_api (d : Docs) (kind : Kind) (f : Fmt) (g : G) (overwrite validate : Bool)
    (kv₀ : KV) (hpre : PreOK kind f overwrite kv₀) (k : Nat) :
    let kv := run kv₀ ((apiWriteT d kind f g overwrite validate kv₀).ops.take k)
    let w := apiCommitted d kind f g overwrite kv₀
    recognised f kv = false ∨ (w.val = .ok () ∧ kv = run kv₀ w.ops) ∨ kv = kv₀ :=
  apiWriteT_crash d kind f g overwrite validate kv₀ hpre k

/-- `C05_cleanup` for the corrected model: whenever the verdict on the committed store is `false` — the
graph is invalid **or left-over property members are in the way** -/
theorem C05T_cleanup (d : Docs) (kind : Kind) (f : Fmt) (g : G) (overwrite : Bool) (kv₀ : KV)
    (hstart : CleanS f kv₀ ∨ (overwrite = true ∧ HoldsGeff f kv₀))
    (hvis : kind = .path → ForeignVisible f kv₀)
    (hcommit : (writeCommitted d kind f g overwrite kv₀).val = .ok ())
    (hrej : verdict f g (committedStore d kind f g overwrite kv₀) = false) :
    (writeArraysT d kind f g overwrite true kv₀).val = .error .valueError ∧
    ownedPart (run kv₀ (writeArraysT d kind f g overwrite true kv₀).ops) = [] ∧
    geffAttrIn f (run kv₀ (writeArraysT d kind f g overwrite true kv₀).ops) = none ∧
    foreignPart (run kv₀ (writeArraysT d kind f g overwrite true kv₀).ops) = foreignPart kv₀ := by
  rw [writeArraysT_eq, hrej]
  exact cleanup_spec d kind f (withValid g false) overwrite kv₀ hstart hvis hcommit rfl

/-- **the correction changes nothing where the single-write theorems and their hypotheses live**: the body
of a write started on a store without geff-owned keys leaves no member in `nodes/props` / `edges/props` but
the properties it writes, so the verdict on the committed store is the input verdict `g.valid` … -/
theorem C05_verdict_on_clean_store (d : Docs) (kind : Kind) (f : Fmt) (g : G) (s : KV)
    (h : ownedPart s = []) : verdict f g (run s (writeBody d kind f g s).ops) = g.valid :=
  verdict_of_clean d kind f g s h

/-- … and on every store without geff (`CleanS`) or holding one that is overwritten (`HoldsGeff`) the
corrected model **is** the original model (same mutations, same outcome) -/
theorem C05_corrected_model_is_original_on_clean_stores (d : Docs) (kind : Kind) (f : Fmt) (g : G)
    (overwrite validate : Bool) (kv₀ : KV)
    (hstart : CleanS f kv₀ ∨ (overwrite = true ∧ HoldsGeff f kv₀))
    (hvis : kind = .path → ForeignVisible f kv₀) :
    writeArraysT d kind f g overwrite validate kv₀ = writeArrays d kind f g overwrite validate kv₀ :=
  writeArraysT_eq_of_clean d kind f g overwrite validate kv₀ hstart hvis

/-- **torn stores are closed under interrupted writes** — a store without geff attribute (and without a
root document of the other zarr format) on which the body of a write is interrupted at **any** mutation `k`
is such a store again; only the very last mutation (the commit) ends this -/
theorem C05_torn_closed_under_interrupted_writes (d : Docs) (kind : Kind) (f : Fmt) (g : G) (kv₀ : KV)
    (h : Torn f kv₀) (k : Nat) :
    let body := writeBody d kind f g kv₀
    let t := run kv₀ (body.ops.take k)
    Torn f t ∨ (body.val = .ok () ∧ t = run kv₀ body.ops) :=
  writeBody_torn d kind f g kv₀ h k

/-- the executable invariant the harness evaluates on every real pre-state is `Torn`; the empty store is
torn; a torn store is not recognised -/
theorem C05_tornOkB_iff (f : Fmt) (s : KV) : tornOkB f s = true ↔ Torn f s := tornOkB_iff f s
theorem C05_torn_empty (f : Fmt) : Torn f [] := torn_nil f
theorem C05_torn_not_recognised (f : Fmt) (s : KV) (h : Torn f s) : recognised f s = false :=
  not_recognised_of_torn h

/-- **every crash point of a write started on a torn store** that the guard does not take for a geff
(`check_for_geff = false`: on store objects every torn store), whatever `overwrite` says: the store after a
storage failure at mutation `k` is not recognised as a geff, or is exactly the store the write committed
(which the call then validates: see `C05_torn_rejected_write_cleans_up` for the rejected case).
`_partial`: `hsafe` (the committed store is `DeleteSafe`, needed on MemoryStore-like kinds for the crash
points inside the clean-up) is assumed, not derived from the torn pre-state. -/
theorem C05_torn_every_crash_point_partial (d : Docs) (kind : Kind) (f : Fmt) (g : G)
    (overwrite validate : Bool) (kv₀ : KV)
    (hc : checkForGeff kind kv₀ = false) (h : Torn f kv₀)
    (hsafe : (writeBody d kind f g kv₀).val = .ok () → kind = .mem →
      DeleteSafe f (run kv₀ (writeBody d kind f g kv₀).ops)) (k : Nat) :
    let t := run kv₀ ((writeArraysT d kind f g overwrite validate kv₀).ops.take k)
    recognised f t = false ∨
      ((writeBody d kind f g kv₀).val = .ok () ∧ t = run kv₀ (writeBody d kind f g kv₀).ops) := by
  intro t
  rcases writeArraysT_torn_crash d kind f g overwrite validate kv₀ hc h hsafe k with ht | ht | ht
  · exact Or.inl (not_recognised_of_torn ht)
  · exact Or.inl (not_recognised_of_broken ht)
  · exact Or.inr ht

/-- **the false alarm, as a theorem**: a write on top of a torn store whose committed store validation
rejects — because left-over property members of the interrupted write are still there, or because the
graph is invalid — ends with `ValueError`; the clean-up removes every geff-controlled key (the left-overs
included) and the geff attribute and keeps every foreign member byte for byte.  Afterwards the target is
not recognised (`C05_torn_not_recognised` applies to it again). -/
theorem C05_torn_rejected_write_cleans_up (d : Docs) (kind : Kind) (f : Fmt) (g : G) (overwrite : Bool)
    (kv₀ : KV) (hc : checkForGeff kind kv₀ = false) (h : Torn f kv₀)
    (hvis : kind = .path → ForeignVisible f kv₀)
    (hbody : (writeBody d kind f g kv₀).val = .ok ())
    (hrej : verdict f g (run kv₀ (writeBody d kind f g kv₀).ops) = false) :
    let r := writeArraysT d kind f g overwrite true kv₀
    r.val = .error .valueError ∧
    ownedPart (run kv₀ r.ops) = [] ∧ geffAttrIn f (run kv₀ r.ops) = none ∧
    foreignPart (run kv₀ r.ops) = foreignPart kv₀ :=
  writeArraysT_torn_rejected d kind f g overwrite kv₀ hc h hvis hbody hrej

/-! ### non-vacuity: the alarm's history, in the model

`A` (property `t`, with a missing mask) is written into an empty MemoryStore and interrupted after 30
mutations (the property group `nodes/props/t` is there, the metadata is not); then `B` (property `u`) is
written with `overwrite=True`. -/

def exDocs : Docs := { zgroup := "zg", zattrs := "za", gjson := "gj", emptyOther := "{}" }
def exArr (m : String) (c : List (String × Option String)) : Arr := { mdoc := m, chunks := c }
def exG (tag prop : String) : G :=
  { nodeIds := exArr (tag ++ "n") [("0", some (tag ++ "n0"))],
    edgeIds := exArr (tag ++ "e") [("0.0", some (tag ++ "e0"))],
    nodeProps := some [{ name := prop, values := exArr (tag ++ "v") [("0", some (tag ++ "v0"))],
                         missing := none, data := none }],
    edgeProps := some [], geff := tag ++ "meta", valid := true }

/-- the torn store: the first 30 mutations of the write of `A` -/
def exTorn : KV := run [] ((writeArraysT exDocs .mem .v2 (exG "A" "t") false true []).ops.take 30)

example : tornOkB .v2 exTorn = true := by decide +kernel
example : checkForGeff .mem exTorn = false := by decide +kernel
example : has exTorn ⟨[NODES, PROPS, "t"], .zgroup⟩ = true := by decide +kernel
/-- the write of `B` on top of it commits, validation sees the left-over `t` … -/
example : errOf (writeBody exDocs .mem .v2 (exG "B" "u") exTorn).val = none := by decide +kernel
example : verdict .v2 (exG "B" "u") (run exTorn (writeBody exDocs .mem .v2 (exG "B" "u") exTorn).ops) = false := by
  decide +kernel
/-- … and the call ends with ValueError on a store without any geff key -/
example : errOf (writeArraysT exDocs .mem .v2 (exG "B" "u") true true exTorn).val = some .valueError := by
  decide +kernel
example : ownedPart (run exTorn (writeArraysT exDocs .mem .v2 (exG "B" "u") true true exTorn).ops) = [] := by
  decide +kernel
/-- the retried write of `A` itself runs into the left-over group of the same name (zarr's exclusive create) -/
example : errOf (writeArraysT exDocs .mem .v2 (exG "A" "t") true true exTorn).val =
    some (.other "ContainsGroupError") := by decide +kernel
/-- on a clean store the verdict is the input verdict -/
example : verdict .v2 (exG "B" "u") (run [] (writeBody exDocs .mem .v2 (exG "B" "u") []).ops) = true := by
  decide +kernel
/-- the `DeleteSafe` hypothesis holds of the store committed on the torn one -/
example : deleteSafeB .v2 (run exTorn (writeBody exDocs .mem .v2 (exG "B" "u") exTorn).ops) = true := by
  decide +kernel

end GeffProps.C05Hist
