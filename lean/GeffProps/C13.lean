import GeffProofs.Tracklet
import GeffProofs.TrackletRename
/-! # C13 — tracklet validation decides the documented tracklet definition

Property theorems only.  Model: `Geff.Tracklet.validateTracklets` / `trackletErrors` /
`checkTracklet` / `nodesWithId` (`GeffModel/Tracklet.lean`), tied to
`geff.validate.tracks.validate_tracklets` and `geff.validate.data._nodes_with_id` by the
correspondence `harness/corr/C13.py` (all labelled DAGs on ≤ 4 nodes in both tiers).

Vocabulary (`GeffProofs/Tracklet.lean`, from docs/tracking.md):
* `E es a b`          — `(a, b)` is an edge;
* `T es a b`          — *tracklet edge*: `(a, b)` is an edge, the only one leaving `a` and the only one
                        entering `b`;
* `TrackletSpec`      — the documented definition: adjacent nodes share an id exactly when the edge
                        between them is a tracklet edge, and nodes with the same id are connected
                        through tracklet edges (so every tracklet is a maximal unbranched path and
                        distinct tracklets carry distinct ids);
* `GoodTracklet … t`  — the same, read for the single id `t`: every edge inside the class of `t` is a
                        tracklet edge, the class is connected through its inner edges, and no tracklet
                        edge joins a node of the class with a node outside it;
* `Ranked es`         — acyclicity: some rank (time) strictly increases along every edge;
                        `ranked_iff_no_cycle` shows this is exactly "no directed cycle". -/
namespace GeffProps.C13
open Geff.Graph Geff.Lineage Geff.Tracklet Relation
variable {α L : Type} [DecidableEq α] [DecidableEq L]

/-- the hypothesis `Ranked` is acyclicity: a finite digraph has a rank function strictly
increasing along its edges iff it has no directed cycle -/
theorem C13_acyclic_iff_ranked (es : List (α × α)) :
    (∀ a, ¬ TransGen (E es) a a) ↔ Ranked es := (ranked_iff_no_cycle es).symm

/-- the global definition is the conjunction of the per-tracklet readings (unique node ids) -/
theorem C13_spec_iff_all_good (nl : List (α × L)) (es : List (α × α))
    (hnd : (nl.map (·.1)).Nodup) :
    TrackletSpecMasked nl es ↔ ∀ t, GoodTracklet nl es t :=
  ⟨good_of_spec nl es, spec_of_good nl es (uniq_of_nodup nl hnd)⟩

/-- **C13 (messages name exactly the offending tracklets)**: on an acyclic graph an error message
is produced for tracklet id `t` iff `t` labels some node and its class is not a maximal
unbranched path. -/
theorem C13_errors_exact (nl : List (α × L)) (es : List (α × α)) (hacyc : Ranked es) (t : L) :
    t ∈ (trackletErrors nl es).map (·.1) ↔ (∃ u, (u, t) ∈ nl) ∧ ¬ GoodTracklet nl es t := by
  obtain ⟨rank, hr⟩ := hacyc
  simp only [List.mem_map, Prod.exists, exists_and_right, exists_eq_right]
  constructor
  · rintro ⟨v, hv⟩
    obtain ⟨hl, hc, hne⟩ := (mem_trackletErrors nl es t v).1 hv
    exact ⟨hl, fun hg => hne (hc ▸ ok_of_good nl es t rank hr hl hg)⟩
  · rintro ⟨hl, hbad⟩
    exact ⟨checkTracklet nl es t, (mem_trackletErrors nl es t _).2
      ⟨hl, rfl, fun hok => hbad (good_of_ok nl es t hok)⟩⟩

/-- half of the above that needs no acyclicity: every offending tracklet is named, on any digraph -/
theorem C13_errors_complete (nl : List (α × L)) (es : List (α × α)) (t : L)
    (hl : ∃ u, (u, t) ∈ nl) (hbad : ¬ GoodTracklet nl es t) :
    t ∈ (trackletErrors nl es).map (·.1) := by
  simp only [List.mem_map, Prod.exists, exists_and_right, exists_eq_right]
  exact ⟨checkTracklet nl es t, (mem_trackletErrors nl es t _).2
    ⟨hl, rfl, fun hok => hbad (good_of_ok nl es t hok)⟩⟩

/-- **C13 (iff), labelling with possibly unlabelled nodes**: for every acyclic digraph, every list
of (node, tracklet id) pairs with unique node ids — edges may also mention nodes that carry no id
(flagged missing, dropped by `validate_data`) — validation accepts iff the labelling is the
documented tracklet partition and no tracklet could be extended into an unlabelled node. -/
theorem C13_iff_masked (nl : List (α × L)) (es : List (α × α))
    (hnd : (nl.map (·.1)).Nodup) (hacyc : Ranked es) :
    validateTracklets nl es = true ↔ TrackletSpecMasked nl es := by
  rw [C13_spec_iff_all_good nl es hnd]
  unfold validateTracklets
  rw [List.isEmpty_iff]
  constructor
  · intro hnil t
    by_cases hl : ∃ u, (u, t) ∈ nl
    · refine Classical.byContradiction fun hbad => ?_
      have := (C13_errors_exact nl es hacyc t).2 ⟨hl, hbad⟩
      simp [hnil] at this
    · exact good_of_not_label nl es t hl
  · intro hgood
    apply List.eq_nil_iff_forall_not_mem.2
    rintro ⟨t, v⟩ hm
    have : t ∈ (trackletErrors nl es).map (·.1) := List.mem_map.2 ⟨(t, v), hm, rfl⟩
    exact ((C13_errors_exact nl es hacyc t).1 this).2 (hgood t)

/-- **C13 (iff)**: for every finite acyclic digraph whose edges join listed nodes, unique node
ids and every labelling, `validate_tracklets` returns `(True, [])` iff the labelling is the
partition documented in docs/tracking.md.  No bound on the graph. -/
theorem C13_iff (nl : List (α × L)) (es : List (α × α))
    (hnd : (nl.map (·.1)).Nodup) (hacyc : Ranked es)
    (hV : ∀ e ∈ es, e.1 ∈ nl.map (·.1) ∧ e.2 ∈ nl.map (·.1)) :
    validateTracklets nl es = true ↔ TrackletSpec nl es := by
  rw [C13_iff_masked nl es hnd hacyc, masked_iff_spec nl es hV]

/-- soundness needs no acyclicity: whatever is accepted satisfies the definition, on any digraph
(on cyclic graphs the validator is merely stricter: it also rejects directed cycles). -/
theorem C13_sound_any_graph (nl : List (α × L)) (es : List (α × α))
    (hnd : (nl.map (·.1)).Nodup) (h : validateTracklets nl es = true) :
    TrackletSpecMasked nl es := by
  rw [C13_spec_iff_all_good nl es hnd]
  unfold validateTracklets at h
  rw [List.isEmpty_iff] at h
  intro t
  by_cases hl : ∃ u, (u, t) ∈ nl
  · refine Classical.byContradiction fun hbad => ?_
    have := C13_errors_complete nl es t hl hbad
    simp [h] at this
  · exact good_of_not_label nl es t hl

/-- **C13 (no unrelated exception)**: the `StopIteration` of `next(...)` and the
`NetworkXPointlessConcept` of `is_weakly_connected` are unreachable, for every digraph (cyclic
ones included) and every labelling. -/
theorem C13_no_exception (nl : List (α × L)) (es : List (α × α)) (t : L) (v : Verdict α)
    (h : (t, v) ∈ trackletErrors nl es) (name : String) : v ≠ .exc name := by
  obtain ⟨hl, hc, _⟩ := (mem_trackletErrors nl es t v).1 h
  exact hc ▸ checkTracklet_ne_exc nl es t hl name

/-- **C13 through `validate_data`** (repair D14): with a `missing` mask on the tracklet-id
property, exactly the (node, id) pairs at unflagged positions are validated, unique node ids stay
unique, and the verdict is the masked specification of those pairs. -/
theorem C13_validate_data_masked (nodes : List α) (values : List L) (m : Option (List Bool))
    (es : List (α × α)) (nl : List (α × L)) (hsel : nodesWithId nodes values m = some nl)
    (hnd : nodes.Nodup) (hacyc : Ranked es) :
    (validateTracklets nl es = true ↔ TrackletSpecMasked nl es) ∧
    (∀ m', m = some m' → ∀ p, p ∈ nl ↔ (p, false) ∈ (nodes.zip values).zip m') ∧
    (m = none → nl = nodes.zip values) := by
  refine ⟨C13_iff_masked nl es (nodesWithId_nodup nodes values m nl hsel hnd) hacyc, ?_, ?_⟩
  · rintro m' rfl p; exact mem_nodesWithId nodes values m' nl hsel p
  · rintro rfl; rw [nodesWithId_none] at hsel; cases hsel; rfl

/-! ## integer arrays: the int64 cast -/

def InInt64 (x : Int) : Prop := -(2 ^ 63) ≤ x ∧ x < 2 ^ 63
instance (x : Int) : Decidable (InInt64 x) := by unfold InInt64; infer_instance

theorem toInt64_of_inRange (x : Int) (h : InInt64 x) : toInt64 x = x := by
  unfold toInt64; unfold InInt64 at h; omega

/-- when node ids, tracklet ids and edge endpoints fit int64 the cast at the top of
`validate_tracklets` is the identity, so all theorems above speak about the arrays as given -/
theorem C13_int64_cast_identity (nodes labels : List Int) (edges : List (Int × Int))
    (hn : ∀ x ∈ nodes, InInt64 x) (hl : ∀ x ∈ labels, InInt64 x)
    (he : ∀ e ∈ edges, InInt64 e.1 ∧ InInt64 e.2) :
    trackletErrorsInt64 nodes labels edges = trackletErrors (nodes.zip labels) edges := by
  unfold trackletErrorsInt64
  have h1 : nodes.map toInt64 = nodes := by
    rw [List.map_congr_left (g := id) (fun x hx => toInt64_of_inRange x (hn x hx)), List.map_id]
  have h2 : labels.map toInt64 = labels := by
    rw [List.map_congr_left (g := id) (fun x hx => toInt64_of_inRange x (hl x hx)), List.map_id]
  have h3 : edges.map (fun e => (toInt64 e.1, toInt64 e.2)) = edges := by
    rw [List.map_congr_left (g := id) (fun e he' => by
      rw [toInt64_of_inRange _ (he e he').1, toInt64_of_inRange _ (he e he').2]; rfl), List.map_id]
  rw [h1, h2, h3]

/-- **known finding `C13:uint64-id-wrapped-in-message`** (not repaired): for uint64 tracklet ids
≥ 2^63 the verdict is right but the message names the wrapped id — here tracklet
9223372036854775809 (= 2^63 + 1, disconnected) is reported as −9223372036854775807. -/
theorem C13_counterexample_uint64_message :
    (trackletErrorsInt64 [1, 2, 3] [2 ^ 63 + 1, 2 ^ 63 + 1, 2 ^ 63 + 1] [(1, 2)]).map (·.1)
      = [-(2 ^ 63) + 1] ∧ ¬ InInt64 (2 ^ 63 + 1) := by
  decide

/-! ## labellings up to renaming -/

/-- **C13 (definition up to renaming)**: the documented tracklet definition is invariant under
injective renamings `f` of the node ids and `g` of the tracklet ids (edges mapped with `mapEdges f`,
the labelled node list with `Prod.map f g`) — "labellings up to renaming" in the property. -/
theorem C13_spec_renaming {β M : Type} [DecidableEq β] [DecidableEq M]
    (f : α → β) (g : L → M) (hf : Function.Injective f) (hg : Function.Injective g)
    (nl : List (α × L)) (es : List (α × α)) :
    TrackletSpec (renameNl f g nl) (mapEdges f es) ↔ TrackletSpec nl es :=
  spec_renaming f g hf hg nl es

/-- acyclicity transfers along an injective renaming, in both directions -/
theorem C13_ranked_renaming {β : Type} [DecidableEq β] (f : α → β) (hf : Function.Injective f)
    (es : List (α × α)) : Ranked (mapEdges f es) ↔ Ranked es := ranked_renaming f hf es

/-- **C13 (verdict up to renaming)**: for an acyclic graph with unique node ids (edges may also
mention unlabelled nodes) the validator model gives the same verdict before and after an
injective renaming of node ids and tracklet ids, and the tracklet ids named in the messages are
exactly the `g`-images of the ones named before, in the same order. -/
theorem C13_verdict_renaming {β M : Type} [DecidableEq β] [DecidableEq M]
    (f : α → β) (g : L → M) (hf : Function.Injective f) (hg : Function.Injective g)
    (nl : List (α × L)) (es : List (α × α))
    (hnd : (nl.map (·.1)).Nodup) (hacyc : Ranked es) :
    validateTracklets (renameNl f g nl) (mapEdges f es) = validateTracklets nl es ∧
    (trackletErrors (renameNl f g nl) (mapEdges f es)).map (·.1) =
      ((trackletErrors nl es).map (·.1)).map g := by
  have hacyc' : Ranked (mapEdges f es) := (ranked_renaming f hf es).2 hacyc
  constructor
  · have a := C13_iff_masked (renameNl f g nl) (mapEdges f es) (nodup_renameNl f g hf nl hnd) hacyc'
    have b := C13_iff_masked nl es hnd hacyc
    have c := specMasked_renaming f g hf hg nl es
    cases h1 : validateTracklets (renameNl f g nl) (mapEdges f es) <;>
      cases h2 : validateTracklets nl es <;> simp_all
  · obtain ⟨rank, hr⟩ := hacyc
    obtain ⟨rank', hr'⟩ := hacyc'
    rw [errorIds_eq_filter, errorIds_eq_filter]
    have hlab : (renameNl f g nl).map (·.2) = (nl.map (·.2)).map g := by
      unfold renameNl; simp [List.map_map, Function.comp_def]
    rw [hlab, dedup_map_injective g hg, List.filter_map]
    congr 1
    apply List.filter_congr
    intro t ht
    have htl : ∃ u, (u, t) ∈ nl := by
      obtain ⟨⟨u, l⟩, hm, rfl⟩ := List.mem_map.1 ((mem_dedup _ _).1 ht)
      exact ⟨u, hm⟩
    have htl' : ∃ x, (x, g t) ∈ renameNl f g nl := by
      obtain ⟨u, hu⟩ := htl
      exact ⟨f u, (mem_renameNl f g nl _ _).2 ⟨u, t, hu, rfl, rfl⟩⟩
    have key : checkTracklet (renameNl f g nl) (mapEdges f es) (g t) = .ok ↔
        checkTracklet nl es t = .ok := by
      constructor
      · intro h
        exact ok_of_good nl es t rank hr htl
          ((good_renaming f g hf hg nl es t).1 (good_of_ok _ _ _ h))
      · intro h
        exact ok_of_good _ _ _ rank' hr' htl'
          ((good_renaming f g hf hg nl es t).2 (good_of_ok _ _ _ h))
    simp only [Function.comp, ne_eq, decide_not]
    congr 1
    exact decide_eq_decide.2 key

/-! ## the int64 cast on uint64 ids -/

def InUInt64 (x : Int) : Prop := 0 ≤ x ∧ x < 2 ^ 64
instance (x : Int) : Decidable (InUInt64 x) := by unfold InUInt64; infer_instance

/-- an injective function on all integers that agrees with the int64 cast on the uint64 range:
it swaps the blocks [2^63, 2^64) and [−2^63, 0) -/
def wrapSwap (x : Int) : Int :=
  if 2 ^ 63 ≤ x ∧ x < 2 ^ 64 then x - 2 ^ 64 else if -(2 ^ 63) ≤ x ∧ x < 0 then x + 2 ^ 64 else x

theorem wrapSwap_injective : Function.Injective wrapSwap := by
  intro a b h
  unfold wrapSwap at h
  split at h <;> split at h <;> (try split at h) <;> (try split at h) <;> omega

theorem toInt64_eq_wrapSwap (x : Int) (h : InUInt64 x) : toInt64 x = wrapSwap x := by
  unfold toInt64 wrapSwap InUInt64 at *
  split <;> (try split) <;> omega

/-- **C13 (uint64 wrap)**: node ids, edge endpoints and tracklet ids taken from uint64 arrays (any
values in [0, 2^64)) are cast to int64 by `validate_tracklets`; on an acyclic graph with unique
node ids the verdict on the wrapped ids equals the verdict on the true ids, and the ids named in
the messages are the wrapped images of the offending ones (this last part is the known finding
`C13:uint64-id-wrapped-in-message`). -/
theorem C13_uint64_wrap_verdict (nodes labels : List Int) (edges : List (Int × Int))
    (hn : ∀ x ∈ nodes, InUInt64 x) (hl : ∀ x ∈ labels, InUInt64 x)
    (he : ∀ e ∈ edges, InUInt64 e.1 ∧ InUInt64 e.2)
    (hnd : ((nodes.zip labels).map (·.1)).Nodup) (hacyc : Ranked edges) :
    (trackletErrorsInt64 nodes labels edges).isEmpty = validateTracklets (nodes.zip labels) edges ∧
    (trackletErrorsInt64 nodes labels edges).map (·.1) =
      ((trackletErrors (nodes.zip labels) edges).map (·.1)).map toInt64 := by
  have h1 : nodes.map toInt64 = nodes.map wrapSwap :=
    List.map_congr_left fun x hx => toInt64_eq_wrapSwap x (hn x hx)
  have h2 : labels.map toInt64 = labels.map wrapSwap :=
    List.map_congr_left fun x hx => toInt64_eq_wrapSwap x (hl x hx)
  have h3 : edges.map (fun e => (toInt64 e.1, toInt64 e.2)) = mapEdges wrapSwap edges := by
    unfold mapEdges
    apply List.map_congr_left
    intro e hm
    rw [toInt64_eq_wrapSwap _ (he e hm).1, toInt64_eq_wrapSwap _ (he e hm).2]; rfl
  have h4 : (nodes.map wrapSwap).zip (labels.map wrapSwap) = renameNl wrapSwap wrapSwap (nodes.zip labels) := by
    unfold renameNl; rw [List.zip_map]
  obtain ⟨hv, hids⟩ := C13_verdict_renaming wrapSwap wrapSwap wrapSwap_injective wrapSwap_injective
    (nodes.zip labels) edges hnd hacyc
  unfold trackletErrorsInt64
  rw [h1, h2, h3, h4]
  refine ⟨hv, ?_⟩
  rw [hids]
  apply List.map_congr_left
  intro t ht
  obtain ⟨⟨t', v⟩, hm, rfl⟩ := List.mem_map.1 ht
  obtain ⟨⟨u, hu⟩, _, _⟩ := (mem_trackletErrors _ _ t' v).1 hm
  exact (toInt64_eq_wrapSwap t' (hl t' (List.of_mem_zip hu).2)).symm

/-! ## Non-vacuity and the pre-repair failing inputs (evaluations of the model, i.e. tests) -/
-- 1→2→3, 3→4, 3→5 (division at 3): tracklets {1,2,3}, {4}, {5}
example : validateTracklets [((1:Nat),(10:Nat)),(2,10),(3,10),(4,20),(5,30)] [(1,2),(2,3),(3,4),(3,5)] = true := by
  decide
example : ([((1:Nat),(10:Nat)),(2,10),(3,10),(4,20),(5,30)].map (·.1)).Nodup := by decide
example : Ranked [((1:Nat),(2:Nat)),(2,3),(3,4),(3,5)] := ⟨id, by decide⟩
example : ∀ e ∈ [((1:Nat),(2:Nat)),(2,3),(3,4),(3,5)],
    e.1 ∈ [((1:Nat),(10:Nat)),(2,10),(3,10),(4,20),(5,30)].map (·.1) ∧
    e.2 ∈ [((1:Nat),(10:Nat)),(2,10),(3,10),(4,20),(5,30)].map (·.1) := by decide
-- D7a: a tracklet running through the division 3→4, 3→5 (accepted before the repair)
example : (trackletErrors [((1:Nat),(10:Nat)),(2,10),(3,10),(4,10),(5,30)] [(1,2),(2,3),(3,4),(3,5)]).map (·.1)
    = [10] := by decide
-- D7b: an extendable single-node tracklet (skipped before the repair)
example : (trackletErrors [((1:Nat),(10:Nat)),(2,20)] [(1,2)]).map (·.1) = [10, 20] := by decide
-- a disconnected tracklet, a non-maximal one
example : validateTracklets [((1:Nat),(10:Nat)),(2,10),(3,10)] [(1,2)] = false := by decide
example : validateTracklets [((1:Nat),(10:Nat)),(2,10),(3,20),(4,20)] [(1,2),(2,3),(3,4)] = false := by decide
-- D14: node 3 carries no id; the tracklet {1,2} could be extended into it ⇒ rejected,
-- while an isolated unlabelled node is fine
example : (nodesWithId [(1:Nat),2,3] [(10:Nat),10,0] (some [false,false,true])).map
    (fun nl => validateTracklets nl [(1,2),(2,3)]) = some false := by decide
example : (nodesWithId [(1:Nat),2,3] [(10:Nat),10,0] (some [false,false,true])).map
    (fun nl => validateTracklets nl [(1,2)]) = some true := by decide
-- renaming: ids shifted by 2^60, tracklet ids tripled — same verdict
example : validateTracklets (renameNl (· + 1152921504606846976) (· * 3) [((1:Nat),(10:Nat)),(2,10),(3,20)])
    (mapEdges (· + 1152921504606846976) [(1,2),(1,3)]) = false := by decide
-- uint64 wrap: ids ≥ 2^63 satisfy the hypotheses of `C13_uint64_wrap_verdict`
example : ∀ x ∈ [(9223372036854775808 : Int), 18446744073709551615], InUInt64 x := by decide
-- on a cyclic graph the validator is stricter than the definition (hence `Ranked` in `C13_iff`)
example : validateTracklets [((1:Nat),(10:Nat)),(2,10)] [(1,2),(2,1)] = false := by decide

end GeffProps.C13
