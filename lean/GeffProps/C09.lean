import GeffModel.PartialRead
/-! # C09 — partial reads equal the same restriction of the full read (theorems: work in progress) -/
namespace GeffProps.C09
open Geff.PRead

theorem C09_selMask_none (n : Nat) : selMask none n = List.replicate n true := rfl

end GeffProps.C09
