import GeffProofs.PartialRead
/-! # C09 — partial reads equal the same restriction of the full read

Property theorems only.  Model: `Geff.PRead` (`GeffModel/PartialRead.lean`) — `readNodeProps`,
`readEdgeProps`, `loadPropToMemory`, `build` of `geff.core_io._base_read.GeffReader`, tied to the
implementation by `harness/corr/C09.py`.  Specification: `Geff.PRead.restrict` (same file, 25
lines): kept nodes in stored order; the edges selected by the edge mask whose two endpoints are
kept; for every selected property the rows (values, decoded var-length values, missing flags) of
the full read at the kept positions; the property metadata of the selected properties.

Everything the property quantifies over is universally quantified: the store contents (ids,
edges, properties of any dtype/trailing shape, var-length tables with ANY layout of the data
array, missing masks, metadata), every sequence of `read_node_props` / `read_edge_props` calls
(names, `None`, repeated, unknown names that raise), both masks (`None`, all-true, all-false, any
pattern of the right length) and the element-wise dtype cast.  Unique node ids are not needed
for the equality (they only make "the node with id u" well defined, see `kept_iff_index`). -/
namespace GeffProps.C09
open Geff.Np Geff.PRead

/-- masks have one entry per node / edge (`None` is always fine) -/
def MasksFit (s : Store) (nm em : Option (List Bool)) : Prop :=
  (∀ m, nm = some m → m.length = s.ids.length) ∧ (∀ m, em = some m → m.length = s.edges.length)

/-- **C09** — for every structurally valid store `s` (one row per node/edge in every property
array, unique property names — what `validate_structure` accepts), every sequence `calls` of
`read_*_props` calls on a fresh reader, and all masks of the right length: if the full read
`read_to_memory` succeeds with `full`, the partial `build` succeeds and returns exactly
`restrict (loaded node names) (loaded edge names) nm em full`.
When no node mask is given the code does not look at the endpoints, so the equality then needs
the stored edges to join stored nodes (`edgesClosed`, part of being a stored *graph*); with a
node mask no such hypothesis is needed. -/
theorem C09_build_eq_restrict (cast : Dtype → Val → Val) (s : Store) (calls : List Call)
    (nm em : Option (List Bool)) (full : InMem)
    (hwf : s.WF = true) (hmasks : MasksFit s nm em)
    (hclosed : nm = none → s.edgesClosed = true)
    (hfull : readToMemory cast s = .ok full) :
    build cast (runCalls (Reader.init s) calls) nm em =
      .ok (restrict (keys (runCalls (Reader.init s) calls).nodeProps)
                    (keys (runCalls (Reader.init s) calls).edgeProps) nm em full) := by
  have hst : (runCalls (Reader.init s) calls).store = s := runCalls_store _ _
  have hinv := runCalls_inv (Reader.init s) calls (init_inv s)
  apply build_eq_restrict_of_inv cast _ hinv nm em full
  · rw [hst]; exact hwf
  · rw [hst]; exact hmasks.1
  · rw [hst]; exact hmasks.2
  · rw [hst]; exact hclosed
  · rw [hst]; exact hfull

/-- **C09 (no dangling edge)** — whenever a `build` with a node mask succeeds (or without a node
mask on a store whose edges join stored nodes), both endpoints of every returned edge are among
the returned nodes.  No hypothesis on the full read. -/
theorem C09_no_dangling_edge (cast : Dtype → Val → Val) (s : Store) (calls : List Call)
    (nm em : Option (List Bool)) (out : InMem)
    (hwf : s.WF = true) (hmasks : MasksFit s nm em)
    (hclosed : nm = none → s.edgesClosed = true)
    (hb : build cast (runCalls (Reader.init s) calls) nm em = .ok out) :
    ∀ e ∈ out.edgeIds, e.1 ∈ out.nodeIds ∧ e.2 ∈ out.nodeIds := by
  have hst : (runCalls (Reader.init s) calls).store = s := runCalls_store _ _
  have hinv := runCalls_inv (Reader.init s) calls (init_inv s)
  generalize runCalls (Reader.init s) calls = r at hst hinv hb
  subst hst
  simp only [Store.WF, Bool.and_eq_true] at hwf
  rw [build_nf cast r nm em hmasks.1 hmasks.2 (inv_lenOk (propsWF_lenOk hwf.1) hinv.1)
    (inv_lenOk (propsWF_lenOk hwf.2) hinv.2)] at hb
  have hk : effMask nm em (filterByMask r.store.ids (selMask nm r.store.ids.length)) r.store.edges
      = edgeKeep (filterByMask r.store.ids (selMask nm r.store.ids.length)) em r.store.edges := by
    apply effMask_eq_edgeKeep _ _ _ _ hmasks.2
    cases nm with
    | some m => exact Or.inl (by simp)
    | none =>
      right
      have hc := hclosed rfl
      simp only [Store.edgesClosed, List.all_eq_true] at hc
      simpa [selMask, filterByMask_replicate_true] using hc
  rw [hk] at hb
  cases h1 : loadPropsSel cast r.store.nodeMeta (selMask nm r.store.ids.length) r.nodeProps with
  | error e => simp [h1] at hb
  | ok np =>
    simp only [h1, ok_bind] at hb
    cases h2 : loadPropsSel cast r.store.edgeMeta
        (edgeKeep (filterByMask r.store.ids (selMask nm r.store.ids.length)) em r.store.edges) r.edgeProps with
    | error e => simp [h2] at hb
    | ok ep =>
      simp only [h2, ok_bind, pure_eq, Except.ok.injEq] at hb
      subst hb
      intro e he
      have := mem_filter_zipWith _ _ _ e he
      simpa using this

/-- **C09 (metadata)** — the metadata of a successful `build` lists exactly the loaded properties. -/
theorem C09_metadata_exact (cast : Dtype → Val → Val) (s : Store) (calls : List Call)
    (nm em : Option (List Bool)) (out : InMem)
    (hwf : s.WF = true) (hmasks : MasksFit s nm em)
    (hb : build cast (runCalls (Reader.init s) calls) nm em = .ok out) :
    (∀ k, k ∈ keys out.nodeMeta ↔ k ∈ keys out.nodeProps) ∧
    (∀ k, k ∈ keys out.edgeMeta ↔ k ∈ keys out.edgeProps) := by
  have hst : (runCalls (Reader.init s) calls).store = s := runCalls_store _ _
  have hinv := runCalls_inv (Reader.init s) calls (init_inv s)
  generalize runCalls (Reader.init s) calls = r at hst hinv hb
  subst hst
  simp only [Store.WF, Bool.and_eq_true] at hwf
  rw [build_nf cast r nm em hmasks.1 hmasks.2 (inv_lenOk (propsWF_lenOk hwf.1) hinv.1)
    (inv_lenOk (propsWF_lenOk hwf.2) hinv.2)] at hb
  cases h1 : loadPropsSel cast r.store.nodeMeta (selMask nm r.store.ids.length) r.nodeProps with
  | error e => simp [h1] at hb
  | ok np =>
    simp only [h1, ok_bind] at hb
    cases h2 : loadPropsSel cast r.store.edgeMeta
        (effMask nm em (filterByMask r.store.ids (selMask nm r.store.ids.length)) r.store.edges) r.edgeProps with
    | error e => simp [h2] at hb
    | ok ep =>
      simp only [h2, ok_bind, pure_eq, Except.ok.injEq] at hb
      subst hb
      obtain ⟨k1, m1⟩ := loadPropsSel_keys _ _ _ _ _ h1
      obtain ⟨k2, m2⟩ := loadPropsSel_keys _ _ _ _ _ h2
      have key : ∀ (md : List (String × PropMeta)) (sel : List (String × ZarrProp)),
          (∀ k ∈ keys sel, k ∈ keys md) → ∀ k, k ∈ keys (pruneMeta md sel) ↔ k ∈ keys sel := by
        intro md sel hsub k
        simp only [pruneMeta, keys, List.mem_map, List.mem_filter]
        constructor
        · rintro ⟨p, ⟨_, hp⟩, rfl⟩
          have := (hasKey_iff p.1 sel).1 hp
          simpa [keys] using this
        · intro hk
          have hk' : k ∈ keys sel := by simpa [keys] using hk
          have := hsub k hk'
          simp only [keys, List.mem_map] at this
          obtain ⟨p, hp, rfl⟩ := this
          exact ⟨p, ⟨hp, (hasKey_iff p.1 sel).2 hk'⟩, rfl⟩
      exact ⟨fun k => by rw [k1]; exact key _ _ m1 k, fun k => by rw [k2]; exact key _ _ m2 k⟩

/-- reading of `restrict`: the masked rows are the rows at the indices `np.where(mask)[0]`, in
order — "every loaded property row still aligned with its node or edge" -/
theorem restrict_rows_aligned {α} (rows : List α) (m : List Bool) (h : m.length ≤ rows.length) :
    (whereIdx m).map (fun i => rows[i]?) = (filterByMask rows m).map some := by
  have := whereFrom_get [] rows m h
  simpa [whereIdx] using this

/-- reading of `restrict`: an id is kept iff some node carrying it is selected by the mask; with
unique ids that node is *the* node with this id. -/
theorem kept_iff_index (ids : List Int) (m : List Bool) (u : Int) :
    u ∈ filterByMask ids m ↔ ∃ i : Nat, ids[i]? = some u ∧ m[i]? = some true :=
  mem_filterByMask_iff ids m u

theorem kept_iff_index_nodup (ids : List Int) (hnd : ids.Nodup) (m : List Bool) (u : Int) (i : Nat)
    (hi : ids[i]? = some u) : u ∈ filterByMask ids m ↔ m[i]? = some true := by
  rw [kept_iff_index]
  constructor
  · rintro ⟨j, hj, hm⟩
    have hij : i = j := by
      obtain ⟨hil, hiv⟩ := List.getElem?_eq_some_iff.1 hi
      obtain ⟨hjl, hjv⟩ := List.getElem?_eq_some_iff.1 hj
      have hp := List.pairwise_iff_getElem.1 hnd
      rcases Nat.lt_trichotomy i j with h | h | h
      · exact absurd (hiv.trans hjv.symm) (hp i j hil hjl h)
      · exact h
      · exact absurd (hjv.trans hiv.symm) (hp j i hjl hil h)
    subst hij; exact hm
  · intro hm; exact ⟨i, hi, hm⟩

/-! ## the full read is the trivial restriction; every mask, every selection: non-vacuity -/

def exStore : Store :=
  { ids := [5, 7, 9], edges := [(5, 7), (7, 9), (9, 9)],
    nodeProps := [("t", { values := { trail := [], rows := [[.i 1], [.i 2], [.i 3]] },
                          missing := some [false, true, false], data := none }),
                  ("v", { values := { trail := [2], rows := [[.i 3, .i 2], [.i 0, .i 3], [.i 5, .i 0]] },
                          missing := none, data := some [.i 10, .i 11, .i 12, .i 20, .i 21] })],
    edgeProps := [("w", { values := { trail := [2], rows := [[.i 1, .i 2], [.i 3, .i 4], [.i 5, .i 6]] },
                          missing := none, data := none })],
    nodeMeta := [("t", { dtype := .i64, varlength := false, rest := "" }),
                 ("v", { dtype := .i64, varlength := true, rest := "" })],
    edgeMeta := [("w", { dtype := .i64, varlength := false, rest := "" })],
    metaRest := "{}" }

def castId : Dtype → Val → Val := fun _ v => v

/-- the hypotheses of `C09_build_eq_restrict` are met by a concrete store with a var-length
property whose data are NOT stored in element order, a missing mask and a 2-D edge property -/
example : exStore.WF = true ∧ exStore.edgesClosed = true ∧ MasksFit exStore (some [true, false, true]) none ∧
    (readToMemory castId exStore).isOk = true := by
  refine ⟨by decide, by decide, ⟨by intro m h; cases h; rfl, by intro m h; cases h⟩, by decide⟩

/-- and on it the masked build keeps nodes 5 and 9, only the edge (9,9), row-aligned values —
the var-length rows `[20,21]`→…: element 0 is `data[3:5]`, element 2 is `data[5:5]` -/
def exBuild : Option InMem :=
  (build castId (runCalls (Reader.init exStore) [.nodes (some ["v"]), .edges none])
    (some [true, false, true]) none).toOption

example : exBuild.map (·.nodeIds) = some [5, 9] := by decide
example : exBuild.map (·.edgeIds) = some [(9, 9)] := by decide
example : exBuild.map (fun g => g.nodeProps.map (fun p => (p.1, p.2.values))) =
    some [("v", .object [{ dtype := .i64, shape := [2], flat := [.i 20, .i 21] },
                         { dtype := .i64, shape := [0], flat := [] }])] := by decide
example : exBuild.map (fun g => keys g.nodeMeta) = some ["v"] := by decide

end GeffProps.C09
