import GeffProps.C01
import GeffProofs.ReadOpts
/-! # C01 — the read side of the round trip under every configuration a caller can choose

Property theorems only.  Model: `GeffModel/ReadOpts.lean` (`read_to_memory` with its five keyword
arguments, `GeffReader` + `read_node_props` + `read_edge_props` + `build()` used by hand, `Backend.read` /
`geff.read`), on top of the model of `GeffProps/C01.lean`; tied to the code by the stream
`harness/corr/_c01_readcfg.py` (every entry point × `structure_validation` × the 33 `ValidationConfig`s ×
property selections, on graphs valid for what a configuration enables, one-validator-invalid graphs
included; the result is judged against WHAT WAS WRITTEN by the numpy-level oracle and compared with this
model through the driver op `read_opts`).

What the theorems say, for all stores, codecs, validators and selections:
* the selection is a *restriction*: a read of selected names returns the ids of the full read, the
  selected names in the order given (a repeated name once), each with exactly the property the full
  read returns for it, and the metadata restricted to them — independent of what else is selected;
* the validations are *filters*: `structure_validation` and `data_validation` never change what is
  returned, they can only turn it into their own error, in that order;
* the entry points agree (`read_to_memory`, the reader used by hand, `geff.read` of every backend);
* hence the round trip of `C01_roundtrip_validated` holds under every configuration. -/
namespace GeffProps.C01ReadOpts
open Geff.Np Geff.Store Geff.WR GeffProofs.ReadOpts GeffProps.C01
open Gen.Paths (NODES EDGES IDS PROPS)

/-- the names a result carries -/
def keys (ps : Props) : List String := ps.map (·.1)

/-- `got` is `full` restricted to the names `sel` (in the order of `sel`, a repeated name once) -/
structure Restriction (sel : List String) (full got : Props) : Prop where
  names : keys got = Geff.Graph.dedup sel
  same : ∀ k ∈ sel, lookupKey k got = lookupKey k full

/-! ## the plain read -/

/-- `read_to_memory(store, structure_validation=False)` of `GeffProps/C01.lean` is the read with nothing
selected away; the metadata comes back restricted to the names found (`build()` always restricts) -/
theorem C01_plain_read (c : VlenCodec) (s : St) :
    readSel c s none none = (readCore c s).map (fun r =>
      { r with md := restrictMeta r.md (keys r.nodeProps) (keys r.edgeProps) }) :=
  readSel_none_eq_readCore c s

/-! ## selection = restriction of the full read -/

/-- **Selection is restriction.**  Whenever the full read of a store succeeds, the read of ANY selection
of names that are stored succeeds, and returns: the ids of the full read; the selected names in the
order given (a name listed twice once); for every selected name exactly the property (values, missing
mask, var-length elements) that the full read returns under that name; the metadata of the full read
restricted to the selected names.  No hypothesis on the store beyond "the full read succeeds". -/
theorem C01_selection_is_restriction (c : VlenCodec) (s : St) (r : ReadResult)
    (hfull : readSel c s none none = .ok r) (nn en : List String)
    (hn : ∀ k ∈ nn, k ∈ keys r.nodeProps) (he : ∀ k ∈ en, k ∈ keys r.edgeProps) :
    ∃ r', readSel c s (some nn) (some en) = .ok r' ∧
      r'.nodeIds = r.nodeIds ∧ r'.edgeIds = r.edgeIds ∧
      Restriction nn r.nodeProps r'.nodeProps ∧ Restriction en r.edgeProps r'.edgeProps ∧
      r'.md = restrictMeta r.md (Geff.Graph.dedup nn) (Geff.Graph.dedup en) := by
  obtain ⟨md, nf, ef, ho, hln, hle, hr⟩ := readSel_ok_form c s none none r hfull
  simp only [selected] at hln hle hr
  have hkn : keys r.nodeProps = nf := by rw [hr]; exact loaded_keys ..
  have hke : keys r.edgeProps = ef := by rw [hr]; exact loaded_keys ..
  rw [hkn] at hn; rw [hke] at he
  have hsn : ∀ k ∈ selected (some nn) nf, k ∈ nf := fun k hk => hn k ((mem_dedup nn k).mp hk)
  have hse : ∀ k ∈ selected (some en) ef, k ∈ ef := fun k hk => he k ((mem_dedup en k).mp hk)
  have hok := (readSel_ok_iff c s (some nn) (some en) md r.nodeIds r.edgeIds nf ef ho).mp
    ⟨fun k hk => hln k (hsn k hk), fun k hk => hle k (hse k hk)⟩
  refine ⟨_, hok, rfl, rfl, ⟨loaded_keys .., ?_⟩, ⟨loaded_keys .., ?_⟩, ?_⟩
  · intro k hk
    rw [hr]
    simp only [lookup_loaded, selected, mem_dedup, hk, hn k hk, if_true]
  · intro k hk
    rw [hr]
    simp only [lookup_loaded, selected, mem_dedup, hk, he k hk, if_true]
  · rw [hr]
    simp only [selected]
    exact (restrictMeta_restrictMeta md nf ef _ _ hsn hse).symm

/-- the same for `None` on one side (all properties of that group) and a list on the other -/
theorem C01_selection_one_sided (c : VlenCodec) (s : St) (r : ReadResult)
    (hfull : readSel c s none none = .ok r) (nn : List String) (hn : ∀ k ∈ nn, k ∈ keys r.nodeProps) :
    ∃ r', readSel c s (some nn) none = .ok r' ∧ r'.nodeIds = r.nodeIds ∧ r'.edgeIds = r.edgeIds ∧
      Restriction nn r.nodeProps r'.nodeProps ∧ r'.edgeProps = r.edgeProps := by
  obtain ⟨md, nf, ef, ho, hln, hle, hr⟩ := readSel_ok_form c s none none r hfull
  simp only [selected] at hln hle hr
  have hkn : keys r.nodeProps = nf := by rw [hr]; exact loaded_keys ..
  rw [hkn] at hn
  have hsn : ∀ k ∈ selected (some nn) nf, k ∈ nf := fun k hk => hn k ((mem_dedup nn k).mp hk)
  have hok := (readSel_ok_iff c s (some nn) none md r.nodeIds r.edgeIds nf ef ho).mp
    ⟨fun k hk => hln k (hsn k hk), hle⟩
  refine ⟨_, hok, rfl, rfl, ⟨loaded_keys .., ?_⟩, ?_⟩
  · intro k hk
    rw [hr]
    simp only [lookup_loaded, selected, mem_dedup, hk, hn k hk, if_true]
  · rw [hr]; rfl

/-- the empty selection `[]` reads the graph without properties -/
theorem C01_selection_empty (c : VlenCodec) (s : St) (r : ReadResult) (hfull : readSel c s none none = .ok r) :
    ∃ r', readSel c s (some []) (some []) = .ok r' ∧ r'.nodeIds = r.nodeIds ∧ r'.edgeIds = r.edgeIds ∧
      r'.nodeProps = [] ∧ r'.edgeProps = [] := by
  obtain ⟨r', h, h1, h2, h3, h4, _⟩ := C01_selection_is_restriction c s r hfull [] []
    (fun _ h => absurd h (List.not_mem_nil)) (fun _ h => absurd h (List.not_mem_nil))
  refine ⟨r', h, h1, h2, ?_, ?_⟩
  · have := h3.names; simpa [keys, Geff.Graph.dedup] using this
  · have := h4.names; simpa [keys, Geff.Graph.dedup] using this

/-- a property comes back the same whatever else is selected with it (two selections containing `k`) -/
theorem C01_selection_independent (c : VlenCodec) (s : St) (n1 e1 n2 e2 : Option (List String)) (r1 r2 : ReadResult)
    (h1 : readSel c s n1 e1 = .ok r1) (h2 : readSel c s n2 e2 = .ok r2) (k : String)
    (hk1 : k ∈ keys r1.nodeProps) (hk2 : k ∈ keys r2.nodeProps) :
    lookupKey k r1.nodeProps = lookupKey k r2.nodeProps ∧ r1.nodeIds = r2.nodeIds ∧ r1.edgeIds = r2.edgeIds := by
  obtain ⟨md1, nf1, ef1, ho1, _, _, hr1⟩ := readSel_ok_form c s n1 e1 r1 h1
  obtain ⟨md2, nf2, ef2, ho2, _, _, hr2⟩ := readSel_ok_form c s n2 e2 r2 h2
  rw [ho1] at ho2
  have hinj := Except.ok.inj ho2
  simp only [Prod.mk.injEq] at hinj
  obtain ⟨rfl, hni, hei, rfl, rfl⟩ := hinj
  have hk1' : k ∈ selected n1 nf1 := by
    have : keys r1.nodeProps = selected n1 nf1 := by rw [hr1]; exact loaded_keys ..
    rwa [this] at hk1
  have hk2' : k ∈ selected n2 nf1 := by
    have : keys r2.nodeProps = selected n2 nf1 := by rw [hr2]; exact loaded_keys ..
    rwa [this] at hk2
  refine ⟨?_, hni, hei⟩
  rw [hr1, hr2]
  simp only [lookup_loaded, hk1', hk2', if_true]

/-! ## the validations are filters; the entry points agree -/

/-- **Validation never changes what is returned.**  `read_to_memory` with any combination of
`structure_validation` and `data_validation` returns `r` exactly when the structure validator (if
enabled) accepts the store, the unvalidated read of the same selections returns `r`, and the data
validator (if a config is given) accepts `r`. -/
theorem C01_validation_is_a_filter (c : VlenCodec) (validate : St → Outcome Unit)
    (vd : Geff.Validate.Config → ReadResult → Outcome Unit) (o : ReadOpts) (s : St) (r : ReadResult) :
    readToMemoryOpts c validate vd o s = .ok r ↔
      (o.structureValidation = true → validate s = .ok ()) ∧
      readSel c s o.nodeProps o.edgeProps = .ok r ∧
      (∀ cfg, o.dataValidation = some cfg → vd cfg r = .ok ()) := by
  unfold readToMemoryOpts
  have tail : ∀ r' : ReadResult, readSel c s o.nodeProps o.edgeProps = .ok r' →
      ((do (match o.dataValidation with
            | some cfg => vd cfg r'
            | none => pure ())
           pure r' : Outcome ReadResult) = .ok r ↔
        r' = r ∧ ∀ cfg, o.dataValidation = some cfg → vd cfg r = .ok ()) := by
    intro r' _
    cases hdv : o.dataValidation with
    | none =>
      simp only [bind, Except.bind, pure, Except.pure, Except.ok.injEq, reduceCtorEq, false_implies, implies_true,
        and_true]
    | some cfg =>
      cases hv : vd cfg r' with
      | error e =>
        simp only [hv, bind, Except.bind, reduceCtorEq, false_iff, not_and]
        rintro rfl h
        have := h cfg rfl
        rw [hv] at this; cases this
      | ok u =>
        simp only [hv, bind, Except.bind, pure, Except.pure, Except.ok.injEq]
        constructor
        · rintro rfl; exact ⟨rfl, fun cfg' h => by cases h; exact hv⟩
        · rintro ⟨rfl, _⟩; rfl
  cases hsv : o.structureValidation with
  | false =>
    cases hr : readSel c s o.nodeProps o.edgeProps with
    | error e => simp [bind, Except.bind]
    | ok r' =>
      have := tail r' hr
      simp only [bind, Except.bind, pure, Except.pure, Bool.false_eq_true, if_false, false_implies, true_and,
        Except.ok.injEq] at this ⊢
      exact Iff.trans (by cases o.dataValidation <;> exact Iff.rfl) this
  | true =>
    cases hval : validate s with
    | error e => simp [bind, Except.bind]
    | ok u =>
      cases hr : readSel c s o.nodeProps o.edgeProps with
      | error e => simp [bind, Except.bind]
      | ok r' =>
        have := tail r' hr
        simp only [bind, Except.bind, pure, Except.pure, if_true, true_implies, true_and,
          Except.ok.injEq] at this ⊢
        exact Iff.trans (by cases o.dataValidation <;> exact Iff.rfl) this

/-- the order of the errors: a store the structure validator rejects is rejected with THAT error, before
anything is read and whatever the other keywords are -/
theorem C01_structure_error_first (c : VlenCodec) (validate : St → Outcome Unit)
    (vd : Geff.Validate.Config → ReadResult → Outcome Unit) (o : ReadOpts) (s : St) (e : Err)
    (hsv : o.structureValidation = true) (hval : validate s = .error e) :
    readToMemoryOpts c validate vd o s = .error e := by
  unfold readToMemoryOpts
  simp [hsv, hval, bind, Except.bind]

/-- a read error comes before the data validation, which is then never run -/
theorem C01_read_error_before_data_validation (c : VlenCodec) (validate : St → Outcome Unit)
    (vd : Geff.Validate.Config → ReadResult → Outcome Unit) (o : ReadOpts) (s : St) (e : Err)
    (hsv : o.structureValidation = true → validate s = .ok ())
    (hr : readSel c s o.nodeProps o.edgeProps = .error e) :
    readToMemoryOpts c validate vd o s = .error e := by
  unfold readToMemoryOpts
  cases h : o.structureValidation with
  | false => simp [hr, bind, Except.bind]
  | true => simp [hsv h, hr, bind, Except.bind]

/-- data validation rejecting what was read gives its own error -/
theorem C01_data_validation_error (c : VlenCodec) (validate : St → Outcome Unit)
    (vd : Geff.Validate.Config → ReadResult → Outcome Unit) (o : ReadOpts) (s : St) (r : ReadResult) (e : Err)
    (cfg : Geff.Validate.Config)
    (hsv : o.structureValidation = true → validate s = .ok ())
    (hr : readSel c s o.nodeProps o.edgeProps = .ok r) (hdv : o.dataValidation = some cfg)
    (hv : vd cfg r = .error e) :
    readToMemoryOpts c validate vd o s = .error e := by
  unfold readToMemoryOpts
  cases h : o.structureValidation with
  | false => simp [hr, hdv, hv, bind, Except.bind]
  | true => simp [hsv h, hr, hdv, hv, bind, Except.bind]

/-- the reader used by hand (`GeffReader(store, validate)`, `read_node_props`, `read_edge_props`,
`build()`) is `read_to_memory` without data validation -/
theorem C01_reader_by_hand (c : VlenCodec) (validate : St → Outcome Unit)
    (vd : Geff.Validate.Config → ReadResult → Outcome Unit) (sv : Bool) (nsel esel : Option (List String)) (s : St) :
    readerBuild c validate sv nsel esel s = readToMemoryOpts c validate vd ⟨sv, nsel, esel, none⟩ s := by
  unfold readerBuild readToMemoryOpts
  cases sv with
  | false =>
    cases readSel c s nsel esel <;> simp [bind, Except.bind, pure, Except.pure]
  | true =>
    cases hv : validate s with
    | error e => simp [bind, Except.bind]
    | ok u => cases readSel c s nsel esel <;> simp [bind, Except.bind, pure, Except.pure]

/-- `geff.read(..., backend=b)`: the backend's `construct` receives exactly what `read_to_memory` returns
for the same keywords, and the metadata handed back is the in-memory geff's -/
theorem C01_backend_read {γ : Type} (construct : ReadResult → Outcome γ) (c : VlenCodec) (validate : St → Outcome Unit)
    (vd : Geff.Validate.Config → ReadResult → Outcome Unit) (o : ReadOpts) (s : St) :
    geffRead construct c validate vd o s =
      (match readToMemoryOpts c validate vd o s with
       | .error e => .error e
       | .ok r => (construct r).map (fun g => (g, r.md))) := by
  unfold geffRead
  cases h : readToMemoryOpts c validate vd o s with
  | error e => simp [bind, Except.bind]
  | ok r => cases hc : construct r <;> simp [hc, bind, Except.bind, pure, Except.pure, Except.map]

/-! ## the round trip under every configuration -/

/-- `want` restricted to the names `sel` -/
def restrictProps (want : Props) (sel : List String) : Props := want.filter (fun kv => decide (kv.1 ∈ sel))

theorem lookup_restrictProps (want : Props) (sel : List String) (k : String) :
    lookupKey k (restrictProps want sel) = if k ∈ sel then lookupKey k want else none := by
  unfold lookupKey restrictProps
  induction want with
  | nil => simp
  | cons kv t ih =>
    by_cases hk : kv.1 = k
    · by_cases hs : k ∈ sel
      · simp [hk, hs]
      · have : ¬ kv.1 ∈ sel := hk ▸ hs
        simp only [List.filter_cons, this, decide_false, Bool.false_eq_true, if_false, hs]
        simpa [hs] using ih
    · by_cases hs : kv.1 ∈ sel
      · simp only [List.filter_cons, hs, decide_true, if_true]
        rw [List.find?_cons_of_neg (by simpa using hk), List.find?_cons_of_neg (by simpa using hk)]
        exact ih
      · simp only [List.filter_cons, hs, decide_false, Bool.false_eq_true, if_false]
        rw [List.find?_cons_of_neg (by simpa using hk)]
        exact ih

/-- `SameProps` passes to restrictions -/
theorem sameProps_restriction (want full got : Props) (sel : List String)
    (hfull : SameProps want full) (hr : Restriction sel full got) :
    SameProps (restrictProps want sel) got := by
  have hkeys : ∀ k, (lookupKey k got).isSome = true → k ∈ sel := by
    intro k hk
    have : k ∈ keys got := by
      unfold lookupKey at hk
      rw [Option.isSome_map] at hk
      obtain ⟨kv, hkv⟩ := Option.isSome_iff_exists.mp hk
      have h1 := List.mem_of_find?_eq_some hkv
      have h2 := List.find?_some hkv
      simp only [decide_eq_true_eq] at h2
      exact List.mem_map.mpr ⟨kv, h1, h2⟩
    rw [hr.names] at this
    exact (mem_dedup sel k).mp this
  constructor
  · intro k
    rw [lookup_restrictProps]
    by_cases hk : k ∈ sel
    · simp only [hk, if_true]
      rw [hr.same k hk]; exact hfull.1 k
    · simp only [hk, if_false, Option.isSome_none]
      cases h : (lookupKey k got).isSome with
      | false => rfl
      | true => exact absurd (hkeys k h) hk
  · intro k p hp
    rw [lookup_restrictProps] at hp
    by_cases hk : k ∈ sel
    · simp only [hk, if_true] at hp
      obtain ⟨q, hq, hs⟩ := hfull.2 k p hp
      exact ⟨q, by rw [hr.same k hk]; exact hq, hs⟩
    · simp only [hk, if_false] at hp; cases hp

/-- **C01 under every read configuration.**  For every fresh target, every well-formed graph and every
caller metadata as in `C01_roundtrip_validated`: after `write_arrays`, `read_to_memory` with ANY
`structure_validation`, ANY selection of written node and edge property names (in any order, with
repetitions) and ANY `data_validation` whose validator accepts the data read succeeds and returns the graph
that was written, restricted to the selected properties: ids and edges identical, exactly the selected
properties, each the same as written.  (`vd` is any data validator; that the real one accepts what was
written when the graph is valid is C12–C14's subject.) -/
theorem C01_roundtrip_every_configuration (s0 : St) (g : InMem) (md : CallerMeta) (n e : Nat) (nps eps : Props)
    (hfresh : Fresh s0) (hwf : WFGeff g n e nps eps) (hax : Geff.Bridge.AxesStrict md n nps)
    (hmdN : ∀ kv ∈ md.nodeProps, kv.1 ∈ (expectedNodeProps md n nps).map (·.1))
    (hmdE : ∀ kv ∈ md.edgeProps, kv.1 ∈ eps.map (·.1)) :
    ∃ s', writeArrays vlenCodec Geff.Bridge.validate s0 g md = .ok s' ∧
      ∀ (sv : Bool) (nn en : List String) (dv : Option Geff.Validate.Config)
        (vd : Geff.Validate.Config → ReadResult → Outcome Unit),
        (∀ k ∈ nn, (lookupKey k (expectedNodeProps md n nps)).isSome = true) →
        (∀ k ∈ en, (lookupKey k eps).isSome = true) →
        (∀ cfg r, dv = some cfg → vd cfg r = .ok ()) →
        ∃ r', readToMemoryOpts vlenCodec Geff.Bridge.validate vd ⟨sv, some nn, some en, dv⟩ s' = .ok r' ∧
          Spec g.nodeIds g.edgeIds (restrictProps (expectedNodeProps md n nps) nn) (restrictProps eps en) r' := by
  obtain ⟨s', hw, r, hread, hspec⟩ := C01_roundtrip_validated s0 g md n e nps eps hfresh hwf hax hmdN hmdE
  refine ⟨s', hw, ?_⟩
  intro sv nn en dv vd hnn hen hvd
  unfold readToMemory at hread
  cases hval : Geff.Bridge.validate s' with
  | error err => rw [hval] at hread; cases hread
  | ok u =>
  rw [hval] at hread
  have hcore : readCore vlenCodec s' = .ok r := hread
  have hplain := C01_plain_read vlenCodec s'
  rw [hcore] at hplain
  simp only [Except.map] at hplain
  have hmemN : ∀ k ∈ nn, k ∈ keys r.nodeProps := by
    intro k hk
    have h1 := hnn k hk
    rw [← hspec.nodeProps.1 k] at h1
    unfold lookupKey at h1
    rw [Option.isSome_map] at h1
    obtain ⟨kv, hkv⟩ := Option.isSome_iff_exists.mp h1
    have h2 := List.find?_some hkv
    simp only [decide_eq_true_eq] at h2
    exact List.mem_map.mpr ⟨kv, List.mem_of_find?_eq_some hkv, h2⟩
  have hmemE : ∀ k ∈ en, k ∈ keys r.edgeProps := by
    intro k hk
    have h1 := hen k hk
    rw [← hspec.edgeProps.1 k] at h1
    unfold lookupKey at h1
    rw [Option.isSome_map] at h1
    obtain ⟨kv, hkv⟩ := Option.isSome_iff_exists.mp h1
    have h2 := List.find?_some hkv
    simp only [decide_eq_true_eq] at h2
    exact List.mem_map.mpr ⟨kv, List.mem_of_find?_eq_some hkv, h2⟩
  obtain ⟨r', hsel, hi1, hi2, hrn, hre, _⟩ := C01_selection_is_restriction vlenCodec s' _ hplain nn en hmemN hmemE
  refine ⟨r', ?_, ?_⟩
  · rw [C01_validation_is_a_filter]
    exact ⟨fun _ => by rw [hval], hsel, fun cfg h => hvd cfg r' h⟩
  · exact ⟨by rw [hi1]; exact hspec.nodeIds, by rw [hi2]; exact hspec.edgeIds,
      sameProps_restriction _ _ _ nn hspec.nodeProps hrn, sameProps_restriction _ _ _ en hspec.edgeProps hre⟩

/-! ## non-vacuity -/

/-- the hypotheses of the selection theorems are met by a concrete written graph: the full read of the
store the model writes for the example graph of `GeffProps/C01.lean` succeeds -/
example : ∃ r, (do
    let s ← writeArrays vlenCodec (fun _ => pure ()) [] ⟨exNodeIds, exEdgeIds,
      some [("values", exDense), ("poly", exVlen), ("t", exT)], some []⟩ exMd
    readSel vlenCodec s (some ["poly", "t", "poly"]) (some [])) = .ok r ∧
      keys r.nodeProps = ["poly", "t"] := by
  refine ⟨_, rfl, ?_⟩
  decide

end GeffProps.C01ReadOpts
