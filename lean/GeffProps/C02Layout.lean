import GeffProofs.SpecDecode
/-! # C02 — the layout freedom of a variable-length property

docs/specification.md says of a variable-length property only that `data` holds "a 1D flattened array of
the actual values" and that the "`values` array will contain the offset and shape of the relevant section
of data".  WHERE the sections lie is the writer's choice: elements appended in any order (offsets not
increasing), unused cells before / between / after the sections, rows sharing cells, a zero-sized element
anywhere.

This file states that the specification's decoder `Geff.Spec.denote` (GeffModel/SpecDecode.lean) — and hence,
by `C02_reader_accepts_all_conformant`, what the library's reader must return — depends **only** on the rows
of the offset table and on the cells of `data` inside the sections the rows point to:

* `sectionOf_congr`        one element: same shape + same cells in the section ⇒ same decoded element,
                           whatever the offsets and whatever else `data` holds;
* `sectionOf_shift`, `sectionOf_trailing`   moving a section by prepending cells (offset + k), cells after it;
* `vlenCells_layout`       one property: row by row the same sections ⇒ the same list of elements;
* `denoteProp_layout`      one property group of a store;
* **`denote_relayout`**    a whole store: replacing the `values` / `data` arrays of one variable-length
                           property by ANY other pair with the same sections (`SameSections`: permuted, with
                           gaps, shared, shifted …) does not change the graph the store denotes;
* `reader_relayout`        … and therefore not what the model of `read_to_memory` returns.

Tie to the code: `harness/corr/_c02_layout.py` (every append order × gap patterns × shapes × masks of small
element lists, + seeded random plans) lays real stores out that way with the zarr API only; the real reader
(read_to_memory, GeffReader.build unmasked and masked, geff.read) must return what `denote` says. -/
namespace GeffProps.C02Layout
open Geff.Np Geff.Store Geff.WR Geff.Spec

/-! ## one element -/

/-- **The decoded element depends only on the row's shape and on the cells inside the section it points
to**: two (data, row) pairs with the same shape, the same dtype and the same cells
`data[off : off + size shape]` decode to the same array — whatever the two offsets are and whatever lies
outside the sections. -/
theorem sectionOf_congr (d d' : NdArr) (row row' : List Val) (off off' : Nat) (shape : List Nat)
    (hr : row.mapM natOf = some (off :: shape)) (hr' : row'.mapM natOf = some (off' :: shape))
    (hdt : d.dtype = d'.dtype)
    (hcells : (d.flat.drop off).take (size shape) = (d'.flat.drop off').take (size shape)) :
    sectionOf d row = sectionOf d' row' := by
  unfold sectionOf
  simp only [hr, hr', hdt, hcells]

theorem mapM_natOf_cons (x : Nat) (row : List Val) (l : List Nat) (h : row.mapM natOf = some l) :
    (Val.i (x : Int) :: row).mapM natOf = some (x :: l) := by
  simp [List.mapM_cons, natOf, h]

/-- moving a section: `k` cells put in front of `data` and the offset increased by `k` — the element is the
same (a first offset ≠ 0, a gap in front of a section, a section appended later than its row's position) -/
theorem sectionOf_shift (d : NdArr) (pre : List Val) (off : Nat) (rest : List Val) (shape : List Nat)
    (hrest : rest.mapM natOf = some shape) :
    sectionOf { d with flat := pre ++ d.flat } (Val.i ((pre.length + off : Nat) : Int) :: rest)
      = sectionOf d (Val.i (off : Int) :: rest) := by
  refine sectionOf_congr { d with flat := pre ++ d.flat } d _ _ (pre.length + off) off shape
    (mapM_natOf_cons _ _ _ hrest) (mapM_natOf_cons _ _ _ hrest) rfl ?_
  show ((pre ++ d.flat).drop (pre.length + off)).take (size shape) = (d.flat.drop off).take (size shape)
  rw [← List.drop_drop, List.drop_left]

/-- cells after a section that lies inside `data` are not part of the element (trailing unused cells, later
sections) -/
theorem sectionOf_trailing (d : NdArr) (post : List Val) (off : Nat) (rest : List Val) (shape : List Nat)
    (hrest : rest.mapM natOf = some shape) (hin : off + size shape ≤ d.flat.length) :
    sectionOf { d with flat := d.flat ++ post } (Val.i (off : Int) :: rest) = sectionOf d (Val.i (off : Int) :: rest) := by
  refine sectionOf_congr { d with flat := d.flat ++ post } d _ _ off off shape
    (mapM_natOf_cons _ _ _ hrest) (mapM_natOf_cons _ _ _ hrest) rfl ?_
  show ((d.flat ++ post).drop off).take (size shape) = (d.flat.drop off).take (size shape)
  rw [List.drop_append_of_le_length (by omega), List.take_append_of_le_length (by simp; omega)]

/-! ## one property -/

theorem mapM_eq_of_map_eq {α α' β} (f : α → Option β) (g : α' → Option β) :
    ∀ (l : List α) (l' : List α'), l.map f = l'.map g → l.mapM f = l'.mapM g := by
  intro l
  induction l with
  | nil => intro l' h; cases l' with
    | nil => rfl
    | cons b t => simp at h
  | cons a t ih => intro l' h; cases l' with
    | nil => simp at h
    | cons b t' =>
      simp only [List.map_cons, List.cons.injEq] at h
      simp only [List.mapM_cons, h.1, ih t' h.2]

/-- two (offset table, data) pairs hold **the same sections**: tables of the same shape (one row per
element), both of an integer dtype (not necessarily the same one), data arrays of the same dtype, and row by
row the same decoded section.  By `sectionOf_congr` the last clause holds as soon as corresponding rows have
the same shape and point to equal cells — for any permutation of the append order, any gaps, any sharing. -/
structure SameSections (values d values' d' : NdArr) : Prop where
  tableShape : values'.shape = values.shape
  tableInt : values'.dtype.isInteger = values.dtype.isInteger
  tableWS : wellShaped values' = wellShaped values
  dataFlat : (∃ m, d.shape = [m]) ∧ (∃ m', d'.shape = [m'])
  dataWS : wellShaped d' = wellShaped d
  dataDtype : d'.dtype = d.dtype
  sections : ∀ n w, values.shape = [n, w] →
    (rowsOf w n values'.flat).map (sectionOf d') = (rowsOf w n values.flat).map (sectionOf d)

/-- the elements of a variable-length property depend only on the sections -/
theorem vlenCells_layout (values d values' d' : NdArr) (h : SameSections values d values' d') (n : Nat) (dt : Dtype) :
    vlenCells values' d' n dt = vlenCells values d n dt := by
  obtain ⟨⟨m, hm⟩, ⟨m', hm'⟩⟩ := h.dataFlat
  unfold vlenCells
  rw [h.tableShape, hm, hm']
  rcases hshape : values.shape with _ | ⟨n', _ | ⟨w, _ | ⟨x, t⟩⟩⟩
  · rfl
  · rfl
  · simp only [h.tableInt, h.tableWS, h.dataWS, h.dataDtype]
    split
    · rename_i hc
      have hn : n' = n := hc.1
      subst hn
      exact mapM_eq_of_map_eq _ _ _ _ (h.sections n' w hshape)
    · rfl
  · rfl

/-- one property group: if two stores hold, at the group `q`, the same `missing` and tables / data with the
same sections, the property they denote is the same -/
theorem denoteProp_layout (s s' : St) (q : Path) (n : Nat) (md : PropMeta) (values d values' d' : NdArr)
    (hg : groupAt s' q = groupAt s q)
    (hmiss : optionalArray s' (q ++ ["missing"]) = optionalArray s (q ++ ["missing"]))
    (hv : arrayAt s (q ++ ["values"]) = some values) (hv' : arrayAt s' (q ++ ["values"]) = some values')
    (hd : optionalArray s (q ++ ["data"]) = some (some d)) (hd' : optionalArray s' (q ++ ["data"]) = some (some d'))
    (h : SameSections values d values' d') :
    denoteProp s' q n md = denoteProp s q n md := by
  unfold denoteProp
  rw [hg, hmiss, hv, hv', hd, hd']
  split
  · rfl
  · cases hm : optionalArray s (q ++ ["missing"]) with
    | none => rfl
    | some missing =>
      cases hdt : Dtype.ofName? md.dtype with
      | none => rfl
      | some dt =>
        simp only []
        cases maskBits missing n with
        | none => rfl
        | some bits =>
          simp only []
          split
          · rw [vlenCells_layout values d values' d' h n dt]
          · rfl

/-! ## a whole store -/

/-- the store `s` with the `values` and `data` arrays of the property group `q` replaced (every other entry,
and the order of the entries, untouched) -/
def relayout (s : St) (q : Path) (values' d' : NdArr) : St :=
  s.map (fun kv => if kv.1 = q ++ ["values"] then (kv.1, Entry.array values')
    else if kv.1 = q ++ ["data"] then (kv.1, Entry.array d') else kv)

theorem relayout_fst (q : Path) (values' d' : NdArr) (kv : Path × Entry) :
    ((fun kv : Path × Entry => if kv.1 = q ++ ["values"] then (kv.1, Entry.array values')
      else if kv.1 = q ++ ["data"] then (kv.1, Entry.array d') else kv) kv).1 = kv.1 := by
  simp only []
  split
  · rfl
  · split <;> rfl

theorem get_relayout (s : St) (q : Path) (values' d' : NdArr) (p : Path) :
    get (relayout s q values' d') p =
      if p = q ++ ["values"] then (get s p).map (fun _ => Entry.array values')
      else if p = q ++ ["data"] then (get s p).map (fun _ => Entry.array d') else get s p := by
  unfold Geff.Store.get relayout
  induction s with
  | nil => simp
  | cons kv t ih =>
    simp only [List.map_cons, List.find?_cons]
    by_cases hk : kv.1 = p
    · subst hk
      by_cases h1 : kv.1 = q ++ ["values"]
      · simp [h1]
      · by_cases h2 : kv.1 = q ++ ["data"]
        · simp [h2]
        · simp [h1, h2]
    · have : ((fun kv : Path × Entry => if kv.1 = q ++ ["values"] then (kv.1, Entry.array values')
          else if kv.1 = q ++ ["data"] then (kv.1, Entry.array d') else kv) kv).1 ≠ p := by
        rw [relayout_fst]; exact hk
      simp only [this, hk, decide_false]
      exact ih

theorem childNames_relayout (s : St) (q : Path) (values' d' : NdArr) (pre : Path) :
    childNames (relayout s q values' d') pre = childNames s pre := by
  unfold childNames relayout
  rw [List.filterMap_map]
  congr 1
  funext kv
  simp only [Function.comp]
  rw [relayout_fst]

/-- a store that agrees with `s` on every path except the `values` / `data` arrays of the property group `q`
(a child of `nodes/props` or `edges/props`), lists the same children everywhere, and denotes the same property
at `q`, denotes the same graph -/
theorem denote_congr (s s' : St) (q : Path) (hq : q.length = 3)
    (hget : ∀ p, p ≠ q ++ ["values"] → p ≠ q ++ ["data"] → get s' p = get s p)
    (hch : ∀ pre, childNames s' pre = childNames s pre)
    (hprop : ∀ n md, denoteProp s' q n md = denoteProp s q n md) : denote s' = denote s := by
  have short : ∀ p : Path, p.length ≠ 4 → get s' p = get s p := by
    intro p hp
    apply hget <;> intro h <;> apply hp <;> rw [h] <;> simp [hq]
  have other : ∀ (q2 : Path) (x : String), q2 ≠ q → get s' (q2 ++ [x]) = get s (q2 ++ [x]) := by
    intro q2 x hne
    apply hget <;> intro h <;> exact hne (List.append_inj' h rfl).1
  have hpropOther : ∀ (q2 : Path) n md, q2.length = 3 → q2 ≠ q → denoteProp s' q2 n md = denoteProp s q2 n md := by
    intro q2 n md hl hne
    unfold denoteProp groupAt arrayAt optionalArray
    rw [short q2 (by omega), other q2 "values" hne, other q2 "missing" hne, other q2 "data" hne]
  have hprops : ∀ (pre : Path) n mds, pre.length = 2 → denoteProps s' pre n mds = denoteProps s pre n mds := by
    intro pre n mds hl
    unfold denoteProps
    rw [short pre (by omega), hch pre]
    cases get s pre with
    | none => rfl
    | some e =>
      cases e with
      | array _ => rfl
      | group _ =>
        simp only []
        apply mapM_eq_of_map_eq
        apply List.map_congr_left
        intro k _
        unfold denotePropNamed
        cases find k mds with
        | none => rfl
        | some md =>
          simp only []
          by_cases hk : pre ++ [k] = q
          · rw [hk, hprop]
          · rw [hpropOther (pre ++ [k]) n md (by simp [hl]) hk]
  unfold denote geffMeta groupAt arrayAt
  rw [short [] (by simp), short ["nodes"] (by simp), short ["edges"] (by simp), short ["nodes", "ids"] (by simp),
    short ["edges", "ids"] (by simp)]
  simp only [hprops ["nodes", "props"] _ _ rfl, hprops ["edges", "props"] _ _ rfl]

/-- **C02, layout invariance.**  Let `q` be a property group (`nodes/props/<k>` or `edges/props/<k>`) of ANY
store `s` that holds arrays `values` and `d` at `q/values`, `q/data`.  Replacing them by ANY pair
`values'`, `d'` with the same sections — the elements appended to `data` in another order, unused cells added
or removed anywhere, equal elements stored once, the table in another integer dtype — leaves the graph the
store denotes unchanged (and conformance: `denote` is defined on both or on neither). -/
theorem denote_relayout (s : St) (q : Path) (hq : q.length = 3) (values d values' d' : NdArr)
    (hv : get s (q ++ ["values"]) = some (.array values)) (hd : get s (q ++ ["data"]) = some (.array d))
    (h : SameSections values d values' d') :
    denote (relayout s q values' d') = denote s := by
  have hne : q ++ ["data"] ≠ q ++ ["values"] := by
    intro hh; have := (List.append_inj' hh rfl).2; simp at this
  apply denote_congr s _ q hq
  · intro p h1 h2; rw [get_relayout]; simp [h1, h2]
  · exact childNames_relayout s q values' d'
  · intro n md
    have hq4 : ∀ x : String, q ≠ q ++ [x] := by
      intro x hh; have := congrArg List.length hh; simp at this
    apply denoteProp_layout _ _ q n md values d values' d'
    · unfold groupAt; rw [get_relayout]; simp [hq4]
    · have h1 : q ++ ["missing"] ≠ q ++ ["values"] := by
        intro hh; have := (List.append_inj' hh rfl).2; simp at this
      have h2 : q ++ ["missing"] ≠ q ++ ["data"] := by
        intro hh; have := (List.append_inj' hh rfl).2; simp at this
      unfold optionalArray; rw [get_relayout]; simp [h1, h2]
    · unfold arrayAt; rw [hv]
    · unfold arrayAt; rw [get_relayout]; simp [hv]
    · unfold optionalArray; rw [hd]
    · unfold optionalArray; rw [get_relayout]; simp [hne, hd]
    · exact h

/-- … and therefore the model of the library's reader returns the same graph on both stores: whatever
`read_to_memory` does with the offsets, on a conformant store its result is fixed by the sections alone. -/
theorem reader_relayout (s : St) (q : Path) (hq : q.length = 3) (values d values' d' : NdArr)
    (hv : get s (q ++ ["values"]) = some (.array values)) (hd : get s (q ++ ["data"]) = some (.array d))
    (h : SameSections values d values' d') (hfit : IntsFit (relayout s q values' d')) (G : Graph)
    (hG : denote s = some G) :
    ∃ r, readCore vlenCodec (relayout s q values' d') = .ok r ∧ graphOf r = G :=
  readCore_of_denote _ hfit G (by rw [denote_relayout s q hq values d values' d' hv hd h, hG])

/-! ## non-vacuity: concrete layouts of one property (evaluations) -/

section Examples

/-- three nodes, one variable-length property `poly` with the elements `[1,2] [3,4] [5,6]`, laid out in row
order (what geff's writer does) -/
def rowOrder : St := [
  ([], .group [("geff", .geff ⟨true, none, [("poly", ⟨"poly", "int8", some true⟩)], []⟩)]),
  (["edges"], .group []), (["edges", "ids"], .array ⟨.u8, [0, 2], []⟩),
  (["nodes"], .group []), (["nodes", "ids"], .array ⟨.u8, [3], [.i 10, .i 20, .i 30]⟩),
  (["nodes", "props"], .group []), (["nodes", "props", "poly"], .group []),
  (["nodes", "props", "poly", "values"], .array ⟨.u64, [3, 2], [.i 0, .i 2, .i 2, .i 2, .i 4, .i 2]⟩),
  (["nodes", "props", "poly", "data"], .array ⟨.i8, [6], [.i 1, .i 2, .i 3, .i 4, .i 5, .i 6]⟩)]

def q : Path := ["nodes", "props", "poly"]

/-- the same elements appended in the order 10, 30, 20 while the rows stay sorted by id: offsets 0, 4, 2 — they
start at 0 and the sizes add up to `len(data)`, but they are not increasing -/
def tblPermuted : NdArr := ⟨.u64, [3, 2], [.i 0, .i 2, .i 4, .i 2, .i 2, .i 2]⟩
def dataPermuted : NdArr := ⟨.i8, [6], [.i 1, .i 2, .i 5, .i 6, .i 3, .i 4]⟩

/-- back to front, a gap in front, one between, unused cells at the end, an int64 table -/
def tblGaps : NdArr := ⟨.i64, [3, 2], [.i 7, .i 2, .i 4, .i 2, .i 1, .i 2]⟩
def dataGaps : NdArr := ⟨.i8, [11], [.i 77, .i 5, .i 6, .i 77, .i 3, .i 4, .i 77, .i 1, .i 2, .i 77, .i 77]⟩

/-- shared cells: the elements `[1,2] [2,3] [1,2]` of another graph stored in three cells -/
def tblShared : NdArr := ⟨.u64, [3, 2], [.i 0, .i 2, .i 1, .i 2, .i 0, .i 2]⟩
def dataShared : NdArr := ⟨.i8, [3], [.i 1, .i 2, .i 3]⟩

theorem same_permuted : SameSections ⟨.u64, [3, 2], [.i 0, .i 2, .i 2, .i 2, .i 4, .i 2]⟩
    ⟨.i8, [6], [.i 1, .i 2, .i 3, .i 4, .i 5, .i 6]⟩ tblPermuted dataPermuted where
  tableShape := rfl
  tableInt := rfl
  tableWS := rfl
  dataFlat := ⟨⟨6, rfl⟩, ⟨6, rfl⟩⟩
  dataWS := rfl
  dataDtype := rfl
  sections := by intro n w hs; cases hs; decide

theorem same_gaps : SameSections ⟨.u64, [3, 2], [.i 0, .i 2, .i 2, .i 2, .i 4, .i 2]⟩
    ⟨.i8, [6], [.i 1, .i 2, .i 3, .i 4, .i 5, .i 6]⟩ tblGaps dataGaps where
  tableShape := rfl
  tableInt := rfl
  tableWS := rfl
  dataFlat := ⟨⟨6, rfl⟩, ⟨11, rfl⟩⟩
  dataWS := rfl
  dataDtype := rfl
  sections := by intro n w hs; cases hs; decide

/-- equal elements stored once / overlapping sections (3 cells) vs every element stored separately (6 cells) -/
theorem same_shared : SameSections ⟨.u64, [3, 2], [.i 0, .i 2, .i 2, .i 2, .i 4, .i 2]⟩
    ⟨.i8, [6], [.i 1, .i 2, .i 2, .i 3, .i 1, .i 2]⟩ tblShared dataShared where
  tableShape := rfl
  tableInt := rfl
  tableWS := rfl
  dataFlat := ⟨⟨6, rfl⟩, ⟨3, rfl⟩⟩
  dataWS := rfl
  dataDtype := rfl
  sections := by intro n w hs; cases hs; decide

/-- instances of `denote_relayout` (hypotheses met by concrete stores) … -/
example : denote (relayout rowOrder q tblPermuted dataPermuted) = denote rowOrder :=
  denote_relayout rowOrder q rfl _ _ _ _ rfl rfl same_permuted
example : denote (relayout rowOrder q tblGaps dataGaps) = denote rowOrder :=
  denote_relayout rowOrder q rfl _ _ _ _ rfl rfl same_gaps

/-- … and what they denote: node 10 ↦ [1,2], node 20 ↦ [3,4], node 30 ↦ [5,6] under every layout -/
example : (denote (relayout rowOrder q tblPermuted dataPermuted)).map (·.nodeProps) =
    some [("poly", ⟨true, [some ⟨.i8, [2], [.i 1, .i 2]⟩, some ⟨.i8, [2], [.i 3, .i 4]⟩, some ⟨.i8, [2], [.i 5, .i 6]⟩]⟩)] := by decide
example : (denote (relayout rowOrder q tblGaps dataGaps)).map (·.nodeProps) =
    some [("poly", ⟨true, [some ⟨.i8, [2], [.i 1, .i 2]⟩, some ⟨.i8, [2], [.i 3, .i 4]⟩, some ⟨.i8, [2], [.i 5, .i 6]⟩]⟩)] := by decide
example : (denote (relayout rowOrder q tblShared dataShared)).map (·.nodeProps) =
    some [("poly", ⟨true, [some ⟨.i8, [2], [.i 1, .i 2]⟩, some ⟨.i8, [2], [.i 2, .i 3]⟩, some ⟨.i8, [2], [.i 1, .i 2]⟩]⟩)] := by decide

/-- the model reader on the permuted store returns the denoted graph (instance of `reader_relayout`) -/
example : (match readCore vlenCodec (relayout rowOrder q tblPermuted dataPermuted) with
    | .ok r => decide (some (graphOf r) = denote rowOrder) | .error _ => false) = true := by decide

/-- sensitivity: the offsets matter — the permuted table over the row-order data is another graph -/
example : denote (relayout rowOrder q tblPermuted ⟨.i8, [6], [.i 1, .i 2, .i 3, .i 4, .i 5, .i 6]⟩) ≠ denote rowOrder := by decide

/-- A reading that ignores the stored offsets — cut `data` at the running sums of the element sizes, in row
order — is NOT the specification's decoder, even when the table starts at offset 0 and the sizes add up to
`len(data)` ("the elements tile `data`"): pinned on the permuted layout above. -/
def cutAtRunningSums (dt : Dtype) : List (List Nat) → List Val → List NdArr
  | [], _ => []
  | [] :: t, flat => cutAtRunningSums dt t flat
  | (_ :: shape) :: t, flat => ⟨dt, shape, flat.take (size shape)⟩ :: cutAtRunningSums dt t (flat.drop (size shape))

theorem running_sums_reading_is_not_the_decoder :
    -- first offset 0, sizes add up to len(data) …
    tblPermuted.flat.head? = some (.i 0) ∧ 2 + 2 + 2 = dataPermuted.flat.length ∧
    -- … and still the cut differs from the decoded elements
    some (cutAtRunningSums .i8 [[0, 2], [4, 2], [2, 2]] dataPermuted.flat) ≠ vlenCells tblPermuted dataPermuted 3 .i8 := by decide

end Examples

end GeffProps.C02Layout
