import GeffProofs.Dataframe
import Gen.ConvertCtcDf
/-! # C17 — table export lists every node and edge with aligned property columns

Property theorems only.  Model: `Geff.Dataframe.geffToDataframes` (`GeffModel/Dataframe.lean`), tied
to `geff.convert.geff_to_dataframes` by `harness/corr/C17.py` (the model and the implementation
are run on the same generated stores and the complete tables are compared).

Everything is universally quantified: any value type `α`, any number of nodes / edges / properties,
any trailing shape (rank, singleton and empty dimensions), any mask.

Also modelled: which CSV files `geff_to_csv` writes or keeps (`geffToCsv`, mode `x` / `w`).

Not covered by a theorem (differential tests in the harness, "partial"): pandas' dtype upcasts of
masked columns, the CSV text written by `DataFrame.to_csv` and its re-parsing, `Path.with_suffix`. -/
namespace GeffProps.C17
open Geff.Dataframe
variable {α : Type}

/-! ## Specification vocabulary -/

/-- what `read_to_memory` hands over: every property array has the leading length of its axis,
every `values[r].ravel()` has `prod trail` entries, a mask (when present) has one flag per element -/
def WF (g : InMemGeff α) : Prop :=
  (∀ p ∈ g.nodeProps, p.WF g.nodeIds.length) ∧ (∀ p ∈ g.edgeProps, p.WF g.edgeIds.length)

/-! `colNames p` (defined next to the model, `GeffModel/Dataframe.lean`): the column names a property
must produce — `name` when no trailing dimension differs from 1, `name_0 … name_{k-1}` when exactly
one does (`k` = that dimension), none for higher rank. -/

/-- no two sources (id columns, property columns) claim the same column name -/
def NoCollision (g : InMemGeff α) : Prop :=
  ("id" :: g.nodeProps.flatMap colNames).Nodup ∧ ("source" :: "target" :: g.edgeProps.flatMap colNames).Nodup

/-- element `r` of property `p` is flagged missing -/
def Flagged (p : PropArr α) (r : Nat) : Prop := ∃ m, p.missing = some m ∧ m[r]? = some true

/-- `cells` is component `j` of the property, row by row: as many cells as elements, NaN exactly
where flagged, the stored value otherwise -/
def AlignedCol (p : PropArr α) (n j : Nat) (cells : List (Cell α)) : Prop :=
  cells.length = n ∧
  ∀ r row a, p.rows[r]? = some row → row[j]? = some a →
    (Flagged p r → cells[r]? = some Cell.nan) ∧ (¬ Flagged p r → cells[r]? = some (Cell.val a))

/-- how one property appears in a table -/
def Exported (p : PropArr α) (n : Nat) (table : Dict α) (warns : List Warning) : Prop :=
  match squeezeTrail p.trail with
  | [] => ∃ cells, (p.name, cells) ∈ table ∧ AlignedCol p n 0 cells
  | [k] => ∀ j, j < k → ∃ cells, (subName p.name j, cells) ∈ table ∧ AlignedCol p n j cells
  | sq => (p.name, sq.length + 1) ∈ warns

/-! ## Helper facts connecting the helper lemmas' `specCols` to the vocabulary above -/

theorem keys_specCols (n : Nat) (p : PropArr α) : keys (specCols n p) = colNames p := by
  unfold specCols colNames keys
  rcases hsq : squeezeTrail p.trail with _ | ⟨k, _ | ⟨k2, rest⟩⟩ <;> simp [Function.comp_def]

theorem keys_flatMap_specCols (n : Nat) (ps : List (PropArr α)) :
    keys (ps.flatMap (specCols n)) = ps.flatMap colNames := by
  induction ps with
  | nil => rfl
  | cons p ps ih =>
    have := keys_specCols n p
    simp only [keys] at this ih ⊢
    simp [List.flatMap_cons, this, ih]

theorem specCells_getElem? (j : Nat) : ∀ (rows : List (List α)) (ms : List Bool) (r : Nat) (row : List α) (m : Bool),
    rows[r]? = some row → ms[r]? = some m →
    (specCells j rows ms)[r]? =
      some (if m then Cell.nan else match row[j]? with | some a => Cell.val a | none => Cell.nan) := by
  intro rows
  induction rows with
  | nil => intro ms r row m h; simp at h
  | cons row0 rows ih =>
    intro ms r row m hr hm
    cases ms with
    | nil => simp at hm
    | cons m0 ms =>
      cases r with
      | zero =>
        simp only [List.getElem?_cons_zero, Option.some.injEq] at hr hm
        subst hr; subst hm
        simp only [specCells, List.getElem?_cons_zero]
        cases m0 <;> cases row0[j]? <;> rfl
      | succ r => simp at hr hm; simpa [specCells] using ih ms r row m hr hm

theorem aligned_specCells (p : PropArr α) (n j : Nat) (hwf : p.WF n) :
    AlignedCol p n j (specCells j p.rows (maskOf p.missing n)) := by
  have hmlen : (maskOf p.missing n).length = p.rows.length := by
    unfold maskOf
    cases hm : p.missing with
    | none => simp [hwf.rows_len]
    | some m => simp [hwf.missing_len m hm, hwf.rows_len]
  refine ⟨by rw [specCells_length j _ _ hmlen, hwf.rows_len], ?_⟩
  intro r row a hr ha
  have hrlt : r < p.rows.length := by
    rcases Nat.lt_or_ge r p.rows.length with h | h
    · exact h
    · rw [List.getElem?_eq_none h] at hr; cases hr
  have hmr : (maskOf p.missing n)[r]? = some ((maskOf p.missing n)[r]'(by omega)) :=
    List.getElem?_eq_getElem (by omega)
  have hcell := specCells_getElem? j p.rows _ r row _ hr hmr
  rw [ha] at hcell
  have hflag : Flagged p r ↔ (maskOf p.missing n)[r]'(by omega) = true := by
    unfold Flagged
    constructor
    · rintro ⟨m, hm, hmt⟩
      have : (maskOf p.missing n)[r]? = some true := by simpa [maskOf, hm] using hmt
      rw [hmr] at this; exact Option.some.inj this
    · intro ht
      cases hm : p.missing with
      | none =>
        have : (maskOf p.missing n)[r]'(by omega) = false := by simp [maskOf, hm]
        rw [this] at ht; cases ht
      | some m =>
        refine ⟨m, rfl, ?_⟩
        have : (maskOf p.missing n)[r]? = some true := by rw [hmr, ht]
        simpa [maskOf, hm] using this
  constructor
  · intro hf; rw [hcell, hflag.1 hf]; rfl
  · intro hf
    have : (maskOf p.missing n)[r]'(by omega) = false := by
      cases hb : (maskOf p.missing n)[r]'(by omega) with
      | false => rfl
      | true => exact absurd (hflag.2 hb) hf
    rw [hcell, this]; rfl

/-- the driver's collision flag (which the harness uses to classify the known finding) is the
theorems' hypothesis -/
theorem noCollisionB_iff (g : InMemGeff α) :
    (noCollisionB ["id"] g.nodeProps = true ∧ noCollisionB ["source", "target"] g.edgeProps = true) ↔ NoCollision g := by
  simp [noCollisionB, NoCollision]

/-! ## Tie to the source: literal tables regenerated by translator T8a -/

/-- The literals `GeffModel/Dataframe.lean` hard-codes are the ones found in the current
`_dataframe.py`: the id column names, the `name_i` separator, `mode = "w" if overwrite else "x"`,
the two file suffixes and the order nodes-then-edges of the two `to_csv` calls. -/
theorem gen_dataframe_tables_current :
    Gen.ConvertCtcDf.translationOk = true ∧
    Gen.ConvertCtcDf.dfIdCols = keys (nodeIdCols (⟨[], [], [], []⟩ : InMemGeff Nat)) ++
      keys (edgeIdCols (⟨[], [], [], []⟩ : InMemGeff Nat)) ∧
    subName "p" 3 = "p" ++ Gen.ConvertCtcDf.dfSubSep ++ "3" ∧
    Gen.ConvertCtcDf.csvModes = ("w", "x") ∧
    Gen.ConvertCtcDf.csvSuffixes = ["-nodes.csv", "-edges.csv"] ∧
    Gen.ConvertCtcDf.csvWriteOrder = ["node_df", "edge_df"] := by
  decide

/-! ## Property theorems -/

/-- **C17 (the whole export, closed form)**: for every well-formed in-memory geff without a
column-name collision the export raises nothing and the two dictionaries handed to `pd.DataFrame`
are: the id column(s) followed, property by property in stored order, by exactly the columns of
the naming rule; the warnings are exactly those of the properties of rank > 2. -/
theorem C17_export (g : InMemGeff α) (hwf : WF g) (hnc : NoCollision g) :
    geffToDataframes g = .ok
      ⟨nodeIdCols g ++ g.nodeProps.flatMap (specCols g.nodeIds.length), g.nodeProps.flatMap specWarn,
       edgeIdCols g ++ g.edgeProps.flatMap (specCols g.edgeIds.length), g.edgeProps.flatMap specWarn⟩ := by
  have h1 := addProps_spec g.nodeIds.length g.nodeProps (nodeIdCols g) [] hwf.1
    (by rw [keys_flatMap_specCols]; simpa [keys, nodeIdCols] using hnc.1)
  have h2 := addProps_spec g.edgeIds.length g.edgeProps (edgeIdCols g) [] hwf.2
    (by rw [keys_flatMap_specCols]; simpa [keys, edgeIdCols] using hnc.2)
  simp [geffToDataframes, h1, h2]

/-- **C17_rows**: one row per node with column `id`, one row per edge with columns `source`,
`target`, in stored order — the id columns come first and hold the stored ids, and *every* column
of a table has exactly as many cells as there are nodes (edges). -/
theorem C17_rows (g : InMemGeff α) (hwf : WF g) (hnc : NoCollision g) :
    ∃ t, geffToDataframes g = .ok t ∧
      t.nodes.head? = some ("id", g.nodeIds.map Cell.val) ∧
      (∀ c ∈ t.nodes, c.2.length = g.nodeIds.length) ∧
      t.edges.take 2 = [("source", g.edgeIds.map (fun e => Cell.val e.1)),
                        ("target", g.edgeIds.map (fun e => Cell.val e.2))] ∧
      (∀ c ∈ t.edges, c.2.length = g.edgeIds.length) := by
  refine ⟨_, C17_export g hwf hnc, by simp [nodeIdCols], ?_, by simp [edgeIdCols], ?_⟩
  · intro c hc
    rcases List.mem_append.1 hc with h | h
    · simp [nodeIdCols] at h; subst h; simp
    · obtain ⟨p, hp, hcp⟩ := List.mem_flatMap.1 h
      have hal := fun j => (aligned_specCells p g.nodeIds.length j (hwf.1 p hp)).1
      unfold specCols at hcp
      split at hcp
      · simp at hcp; subst hcp; exact hal 0
      · simp at hcp; obtain ⟨j, _, rfl⟩ := hcp; exact hal j
      · simp at hcp
  · intro c hc
    rcases List.mem_append.1 hc with h | h
    · simp [edgeIdCols] at h; rcases h with h | h <;> subst h <;> simp
    · obtain ⟨p, hp, hcp⟩ := List.mem_flatMap.1 h
      have hal := fun j => (aligned_specCells p g.edgeIds.length j (hwf.2 p hp)).1
      unfold specCols at hcp
      split at hcp
      · simp at hcp; subst hcp; exact hal 0
      · simp at hcp; obtain ⟨j, _, rfl⟩ := hcp; exact hal j
      · simp at hcp

theorem exported_of_mem (p : PropArr α) (n : Nat) (hwf : p.WF n) (ps : List (PropArr α)) (hp : p ∈ ps)
    (ids : Dict α) : Exported p n (ids ++ ps.flatMap (specCols n)) (ps.flatMap specWarn) := by
  unfold Exported
  have hcols : ∀ c ∈ specCols n p, c ∈ ids ++ ps.flatMap (specCols n) :=
    fun c hc => List.mem_append_right _ (List.mem_flatMap.2 ⟨p, hp, hc⟩)
  split
  · next hsq =>
    exact ⟨_, hcols _ (by simp [specCols, hsq]), aligned_specCells p n 0 hwf⟩
  · next k hsq =>
    intro j hj
    refine ⟨_, hcols (subName p.name j, specCells j p.rows (maskOf p.missing n)) ?_, aligned_specCells p n j hwf⟩
    simp only [specCols, hsq, List.mem_map, List.mem_range']
    exact ⟨j, ⟨by omega, by omega⟩, rfl⟩  
  · next sq h1 h2 =>
    refine List.mem_flatMap.2 ⟨p, hp, ?_⟩
    unfold specWarn
    split
    · next h => exact absurd h h1
    · next k h => exact absurd h (h2 k)
    · simp

/-- **C17_columns**: the columns of each table are exactly the id column(s) plus, per property, the
columns of the naming rule (so a property of rank > 2 — after dropping the non-leading singleton
axes — contributes none) ; a rank-1 property `p` is the column `p`, an `(N,k)` property the columns
`p_0 … p_{k-1}` with `cell i (p_j) = values[i][j]`, NaN exactly where the element is flagged
missing; each left-out property is named in a warning and nothing else is warned about. -/
theorem C17_columns (g : InMemGeff α) (hwf : WF g) (hnc : NoCollision g) :
    ∃ t, geffToDataframes g = .ok t ∧
      keys t.nodes = "id" :: g.nodeProps.flatMap colNames ∧
      keys t.edges = "source" :: "target" :: g.edgeProps.flatMap colNames ∧
      (∀ p ∈ g.nodeProps, Exported p g.nodeIds.length t.nodes t.nodeWarnings) ∧
      (∀ p ∈ g.edgeProps, Exported p g.edgeIds.length t.edges t.edgeWarnings) ∧
      t.nodeWarnings = g.nodeProps.flatMap specWarn ∧ t.edgeWarnings = g.edgeProps.flatMap specWarn := by
  refine ⟨_, C17_export g hwf hnc, ?_, ?_, ?_, ?_, rfl, rfl⟩
  · have := keys_flatMap_specCols g.nodeIds.length g.nodeProps
    simp only [keys] at this ⊢
    simp [nodeIdCols, this]
  · have := keys_flatMap_specCols g.edgeIds.length g.edgeProps
    simp only [keys] at this ⊢
    simp [edgeIdCols, this]
  · intro p hp; exact exported_of_mem p _ (hwf.1 p hp) _ hp _
  · intro p hp; exact exported_of_mem p _ (hwf.2 p hp) _ hp _

/-- **C17_total**: a well-formed in-memory geff never makes the export raise — column-name
collisions included (they lose a column, see below, but raise nothing). -/
theorem C17_total (g : InMemGeff α) (hwf : WF g) : ∃ t, geffToDataframes g = .ok t := by
  obtain ⟨⟨nd, nw⟩, h1⟩ := addProps_total g.nodeIds.length g.nodeProps (nodeIdCols g, []) hwf.1
  obtain ⟨⟨ed, ew⟩, h2⟩ := addProps_total g.edgeIds.length g.edgeProps (edgeIdCols g, []) hwf.2
  exact ⟨⟨nd, nw, ed, ew⟩, by simp only [geffToDataframes, h1, h2]⟩

/-- **C17_history_independent**: in any sequence of exports (one process) the i-th pair of tables is
the export of the i-th store alone — no column, mask or warning leaks between calls.  Trivial in the
model (no state); the harness runs real export sequences with repeated property names and compares
every step with `geffToDataframes` of that store (`C17:history-dependent-output`). -/
theorem C17_history_independent (gs : List (InMemGeff α)) :
    (exportSeq gs).length = gs.length ∧
    ∀ (i : Nat) (g : InMemGeff α), gs[i]? = some g → (exportSeq gs)[i]? = some (geffToDataframes g) := by
  refine ⟨by simp [exportSeq], ?_⟩
  intro i g h
  simp [exportSeq, h]

/-! ## CSV files: an existing CSV is only replaced on request

`geffToCsv fs base nodeCsv edgeCsv overwrite = (raised, fs')` models the two `to_csv` calls of
`geff_to_csv` on a file system `path ↦ content` (the CSV *text* is pandas' and not modelled). -/

theorem csv_paths_ne (base : String) : base ++ "-nodes.csv" ≠ base ++ "-edges.csv" := by
  rw [Ne, String.append_right_inj]; decide

/-- **C17_csv_no_clobber**: without `overwrite` — whatever happens (both files written, or
`FileExistsError` after zero or one file) — every file that existed before the call still has its
old content. -/
theorem C17_csv_no_clobber (fs : FS) (base nodeCsv edgeCsv : String) (q c : String)
    (hq : fsGet fs q = some c) : fsGet (geffToCsv fs base nodeCsv edgeCsv false).2 q = some c := by
  unfold geffToCsv
  have h1 := toCsv_keeps fs (base ++ "-nodes.csv") nodeCsv q c hq
  rcases hr : toCsv fs (base ++ "-nodes.csv") nodeCsv false with ⟨raised, fs'⟩
  rw [hr] at h1
  cases raised with
  | true => exact h1
  | false => exact toCsv_keeps fs' (base ++ "-edges.csv") edgeCsv q c h1

/-- **C17_csv_refuses**: without `overwrite`, an existing node or edge CSV makes the call raise
(`FileExistsError`). -/
theorem C17_csv_refuses (fs : FS) (base nodeCsv edgeCsv : String)
    (h : (fsGet fs (base ++ "-nodes.csv")).isSome = true ∨ (fsGet fs (base ++ "-edges.csv")).isSome = true) :
    (geffToCsv fs base nodeCsv edgeCsv false).1 = true := by
  unfold geffToCsv toCsv
  by_cases hn : (fsGet fs (base ++ "-nodes.csv")).isSome = true
  · simp [hn]
  · have he : (fsGet fs (base ++ "-edges.csv")).isSome = true := h.resolve_left hn
    have hn' : (fsGet fs (base ++ "-nodes.csv")).isSome = false := by simpa using hn
    simp [hn', fsGet_fsSet_other fs _ nodeCsv _ (csv_paths_ne base).symm, he]

/-- **C17_csv_written**: on request, or when neither file exists, nothing is raised, both files
hold the new tables and no other file changes. -/
theorem C17_csv_written (fs : FS) (base nodeCsv edgeCsv : String) (overwrite : Bool)
    (h : overwrite = true ∨ (fsGet fs (base ++ "-nodes.csv") = none ∧ fsGet fs (base ++ "-edges.csv") = none)) :
    (geffToCsv fs base nodeCsv edgeCsv overwrite).1 = false ∧
    fsGet (geffToCsv fs base nodeCsv edgeCsv overwrite).2 (base ++ "-nodes.csv") = some nodeCsv ∧
    fsGet (geffToCsv fs base nodeCsv edgeCsv overwrite).2 (base ++ "-edges.csv") = some edgeCsv ∧
    ∀ q, q ≠ base ++ "-nodes.csv" → q ≠ base ++ "-edges.csv" →
      fsGet (geffToCsv fs base nodeCsv edgeCsv overwrite).2 q = fsGet fs q := by
  have hne := csv_paths_ne base
  have key : geffToCsv fs base nodeCsv edgeCsv overwrite =
      (false, fsSet (fsSet fs (base ++ "-nodes.csv") nodeCsv) (base ++ "-edges.csv") edgeCsv) := by
    unfold geffToCsv toCsv
    rcases h with h | ⟨h1, h2⟩
    · simp [h]
    · simp [h1, fsGet_fsSet_other fs _ nodeCsv _ hne.symm, h2]
  rw [key]
  refine ⟨rfl, ?_, fsGet_fsSet_same _ _ _, ?_⟩
  · rw [fsGet_fsSet_other _ _ _ _ hne, fsGet_fsSet_same]
  · intro q h1 h2
    rw [fsGet_fsSet_other _ _ _ _ h2, fsGet_fsSet_other _ _ _ _ h1]

example : geffToCsv [("out-edges.csv", "old")] "out" "N" "E" false = (true, [("out-edges.csv", "old"), ("out-nodes.csv", "N")]) := by
  decide

/-! ## The hypothesis `NoCollision` is necessary: a known finding

A node property called `id` silently replaces the node-id column (model and implementation agree;
corpus case `collision-id-property`). -/
def collide : InMemGeff Nat :=
  ⟨[1, 2], [(1, 2)], [⟨"id", [], [[9], [9]], none⟩], []⟩

theorem C17_counterexample_id_collision :
    ∃ t, geffToDataframes collide = .ok t ∧ t.nodes = [("id", [Cell.val 9, Cell.val 9])] ∧
      ("id", collide.nodeIds.map Cell.val) ∉ t.nodes := by
  refine ⟨_, rfl, ?_, ?_⟩ <;> decide

/-! ## Non-vacuity: a concrete store meeting the hypotheses (two nodes, one edge; a masked (2,1,3)
property, an (2,1) property, a rank-4 property, a masked string-like 1-D property, an edge property) -/
def sample : InMemGeff Nat :=
  ⟨[7, 8], [(7, 8)],
   [⟨"p", [1, 3], [[1, 2, 3], [4, 5, 6]], some [true, false]⟩,
    ⟨"q", [1], [[5], [6]], none⟩,
    ⟨"s", [2, 2], [[0, 0, 0, 0], [0, 0, 0, 0]], none⟩,
    ⟨"st", [], [[10], [11]], some [false, true]⟩],
   [⟨"w", [2], [[1, 2]], none⟩]⟩

example : WF sample ∧ NoCollision sample := by
  refine ⟨⟨?_, ?_⟩, ⟨by decide, by decide⟩⟩ <;> intro p hp <;> simp [sample] at hp
  · rcases hp with rfl | rfl | rfl | rfl <;> constructor <;> simp [prodNat, sample]
  · subst hp; constructor <;> simp [prodNat, sample]

example : geffToDataframes sample = .ok
    ⟨[("id", [.val 7, .val 8]), ("p_0", [.nan, .val 4]), ("p_1", [.nan, .val 5]), ("p_2", [.nan, .val 6]),
      ("q", [.val 5, .val 6]), ("st", [.val 10, .nan])], [("s", 3)],
     [("source", [.val 7]), ("target", [.val 8]), ("w_0", [.val 1]), ("w_1", [.val 2])], []⟩ := by decide

end GeffProps.C17
