import GeffProps.C14
import GeffModel.LineageData
import GeffProofs.Int64Cast
import GeffProofs.TrackletRename
/-! # C14 — the integer-array entry point and the `validate_data` wiring

Property theorems only (third file for C14).  Model: `GeffModel/LineageData.lean`
(`validateLineagesArrays` = `validate_lineages` with its int64 cast and rendered messages,
`validateDataLineage` = the lineage branch of `validate_data` with `_nodes_with_id`). -/
namespace GeffProps.C14
open Geff.Graph Geff.Lineage Geff.Int64Cast Relation
open Geff.Tracklet (toInt64 nodesWithId)
variable {α L : Type} [DecidableEq α] [DecidableEq L]

/-! ## the error list under renaming -/

theorem labelGood_rename {β M : Type} [DecidableEq β] [DecidableEq M]
    (f : α → β) (g : L → M) (hf : Function.Injective f) (hg : Function.Injective g)
    (nl : List (α × L)) (es : List (α × α)) (l : L) (hex : ∃ u, (u, l) ∈ nl) :
    LabelGood (rename f g nl) (mapEdges f es) (g l) ↔ LabelGood nl es l := by
  have hmem : ∀ u, (f u, g l) ∈ rename f g nl ↔ (u, l) ∈ nl := by
    intro u
    rw [mem_rename]
    constructor
    · rintro ⟨u', l', hm, hfu, hgl⟩
      rw [hf hfu, hg hgl]; exact hm
    · intro hm; exact ⟨u, l, hm, rfl, rfl⟩
  unfold LabelGood
  constructor
  · rintro ⟨r', hr'⟩
    obtain ⟨u, hu⟩ := hex
    have hru : Conn (mapEdges f es) r' (f u) := (hr' (f u)).1 ((hmem u).2 hu)
    obtain ⟨r, rfl, _⟩ := conn_of_map f hf es (conn_symm _ hru)
    refine ⟨r, fun x => ?_⟩
    rw [← hmem x, hr' (f x), conn_map_iff f hf es r x]
  · rintro ⟨r, hr⟩
    refine ⟨f r, fun y => ?_⟩
    constructor
    · intro hy
      obtain ⟨u, l', hm, rfl, hgl⟩ := (mem_rename f g nl y (g l)).1 hy
      have : l = l' := hg hgl
      subst this
      exact conn_map f es ((hr u).1 hm)
    · intro hc
      obtain ⟨v, rfl, hrv⟩ := conn_of_map f hf es hc
      exact (hmem v).2 ((hr v).2 hrv)

/-- **C14 (offenders up to renaming)**: under injective renamings of node ids and lineage ids the
error list is the renamed error list — same offenders, same order. -/
theorem C14_errors_renaming {β M : Type} [DecidableEq β] [DecidableEq M]
    (f : α → β) (g : L → M) (hf : Function.Injective f) (hg : Function.Injective g)
    (nl : List (α × L)) (es : List (α × α)) :
    lineageErrors (rename f g nl) (mapEdges f es) = (lineageErrors nl es).map g := by
  unfold lineageErrors
  have hlab : (rename f g nl).map (·.2) = (nl.map (·.2)).map g := by
    unfold rename; simp [List.map_map, Function.comp, Prod.map]
  rw [hlab, Geff.Tracklet.dedup_map_injective g hg, List.filter_map]
  congr 1
  apply List.filter_congr
  intro l hl
  have hex : ∃ u, (u, l) ∈ nl := by
    obtain ⟨⟨u, l'⟩, hm, rfl⟩ := List.mem_map.1 ((mem_dedup _ _).1 hl)
    exact ⟨u, hm⟩
  have hex' : ∃ x, (x, g l) ∈ rename f g nl := by
    obtain ⟨u, hu⟩ := hex
    exact ⟨f u, (mem_rename f g nl _ _).2 ⟨u, l, hu, rfl, rfl⟩⟩
  have : labelOk (rename f g nl) (mapEdges f es) (g l) = labelOk nl es l := by
    rw [Bool.eq_iff_iff, labelOk_iff _ _ _ hex', labelOk_iff _ _ _ hex]
    exact labelGood_rename f g hf hg nl es l hex
  simp [Function.comp, this]

/-! ## `validate_lineages` on integer arrays -/

theorem nodup_zip_fst (nodes : List α) (labels : List L) (h : nodes.Nodup) :
    ((nodes.zip labels).map (·.1)).Nodup := by
  induction nodes generalizing labels with
  | nil => simp
  | cons a t ih =>
    cases labels with
    | nil => simp
    | cons b s =>
      simp only [List.zip_cons_cons, List.map_cons, List.nodup_cons] at h ⊢
      refine ⟨fun hm => h.1 ?_, ih s h.2⟩
      obtain ⟨⟨x, y⟩, hxy, rfl⟩ := List.mem_map.1 hm
      exact (List.of_mem_zip hxy).1

/-- when node ids, lineage ids and edge endpoints fit int64 the cast is the identity -/
theorem C14_int64_cast_identity (nodes labels : List Int) (edges : List (Int × Int))
    (hn : ∀ x ∈ nodes, InInt64 x) (hl : ∀ x ∈ labels, InInt64 x)
    (he : ∀ e ∈ edges, InInt64 e.1 ∧ InInt64 e.2) :
    lineageErrorsInt64 nodes labels edges = lineageErrors (nodes.zip labels) edges := by
  unfold lineageErrorsInt64 castEdges
  have h3 : edges.map (fun e => (toInt64 e.1, toInt64 e.2)) = edges := by
    rw [List.map_congr_left (g := id) (fun e he' => by
      rw [toInt64_of_inRange _ (he e he').1, toInt64_of_inRange _ (he e he').2]; rfl), List.map_id]
  rw [map_toInt64_of_inRange nodes hn, map_toInt64_of_inRange labels hl, h3]

/-- **C14 at the entry point**: for int64 arrays with unique node ids, `validate_lineages` returns
`True` iff the labelling is the component partition, and its messages are exactly the rendered
offending ids, in first-occurrence order. -/
theorem C14_arrays_iff (nodes labels : List Int) (edges : List (Int × Int))
    (hn : ∀ x ∈ nodes, InInt64 x) (hl : ∀ x ∈ labels, InInt64 x)
    (he : ∀ e ∈ edges, InInt64 e.1 ∧ InInt64 e.2) (hnd : nodes.Nodup) :
    ((validateLineagesArrays nodes labels edges).1 = true ↔ Spec (nodes.zip labels) edges) ∧
    (validateLineagesArrays nodes labels edges).2 = (lineageErrors (nodes.zip labels) edges).map message ∧
    (∀ m, m ∈ (validateLineagesArrays nodes labels edges).2 ↔
      ∃ l, BadLabel (nodes.zip labels) edges l ∧ m = message l) := by
  have hid := C14_int64_cast_identity nodes labels edges hn hl he
  unfold validateLineagesArrays
  simp only [hid]
  refine ⟨?_, trivial, ?_⟩
  · exact C14_iff (nodes.zip labels) edges (uniq_of_nodup _ (nodup_zip_fst nodes labels hnd))
  · intro m
    simp only [List.mem_map, C14_errors_exact]
    constructor
    · rintro ⟨l, hb, rfl⟩; exact ⟨l, hb, rfl⟩
    · rintro ⟨l, hb, rfl⟩; exact ⟨l, hb, rfl⟩

/-- **C14 (uint64 wrap)**: ids taken from uint64 arrays (any values in [0, 2^64)) are cast to int64;
the verdict on the wrapped ids equals the verdict on the true ids (the cast is injective there),
and the ids named in the messages are the wrapped images of the offending ones — for ids ≥ 2^63
that is the known finding `C14:uint64-id-wrapped-in-message`. -/
theorem C14_uint64_wrap (nodes labels : List Int) (edges : List (Int × Int))
    (hn : ∀ x ∈ nodes, InUInt64 x) (hl : ∀ x ∈ labels, InUInt64 x)
    (he : ∀ e ∈ edges, InUInt64 e.1 ∧ InUInt64 e.2) :
    (validateLineagesArrays nodes labels edges).1 = validateLineages (nodes.zip labels) edges ∧
    lineageErrorsInt64 nodes labels edges = (lineageErrors (nodes.zip labels) edges).map toInt64 := by
  have h1 : nodes.map toInt64 = nodes.map wrapSwap :=
    List.map_congr_left fun x hx => toInt64_eq_wrapSwap x (hn x hx)
  have h2 : labels.map toInt64 = labels.map wrapSwap :=
    List.map_congr_left fun x hx => toInt64_eq_wrapSwap x (hl x hx)
  have h3 : castEdges edges = mapEdges wrapSwap edges := by
    unfold castEdges mapEdges
    apply List.map_congr_left
    intro e hm
    rw [toInt64_eq_wrapSwap _ (he e hm).1, toInt64_eq_wrapSwap _ (he e hm).2]; rfl
  have h4 : (nodes.map wrapSwap).zip (labels.map wrapSwap) = rename wrapSwap wrapSwap (nodes.zip labels) := by
    unfold rename; rw [List.zip_map]
  have hE : lineageErrorsInt64 nodes labels edges = (lineageErrors (nodes.zip labels) edges).map toInt64 := by
    unfold lineageErrorsInt64
    rw [h1, h2, h3, h4, C14_errors_renaming wrapSwap wrapSwap wrapSwap_injective wrapSwap_injective]
    apply List.map_congr_left
    intro l hl'
    obtain ⟨⟨u, hu⟩, _⟩ := (C14_errors_exact _ _ l).1 hl'
    exact (toInt64_eq_wrapSwap l (hl l (List.of_mem_zip hu).2)).symm
  refine ⟨?_, hE⟩
  unfold validateLineagesArrays validateLineages
  simp only [hE, List.isEmpty_map]

/-- **known finding `C14:uint64-id-wrapped-in-message`** (not repaired): the component {a, b} with
a = 2^63+1, b = 2^63+2 is split over the lineage ids 2^63+7 and 2^63+8; the verdict is right, the
ids named are −2^63+7 and −2^63+8. -/
theorem C14_counterexample_uint64_message :
    lineageErrorsInt64 [2 ^ 63 + 1, 2 ^ 63 + 2] [2 ^ 63 + 7, 2 ^ 63 + 8] [(2 ^ 63 + 1, 2 ^ 63 + 2)]
      = [-(2 ^ 63) + 7, -(2 ^ 63) + 8] ∧
    lineageErrors [((2 ^ 63 + 1 : Int), (2 ^ 63 + 7 : Int)), (2 ^ 63 + 2, 2 ^ 63 + 8)] [(2 ^ 63 + 1, 2 ^ 63 + 2)]
      = [2 ^ 63 + 7, 2 ^ 63 + 8] ∧ ¬ InInt64 (2 ^ 63 + 7) := by
  decide

/-! ## through `validate_data` -/

theorem zip_map_fst_snd (nl : List (α × L)) : (nl.map (·.1)).zip (nl.map (·.2)) = nl := by
  induction nl with
  | nil => rfl
  | cons p t ih => simp [ih]

/-- **C14 through `validate_data`** (repair D14): with a `missing` mask on the lineage-id property
exactly the (node, id) pairs at unflagged positions are validated (all edges are kept); the call
passes iff those pairs are the component partition, otherwise it raises
`ValueError("Found invalid lineages:\n", <one line per offending id>)`; a mask of the wrong
length is numpy's IndexError and nothing else can happen. -/
theorem C14_validate_data_masked (nodes values : List Int) (m : Option (List Bool))
    (edges : List (Int × Int))
    (hn : ∀ x ∈ nodes, InInt64 x) (hv : ∀ x ∈ values, InInt64 x)
    (he : ∀ e ∈ edges, InInt64 e.1 ∧ InInt64 e.2) (hnd : nodes.Nodup) :
    (nodesWithId nodes values m = none → validateDataLineage nodes values m edges = .indexError) ∧
    (∀ nl, nodesWithId nodes values m = some nl →
      (validateDataLineage nodes values m edges = .ok ↔ Spec nl edges) ∧
      (¬ Spec nl edges → validateDataLineage nodes values m edges =
        .valueError "Found invalid lineages:\n" ("\n".intercalate ((lineageErrors nl edges).map message))) ∧
      (∀ m', m = some m' → ∀ p, p ∈ nl ↔ (p, false) ∈ (nodes.zip values).zip m') ∧
      (m = none → nl = nodes.zip values)) := by
  refine ⟨fun h => by unfold validateDataLineage; rw [h], ?_⟩
  intro nl hsel
  have hsub : ∀ p ∈ nl, p ∈ nodes.zip values := by
    cases m with
    | none => rw [Geff.Tracklet.nodesWithId_none] at hsel; cases hsel; exact fun _ h => h
    | some m' => exact fun p hp => (Geff.Tracklet.nodesWithId_sublist nodes values m' nl hsel).subset hp
  have hn' : ∀ x ∈ nl.map (·.1), InInt64 x := by
    intro x hx
    obtain ⟨p, hp, rfl⟩ := List.mem_map.1 hx
    exact hn _ (List.of_mem_zip (hsub p hp)).1
  have hv' : ∀ x ∈ nl.map (·.2), InInt64 x := by
    intro x hx
    obtain ⟨p, hp, rfl⟩ := List.mem_map.1 hx
    exact hv _ (List.of_mem_zip (hsub p hp)).2
  have hnd' : (nl.map (·.1)).Nodup := Geff.Tracklet.nodesWithId_nodup nodes values m nl hsel hnd
  obtain ⟨hiff, hmsgs, _⟩ := C14_arrays_iff (nl.map (·.1)) (nl.map (·.2)) edges hn' hv' he hnd'
  rw [zip_map_fst_snd] at hiff hmsgs
  have hout : validateDataLineage nodes values m edges =
      if (validateLineagesArrays (nl.map (·.1)) (nl.map (·.2)) edges).1 then .ok
      else .valueError "Found invalid lineages:\n"
        ("\n".intercalate (validateLineagesArrays (nl.map (·.1)) (nl.map (·.2)) edges).2) := by
    unfold validateDataLineage; rw [hsel]
  refine ⟨?_, ?_, ?_, ?_⟩
  · rw [hout, ← hiff]
    cases (validateLineagesArrays (nl.map (·.1)) (nl.map (·.2)) edges).1 <;> simp
  · intro hns
    have : (validateLineagesArrays (nl.map (·.1)) (nl.map (·.2)) edges).1 = false := by
      cases h : (validateLineagesArrays (nl.map (·.1)) (nl.map (·.2)) edges).1 with
      | false => rfl
      | true => exact absurd (hiff.1 h) hns
    rw [hout, this, hmsgs]; rfl
  · rintro m' rfl p; exact Geff.Tracklet.mem_nodesWithId nodes values m' nl hsel p
  · rintro rfl; rw [Geff.Tracklet.nodesWithId_none] at hsel; cases hsel; rfl

/-! ## non-vacuity (evaluations of the model; tests, not the unbounded claims) -/
example : validateDataLineage [1, 2, 3] [10, 10, 0] (some [false, false, true]) [(1, 2)] = .ok := by decide
example : validateDataLineage [1, 2, 3] [10, 10, 0] none [(1, 2), (2, 3)] ≠ .ok := by decide
example : validateDataLineage [1, 2, 3] [10, 10, 0] (some [false, true]) [(1, 2)] = .indexError := by decide
-- numpy accepts a boolean mask of length 0 against an array of any length: it selects nothing
example : validateDataLineage [4] [3] (some []) [] = .ok := by decide
example : validateDataLineage [1, 2] [7, 7] (some []) [(1, 2)] = .ok := by decide   -- no node carries an id: nothing to check
example : ∀ x ∈ [(9223372036854775809 : Int), 18446744073709551615], InUInt64 x := by decide

end GeffProps.C14
